"""Regenerate MANIFEST.json from the table below (run by hand after adding a property)."""
import json
import os

VERIF = os.path.dirname(os.path.dirname(os.path.abspath(__file__)))
PROPS = [json.loads(l) for l in open(os.path.join(VERIF, "properties.jsonl"))]

# per property: (technique, level text, level note, design section)
CLAIMED = {}


def claim(pid, technique, text, note):
    CLAIMED[pid] = (technique, text, note)


exec(open(os.path.join(VERIF, "harness", "claims.py")).read())

checks = []
na = []
for p in PROPS:
    pid = p["id"]
    if pid in CLAIMED:
        tech, text, note = CLAIMED[pid]
        checks.append({
            "property_id": pid,
            "quick_cmd": f"./check {pid} quick",
            "thorough_cmd": f"./check {pid} thorough",
            "evidence_file": f"evidence/{pid}.json",
            "replay_cmd_template": f"./check {pid} --replay {{path}}",
            "engine": "lean4-model+correspondence",
            "level_claimed": {"category": "proof", "text": text, "design_ref": f"DESIGN.md §6 {pid}"},
            "level_note": note,
            "technique": tech,
        })
    else:
        na.append({"property_id": pid, "reason": "not claimed yet: model/theorems for this property are still being built (see DESIGN.md §6); no check is registered until it is sound"})

manifest = {
    "version": 1,
    "setup_cmd": "cd lean && lake build VerdeModel verde_model",
    "hooks": {
        "guard": "VERDE_VERIF",
        "enable": "no source hook is needed: every observation goes through verde's public API imported from /repo (checks export VERDE_VERIF=1 for uniformity)",
        "baseline_off_cmd": "cd /repo && /venv/bin/python -m pytest -ra -q -p no:cacheprovider --timeout=900 --continue-on-collection-errors",
        "source_commits": [],
        "add_only": True,
    },
    "engines": [{
        "name": "lean4-model+correspondence",
        "path": "lean/ (model, theorems, driver), harness/ (correspondence, oracle search), check",
        "serves_properties": sorted(CLAIMED),
        "kind_free_text": "Lean 4 theorems about an executable model of verde; the model is tied to /repo on every run by a differential correspondence check (real code vs compiled model on the same inputs) and, for scalar kernels, by a Python->Lean translator whose output is re-proved",
    }],
    "checks": checks,
    "not_applicable": na,
    "notes": "Exit 0: theorems build + axiom audit clean + model and implementation agree on every generated case + no oracle violation. Exit 1 with VIOLATION line otherwise; exit 2 on infrastructure errors. Known findings in known_findings.json print KNOWN-FINDING lines and do not fail the check.",
}
json.dump(manifest, open(os.path.join(VERIF, "MANIFEST.json"), "w"), indent=1)
print("claimed", sorted(CLAIMED), "na", [n["property_id"] for n in na])
