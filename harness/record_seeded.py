"""record_seeded.py <property> <k> <name> : after mutant_eval.py --tests confirmed a seeded change, store it under /verif/seeded/."""
import json
import os
import shutil
import subprocess
import sys

prop, k, name = sys.argv[1], sys.argv[2], sys.argv[3]
src = f"/tmp/mutout/{prop}/{k}"
r = subprocess.run(["/venv/bin/python", "/verif/harness/mutant_eval.py", prop, k, "--tests"] + sys.argv[4:], capture_output=True, text=True)
ev = json.loads(r.stdout[r.stdout.index("{"):])
ok = ev["demo_clean_rc"] == 0 and ev["demo_mutant_rc"] != 0 and ev["apply_rc"] == 0 and not ev.get("baseline_missing")
dst = f"/verif/seeded/{prop}-{name}"
notes = open(f"{src}/notes.md").read() if os.path.exists(f"{src}/notes.md") else ""
if ok:
    os.makedirs(dst, exist_ok=True)
    shutil.copy(f"{src}/patch.diff", f"{dst}/patch.diff")
    shutil.copy(f"{src}/demo.py", f"{dst}/demo.py")
    caught = {c: (v["rc"] == 1) for c, v in ev["checks"].items()}
    meta = {"property": prop, "origin": "independent sub-agent given only the property text and a scratch worktree",
            "needs_to_manifest": notes[:1500],
            "confirmed": {"applies_cleanly": True, "demo_passes_without_change": True, "demo_fails_with_change": True,
                          "pinned_baseline_tests_still_pass": True,
                          "how": "harness/mutant_eval.py --tests in a scratch worktree of /repo under /tmp (removed afterwards); "
                                 "demo run with PYTHONPATH=<worktree>; pinned pytest command compared with BASELINE.json stable_pass"},
            "checks_run": {c: {"caught": caught[c], "exit": v["rc"], "lines": v["lines"], "oracle": v.get("oracle")} for c, v in ev["checks"].items()}}
    json.dump(meta, open(f"{dst}/meta.json", "w"), indent=1)
print(json.dumps({"recorded": ok, "dst": dst if ok else None, "baseline_missing": ev.get("baseline_missing"),
                  "demo": [ev["demo_clean_rc"], ev["demo_mutant_rc"]], "checks": {c: v["rc"] for c, v in ev["checks"].items()},
                  "oracle": {c: v.get("oracle") for c, v in ev["checks"].items()}}, indent=1))
