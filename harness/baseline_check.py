"""Run the pinned pytest command and compare with BASELINE.json's stable_pass list (prints missing passes)."""
import json
import subprocess
import sys
import xml.etree.ElementTree as ET

out = "/verif/.work/junit_baseline.xml"
subprocess.run(["/venv/bin/python", "-m", "pytest", "-ra", "-q", "-p", "no:cacheprovider", "--timeout=900",
                "--continue-on-collection-errors", f"--junitxml={out}"], cwd="/repo", capture_output=True)
base = json.load(open("/root/.vp/BASELINE.json"))
passed = set()
for tc in ET.parse(out).getroot().iter("testcase"):
    if not any(ch.tag in ("failure", "error", "skipped") for ch in tc):
        passed.add(tc.get("classname") + "::" + tc.get("name"))
missing = [t for t in base["stable_pass"] if t not in passed]
print("passed", len(passed), "baseline", len(base["stable_pass"]), "missing", missing)
print("newly passing", sorted(passed - set(base["stable_pass"])))
sys.exit(1 if missing else 0)
