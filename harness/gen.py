"""Seeded generators shared by the property modules.  All randomness flows from the rng passed in."""
from fractions import Fraction

DECIMALS = [0.1, 0.2, 0.3, 0.7, 1.1, 2.4, 1e-3, 2.5e-2, 33.3, 1e3 + 0.1, 12345.678, 0.05, 1.5, 2.5, 3.5]


def dyadic(rng, maxk=1 << 12, maxs=4, signed=True):
    s = rng.randint(0, maxs)
    k = rng.randint(-maxk if signed else 0, maxk)
    return k / float(1 << s)


def pos_dyadic(rng, maxk=1 << 10, maxs=4):
    s = rng.randint(0, maxs)
    k = rng.randint(1, maxk)
    return k / float(1 << s)


def number(rng, signed=True):
    """Mostly dyadic (float arithmetic exact), sometimes decimal, sometimes large offset."""
    u = rng.random()
    if u < 0.65:
        return dyadic(rng, signed=signed)
    if u < 0.85:
        v = rng.choice(DECIMALS) * rng.choice([1, 1, 10, 100, 0.01])
        return -v if (signed and rng.random() < 0.3) else v
    base = rng.choice([1e3, 1e5, 1e6])
    v = base + dyadic(rng, maxk=1 << 8, signed=True)
    return -v if (signed and rng.random() < 0.3) else v


def positive(rng):
    u = rng.random()
    if u < 0.7:
        return pos_dyadic(rng)
    return rng.choice(DECIMALS) * rng.choice([1, 1, 10, 0.1])


def region(rng, degenerate_ok=False):
    """(w, e, s, n) with w<=e, s<=n."""
    w = number(rng)
    s = number(rng)
    ew = positive(rng) * rng.choice([1, 1, 4, 16])
    ns = positive(rng) * rng.choice([1, 1, 4, 16])
    if degenerate_ok and rng.random() < 0.1:
        ew = 0.0
    if degenerate_ok and rng.random() < 0.1:
        ns = 0.0
    return (w, w + ew, s, s + ns)


def small_region(rng):
    """Dyadic region with modest extents, good for block/window layouts."""
    w = rng.randint(-64, 64) / 4.0
    s = rng.randint(-64, 64) / 4.0
    ew = rng.randint(1, 64) / 4.0
    ns = rng.randint(1, 64) / 4.0
    off = rng.choice([0, 0, 0, 1024.0, -4096.0, 1e6])
    return (w + off, w + off + ew, s + off, s + off + ns)


def points_in(rng, reg, n, lattice=8, outside=0.0):
    """n points in region on a dyadic sub-lattice (1/lattice of the extent is not needed; use absolute 1/lattice)."""
    w, e, s, nn = reg
    es, ns = [], []
    for _ in range(n):
        if rng.random() < outside:
            x = w + (e - w) * rng.uniform(-0.5, 1.5)
            y = s + (nn - s) * rng.uniform(-0.5, 1.5)
        else:
            x = w + (e - w) * rng.random()
            y = s + (nn - s) * rng.random()
        x = round(x * lattice) / lattice
        y = round(y * lattice) / lattice
        es.append(x)
        ns.append(y)
    return es, ns


def frac(x):
    return Fraction(*float(x).as_integer_ratio())
