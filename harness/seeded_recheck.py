"""Re-run the property's own quick check against every recorded seeded change: seeded_recheck.py [prefix ...]
(prefix: '' for wave 1 directories C??-*, 'w2-', 'w3-', ...).  For each seeded/<dir>/patch.diff: scratch worktree of /repo under /tmp,
`git apply`, `VERIF_REPO=<worktree> ./check <property> quick`, worktree removed.  Prints one JSON line per change and a summary; exits 1 if a
change is no longer caught by its own property's check."""
import glob
import json
import os
import subprocess
import sys

VERIF = os.path.dirname(os.path.dirname(os.path.abspath(__file__)))


def sh(cmd, **kw):
    return subprocess.run(cmd, shell=True, capture_output=True, text=True, **kw)


def main():
    prefixes = sys.argv[1:] or ["", "w2-", "w3-", "w4-", "w5-"]
    missed = []
    n = 0
    for pre in prefixes:
        for d in sorted(glob.glob(os.path.join(VERIF, "seeded", pre + "C[0-9][0-9]-*"))):
            name = os.path.basename(d)
            prop = name[len(pre):len(pre) + 3]
            wt = f"/tmp/seedrc_{name}"
            sh(f"git -C /repo worktree remove --force {wt}")
            r = sh(f"git -C /repo worktree add -f {wt} HEAD")
            if r.returncode != 0:
                print(json.dumps({"id": name, "error": "worktree: " + r.stderr[-200:]}), flush=True)
                continue
            try:
                a = sh(f"git -C {wt} apply {d}/patch.diff")
                if a.returncode != 0:
                    print(json.dumps({"id": name, "error": "patch does not apply: " + a.stderr[-200:]}), flush=True)
                    missed.append(name)
                    continue
                c = sh(f"VERIF_REPO={wt} ./check {prop} quick", cwd=VERIF)
                caught = c.returncode == 1 and "VIOLATION" in c.stdout
                n += 1
                line = [ln for ln in c.stdout.splitlines() if ln.startswith(prop + " quick")]
                print(json.dumps({"id": name, "caught": caught, "exit": c.returncode, "summary": line[-1] if line else c.stdout[-200:]}), flush=True)
                if not caught:
                    missed.append(name)
            finally:
                sh(f"git -C /repo worktree remove --force {wt}")
    print(json.dumps({"checked": n, "missed": missed}))
    sys.exit(1 if missed else 0)


def _restore_generated():
    """The checks above regenerated lean/VerdeModel/Gen/*.lean from scratch copies of the repository: put the pinned snapshots back."""
    here = os.path.dirname(os.path.abspath(__file__))
    gen, snap = os.path.join(here, "..", "lean", "VerdeModel", "Gen"), os.path.join(here, "..", "lean", "VerdeModel", "GenSnapshot")
    for f in os.listdir(snap):
        if f.endswith(".lean.txt"):
            with open(os.path.join(gen, f[:-4]), "w") as h:
                h.write(open(os.path.join(snap, f)).read())


if __name__ == "__main__":
    try:
        main()
    finally:
        _restore_generated()
