"""py2lean — a deliberately small Python-subset -> Lean translator for verde's scalar / element-wise kernels.

It reads the *source text* of /repo (never imports it), symbolically executes the body of a function over Python's `ast`
and emits a generic Lean definition over the `RealLike` class (Model/Kernels.lean).  The emitted file
`lean/VerdeModel/Gen/Kernels.lean` is regenerated on every check run; `Props/C03.lean` contains bridge theorems
`Gen.f = Verde.f` that the Lean kernel re-checks, so the theorems about the hand-written model are re-tied to what the
code says now.  Anything outside the supported subset raises `Untranslatable` (reported as a degraded tie, not a violation).

Supported: assignments (names, tuples), augmented `+=`, `if/else` assigning the same names, `return` of a name or tuple,
`+ - * /`, unary `-`, `**` with exponent 2 (-> x * x) or a name (-> rpow), integer literals (-> lit n), comparisons `<`,
`np.sqrt/log/sin/cos`, `np.pi`, `self.attr`, `coordinates[:2]` unpacking, and the masked-assignment idiom
(`r = np.empty_like(d); m = d < 1; n = ~m; r[m] = f(d[m]); r[n] = g(d[n])` -> `if d < 1 then f d else g d`).
"""
import ast
from fractions import Fraction
import hashlib
import os
import sys

REPO = os.path.abspath(os.environ.get("VERIF_REPO", "/repo"))
VERIF = os.path.dirname(os.path.dirname(os.path.abspath(__file__)))
GEN = os.path.join(VERIF, "lean", "VerdeModel", "Gen", "Kernels.lean")
SNAP = os.path.join(VERIF, "lean", "VerdeModel", "GenSnapshot", "Kernels.lean.txt")


class Untranslatable(Exception):
    pass


def _fail(node, why):
    raise Untranslatable(f"{why}: {ast.dump(node)[:120]} @ line {getattr(node, 'lineno', '?')}")


class Sym:
    """Symbolic execution of one function body; values are Lean expression strings."""

    def __init__(self):
        self.env = {}        # python name -> lean expr
        self.masks = {}      # python name -> lean condition (for boolean masks)
        self.buffers = {}    # python name -> list of (cond, expr) masked assignments

    def expr(self, n, strip_mask=None):
        if isinstance(n, ast.Name):
            if n.id in self.env:
                return self.env[n.id]
            _fail(n, "unbound name")
        if isinstance(n, ast.Constant):
            if isinstance(n.value, int) and not isinstance(n.value, bool) and n.value >= 0:
                return f"(lit {n.value})"
            _fail(n, "unsupported literal")
        if isinstance(n, ast.Attribute):
            if isinstance(n.value, ast.Name) and n.value.id == "np" and n.attr == "pi":
                return "pi"
            if isinstance(n.value, ast.Name) and n.value.id == "self":
                key = "self." + n.attr
                if key in self.env:
                    return self.env[key]
            _fail(n, "unsupported attribute")
        if isinstance(n, ast.UnaryOp) and isinstance(n.op, ast.USub):
            return f"(-{self.expr(n.operand, strip_mask)})"
        if isinstance(n, ast.BinOp):
            a = self.expr(n.left, strip_mask)
            if isinstance(n.op, ast.Pow):
                if isinstance(n.right, ast.Constant) and n.right.value == 2:
                    return f"({a} * {a})"
                b = self.expr(n.right, strip_mask)
                return f"(rpow {a} {b})"
            b = self.expr(n.right, strip_mask)
            op = {ast.Add: "+", ast.Sub: "-", ast.Mult: "*", ast.Div: "/"}.get(type(n.op))
            if op is None:
                _fail(n, "unsupported operator")
            return f"({a} {op} {b})"
        if isinstance(n, ast.Call) and isinstance(n.func, ast.Attribute) and isinstance(n.func.value, ast.Name) and n.func.value.id == "np":
            fn = {"sqrt": "sqrt", "log": "log", "sin": "sin", "cos": "cos"}.get(n.func.attr)
            if fn and len(n.args) == 1 and not n.keywords:
                return f"({fn} {self.expr(n.args[0], strip_mask)})"
            _fail(n, "unsupported numpy call")
        if isinstance(n, ast.Subscript) and isinstance(n.value, ast.Name) and isinstance(n.slice, ast.Name):
            # d[mask] inside a masked assignment on the same mask: the element itself
            if strip_mask is not None and n.slice.id == strip_mask:
                return self.expr(n.value)
            _fail(n, "subscript with a different mask")
        _fail(n, "unsupported expression")

    def cond(self, n):
        if isinstance(n, ast.Compare) and len(n.ops) == 1 and isinstance(n.ops[0], ast.Lt):
            return f"{self.expr(n.left)} < {self.expr(n.comparators[0])}"
        _fail(n, "unsupported condition")

    def assign(self, target, value_node):
        if isinstance(target, ast.Name):
            # boolean mask definitions
            if isinstance(value_node, ast.Compare):
                self.masks[target.id] = ("pos", self.cond(value_node))
                return
            if isinstance(value_node, ast.UnaryOp) and isinstance(value_node.op, ast.Invert) and isinstance(value_node.operand, ast.Name) \
                    and value_node.operand.id in self.masks:
                kind, c = self.masks[value_node.operand.id]
                self.masks[target.id] = ("neg" if kind == "pos" else "pos", c)
                return
            if isinstance(value_node, ast.Call) and isinstance(value_node.func, ast.Attribute) and value_node.func.attr == "empty_like":
                self.buffers[target.id] = []
                return
            self.env[target.id] = self.expr(value_node)
            return
        if isinstance(target, ast.Subscript) and isinstance(target.value, ast.Name) and target.value.id in self.buffers \
                and isinstance(target.slice, ast.Name) and target.slice.id in self.masks:
            self.buffers[target.value.id].append((self.masks[target.slice.id], self.expr(value_node, strip_mask=target.slice.id)))
            return
        _fail(target, "unsupported assignment target")

    def finish_buffer(self, name):
        parts = self.buffers[name]
        if len(parts) == 2 and parts[0][0][1] == parts[1][0][1] and {parts[0][0][0], parts[1][0][0]} == {"pos", "neg"}:
            pos = [e for (k, _), e in parts if k == "pos"][0]
            neg = [e for (k, _), e in parts if k == "neg"][0]
            return f"(if {parts[0][0][1]} then {pos} else {neg})"
        raise Untranslatable(f"masked buffer {name} is not covered by two complementary masks")

    def run(self, body):
        for st in body:
            if isinstance(st, ast.Expr) and isinstance(st.value, ast.Constant):
                continue      # docstring
            if isinstance(st, ast.Assign) and len(st.targets) == 1:
                t = st.targets[0]
                if isinstance(t, ast.Tuple) and isinstance(st.value, ast.Subscript):
                    # easting, northing = coordinates[:2]
                    v = st.value
                    if isinstance(v.value, ast.Name) and isinstance(v.slice, ast.Slice) and v.slice.lower is None and \
                            isinstance(v.slice.upper, ast.Constant) and v.slice.upper.value == len(t.elts):
                        for k, e in enumerate(t.elts):
                            self.env[e.id] = self.env[f"{v.value.id}[{k}]"]
                        continue
                    _fail(st, "unsupported tuple unpacking")
                self.assign(t, st.value)
            elif isinstance(st, ast.AugAssign) and isinstance(st.target, ast.Name) and isinstance(st.op, ast.Add):
                self.env[st.target.id] = f"({self.env[st.target.id]} + {self.expr(st.value)})"
            elif isinstance(st, ast.If):
                c = self.cond(st.test)
                a, b = Sym(), Sym()
                a.env, b.env = dict(self.env), dict(self.env)
                r1, r2 = a.run(st.body), b.run(st.orelse)
                if r1 is not None or r2 is not None:
                    _fail(st, "return inside if")
                for k in set(a.env) | set(b.env):
                    if a.env.get(k) != b.env.get(k):
                        if k not in a.env or k not in b.env:
                            _fail(st, f"name {k} assigned in one branch only")
                        self.env[k] = f"(if {c} then {a.env[k]} else {b.env[k]})"
            elif isinstance(st, ast.Return):
                v = st.value
                names = [v] if not isinstance(v, ast.Tuple) else list(v.elts)
                outs = []
                for nm in names:
                    if isinstance(nm, ast.Name) and nm.id in self.buffers:
                        outs.append(self.finish_buffer(nm.id))
                    else:
                        outs.append(self.expr(nm))
                return outs
            else:
                _fail(st, "unsupported statement")
        return None


def find_func(tree, name, cls=None):
    for node in tree.body:
        if cls is None and isinstance(node, ast.FunctionDef) and node.name == name:
            return node
        if cls is not None and isinstance(node, ast.ClassDef) and node.name == cls:
            for sub in node.body:
                if isinstance(sub, ast.FunctionDef) and sub.name == name:
                    return sub
    raise Untranslatable(f"function {cls + '.' if cls else ''}{name} not found")


def translate(path, name, lean_name, params, cls=None, pre_env=None, nret=1):
    src = open(os.path.join(REPO, path)).read()
    tree = ast.parse(src)
    fn = find_func(tree, name, cls)
    s = Sym()
    for p in params:
        s.env[p] = p.replace("self.", "")
    if pre_env:
        s.env.update(pre_env)
    outs = s.run(fn.body)
    if outs is None or len(outs) != nret:
        raise Untranslatable(f"{name}: expected {nret} returned value(s)")
    seg = ast.get_source_segment(src, fn)
    sha = hashlib.sha256(seg.encode()).hexdigest()[:16]
    args = " ".join(sorted(set(v for v in s_params(params, pre_env)), key=lambda x: order(params, pre_env).index(x)))
    body = outs[0] if nret == 1 else "(" + ", ".join(outs) + ")"
    rtype = "α" if nret == 1 else " × ".join(["α"] * nret)
    return (f"/-- translated from {path}:{fn.lineno}-{fn.end_lineno} ({cls + '.' if cls else ''}{name}), sha256 {sha} -/\n"
            f"def {lean_name} ({args} : α) : {rtype} :=\n  {body}\n")


def order(params, pre_env):
    out = []
    for p in params:
        v = p.replace("self.", "")
        if v not in out:
            out.append(v)
    for v in (pre_env or {}).values():
        if v not in out:
            out.append(v)
    return out


def s_params(params, pre_env):
    return order(params, pre_env)


HEADER = """/-
  GENERATED by harness/py2lean.py from the source text of /repo on every check run — do not edit.
  Definitions are generic over `RealLike`; Props/C03.lean proves them equal to the hand-written model.
-/
import VerdeModel.Model.Kernels
namespace Verde.Gen
open Verde RealLike
variable {α : Type} [RealLike α]

"""


def generate():
    parts = [
        translate("verde/spline.py", "greens_func_jit", "greensJit", ["east", "north", "mindist"]),
        translate("verde/spline.py", "greens_func_numpy", "greensNumpy", ["east", "north", "mindist"]),
        translate("verde/vector.py", "greens_func_2d", "greens2d", ["east", "north", "mindist", "poisson"], nret=3),
        translate("verde/synthetic.py", "predict", "checker", ["self.amplitude", "self.w_east_", "self.w_north_"], cls="CheckerBoard",
                  pre_env={"coordinates[0]": "easting", "coordinates[1]": "northing"}),
    ]
    return HEADER + "\n".join(parts) + "\nend Verde.Gen\n"


def main(write=True):
    """Regenerate Gen/Kernels.lean.  Returns (status, detail): 'ok' | 'changed' | 'untranslatable'."""
    os.makedirs(os.path.dirname(GEN), exist_ok=True)
    try:
        text = generate()
    except (Untranslatable, SyntaxError, OSError) as exc:
        if write and os.path.exists(SNAP):
            cur = open(GEN).read() if os.path.exists(GEN) else None
            snap = open(SNAP).read()
            if cur != snap:
                open(GEN, "w").write(snap)
        return "untranslatable", str(exc)
    snap = open(SNAP).read() if os.path.exists(SNAP) else None
    cur = open(GEN).read() if os.path.exists(GEN) else None
    if write and cur != text:
        open(GEN, "w").write(text)
    return ("ok" if text == snap else "changed"), ""


if __name__ == "__main__":
    if len(sys.argv) > 1 and sys.argv[1] == "--snapshot":
        os.makedirs(os.path.dirname(SNAP), exist_ok=True)
        open(SNAP, "w").write(generate())
        print("snapshot written")
    else:
        st, detail = main()
        print(st, detail)
        if st != "untranslatable":
            print(open(GEN).read())


# ============================================================================= typed (Rat / Int / Bool / String) translation
class SymT:
    """Symbolic execution with a tiny type system (int, rat, bool, str, num = untyped numeral) for the exact-arithmetic
    functions of coordinates.py.  Values are (lean text, type)."""

    def __init__(self, ignore_calls=()):
        self.env = {}
        self.guards = []          # conditions under which the function raises ValueError (in program order)
        self.ignore_calls = set(ignore_calls)
        self.lists = {}           # python name -> list of (lean text, type) built by `name = []` / `name.append(x)`

    @staticmethod
    def cast(v, want):
        t, ty = v
        if ty == want or (ty == "num" and want in ("rat", "int", "nat")):
            return t
        if ty == "int" and want == "rat":
            return f"(({t} : Int) : Rat)"
        if ty == "num" and want == "natlist":
            raise Untranslatable(f"cannot use a number as a list: {t}")
        if ty == "nat" and want == "int":
            return f"(({t} : Nat) : Int)"
        if ty == "nat" and want == "rat":
            return f"(({t} : Nat) : Rat)"
        raise Untranslatable(f"cannot use {ty} as {want}: {t}")

    def expr(self, n):
        if isinstance(n, ast.Name):
            if n.id in self.env:
                return self.env[n.id]
            _fail(n, "unbound name")
        if isinstance(n, ast.Constant):
            if isinstance(n.value, bool):
                return ("true" if n.value else "false", "bool")
            if isinstance(n.value, int):
                return (str(n.value), "num")
            if isinstance(n.value, str):
                return (json_str(n.value), "str")
            _fail(n, "unsupported literal")
        if isinstance(n, ast.UnaryOp) and isinstance(n.op, ast.USub):
            t, ty = self.expr(n.operand)
            return (f"(-{t})", ty)
        if isinstance(n, ast.BinOp):
            a, b = self.expr(n.left), self.expr(n.right)
            if isinstance(n.op, ast.Mod):
                return (f"(pyMod {self.cast(a, 'rat')} {self.cast(b, 'rat')})", "rat")
            if isinstance(n.op, ast.FloorDiv) and a[1] in ("nat", "num") and b[1] in ("nat", "num"):
                return (f"({a[0]} / {b[0]})", "nat")        # non-negative integers: Python's // is Nat division
            if isinstance(n.op, ast.Mult) and a[1] == "natlist" and b[1] in ("nat", "num"):
                return (f"({a[0]}.map (· * {b[0]}))", "natlist")
            if isinstance(n.op, ast.Mult) and b[1] == "natlist" and a[1] in ("nat", "num"):
                return (f"({b[0]}.map (· * {a[0]}))", "natlist")
            op = {ast.Add: "+", ast.Sub: "-", ast.Mult: "*", ast.Div: "/"}.get(type(n.op))
            if op is None:
                _fail(n, "unsupported operator")
            if isinstance(n.op, ast.Div) or "rat" in (a[1], b[1]):
                return (f"({self.cast(a, 'rat')} {op} {self.cast(b, 'rat')})", "rat")
            if "int" in (a[1], b[1]) or ("nat" in (a[1], b[1]) and isinstance(n.op, ast.Sub)):
                return (f"({self.cast(a, 'int')} {op} {self.cast(b, 'int')})", "int")   # Python ints: no truncated subtraction
            ty = "nat" if "nat" in (a[1], b[1]) else "num"
            return (f"({a[0]} {op} {b[0]})", ty)
        if isinstance(n, (ast.GeneratorExp, ast.ListComp)) and isinstance(n.elt, ast.Tuple) \
                and all(isinstance(e, ast.Name) for e in n.elt.elts) and len(n.elt.elts) == 2:
            # ((i, j) for j in range(A) for i in range(B(j)))  ->  (range A).flatMap fun j => (range B).map fun i => (i, j)
            saved = dict(self.env)
            pieces = []
            for g in n.generators:
                if g.ifs or g.is_async or not isinstance(g.target, ast.Name) or not (
                        isinstance(g.iter, ast.Call) and isinstance(g.iter.func, ast.Name) and g.iter.func.id == "range"
                        and len(g.iter.args) == 1):
                    _fail(n, "unsupported comprehension clause")
                bound = self.cast(self.expr(g.iter.args[0]), "int")
                pieces.append((g.target.id, f"(List.range ({bound}).toNat)"))
                self.env[g.target.id] = (g.target.id, "nat")
            for e in n.elt.elts:
                if self.env.get(e.id, (None, None))[1] != "nat":
                    _fail(n, "tuple element is not a loop variable")
            elt = "(" + ", ".join(e.id for e in n.elt.elts) + ")"
            self.env = saved
            text = ""
            for k, (v, rng) in enumerate(pieces):
                text += f"{rng}.{'map' if k == len(pieces) - 1 else 'flatMap'} fun {v} => "
            return ("(" + text + elt + ")", "list:nat×nat")
        if isinstance(n, ast.Call):
            f = n.func
            if isinstance(f, ast.Name) and f.id == "tuple" and len(n.args) == 1 and not n.keywords:
                v = self.expr(n.args[0])
                if v[1].startswith("list:"):
                    return v
            if isinstance(f, ast.Name) and f.id == "sorted" and len(n.args) == 1 and len(n.keywords) == 1 \
                    and n.keywords[0].arg == "key" and isinstance(n.keywords[0].value, ast.Name) and n.keywords[0].value.id == "sum":
                v = self.expr(n.args[0])
                if v[1] == "list:nat×nat":
                    return (f"(sortedByKey (fun c => c.1 + c.2) {v[0]})", v[1])
            if isinstance(f, ast.Attribute) and not n.keywords and not n.args and f.attr in ("ravel", "cumsum"):
                v = self.expr(f.value)
                if v[1] == "natlist":
                    return (v[0] if f.attr == "ravel" else f"(cumsum {v[0]})", "natlist")
            if isinstance(f, ast.Attribute) and isinstance(f.value, ast.Name) and f.value.id == "np":
                kws = {k.arg for k in n.keywords}
                cmpop = {"greater_equal": "≥", "less_equal": "≤", "greater": ">", "less": "<"}.get(f.attr)
                if cmpop and len(n.args) == 2 and kws <= {"out"}:
                    # element-wise ufunc read at one element; the `out=` buffer is an allocation detail
                    a_, b_ = self.expr(n.args[0]), self.expr(n.args[1])
                    return (f"({self.cast(a_, 'rat')} {cmpop} {self.cast(b_, 'rat')})", "prop")
                if f.attr in ("logical_and", "logical_or") and len(n.args) == 2 and kws <= {"out"}:
                    a_, b_ = self.expr(n.args[0]), self.expr(n.args[1])
                    if a_[1] == "prop" and b_[1] == "prop":
                        return (f"({a_[0]} {'∧' if f.attr == 'logical_and' else '∨'} {b_[0]})", "prop")
                if f.attr in ("min", "max") and len(n.args) == 1 and not n.keywords:
                    v = self.expr(n.args[0])
                    if v[1] == "ratlist":
                        return (f"({'listMin' if f.attr == 'min' else 'listMax'} {v[0]})", "optrat")
                if f.attr == "atleast_1d" and len(n.args) == 1 and not n.keywords:
                    v = self.expr(n.args[0])
                    if v[1] == "natlist":
                        return v
                if f.attr == "arange" and len(n.args) == 2 and not n.keywords:
                    a_, b_ = self.expr(n.args[0]), self.expr(n.args[1])
                    if a_[1] in ("nat", "num") and b_[1] in ("nat", "num"):
                        return (f"(npArange {a_[0]} {b_[0]})", "natlist")
                if f.attr == "searchsorted" and len(n.args) == 2 and len(n.keywords) == 1 and n.keywords[0].arg == "side" \
                        and isinstance(n.keywords[0].value, ast.Constant) and n.keywords[0].value.value == "right":
                    a_, b_ = self.expr(n.args[0]), self.expr(n.args[1])
                    if a_[1] == "natlist" and b_[1] == "natlist":
                        return (f"({b_[0]}.map (searchsortedRight {a_[0]}))", "natlist")
                if f.attr == "unique" and len(n.args) == 1 and not n.keywords:
                    v = self.expr(n.args[0])
                    if v[1] == "natlist":
                        return (v[0], "uniq:natlist")      # only `.size` of it is supported
            if isinstance(f, ast.Name) and f.id == "abs" and len(n.args) == 1:
                return (f"(ratAbs {self.cast(self.expr(n.args[0]), 'rat')})", "rat")
            if isinstance(f, ast.Name) and f.id == "int" and len(n.args) == 1 and isinstance(n.args[0], ast.Call) \
                    and isinstance(n.args[0].func, ast.Name) and n.args[0].func.id == "round":
                return (f"(roundHalfEven {self.cast(self.expr(n.args[0].args[0]), 'rat')})", "int")
            if isinstance(f, ast.Name) and f.id == "len" and len(n.args) == 1 and isinstance(n.args[0], ast.Name):
                k = 0
                while f"{n.args[0].id}[{k}]" in self.env:
                    k += 1
                if k:
                    return (str(k), "num")
            if isinstance(f, ast.Attribute) and isinstance(f.value, ast.Name) and f.value.id == "np" and f.attr == "allclose" and len(n.args) == 2:
                return (f"(allclose1 {self.cast(self.expr(n.args[0]), 'rat')} {self.cast(self.expr(n.args[1]), 'rat')})", "bool")
            _fail(n, "unsupported call")
        if isinstance(n, ast.Attribute) and n.attr == "size":
            v = self.expr(n.value)
            if v[1] == "natlist":
                return (f"{v[0]}.length", "nat")
            if v[1] == "uniq:natlist":
                return (f"(npUniqueSize {v[0]})", "nat")
        if isinstance(n, ast.Subscript) and isinstance(n.slice, (ast.Constant, ast.UnaryOp)):
            idx = n.slice.value if isinstance(n.slice, ast.Constant) else \
                (-n.slice.operand.value if isinstance(n.slice.op, ast.USub) and isinstance(n.slice.operand, ast.Constant) else None)
            if idx in (0, -1) and not (isinstance(n.value, ast.Name) and f"{n.value.id}[{idx}]" in self.env):
                v = self.expr(n.value)
                if v[1] == "natlist":
                    return (f"({v[0]}.headD 0)" if idx == 0 else f"({v[0]}.getLastD 0)", "nat")
        if isinstance(n, ast.Subscript) and isinstance(n.value, ast.Name) and isinstance(n.slice, ast.Constant):
            key = f"{n.value.id}[{n.slice.value}]"
            if key in self.env:
                return self.env[key]
        if isinstance(n, ast.Subscript) and isinstance(n.value, ast.Name):
            # index computed from unrolled loop counters: fold the constant
            t, ty = self.expr(n.slice)
            if ty == "num" and set(t) <= set("0123456789+-*() "):
                key = f"{n.value.id}[{eval(t)}]"      # noqa: S307 (digits and + - * only)
                if key in self.env:
                    return self.env[key]
        _fail(n, "unsupported expression")

    def cond(self, n):
        if isinstance(n, ast.Name):
            t, ty = self.expr(n)
            if ty == "bool":
                return f"{t} = true"
        if isinstance(n, ast.UnaryOp) and isinstance(n.op, ast.Not):
            return f"¬ ({self.cond(n.operand)})"
        if isinstance(n, ast.BoolOp):
            sym = " ∨ " if isinstance(n.op, ast.Or) else " ∧ "
            return "(" + sym.join(f"({self.cond(v)})" for v in n.values) + ")"
        if isinstance(n, ast.Call) and isinstance(n.func, ast.Attribute) and isinstance(n.func.value, ast.Name) \
                and n.func.value.id == "np" and n.func.attr == "any" and len(n.args) == 1 and isinstance(n.args[0], ast.Compare):
            # np.any(np.array([a, b]) > c)  ->  a > c ∨ b > c ;  np.any(x > c) on a scalar stand-in -> x > c
            cmp_ = n.args[0]
            left = cmp_.left
            if isinstance(left, ast.Call) and isinstance(left.func, ast.Attribute) and left.func.attr == "array" \
                    and len(left.args) == 1 and isinstance(left.args[0], (ast.List, ast.Tuple)):
                parts = [self.cond(ast.Compare(left=e, ops=cmp_.ops, comparators=cmp_.comparators)) for e in left.args[0].elts]
                return "(" + " ∨ ".join(f"({c})" for c in parts) + ")"
            return self.cond(cmp_)
        if isinstance(n, ast.Compare) and len(n.ops) == 1:
            a = self.expr(n.left)
            op = n.ops[0]
            if isinstance(op, (ast.NotIn, ast.In)) and isinstance(n.comparators[0], (ast.List, ast.Tuple)):
                items = "[" + ", ".join(self.expr(e)[0] for e in n.comparators[0].elts) + "]"
                c = f"{items}.contains {a[0]} = true"
                return f"¬ ({c})" if isinstance(op, ast.NotIn) else c
            b = self.expr(n.comparators[0])
            if a[1] == "str" or b[1] == "str":
                if isinstance(op, ast.Eq):
                    return f"{a[0]} = {b[0]}"
                _fail(n, "unsupported string comparison")
            sym = {ast.Gt: ">", ast.Lt: "<", ast.GtE: "≥", ast.LtE: "≤", ast.Eq: "=", ast.NotEq: "≠"}.get(type(op))
            if sym is None:
                _fail(n, "unsupported comparison")
            want = "rat" if "rat" in (a[1], b[1]) else ("int" if "int" in (a[1], b[1]) else ("nat" if "nat" in (a[1], b[1]) else "rat"))
            return f"{self.cast(a, want)} {sym} {self.cast(b, want)}"
        _fail(n, "unsupported condition")

    def assign_names(self, targets, values):
        for t, v in zip(targets, values):
            if not isinstance(t, ast.Name):
                _fail(t, "unsupported target")
            self.env[t.id] = v

    def run(self, body):
        for st in body:
            if isinstance(st, ast.Expr) and isinstance(st.value, ast.Constant):
                continue
            if isinstance(st, ast.Expr) and isinstance(st.value, ast.Call):
                f = st.value.func
                name = f.id if isinstance(f, ast.Name) else getattr(f, "attr", None)
                if name in self.ignore_calls:
                    continue
                if isinstance(f, ast.Attribute) and f.attr == "append" and isinstance(f.value, ast.Name) \
                        and f.value.id in self.lists and len(st.value.args) == 1:
                    self.lists[f.value.id].append(self.expr(st.value.args[0]))
                    continue
                _fail(st, "unsupported call statement")
            if isinstance(st, ast.For) and not st.orelse:
                # statically unrolled loops: for i, x in enumerate(reversed(<fixed-length argument>))
                it = st.iter
                if isinstance(it, ast.Call) and isinstance(it.func, ast.Name) and it.func.id == "enumerate" and len(it.args) == 1 \
                        and isinstance(it.args[0], ast.Call) and isinstance(it.args[0].func, ast.Name) \
                        and it.args[0].func.id == "reversed" and isinstance(it.args[0].args[0], ast.Name) \
                        and isinstance(st.target, ast.Tuple) and len(st.target.elts) == 2:
                    base = it.args[0].args[0].id
                    items = []
                    while f"{base}[{len(items)}]" in self.env:
                        items.append(self.env[f"{base}[{len(items)}]"])
                    if not items:
                        _fail(st, "loop over a sequence of unknown length")
                    for k, item in enumerate(reversed(items)):
                        self.env[st.target.elts[0].id] = (str(k), "num")
                        self.env[st.target.elts[1].id] = item
                        if self.run(st.body) is not None:
                            _fail(st, "return inside loop")
                    continue
                _fail(st, "unsupported loop")
            if isinstance(st, ast.Assign) and len(st.targets) == 1:
                t, v = st.targets[0], st.value
                if isinstance(t, ast.Tuple):
                    if isinstance(v, ast.Tuple) and len(v.elts) == len(t.elts):
                        self.assign_names(t.elts, [self.expr(e) for e in v.elts])
                    elif isinstance(v, ast.Name) or (isinstance(v, ast.Subscript) and isinstance(v.value, ast.Name) and isinstance(v.slice, ast.Slice)):
                        base = v.id if isinstance(v, ast.Name) else v.value.id
                        self.assign_names(t.elts, [self.env[f"{base}[{k}]"] for k in range(len(t.elts))])
                    else:
                        _fail(st, "unsupported tuple assignment")
                elif isinstance(t, ast.Name) and isinstance(v, ast.Tuple):
                    for k, e in enumerate(v.elts):
                        self.env[f"{t.id}[{k}]"] = self.expr(e)
                    self.env[t.id] = ("<tuple>", "tuple:" + str(len(v.elts)))
                elif isinstance(t, ast.Name) and isinstance(v, ast.List) and not v.elts:
                    self.lists[t.id] = []
                elif isinstance(t, ast.Name) and any(isinstance(x, ast.Attribute) and x.attr == "empty_like" for x in ast.walk(v)):
                    continue          # pre-allocated output buffers (only ever used through `out=`)
                elif isinstance(t, ast.Name):
                    self.env[t.id] = self.expr(v)
                else:
                    _fail(st, "unsupported assignment")
            elif isinstance(st, ast.AugAssign) and isinstance(st.target, ast.Name) and isinstance(st.op, (ast.Add, ast.Sub)):
                a, b = self.env[st.target.id], self.expr(st.value)
                ty = "rat" if "rat" in (a[1], b[1]) else a[1]
                sym = "+" if isinstance(st.op, ast.Add) else "-"
                self.env[st.target.id] = (f"({self.cast(a, ty)} {sym} {self.cast(b, ty)})", ty)
            elif isinstance(st, ast.If):
                if len(st.body) == 1 and isinstance(st.body[0], ast.Raise) and not st.orelse:
                    self.guards.append(self.cond(st.test))
                    continue
                if isinstance(st.test, ast.Call) and isinstance(st.test.func, ast.Attribute) and st.test.func.attr == "isscalar":
                    continue      # Python-level argument normalisation (scalar -> pair): both forms reach the same body
                c = self.cond(st.test)
                a, b = SymT(self.ignore_calls), SymT(self.ignore_calls)
                a.env, b.env = dict(self.env), dict(self.env)
                a.lists = {k: list(v) for k, v in self.lists.items()}
                b.lists = {k: list(v) for k, v in self.lists.items()}
                if a.run(st.body) is not None or b.run(st.orelse) is not None or a.guards or b.guards or a.lists != b.lists:
                    _fail(st, "return/raise inside a branch")
                for k in set(a.env) | set(b.env):
                    if a.env.get(k) != b.env.get(k):
                        va, vb = a.env.get(k), b.env.get(k)
                        if va is None or vb is None:
                            _fail(st, f"name {k} assigned in one branch only")
                        ty = va[1] if va[1] == vb[1] else ("rat" if "rat" in (va[1], vb[1]) else ("int" if "int" in (va[1], vb[1]) else va[1]))
                        if ty in ("rat", "int"):
                            self.env[k] = (f"(if {c} then {self.cast(va, ty)} else {self.cast(vb, ty)})", ty)
                        else:
                            self.env[k] = (f"(if {c} then {va[0]} else {vb[0]})", ty)
            elif isinstance(st, ast.Return):
                v = st.value
                if isinstance(v, ast.Name) and self.env.get(v.id, ("", ""))[1].startswith("tuple:"):
                    n = int(self.env[v.id][1].split(":")[1])
                    return [self.env[f"{v.id}[{k}]"] for k in range(n)]
                if isinstance(v, ast.Call) and isinstance(v.func, ast.Name) and v.func.id == "tuple" and len(v.args) == 1 \
                        and isinstance(v.args[0], ast.Call) and isinstance(v.args[0].func, ast.Name) \
                        and v.args[0].func.id == "reversed" and isinstance(v.args[0].args[0], ast.Name) \
                        and v.args[0].args[0].id in self.lists:
                    return list(reversed(self.lists[v.args[0].args[0].id]))
                elts = v.elts if isinstance(v, ast.Tuple) else [v]
                return [self.expr(e) for e in elts]
            else:
                _fail(st, "unsupported statement")
        return None


def json_str(s):
    import json
    return json.dumps(s)


def translate_typed(path, name, lean_name, params, rettypes, ignore_calls=(), stop_after=None, within_if=None):
    """params: list of (python name or 'name[k]', lean name, type).  rettypes: list of lean types of the returned tuple.
    stop_after: translate only the statements up to and including the first one that assigns this name last (prefix of the body),
    returning the names listed in rettypes as (python name, type) pairs instead of the function's own return."""
    src = open(os.path.join(REPO, path)).read()
    tree = ast.parse(src)
    fn = find_func(tree, name)
    s = SymT(ignore_calls)
    for py, lean, ty in params:
        s.env[py] = (lean, ty)
    body = fn.body
    if within_if is not None:
        # translate the body of the top-level `if <within_if>:` statement only
        sel = [st for st in body if isinstance(st, ast.If) and isinstance(st.test, ast.Name) and st.test.id == within_if]
        if len(sel) != 1:
            raise Untranslatable(f"{name}: no unique `if {within_if}:` block")
        body = sel[0].body
    if stop_after is not None:
        cut = None
        for i, st in enumerate(body):
            if isinstance(st, ast.Assign) and any(isinstance(t, ast.Name) and t.id == stop_after for t in st.targets):
                cut = i
                break
        if cut is None:
            raise Untranslatable(f"{name}: marker statement assigning {stop_after} not found")
        body = body[:cut]
        outs_ = s.run(body)
        if outs_ is not None:
            raise Untranslatable(f"{name}: unexpected return before {stop_after}")
        outs = [s.env[py] for py, _ in rettypes]
        rts = [ty for _, ty in rettypes]
    else:
        outs = s.run(body)
        rts = rettypes
        if outs is None and not rts:
            outs = []
    if outs is None or len(outs) != len(rts):
        raise Untranslatable(f"{name}: expected {len(rts)} returned value(s)")
    lean_ty = {"rat": "Rat", "int": "Int", "bool": "Bool", "str": "String", "list:nat×nat": "List (Nat × Nat)", "nat": "Nat",
               "natlist": "List Nat", "ratlist": "List Rat", "optrat": "Option Rat"}
    vals = ", ".join(SymT.cast(o, t) if t in ("rat", "int") else (f"decide {o[0]}" if (t == "bool" and o[1] == "prop") else o[0])
                     for o, t in zip(outs, rts))
    rtype = " × ".join(lean_ty[t] for t in rts) if rts else "Unit"

    seen, args = set(), []
    for _, lean, ty in params:
        if lean not in seen:
            seen.add(lean)
            args.append(f"({lean} : {lean_ty[ty]})")
    seg = ast.get_source_segment(src, fn)
    sha = hashlib.sha256(seg.encode()).hexdigest()[:16]
    head = f"/-- translated from {path}:{fn.lineno}-{fn.end_lineno} ({name}), sha256 {sha} -/\n"
    if s.guards:
        g = " ∨ ".join(f"({c})" for c in s.guards)
        return head + f"def {lean_name} {' '.join(args)} : Except Err ({rtype}) :=\n  if {g} then .error .valueError else .ok ({vals})\n"
    return head + f"def {lean_name} {' '.join(args)} : {rtype} :=\n  ({vals})\n"


HEADER_COORDS = """/-
  GENERATED by harness/py2lean.py from the source text of /repo on every check run — do not edit.
  Exact-arithmetic functions of coordinates.py; Props/C07, C13, C17 prove them equal to the hand-written model.
-/
import VerdeModel.Model.Coords
namespace Verde.Gen
open Verde

"""
GEN_COORDS = os.path.join(VERIF, "lean", "VerdeModel", "Gen", "Coords.lean")
SNAP_COORDS = os.path.join(VERIF, "lean", "VerdeModel", "GenSnapshot", "Coords.lean.txt")


def generate_coords():
    parts = [
        translate_typed("verde/coordinates.py", "spacing_to_size", "spacingToSize",
                        [("start", "start", "rat"), ("stop", "stop", "rat"), ("spacing", "spacing", "rat"), ("adjust", "adjust", "str")],
                        ["int", "rat"]),
        translate_typed("verde/coordinates.py", "pad_region", "padRegion",
                        [("region[0]", "w", "rat"), ("region[1]", "e", "rat"), ("region[2]", "s", "rat"), ("region[3]", "n", "rat"),
                         ("pad[0]", "padN", "rat"), ("pad[1]", "padE", "rat")], ["rat", "rat", "rat", "rat"]),
        translate_typed("verde/coordinates.py", "longitude_continuity", "lonRegion",
                        [("region[0]", "w", "rat"), ("region[1]", "e", "rat"), ("region[2]", "s", "rat"), ("region[3]", "n", "rat")],
                        [("interval_360", "bool"), ("w", "rat"), ("e", "rat")], ignore_calls=("_check_geographic_region",),
                        stop_after="region"),
        translate_typed("verde/coordinates.py", "longitude_continuity", "lonPoint",
                        [("interval_360", "interval360", "bool"), ("coordinates[0]", "lon", "rat")],
                        [("longitude", "rat")], ignore_calls=("_check_geographic_coordinates",),
                        stop_after="coordinates", within_if="coordinates"),
        translate_typed("verde/coordinates.py", "check_region", "checkRegion4",
                        [("region[0]", "w", "rat"), ("region[1]", "e", "rat"), ("region[2]", "s", "rat"), ("region[3]", "n", "rat")], []),
        translate_typed("verde/coordinates.py", "_check_geographic_region", "checkGeoRegion",
                        [("region[0]", "w", "rat"), ("region[1]", "e", "rat"), ("region[2]", "s", "rat"), ("region[3]", "n", "rat")], []),
        translate_typed("verde/coordinates.py", "_check_geographic_coordinates", "geoCoordBad",
                        [("coordinates[0]", "lon", "rat"), ("coordinates[1]", "lat", "rat")], []),
        translate_typed("verde/coordinates.py", "inside", "insidePt",
                        [("region[0]", "w", "rat"), ("region[1]", "e", "rat"), ("region[2]", "s", "rat"), ("region[3]", "n", "rat"),
                         ("coordinates[0]", "east", "rat"), ("coordinates[1]", "north", "rat")], ["bool"], ignore_calls=("check_region",)),
        translate_typed("verde/coordinates.py", "get_region", "getRegion",
                        [("coordinates[0]", "east", "ratlist"), ("coordinates[1]", "north", "ratlist")],
                        ["optrat", "optrat", "optrat", "optrat"]),
        translate_do("verde/coordinates.py", "line_coordinates", "lineCoordinates",
                     [("start", "start", "rat"), ("stop", "stop", "rat"), ("size", "size", "optint"), ("spacing", "spacing", "optrat"),
                      ("adjust", "adjust", "str"), ("pixel_register", "pixel", "bool")], "ratlist"),
        translate_do("verde/coordinates.py", "grid_coordinates", "gridLines",
                     [("region[0]", "w", "rat"), ("region[1]", "e", "rat"), ("region[2]", "s", "rat"), ("region[3]", "n", "rat"),
                      ("shape", "shape", "opt:intpair"), ("spacing", "spacing", "opt:ratlist"), ("adjust", "adjust", "str"),
                      ("pixel_register", "pixel", "bool")], "ratlistpair", stop_at="coordinates"),
        translate_do("verde/coordinates.py", "rolling_window", "rollingCentres",
                     [("coordinates[0]", "east", "ratlist"), ("coordinates[1]", "north", "ratlist"), ("size", "size", "rat"),
                      ("spacing", "spacing", "opt:ratlist"), ("shape", "shape", "opt:intpair"), ("region", "region", "opt:ratquad"),
                      ("adjust", "adjust", "str")], "ratlistpair", stop_at="centers"),
        translate_do("verde/coordinates.py", "block_split", "blockLines",
                     [("coordinates[0]", "east", "ratlist"), ("coordinates[1]", "north", "ratlist"), ("spacing", "spacing", "opt:ratlist"),
                      ("adjust", "adjust", "str"), ("region", "region", "opt:ratquad"), ("shape", "shape", "opt:intpair")],
                     "ratlistpair", stop_at="block_coords"),
        translate_typed("verde/coordinates.py", "shape_to_spacing", "shapeToSpacing",
                        [("region[0]", "w", "rat"), ("region[1]", "e", "rat"), ("region[2]", "s", "rat"), ("region[3]", "n", "rat"),
                         ("shape[0]", "nNorth", "int"), ("shape[1]", "nEast", "int"), ("pixel_register", "pixel", "bool")],
                        ["rat", "rat"]),
    ]
    return HEADER_COORDS + "\n".join(parts) + "\nend Verde.Gen\n"


HEADER_IO = """/-
  GENERATED by harness/py2lean.py from the source text of /repo on every check run — do not edit.
  `_read_surfer_header` and `_check_surfer_integrity` (io.py), statement by statement; Props/C19.lean proves them equal to the model.
-/
import VerdeModel.Model.Surfer
namespace Verde.Gen
open Verde

"""
GEN_IO = os.path.join(VERIF, "lean", "VerdeModel", "Gen", "IO.lean")
SNAP_IO = os.path.join(VERIF, "lean", "VerdeModel", "GenSnapshot", "IO.lean.txt")


def generate_io():
    parts = [
        translate_do("verde/io.py", "_read_surfer_header", "readSurferHeader", [("input_file", "input_file", "file")], "surferheader"),
        translate_do("verde/io.py", "_check_surfer_integrity", "checkSurferIntegrity",
                     [("field.shape", "fshape", "intlist"), ("field.values", "fvals", "ratlist"), ("shape", "shape", "intlist"),
                      ("data_range", "dataRange", "ratlist")], "unit"),
    ]
    parts.append(translate_load_surfer())
    return HEADER_IO + "\n".join(parts) + "\nend Verde.Gen\n"


def translate_load_surfer():
    """The `try:` body of load_surfer: header, loadtxt, blank mask, integrity check, coordinates, DataArray (structural)."""
    path = "verde/io.py"
    src = open(os.path.join(REPO, path)).read()
    fn = find_func(ast.parse(src), "load_surfer")
    tries = [x for x in fn.body if isinstance(x, ast.Try)]
    if len(tries) != 1 or not tries[0].finalbody:
        _fail(fn, "load_surfer: one try/finally")
    b = tries[0].body
    un = ast.unparse
    lines = []
    k = 0
    st = b[k]
    if not (isinstance(st, ast.Assign) and isinstance(st.targets[0], ast.Tuple) and un(st.value) == "_read_surfer_header(input_file)"
            and [e.id for e in st.targets[0].elts] == ["grid_id", "shape", "region", "data_range"]):
        _fail(st, "grid_id, shape, region, data_range = _read_surfer_header(input_file)")
    lines.append("let (grid_id, shape, region, data_range) ← Gen.readSurferHeader input_file      -- " + un(st))
    k += 1
    if un(b[k]) != "field = np.loadtxt(input_file, dtype=dtype)":
        _fail(b[k], "field = np.loadtxt(input_file, dtype=dtype)")
    lines.append("let field ← loadtxtE body      -- np.loadtxt on the remaining lines (values already at the requested dtype)")
    k += 1
    st = b[k]
    ok = (isinstance(st, ast.Assign) and _is_name(st.targets[0], "nans") and isinstance(st.value, ast.Compare) and _is_name(st.value.left, "field")
          and isinstance(st.value.ops[0], ast.GtE) and isinstance(st.value.comparators[0], ast.Constant) and isinstance(st.value.comparators[0].value, float))
    if not ok:
        _fail(st, "nans = field >= <literal>")
    lit = Fraction(st.value.comparators[0].value)
    k += 1
    if un(b[k]) != "if np.any(nans):\n    field = np.ma.masked_where(nans, field)":
        _fail(b[k], "masking of the blanked values")
    lines.append(f"let field_masked := field.map (maskRow blank)      -- {un(st)} (the literal at the array's dtype = `blank`); np.ma.masked_where(nans, field)")
    k += 1
    if un(b[k]) != "_check_surfer_integrity(field, shape, data_range)":
        _fail(b[k], "_check_surfer_integrity(field, shape, data_range)")
    lines.append("let _ ← Gen.checkSurferIntegrity (fieldShape field) (field_masked.flatten.filterMap id) shape data_range      -- (min/max of a masked array skip the masked cells)")
    k += 1
    rest = {un(x).split(" = ")[0]: x for x in b[k:] if isinstance(x, ast.Assign)}
    if un(rest.get("dims", ast.Constant(0)).value if "dims" in rest else ast.Constant(0)) != "('northing', 'easting')":
        _fail(b[k], "dims = ('northing', 'easting')")
    c = rest.get("coords")
    if c is None or not isinstance(c.value, ast.Dict) or sorted(getattr(kk, "value", None) for kk in c.value.keys) != ["easting", "northing"]:
        _fail(b[k], "coords = {'northing': ..., 'easting': ...}")

    def lin(v):
        """np.linspace(*region[a:b], shape[i]) -> ((a, a+1), i)"""
        if not (isinstance(v, ast.Call) and un(v.func) == "np.linspace" and len(v.args) == 2 and isinstance(v.args[0], ast.Starred)
                and isinstance(v.args[0].value, ast.Subscript) and _is_name(v.args[0].value.value, "region") and isinstance(v.args[0].value.slice, ast.Slice)
                and isinstance(v.args[1], ast.Subscript) and _is_name(v.args[1].value, "shape") and _const_int(v.args[1].slice) in (0, 1)):
            _fail(v, "np.linspace(*region[a:b], shape[i])")
        sl = v.args[0].value.slice
        lo = 0 if sl.lower is None else _const_int(sl.lower)
        hi = 4 if sl.upper is None else _const_int(sl.upper)
        if (lo, hi) not in ((0, 2), (2, 4)) or sl.step is not None:
            _fail(v, "region slice")
        return lo, _const_int(v.args[1].slice)
    m = {kk.value: lin(vv) for kk, vv in zip(c.value.keys, c.value.values)}
    for nm in ("northing", "easting"):
        lo, i = m[nm]
        lines.append(f"let {nm} ← linspaceE region{QUAD_PROJ[lo]} region{QUAD_PROJ[lo + 1]} (← idxI shape {i})      -- '{nm}': {un(dict(zip([kk.value for kk in c.value.keys], c.value.values))[nm])}")
    d = rest.get("data")
    if d is None or un(d.value) != "xr.DataArray(field, coords=coords, dims=dims, attrs=attrs)":
        _fail(b[-1], "data = xr.DataArray(field, coords=coords, dims=dims, attrs=attrs)")
    if un(rest.get("attrs").value if "attrs" in rest else ast.Constant(0)) != "{'gridID': grid_id}":
        _fail(b[k], "attrs = {'gridID': grid_id}")
    lines.append("return ⟨shape, northing, easting, field_masked, grid_id⟩      -- xr.DataArray(field, coords=coords, dims=('northing', 'easting'), attrs={'gridID': grid_id, ...})")
    seg = ast.get_source_segment(src, fn)
    return (f"/-- translated from the `try:` body of {path}:{fn.lineno}-{fn.end_lineno} (load_surfer), sha256 {hashlib.sha256(seg.encode()).hexdigest()[:16]};\n"
            f"    blank threshold literal in the source: {st.value.comparators[0].value!r} = {lit.numerator}/{lit.denominator} -/\n"
            f"def surferBlankLiteral : Rat := ({lit.numerator} : Rat) / {lit.denominator}\n"
            "def loadSurferTry (input_file : List SLine) (body : List (List Rat)) (blank : Rat) : Except Err SurferGrid := do\n"
            + "\n".join("  " + ln for ln in lines) + "\n")


def main_io(write=True):
    return _regen(generate_io, GEN_IO, SNAP_IO, write)


HEADER_BASE = """/-
  GENERATED by harness/py2lean.py from the source text of /repo on every check run — do not edit.
  `check_coordinates` and the validation part of `check_fit_input` (base/utils.py), statement by statement, with every array represented by
  its shape; Props/C20.lean proves them equal to the model's decision over shapes.
-/
import VerdeModel.Model.Lifecycle
namespace Verde.Gen
open Verde

"""
GEN_BASE = os.path.join(VERIF, "lean", "VerdeModel", "Gen", "Base.lean")
SNAP_BASE = os.path.join(VERIF, "lean", "VerdeModel", "GenSnapshot", "Base.lean.txt")


def generate_base():
    parts = [
        translate_do("verde/base/utils.py", "check_coordinates", "checkCoordinates", [("coordinates", "coordinates", "shapelist")], "shapelist"),
        translate_do("verde/base/utils.py", "check_fit_input", "checkFitInput",
                     [("coordinates", "coordinates", "shapelist"), ("data", "data", "shapelist"), ("weights", "weights", "optshapelist")], "unit",
                     drop_assign=("weights", "data"), drop_flags=("unpack",), ignore_return=True, call_assign={"check_coordinates": "Gen.checkCoordinates"}),
    ]
    return HEADER_BASE + "\n".join(parts) + "\nend Verde.Gen\n"


def main_base(write=True):
    return _regen(generate_base, GEN_BASE, SNAP_BASE, write)


HEADER_CHAIN = """/-
  GENERATED by harness/py2lean.py from the source text of /repo on every check run — do not edit.
  `Chain.fit` and `Chain.predict` (chain.py), statement by statement, over abstract steps: a step is what its `filter` does (the arguments the
  next step receives, and the predictor `fit` leaves in the step if it has a `predict` method).  Props/C06.lean proves them equal to the model.
-/
import VerdeModel.Model.Chain
namespace Verde.Gen
open Verde

"""
GEN_CHAIN = os.path.join(VERIF, "lean", "VerdeModel", "Gen", "Chain.lean")
SNAP_CHAIN = os.path.join(VERIF, "lean", "VerdeModel", "GenSnapshot", "Chain.lean.txt")


def _is_name(n, name):
    return isinstance(n, ast.Name) and n.id == name


def _steps_loop(st, var):
    """`for _, <var> in self.steps:` (names are labels; the steps are visited in list order)."""
    return (isinstance(st, ast.For) and not st.orelse and isinstance(st.target, ast.Tuple) and len(st.target.elts) == 2
            and isinstance(st.target.elts[0], ast.Name) and _is_name(st.target.elts[1], var)
            and isinstance(st.iter, ast.Attribute) and _is_name(st.iter.value, "self") and st.iter.attr == "steps")


def translate_chain():
    path = "verde/chain.py"
    src = open(os.path.join(REPO, path)).read()
    tree = ast.parse(src)
    cls = [n for n in tree.body if isinstance(n, ast.ClassDef) and n.name == "Chain"]
    if not cls:
        raise Untranslatable("class Chain not found")
    meth = {n.name: n for n in cls[0].body if isinstance(n, ast.FunctionDef)}
    out = []

    def body_of(fn):
        return [b for b in fn.body if not (isinstance(b, ast.Expr) and isinstance(b.value, ast.Constant))]

    # ---------------------------------------------------------------- fit
    fit = meth.get("fit")
    if fit is None:
        raise Untranslatable("Chain.fit not found")
    params = [a.arg for a in fit.args.args]
    if params != ["self", "coordinates", "data", "weights"]:
        _fail(fit, "fit signature")
    lines = []
    body = body_of(fit)
    k = 0
    # attribute bookkeeping on self (region_): not part of the threading
    while k < len(body) and isinstance(body[k], ast.Assign) and len(body[k].targets) == 1 and isinstance(body[k].targets[0], ast.Attribute) \
            and _is_name(body[k].targets[0].value, "self") and body[k].targets[0].attr in ("region_",):
        k += 1
    st = body[k]
    if not (isinstance(st, ast.Assign) and _is_name(st.targets[0], "args") and isinstance(st.value, ast.Tuple) and len(st.value.elts) == 3
            and all(isinstance(e, ast.Name) and e.id in ("coordinates", "data", "weights") for e in st.value.elts)):
        _fail(st, "fit: initial arguments")
    lines.append("let args : Rows := ⟨" + ", ".join(e.id for e in st.value.elts) + "⟩      -- (positional: filter(coordinates, data, weights))")
    k += 1
    st = body[k]
    if not _steps_loop(st, "step") or len(st.body) != 1:
        _fail(st, "fit: loop over the steps")
    a = st.body[0]
    if not (isinstance(a, ast.Assign) and _is_name(a.targets[0], "args") and isinstance(a.value, ast.Call) and isinstance(a.value.func, ast.Attribute)
            and _is_name(a.value.func.value, "step") and a.value.func.attr == "filter" and len(a.value.args) == 1 and isinstance(a.value.args[0], ast.Starred)
            and _is_name(a.value.args[0].value, "args") and not a.value.keywords):
        _fail(a, "fit: args = step.filter(*args)")
    lines += ["let (args, fitted) ← self_steps.foldlM (fun (st : Rows × List (Option Predictor)) step => do",
              "    let (args, fitted) := st",
              "    let (args, left_in_step) ← step.filter args      -- args = step.filter(*args); fitting leaves the predictor in the step object",
              "    pure (args, fitted ++ [left_in_step])) (args, [])"]
    k += 1
    st = body[k]
    if not (isinstance(st, ast.Return) and _is_name(st.value, "self")) or k != len(body) - 1:
        _fail(st, "fit: return self")
    lines += ["let _ := args", "return fitted"]
    seg = ast.get_source_segment(src, fit)
    out.append(f"/-- translated statement by statement from {path}:{fit.lineno}-{fit.end_lineno} (Chain.fit), sha256 {hashlib.sha256(seg.encode()).hexdigest()[:16]};\n"
               "    the value is the state `fit` leaves in `self.steps`: per step, its predictor if it has a `predict` method -/\n"
               "def chainFit (self_steps : List Step) (coordinates : List (List Rat)) (data : Data) (weights : Option Data) : "
               "Except Err (List (Option Predictor)) := do\n" + "\n".join("  " + ln for ln in lines) + "\n")

    # ---------------------------------------------------------------- predict
    pr = meth.get("predict")
    if pr is None or [a.arg for a in pr.args.args] != ["self", "coordinates"]:
        raise Untranslatable("Chain.predict signature")
    body = body_of(pr)
    k = 0
    if isinstance(body[k], ast.Expr) and isinstance(body[k].value, ast.Call) and getattr(body[k].value.func, "id", None) == "check_is_fitted":
        k += 1          # (NotFittedError belongs to the life-cycle model, C20)
    st = body[k]
    if not (isinstance(st, ast.Assign) and _is_name(st.targets[0], "result") and isinstance(st.value, ast.Constant) and st.value.value is None):
        _fail(st, "predict: result = None")
    lines = ["let result : Option (List Acc) := none"]
    k += 1
    loop = body[k]
    if not _steps_loop(loop, "step") or len(loop.body) != 1 or not isinstance(loop.body[0], ast.If) or loop.body[0].orelse:
        _fail(loop, "predict: loop over the steps")
    cond = loop.body[0].test
    if not (isinstance(cond, ast.Call) and getattr(cond.func, "id", None) == "hasattr" and len(cond.args) == 2 and _is_name(cond.args[0], "step")
            and isinstance(cond.args[1], ast.Constant) and cond.args[1].value == "predict"):
        _fail(cond, "predict: hasattr(step, 'predict')")
    inner = loop.body[0].body
    il = []
    j = 0
    st = inner[j]
    v = st.value if isinstance(st, ast.Assign) else None
    if isinstance(v, ast.Call) and getattr(v.func, "id", None) == "check_data" and len(v.args) == 1:
        v = v.args[0]           # check_data: wraps a bare array in a tuple (tuple-ness is in the typing here)
    if not (isinstance(st, ast.Assign) and _is_name(st.targets[0], "predicted") and isinstance(v, ast.Call) and isinstance(v.func, ast.Attribute)
            and _is_name(v.func.value, "step") and v.func.attr == "predict" and len(v.args) == 1 and _is_name(v.args[0], "coordinates") and not v.keywords):
        _fail(st, "predict: predicted = step.predict(coordinates)")
    il.append("let predicted ← step_predict coordinates")
    j += 1
    st = inner[j]
    ok = (isinstance(st, ast.If) and not st.orelse and isinstance(st.test, ast.Compare) and _is_name(st.test.left, "result") and isinstance(st.test.ops[0], ast.Is)
          and isinstance(st.test.comparators[0], ast.Constant) and st.test.comparators[0].value is None and len(st.body) == 1
          and isinstance(st.body[0], ast.Assign) and _is_name(st.body[0].targets[0], "result"))
    if ok:
        lc = st.body[0].value
        ok = (isinstance(lc, ast.ListComp) and isinstance(lc.elt, ast.Constant) and lc.elt.value == 0 and type(lc.elt.value) is int and len(lc.generators) == 1
              and not lc.generators[0].ifs and isinstance(lc.generators[0].iter, ast.Call) and getattr(lc.generators[0].iter.func, "id", None) == "range"
              and len(lc.generators[0].iter.args) == 1 and isinstance(lc.generators[0].iter.args[0], ast.Call)
              and getattr(lc.generators[0].iter.args[0].func, "id", None) == "len" and _is_name(lc.generators[0].iter.args[0].args[0], "predicted"))
    if not ok:
        _fail(st, "predict: if result is None: result = [0 for i in range(len(predicted))]")
    il += ["let result := (match result with", "  | none => zerosAcc predicted.length      -- [0 for i in range(len(predicted))]", "  | some result => result)"]
    j += 1
    st = inner[j]
    if not (isinstance(st, ast.For) and not st.orelse and isinstance(st.target, ast.Tuple) and [getattr(e, "id", None) for e in st.target.elts] == ["i", "pred"]
            and isinstance(st.iter, ast.Call) and getattr(st.iter.func, "id", None) == "enumerate" and len(st.iter.args) == 1
            and _is_name(st.iter.args[0], "predicted") and len(st.body) == 1 and j == len(inner) - 1):
        _fail(st, "predict: for i, pred in enumerate(predicted)")
    asg = st.body[0]
    if not (isinstance(asg, ast.Assign) and len(asg.targets) == 1 and isinstance(asg.targets[0], ast.Subscript) and _is_name(asg.targets[0].value, "result")
            and _is_name(asg.targets[0].slice, "i") and isinstance(asg.value, ast.BinOp) and isinstance(asg.value.op, ast.Add)):
        _fail(asg, "predict: result[i] = result[i] + pred")

    def operand(n):
        if isinstance(n, ast.Subscript) and _is_name(n.value, "result") and _is_name(n.slice, "i"):
            return "acc", "(← getAcc result i)"
        if _is_name(n, "pred"):
            return "arr", "pred"
        _fail(n, "predict: operand of the accumulation")
    (tl, xl), (tr, xr) = operand(asg.value.left), operand(asg.value.right)
    if {tl, tr} != {"acc", "arr"}:
        _fail(asg, "predict: accumulation must add the step's prediction to the running value")
    acc_x, arr_x = (xl, xr) if tl == "acc" else (xr, xl)
    il += ["let result ← predicted.zipIdx.foldlM (fun (result : List Acc) (pi : List Rat × Nat) => do      -- for i, pred in enumerate(predicted)",
           "    let (pred, i) := pi",
           f"    pure (setAcc result i (addAcc {acc_x} {arr_x}))) result      -- result[i] = result[i] + pred (not in place)",
           "pure (some result)"]
    lines += ["let result ← self_steps.foldlM (fun (result : Option (List Acc)) step => do",
              "    match step with",
              "    | some step_predict => do      -- hasattr(step, \"predict\")"] + ["        " + x for x in il] + \
             ["    | none => pure result) result"]
    k += 1
    st = body[k]
    ok = (isinstance(st, ast.If) and not st.orelse and isinstance(st.test, ast.Compare) and isinstance(st.test.left, ast.Call)
          and getattr(st.test.left.func, "id", None) == "len" and _is_name(st.test.left.args[0], "result") and isinstance(st.test.ops[0], ast.Eq)
          and getattr(st.test.comparators[0], "value", None) == 1 and len(st.body) == 1 and isinstance(st.body[0], ast.Return)
          and isinstance(st.body[0].value, ast.Subscript) and _is_name(st.body[0].value.value, "result") and getattr(st.body[0].value.slice, "value", None) == 0)
    k += 1
    last = body[k] if k < len(body) else None
    ok = ok and isinstance(last, ast.Return) and isinstance(last.value, ast.Call) and getattr(last.value.func, "id", None) == "tuple" \
        and _is_name(last.value.args[0], "result") and k == len(body) - 1
    if not ok:
        _fail(st, "predict: if len(result) == 1: return result[0] / return tuple(result)")
    lines += ["let result ← lenAccE result      -- len(result): TypeError when no step could predict", "return result      -- (a single component is returned bare: typing)"]
    seg = ast.get_source_segment(src, pr)
    out.append(f"/-- translated statement by statement from {path}:{pr.lineno}-{pr.end_lineno} (Chain.predict), sha256 {hashlib.sha256(seg.encode()).hexdigest()[:16]};\n"
               "    `self_steps` is what `fit` left: per step, its predictor if it has a `predict` method -/\n"
               "def chainPredict (self_steps : List (Option Predictor)) (coordinates : List (List Rat)) : Except Err (List Acc) := do\n"
               + "\n".join("  " + ln for ln in lines) + "\n")
    out.append(translate_gridder_filter())
    return HEADER_CHAIN + "\n".join(out) + "\nend Verde.Gen\n"


def translate_gridder_filter():
    """BaseGridder.filter over an abstract `fit` (what fitting leaves in the object is its predictor)."""
    path = "verde/base/base_classes.py"
    src = open(os.path.join(REPO, path)).read()
    tree = ast.parse(src)
    cls = [n for n in tree.body if isinstance(n, ast.ClassDef) and n.name == "BaseGridder"]
    fn = [n for n in cls[0].body if isinstance(n, ast.FunctionDef) and n.name == "filter"] if cls else []
    if not fn:
        raise Untranslatable("BaseGridder.filter not found")
    fn = fn[0]
    if [a.arg for a in fn.args.args] != ["self", "coordinates", "data", "weights"]:
        _fail(fn, "filter signature")
    b = [x for x in fn.body if not (isinstance(x, ast.Expr) and isinstance(x.value, ast.Constant))]
    lines = []
    k = 0
    st = b[k]
    c = st.value if isinstance(st, ast.Expr) else None
    if not (isinstance(c, ast.Call) and isinstance(c.func, ast.Attribute) and _is_name(c.func.value, "self") and c.func.attr == "fit"):
        _fail(st, "filter: self.fit(...)")
    given = dict(zip(["coordinates", "data", "weights"], c.args))
    for kw in c.keywords:
        given[kw.arg] = kw.value
    if sorted(given) != ["coordinates", "data", "weights"] or not all(isinstance(v, ast.Name) for v in given.values()):
        _fail(st, "filter: arguments of self.fit")
    lines.append(f"let self_predict ← self_fit ⟨{given['coordinates'].id}, {given['data'].id}, {given['weights'].id}⟩      -- self.fit(...): leaves the predictor in the object")
    k += 1
    if isinstance(b[k], ast.Assign) and _is_name(b[k].targets[0], "data") and isinstance(b[k].value, ast.Call) and getattr(b[k].value.func, "id", None) == "check_data":
        k += 1      # data = check_data(data): tuple-ness is in the typing
    st = b[k]
    v = st.value if isinstance(st, ast.Assign) and _is_name(st.targets[0], "pred") else None
    if isinstance(v, ast.Call) and getattr(v.func, "id", None) == "check_data" and len(v.args) == 1:
        v = v.args[0]
    if not (isinstance(v, ast.Call) and isinstance(v.func, ast.Attribute) and _is_name(v.func.value, "self") and v.func.attr == "predict"
            and len(v.args) == 1 and isinstance(v.args[0], ast.Name) and not v.keywords):
        _fail(st, "filter: pred = self.predict(coordinates)")
    lines.append(f"let pred ← self_predict {v.args[0].id}      -- self.predict({v.args[0].id})")
    k += 1
    st = b[k]
    g = st.value.args[0] if (isinstance(st, ast.Assign) and _is_name(st.targets[0], "residuals") and isinstance(st.value, ast.Call)
                             and getattr(st.value.func, "id", None) == "tuple" and isinstance(st.value.args[0], ast.GeneratorExp)) else None
    ok = g is not None and len(g.generators) == 1 and not g.generators[0].ifs and isinstance(g.generators[0].target, ast.Tuple) \
        and len(g.generators[0].target.elts) == 2 and isinstance(g.generators[0].iter, ast.Call) and getattr(g.generators[0].iter.func, "id", None) == "zip" \
        and len(g.generators[0].iter.args) == 2 and all(isinstance(a, ast.Name) for a in g.generators[0].iter.args) \
        and isinstance(g.elt, ast.BinOp) and isinstance(g.elt.op, ast.Sub)
    if not ok:
        _fail(st, "filter: residuals = tuple(a - b for a, b in zip(...))")
    va, vb = [e.id for e in g.generators[0].target.elts]
    la, lb = [a.id for a in g.generators[0].iter.args]

    def operand(n):
        if isinstance(n, ast.Name):
            return n.id
        # x.reshape(y.shape): the same values in the other array's shape (arrays are flat lists here)
        if isinstance(n, ast.Call) and isinstance(n.func, ast.Attribute) and n.func.attr == "reshape" and isinstance(n.func.value, ast.Name):
            return n.func.value.id
        _fail(n, "filter: operand of the residual")
    left, right = operand(g.elt.left), operand(g.elt.right)
    if {left, right} != {va, vb}:
        _fail(st, "filter: residual operands")
    lines.append(f"let residuals := List.zipWith (fun {va} {vb} => List.zipWith (· - ·) {left} {right}) {la} {lb}      -- tuple({left} - {right} for {va}, {vb} in zip({la}, {lb}))")
    k += 1
    if isinstance(b[k], ast.If) and isinstance(b[k].test, ast.Compare) and isinstance(b[k].test.left, ast.Call) and getattr(b[k].test.left.func, "id", None) == "len":
        k += 1      # a single component is returned bare: typing
    st = b[k]
    if not (isinstance(st, ast.Return) and isinstance(st.value, ast.Tuple) and len(st.value.elts) == 3 and all(isinstance(e, ast.Name) for e in st.value.elts)
            and k == len(b) - 1):
        _fail(st, "filter: return coordinates, residuals, weights")
    r = [e.id for e in st.value.elts]
    lines.append(f"return (⟨{r[0]}, {r[1]}, {r[2]}⟩, some self_predict)      -- return {', '.join(r)}")
    seg = ast.get_source_segment(src, fn)
    return (f"/-- translated statement by statement from {path}:{fn.lineno}-{fn.end_lineno} (BaseGridder.filter), sha256 {hashlib.sha256(seg.encode()).hexdigest()[:16]} -/\n"
            "def gridderFilter (self_fit : Rows → Except Err Predictor) (coordinates : List (List Rat)) (data : Data) (weights : Option Data) : "
            "Except Err (Rows × Option Predictor) := do\n" + "\n".join("  " + ln for ln in lines) + "\n")


def main_chain(write=True):
    return _regen(translate_chain, GEN_CHAIN, SNAP_CHAIN, write)


HEADER_SCORE = """/-
  GENERATED by harness/py2lean.py from the source text of /repo on every check run — do not edit.
  `select`, `fit_score` and the loop of `cross_val_score` (model_selection.py) over an abstract estimator; Props/C12.lean proves them equal to
  the model.  Contracts: `clone(estimator)` is a fresh copy with the same parameters (the estimator value itself here), `dispatch(f, ...)`
  calls `f` now or later (schedule independence is C12's `schedule_independent`), `score_estimator(scoring, est, coordinates, data, weights)`
  is the model's `scoreEstimator` of `est.predict(coordinates)`, `estimator.score` is `score_estimator("r2", ...)`.
-/
import VerdeModel.Model.Score
namespace Verde.Gen
open Verde

"""
GEN_SCORE = os.path.join(VERIF, "lean", "VerdeModel", "Gen", "Score.lean")
SNAP_SCORE = os.path.join(VERIF, "lean", "VerdeModel", "GenSnapshot", "Score.lean.txt")


def translate_score():
    path = "verde/model_selection.py"
    src = open(os.path.join(REPO, path)).read()
    tree = ast.parse(src)
    out = []

    def body_of(fn):
        return [b for b in fn.body if not (isinstance(b, ast.Expr) and isinstance(b.value, ast.Constant))]

    def head(fn, name):
        seg = ast.get_source_segment(src, fn)
        return f"/-- translated statement by statement from {path}:{fn.lineno}-{fn.end_lineno} ({name}), sha256 {hashlib.sha256(seg.encode()).hexdigest()[:16]} -/\n"

    # ---------------------------------------------------------------- select
    fn = find_func(tree, "select")
    if [a.arg for a in fn.args.args] != ["arrays", "index"]:
        _fail(fn, "select signature")
    b = body_of(fn)
    ok = len(b) == 2 and isinstance(b[0], ast.If) and not b[0].orelse and len(b[0].body) == 1 and isinstance(b[0].body[0], ast.Return) \
        and _is_name(b[0].body[0].value, "arrays") and isinstance(b[0].test, ast.BoolOp) and isinstance(b[0].test.op, ast.Or) and len(b[0].test.values) == 2
    if ok:
        t1, t2 = b[0].test.values
        ok = (isinstance(t1, ast.Compare) and _is_name(t1.left, "arrays") and isinstance(t1.ops[0], ast.Is) and getattr(t1.comparators[0], "value", 0) is None
              and isinstance(t2, ast.Call) and getattr(t2.func, "id", None) == "any" and isinstance(t2.args[0], ast.GeneratorExp)
              and isinstance(t2.args[0].elt, ast.Compare) and isinstance(t2.args[0].elt.ops[0], ast.Is) and getattr(t2.args[0].elt.comparators[0], "value", 0) is None
              and _is_name(t2.args[0].generators[0].iter, "arrays"))
    if not ok:
        _fail(fn, "select: the no-arrays guard")
    r = b[1]
    g = r.value.args[0] if (isinstance(r, ast.Return) and isinstance(r.value, ast.Call) and getattr(r.value.func, "id", None) == "tuple"
                            and len(r.value.args) == 1 and isinstance(r.value.args[0], ast.GeneratorExp)) else None
    ok = g is not None and len(g.generators) == 1 and not g.generators[0].ifs and _is_name(g.generators[0].iter, "arrays") \
        and isinstance(g.generators[0].target, ast.Name) and isinstance(g.elt, ast.Subscript) and _is_name(g.elt.slice, "index") \
        and isinstance(g.elt.value, ast.Call) and isinstance(g.elt.value.func, ast.Attribute) and g.elt.value.func.attr == "ravel" \
        and _is_name(g.elt.value.func.value, "np") and len(g.elt.value.args) == 1 and _is_name(g.elt.value.args[0], g.generators[0].target.id)
    if not ok:
        _fail(r, "select: tuple(np.ravel(i)[index] for i in arrays)")
    out.append(head(fn, "select") +
               "def select (arrays : Option (List (List Rat))) (index : List Nat) : Option (List (List Rat)) :=\n"
               "  match arrays with\n"
               "  | none => arrays      -- arrays is None, or a tuple holding a None (the canonical \"no weights\"): returned as it is\n"
               "  | some arrays => some (arrays.map fun i => index.map fun k => i.getD k 0)      -- tuple(np.ravel(i)[index] for i in arrays)\n")

    # ---------------------------------------------------------------- fit_score
    fn = find_func(tree, "fit_score")
    if [a.arg for a in fn.args.args] != ["estimator", "train_data", "test_data", "scoring"]:
        _fail(fn, "fit_score signature")
    b = body_of(fn)

    def starcall(n, obj, meth, star):
        return (isinstance(n, ast.Call) and isinstance(n.func, ast.Attribute) and _is_name(n.func.value, obj) and n.func.attr == meth
                and len(n.args) == 1 and isinstance(n.args[0], ast.Starred) and _is_name(n.args[0].value, star) and not n.keywords)
    ok = len(b) == 3 and isinstance(b[0], ast.Expr) and starcall(b[0].value, "estimator", "fit", "train_data")
    if ok:
        i = b[1]
        ok = (isinstance(i, ast.If) and isinstance(i.test, ast.Compare) and _is_name(i.test.left, "scoring") and isinstance(i.test.ops[0], ast.Is)
              and getattr(i.test.comparators[0], "value", 0) is None and len(i.body) == 1 and len(i.orelse) == 1
              and isinstance(i.body[0], ast.Assign) and _is_name(i.body[0].targets[0], "score") and starcall(i.body[0].value, "estimator", "score", "test_data")
              and isinstance(i.orelse[0], ast.Assign) and _is_name(i.orelse[0].targets[0], "score"))
        if ok:
            c = i.orelse[0].value
            ok = (isinstance(c, ast.Call) and getattr(c.func, "id", None) == "score_estimator" and len(c.args) == 3 and _is_name(c.args[0], "scoring")
                  and _is_name(c.args[1], "estimator") and isinstance(c.args[2], ast.Starred) and _is_name(c.args[2].value, "test_data") and not c.keywords)
        ok = ok and isinstance(b[2], ast.Return) and _is_name(b[2].value, "score")
    if not ok:
        _fail(fn, "fit_score body")
    out.append(head(fn, "fit_score") +
               "def fitScore {σ : Type} (estimator : Est σ) (train_data test_data : Rows) (scoring : Option Scoring) : Option Rat :=\n"
               "  let fitted := estimator.fit train_data      -- estimator.fit(*train_data)\n"
               "  match scoring with\n"
               "  | none => scoreEstimator Scoring.r2 (estimator.predict fitted test_data.coords) test_data      -- estimator.score(*test_data)\n"
               "  | some scoring => scoreEstimator scoring (estimator.predict fitted test_data.coords) test_data      -- score_estimator(scoring, estimator, *test_data)\n")

    # ---------------------------------------------------------------- cross_val_score: fit_args and the loop over the splits
    fn = find_func(tree, "cross_val_score")
    b = body_of(fn)
    fa = [x for x in b if isinstance(x, ast.Assign) and _is_name(x.targets[0], "fit_args")]
    loops = [x for x in b if isinstance(x, ast.For)]
    if len(fa) != 1 or len(loops) != 1 or not (isinstance(fa[0].value, ast.Tuple) and [getattr(e, "id", None) for e in fa[0].value.elts] == ["coordinates", "data", "weights"]):
        _fail(fn, "cross_val_score: fit_args = (coordinates, data, weights) and one loop")
    lp = loops[0]
    ok = (isinstance(lp.target, ast.Tuple) and len(lp.target.elts) == 2 and all(isinstance(e, ast.Name) for e in lp.target.elts)
          and isinstance(lp.iter, ast.Call) and isinstance(lp.iter.func, ast.Attribute) and _is_name(lp.iter.func.value, "cv") and lp.iter.func.attr == "split"
          and len(lp.body) == 2 and not lp.orelse)
    first, second = (lp.target.elts[0].id, lp.target.elts[1].id) if ok else (None, None)
    if ok:
        a0, a1 = lp.body
        call = a0.value if isinstance(a0, ast.Assign) and _is_name(a0.targets[0], "score") else None
        ok = (isinstance(call, ast.Call) and isinstance(call.func, ast.Call) and getattr(call.func.func, "id", None) == "dispatch"
              and len(call.func.args) == 1 and _is_name(call.func.args[0], "fit_score") and len(call.args) == 4 and not call.keywords
              and isinstance(call.args[0], ast.Call) and getattr(call.args[0].func, "id", None) == "clone" and _is_name(call.args[0].args[0], "estimator")
              and _is_name(call.args[3], "scoring")
              and isinstance(a1, ast.Expr) and isinstance(a1.value, ast.Call) and isinstance(a1.value.func, ast.Attribute)
              and _is_name(a1.value.func.value, "scores") and a1.value.func.attr == "append" and _is_name(a1.value.args[0], "score"))

    def sel_index(n):
        """tuple(select(i, <index>) for i in fit_args) -> the index variable used"""
        if not (isinstance(n, ast.Call) and getattr(n.func, "id", None) == "tuple" and len(n.args) == 1 and isinstance(n.args[0], ast.GeneratorExp)):
            return None
        g = n.args[0]
        if not (len(g.generators) == 1 and _is_name(g.generators[0].iter, "fit_args") and isinstance(g.generators[0].target, ast.Name) and not g.generators[0].ifs
                and isinstance(g.elt, ast.Call) and getattr(g.elt.func, "id", None) == "select" and len(g.elt.args) == 2
                and _is_name(g.elt.args[0], g.generators[0].target.id) and isinstance(g.elt.args[1], ast.Name)):
            return None
        return g.elt.args[1].id
    tr_idx = sel_index(call.args[1]) if ok else None
    te_idx = sel_index(call.args[2]) if ok else None
    if not ok or tr_idx not in (first, second) or te_idx not in (first, second):
        _fail(lp, "cross_val_score: the loop over cv.split")
    sel = lambda idx: (f"⟨(Gen.select (some fit_args.coords) {idx}).getD [], (Gen.select (some fit_args.data) {idx}).getD [], "  # noqa: E731
                       f"Gen.select fit_args.weights {idx}⟩")
    out.append(head(fn, "cross_val_score") +
               "def crossValScore {σ : Type} (estimator : Est σ) (fit_args : Rows) (cv_split : List (List Nat × List Nat)) (scoring : Option Scoring) : List (Option Rat) :=\n"
               f"  cv_split.map fun (({first}, {second}) : List Nat × List Nat) =>      -- for {first}, {second} in cv.split(...): ...; scores.append(score)\n"
               "    Gen.fitScore estimator      -- dispatch(fit_score, ...)(clone(estimator), ...)\n"
               f"      {sel(tr_idx)}      -- tuple(select(i, {tr_idx}) for i in fit_args)\n"
               f"      {sel(te_idx)}      -- tuple(select(i, {te_idx}) for i in fit_args)\n"
               "      scoring\n")
    return HEADER_SCORE + "\n".join(out) + "\nend Verde.Gen\n"


def main_score(write=True):
    return _regen(translate_score, GEN_SCORE, SNAP_SCORE, write)


HEADER_NEIGH = """/-
  GENERATED by harness/py2lean.py from the source text of /repo on every check run — do not edit.
  `KNeighbors.predict` (neighbors.py) after the k-d tree query: the index plumbing and the reduction.  The tree is abstract: `tree_query qs k`
  gives, per query point, the indices of its k nearest data points, nearest first (for k = 1 SciPy returns them as a 1-D array, which is what the
  `indices.ndim == 1` branch is about: `flat1` says which form the query returned).  Props/C15.lean proves it equal to the model.
-/
import VerdeModel.Model.Neighbors
namespace Verde.Gen
open Verde

/-- What `cKDTree.query(points, k)[1]` returns: a 1-D array for k = 1, else one row of k indices per query point. -/
inductive QueryIdx where
  | flat (i : List Nat)
  | rows (i : List (List Nat))

"""
GEN_NEIGH = os.path.join(VERIF, "lean", "VerdeModel", "Gen", "Neighbors.lean")
SNAP_NEIGH = os.path.join(VERIF, "lean", "VerdeModel", "GenSnapshot", "Neighbors.lean.txt")


def translate_neighbors():
    path = "verde/neighbors.py"
    src = open(os.path.join(REPO, path)).read()
    tree = ast.parse(src)
    cls = [n for n in tree.body if isinstance(n, ast.ClassDef) and n.name == "KNeighbors"]
    fn = [n for n in cls[0].body if isinstance(n, ast.FunctionDef) and n.name == "predict"] if cls else []
    if not fn:
        raise Untranslatable("KNeighbors.predict not found")
    fn = fn[0]
    b = [x for x in fn.body if not (isinstance(x, ast.Expr) and isinstance(x.value, ast.Constant))]
    k = 0
    if isinstance(b[k], ast.Expr) and isinstance(b[k].value, ast.Call) and getattr(b[k].value.func, "id", None) == "check_is_fitted":
        k += 1
    lines = []
    st = b[k]
    c = st.value if isinstance(st, ast.Assign) else None
    ok = (isinstance(st, ast.Assign) and isinstance(st.targets[0], ast.Tuple) and len(st.targets[0].elts) == 2 and isinstance(c, ast.Call)
          and isinstance(c.func, ast.Attribute) and c.func.attr == "query" and isinstance(c.func.value, ast.Attribute) and c.func.value.attr == "tree_"
          and len(c.args) == 1 and len(c.keywords) == 1 and c.keywords[0].arg == "k" and isinstance(c.keywords[0].value, ast.Attribute)
          and c.keywords[0].value.attr == "k")
    if not ok:
        _fail(st, "predict: distances, indices = self.tree_.query(points, k=self.k)")
    which = [e.id for e in st.targets[0].elts]
    if which[1] != "indices":
        _fail(st, "predict: the second value of query() is the index array")
    lines.append("let indices := tree_query self_k      -- distances, indices = self.tree_.query(points, k=self.k)")
    k += 1
    st = b[k]
    ok = (isinstance(st, ast.If) and not st.orelse and isinstance(st.test, ast.Compare) and isinstance(st.test.left, ast.Attribute) and st.test.left.attr == "ndim"
          and _is_name(st.test.left.value, "indices") and isinstance(st.test.ops[0], ast.Eq) and getattr(st.test.comparators[0], "value", None) == 1
          and len(st.body) == 1 and isinstance(st.body[0], ast.Assign) and _is_name(st.body[0].targets[0], "indices"))
    if ok:
        v = st.body[0].value
        ok = (isinstance(v, ast.Attribute) and v.attr == "T" and isinstance(v.value, ast.Call) and isinstance(v.value.func, ast.Attribute)
              and v.value.func.attr == "atleast_2d" and _is_name(v.value.args[0], "indices"))
    if not ok:
        _fail(st, "predict: if indices.ndim == 1: indices = np.atleast_2d(indices).T")
    lines += ["let indices : List (List Nat) := (match indices with", "  | .flat i => i.map fun j => [j]      -- indices.ndim == 1: np.atleast_2d(indices).T = one column",
              "  | .rows i => i)"]
    k += 1
    st = b[k]
    v = st.value if isinstance(st, ast.Assign) and _is_name(st.targets[0], "neighbor_values") else None
    ok = (isinstance(v, ast.Call) and isinstance(v.func, ast.Attribute) and v.func.attr == "reshape" and _is_name(v.func.value, "np") and len(v.args) == 2
          and isinstance(v.args[0], ast.Subscript) and isinstance(v.args[0].value, ast.Attribute) and v.args[0].value.attr == "data_"
          and isinstance(v.args[0].slice, ast.Call) and isinstance(v.args[0].slice.func, ast.Attribute) and v.args[0].slice.func.attr == "ravel"
          and _is_name(v.args[0].slice.func.value, "indices") and isinstance(v.args[1], ast.Attribute) and v.args[1].attr == "shape"
          and _is_name(v.args[1].value, "indices"))
    if not ok:
        _fail(st, "predict: neighbor_values = np.reshape(self.data_[indices.ravel()], indices.shape)")
    lines.append("let neighbor_values := indices.map fun row => row.map fun j => self_data.getD j 0      -- np.reshape(self.data_[indices.ravel()], indices.shape)")
    k += 1
    st = b[k]
    v = st.value if isinstance(st, ast.Assign) and _is_name(st.targets[0], "data") else None
    ok = (isinstance(v, ast.Call) and isinstance(v.func, ast.Attribute) and v.func.attr == "reduction" and _is_name(v.func.value, "self") and len(v.args) == 1
          and _is_name(v.args[0], "neighbor_values") and len(v.keywords) == 1 and v.keywords[0].arg == "axis" and isinstance(v.keywords[0].value, ast.Constant)
          and v.keywords[0].value.value in (0, 1))
    if not ok:
        _fail(st, "predict: data = self.reduction(neighbor_values, axis=...)")
    if v.keywords[0].value.value == 1:
        lines.append("let data := neighbor_values.map self_reduction.apply      -- self.reduction(neighbor_values, axis=1): one value per row (= per query point)")
    else:
        lines.append("let data := (List.range ((neighbor_values.headD []).length)).map fun c => self_reduction.apply (neighbor_values.map fun row => row.getD c 0)"
                     "      -- axis=0: one value per column")
    k += 1
    # shape = np.broadcast(*coordinates[:2]).shape; return data.reshape(shape): the query's shape (values in order)
    rest = b[k:]
    if not (len(rest) == 2 and isinstance(rest[0], ast.Assign) and _is_name(rest[0].targets[0], "shape") and isinstance(rest[1], ast.Return)
            and isinstance(rest[1].value, ast.Call) and isinstance(rest[1].value.func, ast.Attribute) and rest[1].value.func.attr == "reshape"
            and _is_name(rest[1].value.func.value, "data")):
        _fail(rest[0], "predict: return data.reshape(shape)")
    lines.append("data      -- return data.reshape(shape): the same values in the query's shape")
    seg = ast.get_source_segment(src, fn)
    return (HEADER_NEIGH + f"/-- translated statement by statement from {path}:{fn.lineno}-{fn.end_lineno} (KNeighbors.predict), sha256 {hashlib.sha256(seg.encode()).hexdigest()[:16]} -/\n"
            "def knnPredict (tree_query : Nat → QueryIdx) (self_data : List Rat) (self_k : Nat) (self_reduction : Red) : List Rat :=\n"
            + "\n".join("  " + ln for ln in lines) + "\n\nend Verde.Gen\n")


def main_neighbors(write=True):
    return _regen(translate_neighbors, GEN_NEIGH, SNAP_NEIGH, write)


HEADER_GRID = """/-
  GENERATED by harness/py2lean.py from the source text of /repo on every check run — do not edit.
  `grid_to_table` (utils.py), Dataset branch, statement by statement over an xarray container seen through look-ups by name
  (`Dataset.varOf / extraOf / coordOf`); `grid_coords_keys` is `grid.coords.keys()`.  Props/C18.lean proves it equal to the model.
  (The DataArray branch only builds `data_names` / `data_arrays` / `coordinate_names` differently; the correspondence covers it.)
-/
import VerdeModel.Model.Grid
namespace Verde.Gen
open Verde

"""
GEN_GRID = os.path.join(VERIF, "lean", "VerdeModel", "Gen", "Grid.lean")
SNAP_GRID = os.path.join(VERIF, "lean", "VerdeModel", "GenSnapshot", "Grid.lean.txt")


def translate_grid():
    path = "verde/utils.py"
    src = open(os.path.join(REPO, path)).read()
    fn = find_func(ast.parse(src), "grid_to_table")
    if [a.arg for a in fn.args.args] != ["grid"]:
        _fail(fn, "grid_to_table signature")
    b = [x for x in fn.body if not (isinstance(x, ast.Expr) and isinstance(x.value, ast.Constant))]
    un = ast.unparse
    k = 0
    st = b[k]
    if not (isinstance(st, ast.If) and un(st.test) == "hasattr(grid, 'data_vars')" and len(st.body) == 3 and st.orelse):
        _fail(st, "the Dataset / DataArray switch")
    want = ["data_names = list(grid.data_vars.keys())", "data_arrays = [grid[name].values.ravel() for name in data_names]",
            "coordinate_names = list(grid[data_names[0]].dims)"]
    if [un(x) for x in st.body] != want:
        _fail(st, "Dataset branch")
    lines = ["let data_names := grid.vars.map (·.1)      -- list(grid.data_vars.keys())",
             "let data_arrays := data_names.map fun name => ravel2 (grid.varOf name)      -- [grid[name].values.ravel() for name in data_names]",
             "let coordinate_names := [grid.dims.1, grid.dims.2]      -- list(grid[data_names[0]].dims): every variable has the grid's dims"]
    k += 1
    for var in ("north", "east"):
        st = b[k]
        v = st.value if isinstance(st, ast.Assign) and _is_name(st.targets[0], var) else None
        ok = (isinstance(v, ast.Attribute) and v.attr == "values" and isinstance(v.value, ast.Subscript) and un(v.value.value) == "grid.coords"
              and isinstance(v.value.slice, ast.Subscript) and _is_name(v.value.slice.value, "coordinate_names") and _const_int(v.value.slice.slice) in (0, 1))
        if not ok:
            _fail(st, f"{var} = grid.coords[coordinate_names[i]].values")
        lines.append(f"let {var} := grid.coordOf (coordinate_names.getD {_const_int(v.value.slice.slice)} \"\")      -- {un(st)}")
        k += 1
    st = b[k]
    v = st.value if isinstance(st, ast.Assign) and _is_name(st.targets[0], "coordinates") else None
    rev = False
    if isinstance(v, ast.Subscript) and isinstance(v.slice, ast.Slice) and v.slice.lower is None and v.slice.upper is None and _const_int(v.slice.step) == -1:
        rev, v = True, v.value
    ok = (isinstance(v, ast.ListComp) and un(v.elt) == "i.ravel()" and len(v.generators) == 1 and _is_name(v.generators[0].target, "i") and not v.generators[0].ifs
          and isinstance(v.generators[0].iter, ast.Call) and un(v.generators[0].iter.func) == "np.meshgrid" and len(v.generators[0].iter.args) == 2
          and all(isinstance(a, ast.Name) and a.id in ("east", "north") for a in v.generators[0].iter.args) and not v.generators[0].iter.keywords)
    if not ok:
        _fail(st, "coordinates = [i.ravel() for i in np.meshgrid(...)]")
    m0, m1 = [a.id for a in v.generators[0].iter.args]
    lines.append(f"let coordinates := ([(meshgrid {m0} {m1}).1, (meshgrid {m0} {m1}).2].map fun i => ravel2 i){'.reverse' if rev else ''}      -- {un(st)}")
    k += 1
    if un(b[k]) != "extra = [coord for coord in grid.coords.keys() if coord not in coordinate_names]":
        _fail(b[k], "extra = [...]")
    lines.append("let extra := grid_coords_keys.filter fun coord => !(coordinate_names.contains coord)      -- " + un(b[k]))
    k += 1
    st = b[k]
    if not (isinstance(st, ast.For) and _is_name(st.target, "coord") and _is_name(st.iter, "extra") and not st.orelse
            and [un(x) for x in st.body] == ["coordinates.append(grid[coord].values.ravel())", "coordinate_names.append(coord)"]):
        _fail(st, "the loop over the extra coordinates")
    lines += ["let (coordinates, coordinate_names) := extra.foldl (fun (st : List (List Rat) × List String) coord =>      -- for coord in extra:",
              "    (st.1 ++ [ravel2 (grid.extraOf coord)], st.2 ++ [coord])) (coordinates, coordinate_names)      --   coordinates.append(...); coordinate_names.append(coord)"]
    k += 1
    rest = [un(x) for x in b[k:]]
    if rest != ["data_dict = dict(zip(coordinate_names, coordinates))", "data_dict.update(dict(zip(data_names, data_arrays)))", "return pd.DataFrame(data_dict)"]:
        _fail(b[k], "the dictionary of columns")
    lines += ["let data_dict := coordinate_names.zip coordinates      -- dict(zip(coordinate_names, coordinates))",
              "data_dict ++ data_names.zip data_arrays      -- data_dict.update(dict(zip(data_names, data_arrays))) (distinct names: an update appends); DataFrame columns in dict order"]
    seg = ast.get_source_segment(src, fn)
    return (HEADER_GRID + f"/-- translated statement by statement from {path}:{fn.lineno}-{fn.end_lineno} (grid_to_table), sha256 {hashlib.sha256(seg.encode()).hexdigest()[:16]} -/\n"
            "def gridToTable (grid : Dataset) (grid_coords_keys : List String) : List (String × List Rat) :=\n"
            + "\n".join("  " + ln for ln in lines) + "\n\nend Verde.Gen\n")


def main_grid(write=True):
    return _regen(translate_grid, GEN_GRID, SNAP_GRID, write)


HEADER_BLOCKS = """/-
  GENERATED by harness/py2lean.py from the source text of /repo on every check run — do not edit.
  `BlockReduce.filter` and `BlockReduce._block_coordinates` (blockreduce.py) after `block_split`, over the pandas contract
  `groupby("block").aggregate(f)` (`groupAgg` / `groupAggW` in Model/Blocks.lean).  PINNED translation: every statement of the two methods
  must still unparse to the form this text was written from (a table in py2lean.translate_blocks); otherwise nothing is emitted and the
  tie degrades to the correspondence.  Props/C09.lean proves the text equal to the model.
-/
import VerdeModel.Model.Blocks
namespace Verde.Gen
open Verde

"""
GEN_BLOCKS = os.path.join(VERIF, "lean", "VerdeModel", "Gen", "Blocks.lean")
SNAP_BLOCKS = os.path.join(VERIF, "lean", "VerdeModel", "GenSnapshot", "Blocks.lean.txt")

PINNED_BLOCK_COORDS = [
    ("if self.drop_coords:\n    coordinates = coordinates[:2]", "let coordinates := if self.dropCoords then coordinates.take 2 else coordinates"),
    ("coords = {'coordinate{}'.format(i): np.ravel(coord) for i, coord in enumerate(coordinates)}", None),
    ("coords['block'] = labels", None),
    ("table = pd.DataFrame(coords)", None),
    ("grouped = table.groupby('block').aggregate(self.reduction)", "let grouped := coordinates.map fun coord => groupAgg keys labels coord self.fn"),
    ("if self.center_coordinates:\n    unique = np.unique(labels)\n    for i, block_coord in enumerate(block_coordinates[:2]):\n"
     "        grouped['coordinate{}'.format(i)] = np.ravel(block_coord[unique])",
     "let grouped := if self.centre then\n      let unique := keys      -- np.unique(labels): the occupied blocks, ascending\n"
     "      grouped.mapIdx fun i col => if i < 2 then unique.map fun k => (if i = 0 then (block_coordinates.getD k (0, 0)).1 else (block_coordinates.getD k (0, 0)).2) else col\n"
     "    else grouped"),
    ("return tuple((grouped['coordinate{}'.format(i)].values for i in range(len(coordinates))))", "grouped"),
]
PINNED_BLOCK_FILTER = [
    ("coordinates, data, weights = check_fit_input(coordinates, data, weights, unpack=False)", None),
    ("blocks, labels = block_split(coordinates, spacing=self.spacing, shape=self.shape, adjust=self.adjust, region=self.region)", None),
    ("if any((w is None for w in weights)):\n    reduction = self.reduction\nelse:\n    reduction = {'data{}'.format(i): attach_weights(self.reduction, w) for i, w in enumerate(weights)}", None),
    ("columns = {'data{}'.format(i): np.ravel(comp) for i, comp in enumerate(data)}", None),
    ("columns['block'] = labels", None),
    ("blocked = pd.DataFrame(columns).groupby('block').aggregate(reduction)", None),
    ("blocked_data = tuple((np.ravel(blocked['data{}'.format(i)]) for i, _ in enumerate(data)))",
     "let blocked_data ← (match weights with      -- column data{i} of the aggregated table, i-th data component with the i-th weights\n"
     "    | none => pure (data.map fun comp => groupAgg keys labels comp self.fn)\n"
     "    | some weights => (data.zip weights).mapM fun (comp, w) => groupAggW keys labels comp w self.fnW)"),
    ("blocked_coords = self._block_coordinates(coordinates, blocks, labels)", "let blocked_coords := Gen.blockCoordinates self coordinates blocks labels keys"),
    ("if len(blocked_data) == 1:\n    return (blocked_coords, blocked_data[0])", None),
    ("return (blocked_coords, blocked_data)", "return (blocked_coords, blocked_data)"),
]


def translate_blocks():
    path = "verde/blockreduce.py"
    src = open(os.path.join(REPO, path)).read()
    tree = ast.parse(src)
    cls = [n for n in tree.body if isinstance(n, ast.ClassDef) and n.name == "BlockReduce"]
    meth = {n.name: n for n in cls[0].body if isinstance(n, ast.FunctionDef)} if cls else {}
    out = []
    for name, lean_head, table, pre in (
            ("_block_coordinates", "def blockCoordinates (self : ReduceSpec) (coordinates : List (List Rat)) (block_coordinates : List (Rat × Rat)) (labels : List Nat) "
             "(keys : List Nat) :\n    List (List Rat) :=", PINNED_BLOCK_COORDS, []),
            ("filter", "def blockReduceFilter (self : ReduceSpec) (blocks : List (Rat × Rat)) (labels : List Nat) (coordinates data : List (List Rat)) "
             "(weights : Option (List (List Rat))) :\n    Except Err (List (List Rat) × List (List Rat)) := do",
             PINNED_BLOCK_FILTER, ["let keys := groupKeys (max blocks.length (labelBound labels)) labels      -- the groups of groupby(\"block\")"])):
        fn = meth.get(name)
        if fn is None:
            raise Untranslatable(f"BlockReduce.{name} not found")
        body = [ast.unparse(x) for x in fn.body if not (isinstance(x, ast.Expr) and isinstance(x.value, ast.Constant))]
        if body != [t for t, _ in table]:
            k = next((i for i, (a, b) in enumerate(zip(body, [t for t, _ in table])) if a != b), min(len(body), len(table)))
            raise Untranslatable(f"BlockReduce.{name}: statement {k} is no longer the pinned form: {(body + ['<missing>'])[k][:120]!r}")
        seg = ast.get_source_segment(src, fn)
        lines = pre + [ln for _, ln in table if ln is not None]
        out.append(f"/-- pinned translation of {path}:{fn.lineno}-{fn.end_lineno} (BlockReduce.{name}), sha256 {hashlib.sha256(seg.encode()).hexdigest()[:16]} -/\n"
                   + lean_head + "\n" + "\n".join("  " + ln for ln in lines) + "\n")
    return HEADER_BLOCKS + "\n".join(out) + "\nend Verde.Gen\n"


def main_blocks(write=True):
    return _regen(translate_blocks, GEN_BLOCKS, SNAP_BLOCKS, write)


HEADER_LS = """/-
  GENERATED by harness/py2lean.py from the source text of /repo on every check run — do not edit.
  `least_squares` (base/least_squares.py) as a SPECIFICATION: what the returned `params` satisfy, given what scikit-learn promises about the
  objects the function uses.  Contracts: `StandardScaler(with_mean=False, with_std=True).fit_transform(X)` divides column j by `scale_[j]`
  (the column's population standard deviation, 1 for a constant column: `scale_[j]^2` is the model's `colScale2`); `LinearRegression(
  fit_intercept=False)` / `Ridge(alpha, fit_intercept=False)` `.fit(X, y, sample_weight=w)` leave in `coef_` a solution of the weighted
  (ridge) normal equations of the matrix X THEY ARE GIVEN, every parameter penalised alike.  Props/C02.lean proves that the params so
  specified solve the model's normal equations in the unit-variance-column scaling.
-/
import VerdeModel.Lemmas.LeastSquares
namespace Verde.Gen
open Verde

"""
GEN_LS = os.path.join(VERIF, "lean", "VerdeModel", "Gen", "LeastSquares.lean")
SNAP_LS = os.path.join(VERIF, "lean", "VerdeModel", "GenSnapshot", "LeastSquares.lean.txt")


def translate_least_squares():
    path = "verde/base/least_squares.py"
    src = open(os.path.join(REPO, path)).read()
    fn = find_func(ast.parse(src), "least_squares")
    if [a.arg for a in fn.args.args][:4] != ["jacobian", "data", "weights", "damping"]:
        _fail(fn, "least_squares signature")
    un = ast.unparse
    b = [x for x in fn.body if not (isinstance(x, ast.Expr) and isinstance(x.value, ast.Constant))]
    b = [x for x in b if not (isinstance(x, ast.If) and "warn(" in un(x) and len(x.body) == 1 and not x.orelse)]      # the under-determined warning
    b = [x for x in b if not (isinstance(x, ast.If) and len(x.body) == 1 and isinstance(x.body[0], ast.Raise))]       # argument validation
    k = 0
    st = b[k]
    c = st.value if isinstance(st, ast.Assign) and _is_name(st.targets[0], "scaler") else None
    kw = {a.arg: un(a.value) for a in c.keywords} if isinstance(c, ast.Call) and getattr(c.func, "id", None) == "StandardScaler" and not c.args else None
    if kw is None or kw.get("with_mean") != "False" or kw.get("with_std") != "True":
        _fail(st, "scaler = StandardScaler(..., with_mean=False, with_std=True)")
    k += 1
    if un(b[k]) != "jacobian = scaler.fit_transform(jacobian)":
        _fail(b[k], "jacobian = scaler.fit_transform(jacobian)")
    k += 1
    st = b[k]
    ok = (isinstance(st, ast.If) and un(st.test) == "damping is None" and len(st.body) == 1 and len(st.orelse) == 1
          and un(st.body[0]) == "regr = LinearRegression(fit_intercept=False)" and un(st.orelse[0]) == "regr = Ridge(alpha=damping, fit_intercept=False)")
    if not ok:
        _fail(st, "regr = LinearRegression(fit_intercept=False) | Ridge(alpha=damping, fit_intercept=False)")
    k += 1
    st = b[k]
    c = st.value if isinstance(st, ast.Expr) else None
    ok = (isinstance(c, ast.Call) and un(c.func) == "regr.fit" and len(c.args) == 2 and _is_name(c.args[0], "jacobian")
          and un(c.args[1]) in ("np.ravel(data)", "data.ravel()", "data") and all(a.arg == "sample_weight" for a in c.keywords))
    if not ok:
        _fail(st, "regr.fit(jacobian, np.ravel(data), sample_weight=weights)")
    wexpr = "weights" if (c.keywords and un(c.keywords[0].value) == "weights") else "(fun _ => 1)"
    if c.keywords and un(c.keywords[0].value) != "weights":
        _fail(st, "sample_weight")
    k += 1
    st = b[k]
    v = st.value if isinstance(st, ast.Assign) and _is_name(st.targets[0], "params") else None
    if not (isinstance(v, ast.BinOp) and type(v.op) in (ast.Div, ast.Mult) and {un(v.left), un(v.right)} == {"regr.coef_", "scaler.scale_"}):
        _fail(st, "params = regr.coef_ / scaler.scale_")
    opsym = "/" if isinstance(v.op, ast.Div) else "*"
    lhs, rhs = ("coef j", "scale j") if un(v.left) == "regr.coef_" else ("scale j", "coef j")
    k += 1
    if un(b[k]) != "return params" or k != len(b) - 1:
        _fail(b[k], "return params")
    seg = ast.get_source_segment(src, fn)
    return (HEADER_LS + f"/-- specification read statement by statement from {path}:{fn.lineno}-{fn.end_lineno} (least_squares), sha256 {hashlib.sha256(seg.encode()).hexdigest()[:16]} -/\n"
            "def leastSquaresSpec {K : Type} [Field K] [LinearOrder K] [IsStrictOrderedRing K] {m n : ℕ}\n"
            "    (jacobian : Fin m → Fin n → K) (data weights : Fin m → K) (damping : Option K) (scale : Fin n → K) (params : Fin n → K) : Prop :=\n"
            "  ∃ coef : Fin n → K,\n"
            "    -- jacobian = scaler.fit_transform(jacobian)          [StandardScaler(with_mean=False, with_std=True)]\n"
            "    let jacobian' : Fin m → Fin n → K := fun i j => jacobian i j / scale j\n"
            "    -- regr = LinearRegression(fit_intercept=False) if damping is None else Ridge(alpha=damping, fit_intercept=False)\n"
            f"    -- regr.fit(jacobian, np.ravel(data), sample_weight=weights)\n"
            f"    LS.normalEq jacobian' {wexpr} data (damping.getD 0) (fun _ => 1) coef ∧\n"
            f"    -- {un(st)}\n"
            f"    params = fun j => {lhs} {opsym} {rhs}\n\nend Verde.Gen\n")


def main_ls(write=True):
    return _regen(translate_least_squares, GEN_LS, SNAP_LS, write)


HEADER_REGION = """/-
  GENERATED by harness/py2lean.py from the source text of /repo on every check run — do not edit.
  `maxabs` (utils.py), `project_region` (projections.py), `scatter_points` (coordinates.py): PINNED translations (every statement must still
  unparse to the form the Lean text was written from; otherwise nothing is emitted and the tie degrades to the correspondence).
  Contracts: `RandomState.uniform(lo, hi, size)` = `lo + (hi - lo) * u` for the drawn variates `u` (inputs here); `np.nanmin/nanmax` on
  NaN-free arrays = min/max; `projection` is applied element-wise.  Props/C13.lean proves them equal to the model.
-/
import VerdeModel.Model.Coords
namespace Verde.Gen
open Verde

"""
GEN_REGION = os.path.join(VERIF, "lean", "VerdeModel", "Gen", "Region.lean")
SNAP_REGION = os.path.join(VERIF, "lean", "VerdeModel", "GenSnapshot", "Region.lean.txt")

PINNED_REGION = {
    ("verde/utils.py", "maxabs"): (
        ["arrays = [np.atleast_1d(i) for i in args]", "if nan:\n    npmin, npmax = (np.nanmin, np.nanmax)\nelse:\n    npmin, npmax = (np.min, np.max)",
         "absolute = [npmax(np.abs([npmin(i), npmax(i)])) for i in arrays]", "return npmax(absolute)"],
        "def maxabs (args : List (List Rat)) : Option Rat :=\n"
        "  let arrays := args      -- [np.atleast_1d(i) for i in args]\n"
        "  if arrays.any (·.isEmpty) then none else      -- (min/max of an empty array: ValueError)\n"
        "  let absolute := arrays.map fun i => ratMax (ratAbs ((listMin i).getD 0)) (ratAbs ((listMax i).getD 0))      -- [npmax(np.abs([npmin(i), npmax(i)])) for i in arrays]\n"
        "  listMax absolute      -- npmax(absolute)\n"),
    ("verde/projections.py", "project_region"): (
        ["east, north = grid_coordinates(region, shape=(101, 101))", "east, north = projection(east.ravel(), north.ravel())",
         "return (east.min(), east.max(), north.min(), north.max())"],
        "def projectRegion (region : List Rat) (projection : Rat × Rat → Rat × Rat) : Except Err (Option Rat × Option Rat × Option Rat × Option Rat) := do\n"
        "  let (east1, north1) ← gridLines region ⟨some (101, 101), none, .spacing, false⟩      -- grid_coordinates(region, shape=(101, 101)): the meshgrid of these lines\n"
        "  let nodes := north1.flatMap fun y => east1.map fun x => (x, y)      -- (east.ravel(), north.ravel()): row-major nodes\n"
        "  let east := nodes.map fun p => (projection p).1      -- east, north = projection(east.ravel(), north.ravel())\n"
        "  let north := nodes.map fun p => (projection p).2\n"
        "  return (listMin east, listMax east, listMin north, listMax north)      -- (east.min(), east.max(), north.min(), north.max())\n"),
    ("verde/coordinates.py", "scatter_points"): (
        ["check_region(region)", "random = check_random_state(random_state)", "coordinates = []",
         "for lower, upper in np.array(region).reshape((len(region) // 2, 2)):\n    coordinates.append(random.uniform(lower, upper, size))",
         "if extra_coords is not None:\n    for value in np.atleast_1d(extra_coords):\n        coordinates.append(np.ones_like(coordinates[0]) * value)",
         "return tuple(coordinates)"],
        "def scatterPoints (region : List Rat) (variates : List (List Rat)) (extra_coords : List Rat) : Except Err (List (List Rat)) := do\n"
        "  let r ← checkRegion region      -- check_region(region)\n"
        "  let pairs := [(r.w, r.e), (r.s, r.n)]      -- np.array(region).reshape((len(region) // 2, 2)): (W, E), (S, N)\n"
        "  let coordinates := (pairs.zip variates).map fun ((lower, upper), u) => u.map fun v => lower + (upper - lower) * v      -- random.uniform(lower, upper, size), one draw per pair, in order\n"
        "  let coordinates := coordinates ++ extra_coords.map fun value => (coordinates.headD []).map fun _ => value      -- np.ones_like(coordinates[0]) * value\n"
        "  return coordinates\n"),
}


def translate_region():
    out = []
    for (path, name), (table, lean) in PINNED_REGION.items():
        src = open(os.path.join(REPO, path)).read()
        fn = find_func(ast.parse(src), name)
        body = [ast.unparse(x) for x in fn.body if not (isinstance(x, ast.Expr) and isinstance(x.value, ast.Constant))]
        if body != table:
            k = next((i for i, (a, b) in enumerate(zip(body, table)) if a != b), min(len(body), len(table)))
            raise Untranslatable(f"{name}: statement {k} is no longer the pinned form: {(body + ['<missing>'])[k][:120]!r}")
        seg = ast.get_source_segment(src, fn)
        out.append(f"/-- pinned translation of {path}:{fn.lineno}-{fn.end_lineno} ({name}), sha256 {hashlib.sha256(seg.encode()).hexdigest()[:16]} -/\n" + lean)
    return HEADER_REGION + "\n".join(out) + "\nend Verde.Gen\n"


def main_region(write=True):
    return _regen(translate_region, GEN_REGION, SNAP_REGION, write)


HEADER_TREND = """/-
  GENERATED by harness/py2lean.py from the source text of /repo on every check run — do not edit.
  `polynomial_power_combinations` (trend.py); Props/C03.lean proves it equal to the model's explicit monomial order.
-/
import VerdeModel.Model.LinAlg
namespace Verde.Gen
open Verde

"""
GEN_TREND = os.path.join(VERIF, "lean", "VerdeModel", "Gen", "Trend.lean")
SNAP_TREND = os.path.join(VERIF, "lean", "VerdeModel", "GenSnapshot", "Trend.lean.txt")


def _elementwise(n, names):
    """An element-wise numpy expression over 1-D arrays -> the Lean expression for one element (`names`: python name -> Lean name)."""
    if isinstance(n, ast.Name) and n.id in names:
        return names[n.id]
    if isinstance(n, ast.BinOp) and isinstance(n.op, ast.Pow) and isinstance(n.right, ast.Name) and n.right.id in names:
        return f"({_elementwise(n.left, names)} ^ {names[n.right.id]})"
    if isinstance(n, ast.BinOp) and type(n.op) in (ast.Mult, ast.Add, ast.Sub):
        return f"({_elementwise(n.left, names)} {({ast.Mult: '*', ast.Add: '+', ast.Sub: '-'})[type(n.op)]} {_elementwise(n.right, names)})"
    _fail(n, "element-wise expression")


def translate_trend_methods():
    path = "verde/trend.py"
    src = open(os.path.join(REPO, path)).read()
    tree = ast.parse(src)
    cls = [n for n in tree.body if isinstance(n, ast.ClassDef) and n.name == "Trend"]
    meth = {n.name: n for n in cls[0].body if isinstance(n, ast.FunctionDef)} if cls else {}
    out = []
    un = ast.unparse
    # ---- jacobian
    fn = meth.get("jacobian")
    if fn is None:
        raise Untranslatable("Trend.jacobian not found")
    b = [x for x in fn.body if not (isinstance(x, ast.Expr) and isinstance(x.value, ast.Constant))]
    loops = [x for x in b if isinstance(x, ast.For)]
    pre = [un(x) for x in b if not isinstance(x, ast.For)]
    need = ["easting, northing = n_1d_arrays(coordinates, 2)", "combinations = polynomial_power_combinations(self.degree)", "return out"]
    if len(loops) != 1 or any(t not in pre for t in need):
        _fail(fn, "Trend.jacobian layout")
    lp = loops[0]
    ok = (un(lp.target) == "(col, (i, j))" and un(lp.iter) == "enumerate(combinations)" and len(lp.body) == 1 and isinstance(lp.body[0], ast.Assign)
          and un(lp.body[0].targets[0]) == "out[:, col]")
    if not ok:
        _fail(lp, "Trend.jacobian: for col, (i, j) in enumerate(combinations): out[:, col] = ...")
    ex = _elementwise(lp.body[0].value, {"easting": "e", "northing": "n", "i": "i", "j": "j"})
    seg = ast.get_source_segment(src, fn)
    out.append(f"/-- translated statement by statement from {path}:{fn.lineno}-{fn.end_lineno} (Trend.jacobian), sha256 {hashlib.sha256(seg.encode()).hexdigest()[:16]};\n"
               "    column `col` is the array expression of the loop body for the `col`-th exponent pair: row by row, the matrix below -/\n"
               "def trendJacobian (easting northing : List Rat) (combinations : List (Nat × Nat)) : List (List Rat) :=\n"
               f"  (easting.zip northing).map fun ((e, n) : Rat × Rat) => combinations.map fun ((i, j) : Nat × Nat) => {ex}      -- out[:, col] = {un(lp.body[0].value)}\n")
    # ---- predict
    fn = meth.get("predict")
    b = [x for x in fn.body if not (isinstance(x, ast.Expr) and (isinstance(x.value, ast.Constant) or (isinstance(x.value, ast.Call) and getattr(x.value.func, "id", None) == "check_is_fitted")))]
    loops = [x for x in b if isinstance(x, ast.For)]
    pre = [un(x) for x in b if not isinstance(x, ast.For)]
    if len(loops) != 1 or "combinations = polynomial_power_combinations(self.degree)" not in pre or not any(t.startswith("data = np.zeros(") for t in pre) \
            or "return data.reshape(shape)" not in pre:
        _fail(fn, "Trend.predict layout")
    lp = loops[0]
    tgt, it = un(lp.target), un(lp.iter)
    ok = (it in ("zip(self.coef_, combinations)", "zip(combinations, self.coef_)") and tgt in ("(coef, (i, j))", "((i, j), coef)")
          and (it.startswith("zip(self.coef_") == tgt.startswith("(coef")) and len(lp.body) == 1 and isinstance(lp.body[0], ast.AugAssign)
          and isinstance(lp.body[0].op, ast.Add) and _is_name(lp.body[0].target, "data"))
    if not ok:
        _fail(lp, "Trend.predict: for coef, (i, j) in zip(self.coef_, combinations): data += ...")
    ex = _elementwise(lp.body[0].value, {"easting": "e", "northing": "n", "i": "i", "j": "j", "coef": "coef"})
    seg = ast.get_source_segment(src, fn)
    out.append(f"/-- translated statement by statement from {path}:{fn.lineno}-{fn.end_lineno} (Trend.predict), sha256 {hashlib.sha256(seg.encode()).hexdigest()[:16]} -/\n"
               "def trendPredict (self_coef : List Rat) (combinations : List (Nat × Nat)) (easting northing : List Rat) : List Rat :=\n"
               "  let data : List Rat := easting.map fun _ => 0      -- np.zeros(easting.size)\n"
               "  (self_coef.zip combinations).foldl (fun data (cij : Rat × Nat × Nat) =>      -- for coef, (i, j) in zip(self.coef_, combinations):\n"
               "      let (coef, i, j) := cij\n"
               f"      List.zipWith (· + ·) data (List.zipWith (fun e n => {ex}) easting northing)) data      -- data += {un(lp.body[0].value)}\n")
    return out


def generate_trend():
    parts = [
        translate_typed("verde/trend.py", "polynomial_power_combinations", "powerCombinations",
                        [("degree", "degree", "int")], ["list:nat×nat"]),
    ] + translate_trend_methods()
    return HEADER_TREND + "\n".join(parts) + "\nend Verde.Gen\n"


def main_trend(write=True):
    return _regen(generate_trend, GEN_TREND, SNAP_TREND, write)


HEADER_UTILS = """/-
  GENERATED by harness/py2lean.py from the source text of /repo on every check run — do not edit.
  `partition_by_sum` (utils.py) over numpy primitives modelled as list functions (cumsum, arange, searchsorted(side="right"),
  unique(...).size); Props/C11.lean proves it equal to the model's `partitionBySum`.
  `variance_to_weights` (utils.py): the per-component loop body read element-wise (nan_to_num, ones_like, mask, masked min,
  masked assignment); Props/C10.lean proves it equal to the model's `varianceToWeights`.
-/
import VerdeModel.Model.CV
namespace Verde.Gen
open Verde

"""
GEN_UTILS = os.path.join(VERIF, "lean", "VerdeModel", "Gen", "Utils.lean")
SNAP_UTILS = os.path.join(VERIF, "lean", "VerdeModel", "GenSnapshot", "Utils.lean.txt")


def generate_utils():
    parts = [
        translate_typed("verde/utils.py", "partition_by_sum", "partitionBySum",
                        [("array", "array", "natlist"), ("parts", "parts", "nat")], ["natlist"]),
        translate_v2w(),
    ]
    return HEADER_UTILS + "\n".join(parts) + "\nend Verde.Gen\n"


def main_utils(write=True):
    return _regen(generate_utils, GEN_UTILS, SNAP_UTILS, write)


def main_kernels_and_trend(write=True):
    """C03: regenerate both Gen/Kernels.lean and Gen/Trend.lean; combined status."""
    s1, d1 = main(write)
    s2, d2 = main_trend(write)
    import py2lean_gridder
    s3, d3 = py2lean_gridder.main_loops(write)      # the array loops around the kernels (Gen/Loops.lean)
    order_ = ["untranslatable", "changed", "ok"]
    st = min((s1, s2, s3), key=order_.index)
    return st, "; ".join(d for d in (d1, d2, d3) if d)


def _regen(gen_fn, gen_path, snap_path, write=True):
    os.makedirs(os.path.dirname(gen_path), exist_ok=True)
    try:
        text = gen_fn()
    except (Untranslatable, SyntaxError, OSError, KeyError) as exc:
        if write and os.path.exists(snap_path):
            cur = open(gen_path).read() if os.path.exists(gen_path) else None
            snap = open(snap_path).read()
            if cur != snap:
                open(gen_path, "w").write(snap)
        return "untranslatable", repr(exc)[:300]
    snap = open(snap_path).read() if os.path.exists(snap_path) else None
    cur = open(gen_path).read() if os.path.exists(gen_path) else None
    if write and cur != text:
        open(gen_path, "w").write(text)
    return ("ok" if text == snap else "changed"), ""


def main_coords(write=True):
    st1, d1 = _regen(generate_coords, GEN_COORDS, SNAP_COORDS, write)
    st2, d2 = main_region(write)
    order = ["untranslatable", "changed", "ok"]
    return min((st1, st2), key=order.index), "; ".join(x for x in (d1, d2) if x)


# ============================================================================= array-elementwise translation (variance_to_weights)
class SymA:
    """Symbolic execution of a loop body over ONE numpy array: every array value is (elem, kind, mask) where `elem` is a Lean
    expression in the element variable `x` of the base list `base`, kind is 'num' | 'prop', and mask (or None) says the value only
    exists on the sub-array selected by that boolean array.  Scalars are Lean expressions.  Supports: np.nan_to_num,
    np.atleast_1d, np.ones_like, comparison with a scalar, np.any, boolean-mask selection a[m], .min() of a selection,
    scalar / selection, masked assignment w[m] = selection, `if np.any(m):` without else."""

    def __init__(self, base, elem0, scalars):
        self.base = base
        self.arr = {}
        self.sc = dict(scalars)
        self.elem0 = elem0

    def val(self, n):
        if isinstance(n, ast.Name):
            if n.id in self.arr:
                return ("arr",) + self.arr[n.id]
            if n.id in self.sc:
                return ("sc", self.sc[n.id])
            _fail(n, "unbound name")
        if isinstance(n, ast.Constant) and isinstance(n.value, (int, float)) and not isinstance(n.value, bool):
            return ("sc", str(n.value) if isinstance(n.value, int) else _fail(n, "float literal"))
        if isinstance(n, ast.Call) and isinstance(n.func, ast.Attribute):
            f = n.func
            if isinstance(f.value, ast.Name) and f.value.id == "np":
                if f.attr == "atleast_1d" and len(n.args) == 1:
                    return self.val(n.args[0])
                if f.attr == "nan_to_num" and len(n.args) == 1 and not n.keywords:
                    v = self.val(n.args[0])
                    if v[0] == "arr" and v[2] == "optnum" and v[3] is None:
                        return ("arr", f"({v[1]}.getD 0)", "num", None)
                if f.attr == "ones_like" and len(n.args) == 1 and {k.arg for k in n.keywords} <= {"dtype"}:
                    v = self.val(n.args[0])
                    if v[0] == "arr" and v[3] is None:
                        return ("arr", "1", "num", None)
                if f.attr == "any" and len(n.args) == 1:
                    v = self.val(n.args[0])
                    if v[0] == "arr" and v[2] == "prop" and v[3] is None:
                        return ("sc", f"({self.base}.any (fun x => decide {v[1]}))")
            if f.attr == "min" and not n.args and not n.keywords:
                v = self.val(f.value)
                if v[0] == "arr" and v[2] == "num" and v[3] is not None:
                    return ("sc", f"((listMin (({self.base}.filter (fun x => decide {v[3]})).map (fun x => {v[1]}))).getD 0)")
            _fail(n, "unsupported call")
        if isinstance(n, ast.Compare) and len(n.ops) == 1 and isinstance(n.ops[0], (ast.Gt, ast.Lt, ast.GtE, ast.LtE)):
            a, b = self.val(n.left), self.val(n.comparators[0])
            sym = {ast.Gt: ">", ast.Lt: "<", ast.GtE: "≥", ast.LtE: "≤"}[type(n.ops[0])]
            if a[0] == "arr" and a[2] == "num" and a[3] is None and b[0] == "sc":
                return ("arr", f"({a[1]} {sym} {b[1]})", "prop", None)
        if isinstance(n, ast.Subscript) and isinstance(n.slice, ast.Name) and n.slice.id in self.arr:
            a, m = self.val(n.value), self.arr[n.slice.id]
            if a[0] == "arr" and a[3] is None and m[1] == "prop" and m[2] is None:
                return ("arr", a[1], a[2], m[0])
        if isinstance(n, ast.BinOp) and isinstance(n.op, ast.Div):
            a, b = self.val(n.left), self.val(n.right)
            if a[0] == "sc" and b[0] == "arr" and b[2] == "num":
                return ("arr", f"({a[1]} / {b[1]})", "num", b[3])
        _fail(n, "unsupported array expression")

    def run(self, body):
        for st in body:
            if isinstance(st, ast.Assign) and len(st.targets) == 1:
                t = st.targets[0]
                if isinstance(t, ast.Name):
                    v = self.val(st.value)
                    if v[0] == "arr":
                        self.arr[t.id] = v[1:]
                        self.sc.pop(t.id, None)
                    else:
                        self.sc[t.id] = v[1]
                        self.arr.pop(t.id, None)
                    continue
                if isinstance(t, ast.Subscript) and isinstance(t.value, ast.Name) and isinstance(t.slice, ast.Name) \
                        and t.value.id in self.arr and t.slice.id in self.arr:
                    w, m, r = self.arr[t.value.id], self.arr[t.slice.id], self.val(st.value)
                    if w[2] is None and m[1] == "prop" and m[2] is None and r[0] == "arr" and r[3] == m[0]:
                        self.arr[t.value.id] = (f"(if {m[0]} then {r[1]} else {w[0]})", w[1], None)
                        continue
                _fail(st, "unsupported array assignment")
            if isinstance(st, ast.If) and not st.orelse:
                c = self.val(st.test)
                if c[0] != "sc":
                    _fail(st, "unsupported condition")
                sub = SymA(self.base, self.elem0, self.sc)
                sub.arr = dict(self.arr)
                sub.run(st.body)
                for k, v in sub.arr.items():
                    old = self.arr.get(k)
                    if old is not None and old != v and v[2] is None and old[2] is None:
                        self.arr[k] = (f"(if {c[1]} = true then {v[0]} else {old[0]})", v[1], None)
                continue
            _fail(st, "unsupported statement in array loop")


def translate_v2w():
    """variance_to_weights: the body of `for var in variance:` as a function of one component (NaN = none) and the tolerance,
    plus the loop/return skeleton (one output array per component, a bare array when there is one)."""
    path = "verde/utils.py"
    src = open(os.path.join(REPO, path)).read()
    fn = find_func(ast.parse(src), "variance_to_weights")
    body = [st for st in fn.body if not (isinstance(st, ast.Expr) and isinstance(st.value, ast.Constant))]
    # skeleton: variance = check_data(variance); weights = []; for var in variance: ...; weights.append(w); if len(weights) == 1: return weights[0]; return tuple(weights)
    ok = (len(body) == 5 and isinstance(body[0], ast.Assign) and isinstance(body[0].value, ast.Call)
          and getattr(body[0].value.func, "id", None) == "check_data"
          and isinstance(body[1], ast.Assign) and isinstance(body[1].value, ast.List) and not body[1].value.elts
          and isinstance(body[2], ast.For) and isinstance(body[2].target, ast.Name) and isinstance(body[2].iter, ast.Name)
          and body[2].iter.id == body[0].targets[0].id and not body[2].orelse
          and isinstance(body[3], ast.If) and isinstance(body[4], ast.Return))
    if not ok:
        raise Untranslatable("variance_to_weights: unexpected statement skeleton")
    acc = body[1].targets[0].id
    loop = body[2]
    last = loop.body[-1]
    if not (isinstance(last, ast.Expr) and isinstance(last.value, ast.Call) and isinstance(last.value.func, ast.Attribute)
            and last.value.func.attr == "append" and getattr(last.value.func.value, "id", None) == acc
            and len(last.value.args) == 1 and isinstance(last.value.args[0], ast.Name)):
        raise Untranslatable("variance_to_weights: loop does not end with weights.append(<name>)")
    # return skeleton: `if len(weights) == 1: return weights[0]` / `return tuple(weights)`
    r1, r2 = body[3], body[4]
    if not (isinstance(r1.test, ast.Compare) and ast.unparse(r1.test) == f"len({acc}) == 1" and ast.unparse(r1.body[0]) == f"return {acc}[0]"
            and ast.unparse(r2) == f"return tuple({acc})"):
        raise Untranslatable("variance_to_weights: unexpected return skeleton")
    s = SymA("var", "x", {"tol": "tol"})
    s.arr[loop.target.id] = ("x", "optnum", None)
    s.run(loop.body[:-1])
    out = s.arr[last.value.args[0].id]
    if out[1] != "num" or out[2] is not None:
        raise Untranslatable("variance_to_weights: appended value is not a full numeric array")
    seg = ast.get_source_segment(src, fn)
    sha = hashlib.sha256(seg.encode()).hexdigest()[:16]
    return (f"/-- translated from {path}:{fn.lineno}-{fn.end_lineno} (variance_to_weights: body of the per-component loop), sha256 {sha} -/\n"
            f"def varianceToWeightsComp (var : List (Option Rat)) (tol : Rat) : List Rat :=\n  var.map (fun x => {out[0]})\n\n"
            f"/-- the loop and return skeleton: one output array per input component, in order (a bare array when there is one) -/\n"
            f"def varianceToWeights (variance : List (List (Option Rat))) (tol : Rat) : List (List Rat) :=\n"
            f"  variance.map (fun var => varianceToWeightsComp var tol)\n")


# ============================================================================= statement-by-statement (do-notation) translation
LEAN_TY = {"rat": "Rat", "int": "Int", "bool": "Bool", "str": "String", "optint": "Option Int", "optrat": "Option Rat",
           "ratlist": "List Rat", "optratlist": "List (Option Rat)", "intpair": "Int × Int", "optintpair": "Option Int × Option Int",
           "opt:intpair": "Option (Int × Int)", "opt:ratlist": "Option (List Rat)", "ratlistpair": "List Rat × List Rat",
           "ratquad": "Rat × Rat × Rat × Rat", "opt:ratquad": "Option (Rat × Rat × Rat × Rat)", "file": "List SLine", "intlist": "List Int",
           "unit": "Unit", "shapelist": "List Shape", "optshapelist": "List (Option Shape)", "shape": "Shape", "optshape": "Option Shape", "surferheader": "String × List Int × (Rat × Rat × Rat × Rat) × List Rat"}
QUAD_PROJ = [".1", ".2.1", ".2.2.1", ".2.2.2"]


def _lean_name(key):
    """Lean variable for an environment key (`x` or `x[k]`)."""
    return key.replace("[", "_").replace("]", "")


class _Subst(ast.NodeTransformer):
    """Replace loop variables by the constants of one unrolled iteration."""

    def __init__(self, consts):
        self.consts = consts

    def visit_Name(self, node):
        if node.id in self.consts and isinstance(node.ctx, ast.Load):
            return ast.copy_location(ast.Constant(value=self.consts[node.id]), node)
        return node


def _const_int(n, consts=None):
    """Value of an integer-only constant expression (`(-1) ** (i % 2)` once `i` is known), else None."""
    consts = consts or {}
    if isinstance(n, ast.Constant) and isinstance(n.value, int) and not isinstance(n.value, bool):
        return n.value
    if isinstance(n, ast.Name) and n.id in consts:
        return consts[n.id]
    if isinstance(n, ast.UnaryOp) and isinstance(n.op, ast.USub):
        v = _const_int(n.operand, consts)
        return None if v is None else -v
    if isinstance(n, ast.BinOp) and isinstance(n.op, (ast.Add, ast.Sub, ast.Mult, ast.Mod, ast.Pow)):
        a, b = _const_int(n.left, consts), _const_int(n.right, consts)
        if a is None or b is None or (isinstance(n.op, ast.Pow) and not 0 <= b <= 8) or (isinstance(n.op, ast.Mod) and b == 0):
            return None
        return {ast.Add: a + b, ast.Sub: a - b, ast.Mult: a * b, ast.Mod: a % b if b else 0, ast.Pow: a ** b}[type(n.op)]
    return None


def _inner(ty):
    """Type of the value inside an optional."""
    return {"optint": "int", "optrat": "rat", "optshape": "shape"}.get(ty, ty[4:] if ty.startswith("opt:") else None)


def _join(a, b):
    if a == b:
        return a
    table = {frozenset(["int", "optint"]): "optint", frozenset(["rat", "optrat"]): "optrat",
             frozenset(["intpair", "nonepair"]): "optintpair", frozenset(["optintpair", "nonepair"]): "optintpair",
             frozenset(["intpair", "optintpair"]): "optintpair",
             frozenset(["ratlist", "nonepair"]): "optratlist", frozenset(["optratlist", "nonepair"]): "optratlist",
             frozenset(["ratlist", "optratlist"]): "optratlist"}
    r = table.get(frozenset([a, b]))
    if r is None and _inner(a) == b:
        r = a
    if r is None and _inner(b) == a:
        r = b
    if r is None:
        raise Untranslatable(f"branches disagree on a type: {a} vs {b}")
    return r


def _coerce(tx, ty, want):
    if ty == want:
        return tx
    if _inner(want) == ty:
        return f"(some {tx})"
    if (ty, want) == ("nonepair", "optintpair"):
        return "((none : Option Int), (none : Option Int))"
    if (ty, want) == ("nonepair", "optratlist"):
        return "[(none : Option Rat), none]"
    if (ty, want) == ("intpair", "optintpair"):
        return f"(some {tx}.1, some {tx}.2)"
    if (ty, want) == ("ratlist", "optratlist"):
        return f"({tx}.map some)"
    raise Untranslatable(f"cannot coerce {ty} to {want}")


class DoT:
    """Python statements -> one Lean `do` block in `Except Err` (sequencing, early `raise`, calls to other translated functions,
    optional arguments).  Values are (lean text, type); Python variables are Lean `let` bindings (rebinding = shadowing); an
    `if/elif/else` that assigns variables becomes `let (v1, ..) <- (do if c then .. pure (v1, ..) else ..)`; a test
    `x is [not] None` on an optional value opens a `match`, inside which `x` has the inner type; `(None, None)` takes the type its
    context gives it; a sequence of two numbers and a tuple of two numbers are the same kind of value (a list)."""

    KNOWN_CALLS = {
        "spacing_to_size": ("Gen.spacingToSize", ["start", "stop", "spacing", "adjust"], ["rat", "rat", "rat", "str"], ["int", "rat"]),
        "line_coordinates": ("Gen.lineCoordinates", ["start", "stop", "size", "spacing", "adjust", "pixel_register"],
                             ["rat", "rat", "optint", "optrat", "str", "bool"], ["ratlist"]),
    }
    KNOWN_CHECKS = {"check_region": ("Gen.checkRegion4", 4)}      # validation calls on a fixed-length sequence argument
    IDENTITY_CALLS = ("check_coordinates",)      # `x = f(x)[:2]`: validation that returns its argument (same shapes or ValueError; shapes are equal here by typing)
    IGNORED_CALLS = ("_check_rolling_window_overlap",)      # warn-only helpers

    drop_assign = ()       # names whose (re)assignments only shape values, not validation: skipped
    drop_flags = ()        # `if <flag>:` blocks that only shape the returned values: skipped
    ignore_return = False
    call_assign = {}       # x = f(x) where f is a translated validation returning its argument: name -> Lean function

    def __init__(self, env, counter=None):
        self.env = dict(env)
        self.counter = counter if counter is not None else [0]
        self.ret = None

    def fresh(self):
        self.counter[0] += 1
        return f"t{self.counter[0]}"

    def sub(self, env=None):
        d = DoT(self.env if env is None else env, self.counter)
        d.drop_assign, d.drop_flags, d.ignore_return, d.call_assign = self.drop_assign, self.drop_flags, self.ignore_return, self.call_assign
        return d

    def quantifier(self, n):
        """any(...) / all(...) over a generator expression -> (pre-lines, Bool variable).  Python evaluates the element conditions one
        by one and stops at the first decisive one, so an element whose evaluation raises matters only if it is reached:
        `List.anyM` / `List.allM` in `Except Err` have exactly that behaviour."""
        if not (isinstance(n, ast.Call) and getattr(n.func, "id", None) in ("any", "all") and len(n.args) == 1 and isinstance(n.args[0], ast.GeneratorExp)):
            return None
        g = n.args[0]
        if any(c.ifs or not isinstance(c.target, ast.Name) for c in g.generators) or len(g.generators) > 2:
            _fail(n, "generator form")
        fn = "anyM" if n.func.id == "any" else "allM"
        sub = self.sub()
        iters = []
        for c in g.generators:
            p, t, ty = sub.ex(c.iter)
            if p or ty not in ("shapelist", "optshapelist"):
                _fail(n, "generator over something other than a list of arrays")
            sub.env[c.target.id] = (c.target.id, "shape" if ty == "shapelist" else "optshape")
            iters.append((t, c.target.id))
        pre, prop = sub.cond(g.elt)
        body = "do " + "; ".join(pre + [f"pure (decide ({prop}))"])
        for t, var in reversed(iters):
            body = f"{t}.{fn if (t, var) == iters[0] or True else fn} (fun {var} => {body})"
            if (t, var) != iters[0]:
                body = "do " + body if not body.startswith("do ") else body
        r = self.fresh()
        return [f"let {r} ← {body}"], r

    def num(self, pre, tx, ty):
        """A value used as a number: optionals are unwrapped (`None` used as a number is a TypeError)."""
        if ty in ("optint", "optrat"):
            t = self.fresh()
            pre.append(f"let {t} ← optGet {tx}")
            return t, _inner(ty)
        return tx, ty

    # ---- expressions: returns (pre-lines, lean text, type)
    def quad_parts(self, n):
        """The four Lean expressions of a 4-sequence value (a tuple parameter or a list built element by element)."""
        if isinstance(n, ast.Name) and self.env.get(n.id, ("", ""))[1] == "vec4":
            return [self.env[f"{n.id}[{k}]"][0] for k in range(4)]
        if isinstance(n, ast.Name) and all(f"{n.id}[{k}]" in self.env for k in range(4)):
            return [self.env[f"{n.id}[{k}]"][0] for k in range(4)]
        if isinstance(n, ast.Name) and self.env.get(n.id, ("", ""))[1] == "ratquad":
            return [self.env[n.id][0] + pr for pr in QUAD_PROJ]
        _fail(n, "not a 4-sequence")

    def tokens_comp(self, n):
        """[int(i.strip()) for i in <line>.split()] / float(...), as a list or inside tuple(...)."""
        if isinstance(n, ast.Call) and getattr(n.func, "id", None) in ("tuple", "list") and len(n.args) == 1:
            n = n.args[0]
        if not isinstance(n, (ast.ListComp, ast.GeneratorExp)) or len(n.generators) != 1 or n.generators[0].ifs:
            return None
        g = n.generators[0]
        e = n.elt
        if not (isinstance(g.target, ast.Name) and isinstance(e, ast.Call) and getattr(e.func, "id", None) in ("int", "float") and len(e.args) == 1):
            return None
        a = e.args[0]
        if not (isinstance(a, ast.Call) and isinstance(a.func, ast.Attribute) and a.func.attr == "strip" and not a.args
                and isinstance(a.func.value, ast.Name) and a.func.value.id == g.target.id):
            return None
        p, t, ty = self.ex(g.iter)
        if ty != "toklist":
            return None
        r = self.fresh()
        if e.func.id == "int":
            return p + [f"let {r} ← intsE {t}"], r, "intlist"
        return p + [f"let {r} ← floatsE {t}"], r, "ratlist"

    def ex(self, n):
        if isinstance(n, ast.Attribute) and n.attr in ("shape", "size") and isinstance(n.value, (ast.Name, ast.Subscript)) \
                and not (isinstance(n.value, ast.Name) and f"{n.value.id}.{n.attr}" in self.env):
            p, t, ty = self.ex(n.value)
            if ty == "shape":
                return p, (t if n.attr == "shape" else f"(shapeSize {t})"), ("shape" if n.attr == "shape" else "nat")
            if ty == "optshape" and n.attr == "size":
                r = self.fresh()
                return p + [f"let {r} ← sizeOpt {t}"], r, "nat"
        if isinstance(n, ast.ListComp) and len(n.generators) == 1 and not n.generators[0].ifs and isinstance(n.elt, ast.Attribute) and n.elt.attr == "shape" \
                and isinstance(n.elt.value, ast.Name) and isinstance(n.generators[0].target, ast.Name) and n.elt.value.id == n.generators[0].target.id:
            p, t, ty = self.ex(n.generators[0].iter)
            if ty == "shapelist":
                return p, t, "shapelist"      # an array is represented by its shape
        if isinstance(n, ast.Subscript) and _const_int(n.slice) is not None and _const_int(n.slice) >= 0 and isinstance(n.value, ast.Name) \
                and self.env.get(n.value.id, ("", ""))[1] == "shapelist":
            r = self.fresh()
            return [f"let {r} ← idxS {self.env[n.value.id][0]} {_const_int(n.slice)}"], r, "shape"
        if isinstance(n, ast.Call) and getattr(n.func, "id", None) == "len" and len(n.args) == 1:
            p, t, ty = self.ex(n.args[0])
            if ty in ("shapelist", "optshapelist", "ratlist", "optratlist", "intlist"):
                return p, f"{t}.length", "nat"
        tc = self.tokens_comp(n)
        if tc is not None:
            return tc
        if isinstance(n, ast.Attribute) and isinstance(n.value, ast.Name) and f"{n.value.id}.{n.attr}" in self.env:
            return [], self.env[f"{n.value.id}.{n.attr}"][0], self.env[f"{n.value.id}.{n.attr}"][1]
        if isinstance(n, ast.Call) and isinstance(n.func, ast.Attribute) and not n.args and not n.keywords:
            f = n.func
            if f.attr == "readline" and isinstance(f.value, ast.Name) and self.env.get(f.value.id, ("", ""))[1] == "file":
                t = self.fresh()
                fv = self.env[f.value.id][0]
                return [f"let ({t}, {fv}) := readlineS {fv}"], t, "sline"
            if f.attr in ("min", "max") and isinstance(f.value, ast.Name) and f"{f.value.id}.values" in self.env:
                t = self.fresh()
                return [f"let {t} ← {f.attr}E {self.env[f.value.id + '.values'][0]}"], t, "rat"
            if f.attr in ("strip", "split"):
                p, t, ty = self.ex(f.value)
                if ty == "sline":
                    return p, (f"{t}.stripped" if f.attr == "strip" else f"{t}.toks"), ("str" if f.attr == "strip" else "toklist")
        if isinstance(n, ast.Call) and isinstance(n.func, ast.Attribute) and getattr(n.func.value, "id", None) == "np" and n.func.attr == "allclose" \
                and len(n.args) == 2 and not n.keywords and isinstance(n.args[0], ast.Name) and self.env.get(n.args[0].id, ("", ""))[1] == "ratpair2":
            a0 = self.env[n.args[0].id][0]
            p, t, ty = self.ex(n.args[1])
            if ty == "ratlist":
                r = self.fresh()
                return p + [f"let {r} ← allclose2E {a0}.1 {a0}.2 {t}"], r, "bool"
        if isinstance(n, ast.List) and len(n.elts) == 2 and all(isinstance(e, ast.Call) for e in n.elts):
            pre, parts = [], []
            for e in n.elts:
                p, t, ty = self.ex(e)
                if ty != "rat":
                    _fail(n, "list of two calls")
                pre += p
                parts.append(t)
            return pre, "(" + ", ".join(parts) + ")", "ratpair2"
        if isinstance(n, ast.Tuple) and len(n.elts) == 4 and all(isinstance(e, ast.Name) and self.env.get(e.id, ("", ""))[1] == "rat" for e in n.elts):
            return [], "(" + ", ".join(self.env[e.id][0] for e in n.elts) + ")", "ratquad"
        if isinstance(n, ast.Tuple) and len(n.elts) == 4 and all(isinstance(e, ast.Name) for e in n.elts) \
                and [self.env.get(e.id, ("", ""))[1] for e in n.elts] == ["str", "intlist", "ratquad", "ratlist"]:
            return [], "(" + ", ".join(self.env[e.id][0] for e in n.elts) + ")", "surferheader"
        c = _const_int(n)
        if c is not None and not isinstance(n, ast.Constant):
            return [], (f"({c})" if c < 0 else str(c)), "num"
        if isinstance(n, ast.Name):
            if n.id not in self.env:
                _fail(n, "unbound name")
            return [], self.env[n.id][0], self.env[n.id][1]
        if isinstance(n, ast.Constant):
            if isinstance(n.value, bool):
                return [], ("true" if n.value else "false"), "bool"
            if isinstance(n.value, int):
                return [], str(n.value), "num"
            _fail(n, "literal")
        if isinstance(n, ast.Tuple) and len(n.elts) == 2:
            if all(isinstance(e, ast.Constant) and e.value is None for e in n.elts):
                return [], "<nonepair>", "nonepair"
            pre, parts, tys = [], [], []
            for e in n.elts:
                p_, t_, ty_ = self.ex(e)
                pre += p_
                parts.append(t_)
                tys.append(ty_)
            if all(t in ("rat", "num") for t in tys):
                return pre, "[" + ", ".join(parts) + "]", "ratlist"
            _fail(n, "tuple")
        if isinstance(n, ast.List) and len(n.elts) == 2 and all(isinstance(e, ast.Name) for e in n.elts) \
                and all(self.env.get(e.id, ("", ""))[1] == "ratlist" for e in n.elts):
            return [], "(" + ", ".join(self.env[e.id][0] for e in n.elts) + ")", "ratlistpair"
        if isinstance(n, ast.BinOp):
            p1, a, ta = self.ex(n.left)
            p2, b, tb = self.ex(n.right)
            pre = p1 + p2
            op = {ast.Add: "+", ast.Sub: "-", ast.Mult: "*", ast.Div: "/"}.get(type(n.op))
            if op is None:
                _fail(n, "operator")
            a, ta = self.num(pre, a, ta)
            b, tb = self.num(pre, b, tb)
            if ta == "ratlist" and tb in ("rat", "num", "int") and op in ("+", "-"):
                sb = b if tb != "int" else f"(({b} : Int) : Rat)"
                return pre, f"({a}.map (fun v => v {op} {sb}))", "ratlist"
            if "rat" in (ta, tb) or op == "/":
                ca = a if ta != "int" else f"(({a} : Int) : Rat)"
                cb = b if tb != "int" else f"(({b} : Int) : Rat)"
                return pre, f"({ca} {op} {cb})", "rat"
            ty = "int" if "int" in (ta, tb) else "num"
            return pre, f"({a} {op} {b})", ty
        if isinstance(n, ast.Subscript):
            if isinstance(n.value, ast.Name) and isinstance(n.slice, ast.Constant) and f"{n.value.id}[{n.slice.value}]" in self.env:
                t, ty = self.env[f"{n.value.id}[{n.slice.value}]"]
                return [], t, ty
            pv, v, tv = self.ex(n.value)
            idx = n.slice.value if isinstance(n.slice, ast.Constant) and isinstance(n.slice.value, int) else None
            if tv == "ratlist":
                if isinstance(n.slice, ast.Slice) and n.slice.lower is None and n.slice.step is None and isinstance(n.slice.upper, ast.UnaryOp) \
                        and isinstance(n.slice.upper.op, ast.USub) and getattr(n.slice.upper.operand, "value", None) == 1:
                    return pv, f"{v}.dropLast", "ratlist"
                if idx is not None and idx >= 0:
                    t = self.fresh()
                    return pv + [f"let {t} ← idxE {v} {idx}"], t, "rat"
            if tv == "optratlist" and idx is not None and idx >= 0:
                t = self.fresh()
                return pv + [f"let {t} ← idxO {v} {idx}"], t, "optrat"
            if tv in ("intpair", "optintpair") and idx in (0, 1):
                return pv, f"{v}.{idx + 1}", "int" if tv == "intpair" else "optint"
            if tv == "ratquad" and idx in (0, 1, 2, 3):
                return pv, v + QUAD_PROJ[idx], "rat"
            _fail(n, "subscript")
        if isinstance(n, ast.Call):
            f = n.func
            if isinstance(f, ast.Attribute) and isinstance(f.value, ast.Name) and f.value.id == "np":
                if f.attr == "atleast_1d" and len(n.args) == 1 and not n.keywords:
                    p, t, ty = self.ex(n.args[0])
                    if ty == "opt:ratlist":
                        t2 = self.fresh()
                        return p + [f"let {t2} ← optGet {t}"], t2, "ratlist"
                    if ty == "ratlist":
                        return p, t, ty
                if f.attr == "linspace" and len(n.args) == 3 and not n.keywords:
                    pre, args = [], []
                    for a_ in n.args[:2]:
                        p, t, ty = self.ex(a_)
                        pre += p
                        args.append(t if ty != "int" else f"(({t} : Int) : Rat)")
                    p, t, ty = self.ex(n.args[2])
                    pre += p
                    t, ty = self.num(pre, t, ty)
                    if ty not in ("int", "num"):
                        _fail(n, "linspace count is not an integer")
                    r = self.fresh()
                    pre.append(f"let {r} ← linspaceE {args[0]} {args[1]} {t}")
                    return pre, r, "ratlist"
            if isinstance(f, ast.Name) and f.id == "min" and len(n.args) == 2 and not n.keywords:
                p1, a, ta = self.ex(n.args[0])
                p2, b, tb = self.ex(n.args[1])
                if ta == "rat" and tb == "rat":
                    return p1 + p2, f"(ratMin {a} {b})", "rat"
            if isinstance(f, ast.Name) and f.id == "get_region" and len(n.args) == 1 and isinstance(n.args[0], ast.Name) \
                    and all(f"{n.args[0].id}[{k}]" in self.env for k in (0, 1)):
                t = self.fresh()          # numpy min/max of an empty array: ValueError
                return [f"let {t} ← quadOfOpts (Gen.getRegion {self.env[n.args[0].id + '[0]'][0]} {self.env[n.args[0].id + '[1]'][0]})"], t, "ratquad"
            if isinstance(f, ast.Name) and f.id == "grid_coordinates" and len(n.args) == 1:
                kw = {k.arg: k.value for k in n.keywords}
                if not set(kw) <= {"spacing", "shape", "adjust", "pixel_register"} or not {"spacing", "shape", "adjust"} <= set(kw):
                    _fail(n, "grid_coordinates call with other arguments")
                pre, args = [], list(self.quad_parts(n.args[0]))
                for nm, want in (("shape", "opt:intpair"), ("spacing", "opt:ratlist"), ("adjust", "str")):
                    p, tx, ty = self.ex(kw[nm])
                    if ty != want:
                        _fail(n, f"grid_coordinates: {nm} has type {ty}")
                    pre += p
                    args.append(tx)
                if "pixel_register" in kw:
                    p, tx, ty = self.ex(kw["pixel_register"])
                    pre += p
                    args.append(tx)
                else:
                    args.append("false")
                r = self.fresh()          # (the default meshgrid=True output is the meshgrid of these two lines: numpy contract)
                return pre + [f"let {r} ← Gen.gridLines {' '.join(a if ' ' not in a or a.startswith('(') else '(' + a + ')' for a in args)}"], r, "ratlistpair"
            if isinstance(f, ast.Name) and f.id in self.KNOWN_CALLS:
                lean, names, argt, rett = self.KNOWN_CALLS[f.id]
                given = dict(zip(names, n.args))
                for k in n.keywords:
                    given[k.arg] = k.value
                if set(given) != set(names):
                    _fail(n, "call does not bind every parameter of " + f.id)
                pre, args = [], []
                for nm, want in zip(names, argt):
                    p, tx, ty = self.ex(given[nm])
                    pre += p
                    if ty == "num":
                        ty = want if want in ("rat", "int") else ty
                    if ty != want:
                        tx = _coerce(tx, ty, want)
                    args.append(tx if " " not in tx or tx.startswith("(") else f"({tx})")
                if len(rett) == 1:
                    r = self.fresh()
                    return pre + [f"let {r} ← {lean} {' '.join(args)}"], r, rett[0]
                return pre, f"{lean} {' '.join(args)}", "call:" + ",".join(rett)
        _fail(n, "unsupported expression")

    def cond(self, n):
        """-> (pre-lines, Prop text)"""
        if isinstance(n, ast.BoolOp):
            pres, parts = [], []
            for v in n.values:
                p, c = self.cond(v)
                pres += p
                parts.append(f"({c})")
            return pres, (" ∧ " if isinstance(n.op, ast.And) else " ∨ ").join(parts)
        if isinstance(n, ast.Compare) and len(n.ops) == 1 and isinstance(n.ops[0], (ast.Is, ast.IsNot)) \
                and isinstance(n.comparators[0], ast.Constant) and n.comparators[0].value is None:
            p, t, ty = self.ex(n.left)
            if _inner(ty) is None:
                _fail(n, "`is None` on a value that is never None here")
            return p, f"{t}.{'isNone' if isinstance(n.ops[0], ast.Is) else 'isSome'} = true"
        if isinstance(n, ast.Compare) and len(n.ops) == 1 and isinstance(n.left, ast.Call) and getattr(n.left.func, "id", None) == "len" \
                and isinstance(n.comparators[0], ast.Constant) and isinstance(n.comparators[0].value, int):
            p, t, ty = self.ex(n.left.args[0])
            sym = {ast.Eq: "=", ast.Gt: ">", ast.Lt: "<", ast.GtE: "≥", ast.LtE: "≤", ast.NotEq: "≠"}.get(type(n.ops[0]))
            if ty in ("ratlist", "optratlist") and sym:
                return p, f"{t}.length {sym} {n.comparators[0].value}"
        if isinstance(n, ast.Name):
            p, t, ty = self.ex(n)
            if ty == "bool":
                return p, f"{t} = true"
        q = self.quantifier(n)
        if q is not None:
            return q[0], f"{q[1]} = true"
        if isinstance(n, ast.UnaryOp) and isinstance(n.op, ast.Not):
            q = self.quantifier(n.operand)
            if q is not None:
                return q[0], f"{q[1]} = false"
            p, t, ty = self.ex(n.operand)
            if ty == "bool":
                return p, f"{t} = false"
        if isinstance(n, ast.Compare) and len(n.ops) == 1 and isinstance(n.ops[0], (ast.Eq, ast.NotEq)):
            p1, a, ta = self.ex(n.left)
            p2, b, tb = self.ex(n.comparators[0])
            if ta == tb and ta in ("shape", "nat"):
                return p1 + p2, f"{a} {'=' if isinstance(n.ops[0], ast.Eq) else '≠'} {b}"
        if isinstance(n, ast.Compare) and len(n.ops) == 1 and isinstance(n.ops[0], (ast.Eq, ast.NotEq)):
            p1, a, ta = self.ex(n.left)
            p2, b, tb = self.ex(n.comparators[0])
            if ta == tb == "intlist":
                return p1 + p2, f"{a} {'=' if isinstance(n.ops[0], ast.Eq) else '≠'} {b}"
        if isinstance(n, ast.Compare) and len(n.ops) == 1 and type(n.ops[0]) in (ast.Lt, ast.Gt, ast.LtE, ast.GtE):
            p1, a, ta = self.ex(n.left)
            p2, b, tb = self.ex(n.comparators[0])
            if ta == tb == "nat":
                return p1 + p2, f"{a} {({ast.Lt: '<', ast.Gt: '>', ast.LtE: '≤', ast.GtE: '≥'})[type(n.ops[0])]} {b}"
            if ta in ("rat", "num", "int") and tb in ("rat", "num", "int") and "rat" in (ta, tb):
                sym = {ast.Lt: "<", ast.Gt: ">", ast.LtE: "≤", ast.GtE: "≥"}[type(n.ops[0])]
                ca = a if ta != "int" else f"(({a} : Int) : Rat)"
                cb = b if tb != "int" else f"(({b} : Int) : Rat)"
                return p1 + p2, f"{ca} {sym} {cb}"
        _fail(n, "unsupported condition")

    # ---- statements
    def assigned(self, body):
        out = []
        for st in body:
            if isinstance(st, ast.Assign):
                for t in st.targets:
                    for e in (t.elts if isinstance(t, ast.Tuple) else [t]):
                        if isinstance(e, ast.Name) and e.id not in out:
                            out.append(e.id)
                        if isinstance(e, ast.Subscript) and isinstance(e.value, ast.Name) and _const_int(e.slice) is not None:
                            key = f"{e.value.id}[{_const_int(e.slice)}]"
                            if key not in out:
                                out.append(key)
            elif isinstance(st, ast.If):
                for x in self.assigned(st.body) + self.assigned(st.orelse):
                    if x not in out:
                        out.append(x)
        return out

    def block(self, body):
        lines = []
        for st in body:
            if isinstance(st, ast.Expr) and isinstance(st.value, ast.Constant):
                continue
            if isinstance(st, ast.Raise):
                exc = st.exc
                name = exc.func.id if isinstance(exc, ast.Call) and isinstance(exc.func, ast.Name) else None
                if name not in ("ValueError", "IOError", "OSError"):
                    _fail(st, "unsupported exception type")
                lines.append("throw Err.valueError" if name == "ValueError" else "throw Err.ioError")
                continue
            if isinstance(st, ast.Expr) and isinstance(st.value, ast.Call) and isinstance(st.value.func, ast.Name) \
                    and st.value.func.id in self.KNOWN_CHECKS and len(st.value.args) == 1 and isinstance(st.value.args[0], ast.Name):
                lean, k = self.KNOWN_CHECKS[st.value.func.id]
                base = st.value.args[0].id
                lines.append(f"let _ ← {lean} " + " ".join(self.env[f"{base}[{i}]"][0] for i in range(k)))
                continue
            if isinstance(st, ast.Assign) and len(st.targets) == 1 and isinstance(st.targets[0], ast.Name) and isinstance(st.value, ast.Subscript) \
                    and isinstance(st.value.value, ast.Call) and getattr(st.value.value.func, "id", None) in self.IDENTITY_CALLS \
                    and len(st.value.value.args) == 1 and getattr(st.value.value.args[0], "id", None) == st.targets[0].id:
                continue
            if isinstance(st, ast.Expr) and isinstance(st.value, ast.Call) and getattr(st.value.func, "id", None) in self.IGNORED_CALLS:
                continue
            if isinstance(st, ast.Assign) and len(st.targets) == 1 and isinstance(st.targets[0], ast.Name) and isinstance(st.value, ast.Call) \
                    and len(st.value.args) == 1 and getattr(st.value.args[0], "id", None) == st.targets[0].id and not st.value.keywords:
                fname = getattr(st.value.func, "id", None)
                if fname in self.call_assign:
                    v = self.env[st.targets[0].id]
                    lines.append(f"let {v[0]} ← {self.call_assign[fname]} {v[0]}")
                    continue
                if fname in self.IDENTITY_CALLS or fname == "check_data":      # check_data: wraps a bare array in a tuple (tuple-ness is in the typing here)
                    continue
            if isinstance(st, ast.Assign) and all(isinstance(t, ast.Name) and t.id in self.drop_assign for t in st.targets):
                continue
            if isinstance(st, ast.If) and isinstance(st.test, ast.Name) and st.test.id in self.drop_flags:
                continue
            if isinstance(st, ast.Return) and self.ignore_return:
                continue
            if isinstance(st, ast.If) and not [v for v in self.assigned([st]) if v in self.env and v not in self.drop_assign]:
                # a block that only validates (nested `if ...: raise`): no visible assignment
                body = [b for b in st.body if not (isinstance(b, ast.Assign) and all(isinstance(t, ast.Name) and t.id in self.drop_assign for t in b.targets))]
                other = [b for b in st.orelse if not (isinstance(b, ast.Assign) and all(isinstance(t, ast.Name) and t.id in self.drop_assign for t in b.targets))]
                if not (len(body) == 1 and isinstance(body[0], ast.Raise) and not other):
                    p, c = self.cond(st.test)
                    inner = self.sub().block(body) or ["pure ()"]
                    lines += p + [f"if {c} then"] + ["  " + ln for ln in inner]
                    if other:
                        lines += ["else"] + ["  " + ln for ln in (self.sub().block(other) or ["pure ()"])]
                    continue
            if isinstance(st, ast.Assign) and len(st.targets) == 1 and isinstance(st.targets[0], ast.Name) and isinstance(st.value, ast.ListComp) \
                    and len(st.value.generators) == 1 and not st.value.generators[0].ifs and isinstance(st.value.generators[0].iter, ast.Call) \
                    and getattr(st.value.generators[0].iter.func, "id", None) == "enumerate" and isinstance(st.value.generators[0].target, ast.Tuple):
                # [expr for i, x in enumerate(<4-sequence>)] unrolled: i is a constant in each element
                g = st.value.generators[0]
                parts = self.quad_parts(g.iter.args[0])
                iname, xname = g.target.elts[0].id, g.target.elts[1].id
                name = st.targets[0].id
                for k in range(4):
                    sub = self.sub()
                    sub.env[xname] = (parts[k], "rat")
                    p, tx, ty = sub.ex(_Subst({iname: k}).visit(ast.parse(ast.unparse(st.value.elt), mode="eval").body))
                    if ty not in ("rat", "num"):
                        _fail(st, "comprehension element is not a number")
                    lines += p + [f"let {name}_{k} : Rat := {tx}"]
                for k in range(4):
                    self.env[f"{name}[{k}]"] = (f"{name}_{k}", "rat")
                self.env[name] = ("<vec4>", "vec4")
                continue
            if isinstance(st, ast.For) and not st.orelse and isinstance(st.iter, ast.Tuple) and isinstance(st.target, ast.Tuple) \
                    and all(isinstance(e, ast.Tuple) and len(e.elts) == len(st.target.elts) and all(_const_int(c) is not None for c in e.elts)
                            for e in st.iter.elts):
                # loop over a literal tuple of constant tuples: unrolled
                for e in st.iter.elts:
                    consts = {t.id: _const_int(c) for t, c in zip(st.target.elts, e.elts)}
                    body = [_Subst(consts).visit(ast.parse(ast.unparse(b)).body[0]) for b in st.body]
                    lines += self.block(body)
                continue
            if isinstance(st, ast.If) and len(st.body) == 1 and isinstance(st.body[0], ast.Raise) and not st.orelse:
                p, c = self.cond(st.test)
                sub = self.sub()
                lines += p + [f"if {c} then"] + ["  " + ln for ln in sub.block(st.body)]
                continue
            if isinstance(st, ast.If):
                lines += self.branching(st)
                continue
            if isinstance(st, ast.Assign) and all(isinstance(t, ast.Subscript) and isinstance(t.value, ast.Name) and _const_int(t.slice) is not None
                                                  for t in st.targets):
                p, tx, ty = self.ex(st.value)
                if ty not in ("rat", "num"):
                    _fail(st, "element assignment of a non-number")
                lines += p
                for t in st.targets:
                    key = f"{t.value.id}[{_const_int(t.slice)}]"
                    if key not in self.env:
                        _fail(st, "element assignment to an unknown sequence")
                    lines.append(f"let {_lean_name(key)} : Rat := {tx}")
                    self.env[key] = (_lean_name(key), "rat")
                continue
            if isinstance(st, ast.Assign) and len(st.targets) == 1:
                t, v = st.targets[0], st.value
                p, tx, ty = self.ex(v)
                if isinstance(t, ast.Tuple) and ty == "ratlist" and len(t.elts) == 2 and all(isinstance(e, ast.Name) for e in t.elts):
                    lines += p + [f"let ({t.elts[0].id}, {t.elts[1].id}) ← unpack2 {tx}"]
                    for e in t.elts:
                        self.env[e.id] = (e.id, "rat")
                    continue
                if isinstance(t, ast.Tuple) and ty.startswith("call:"):
                    rett = ty[5:].split(",")
                    names = [e.id for e in t.elts]
                    lines += p + [f"let ({', '.join(names)}) ← {tx}"]
                    for nm, rt in zip(names, rett):
                        self.env[nm] = (nm, rt)
                    continue
                if isinstance(t, ast.Name):
                    if ty == "nonepair":
                        self.env[t.id] = ("<nonepair>", "nonepair")
                        lines += p
                        continue
                    lines += p + [f"let {t.id} := {tx}"]
                    self.env[t.id] = (t.id, "int" if ty == "num" else ty)
                    continue
            if isinstance(st, ast.Return):
                p, tx, ty = self.ex(st.value)
                lines += p + [f"return {tx}"]
                self.ret = ty
                continue
            _fail(st, "unsupported statement")
        return lines

    def branching(self, st):
        """if / elif / else whose branches (re)assign variables (possibly raising in some)."""
        # names first bound inside a branch are local to it (using one afterwards is an "unbound name" error of the translation)
        vs = [v for v in self.assigned([st]) if v in self.env]
        if not vs:
            _fail(st, "a branching statement that assigns nothing visible")

        def opened(test):
            if isinstance(test, ast.Compare) and len(test.ops) == 1 and isinstance(test.ops[0], (ast.Is, ast.IsNot)) \
                    and isinstance(test.left, ast.Name) and isinstance(test.comparators[0], ast.Constant) and test.comparators[0].value is None \
                    and _inner(self.env[test.left.id][1]) is not None:
                return test.left.id, isinstance(test.ops[0], ast.IsNot)
            return None

        def build(node, env):
            """-> tree: ('leaf', lines, sub) | ('if', pre, cond, tree_then, tree_else) | ('match', var, tree_some, tree_none)"""
            if isinstance(node, list):
                if len(node) == 1 and isinstance(node[0], ast.If) and not (len(node[0].body) == 1 and isinstance(node[0].body[0], ast.Raise)
                                                                                 and not node[0].orelse):
                    return build(node[0], env)
                sub = self.sub(env)
                return ("leaf", sub.block(node), sub)
            op = None
            saved = self.env
            self.env = env
            try:
                op = opened(node.test)
                if op is None:
                    pre, c = self.cond(node.test)
            finally:
                self.env = saved
            if op is not None:
                var, some_is_then = op
                env_some = dict(env)
                env_some[var] = (var, _inner(env[var][1]))
                t_some = build(node.body if some_is_then else node.orelse, env_some)
                t_none = build(node.orelse if some_is_then else node.body, dict(env))
                return ("match", var, t_some, t_none)
            return ("if", pre, c, build(node.body, dict(env)), build(node.orelse, dict(env)))

        tree = build(st, dict(self.env))

        def leaves(t, inside=None):
            if t[0] == "leaf":
                yield t, inside
            elif t[0] == "if":
                yield from leaves(t[3], inside)
                yield from leaves(t[4], inside)
            else:
                yield from leaves(t[2], t[1])
                yield from leaves(t[3], inside)

        def leaf_val(leaf, inside, v):
            return leaf[2].env[v]

        out_ty = {}
        for v in vs:
            ty = None
            for leaf, inside in leaves(tree):
                if leaf[1] and leaf[1][-1].startswith("throw "):
                    continue                                # a raising branch does not constrain the type
                t_ = leaf_val(leaf, inside, v)[1]
                ty = t_ if ty is None else _join(ty, t_)
            out_ty[v] = ty if ty is not None else self.env[v][1]
        if any(t == "nonepair" for t in out_ty.values()):
            _fail(st, "(None, None) never meets a typed value")

        def pack(leaf, inside):
            if leaf[1] and leaf[1][-1].startswith("throw "):
                return []
            parts = [_coerce(*leaf_val(leaf, inside, v), out_ty[v]) for v in vs]
            return ["pure (" + ", ".join(parts) + ")" if len(parts) > 1 else "pure " + parts[0]]

        def render(t, ind, inside=None):
            pad = "  " * ind
            if t[0] == "leaf":
                return [pad + ln for ln in t[1] + pack(t, inside)]
            if t[0] == "if":
                return ([pad + ln for ln in t[1]] + [f"{pad}if {t[2]} then do"] + render(t[3], ind + 2, inside) + [f"{pad}else do"]
                        + render(t[4], ind + 2, inside))
            return ([f"{pad}match {t[1]} with", f"{pad}| some {t[1]} => do"] + render(t[2], ind + 2, t[1]) + [f"{pad}| none => do"]
                    + render(t[3], ind + 2, inside))
        lhs = "(" + ", ".join(_lean_name(v) for v in vs) + ")" if len(vs) > 1 else _lean_name(vs[0])
        body = render(tree, 1)
        for v in vs:
            self.env[v] = (_lean_name(v), out_ty[v])
        return [f"let {lhs} ← (do"] + body + ["  )"]


def translate_do(path, name, lean_name, params, rettype, stop_at=None, **config):
    """stop_at: translate the statements up to and including the first assignment to this name and return its value.
    config: drop_assign / drop_flags / ignore_return / call_assign (see DoT)."""
    src = open(os.path.join(REPO, path)).read()
    fn = find_func(ast.parse(src), name)
    d = DoT({py: (lean, ty) for py, lean, ty in params})
    for k, v in config.items():
        setattr(d, k, v)
    body = fn.body
    if stop_at is not None:
        cut = [i for i, st in enumerate(body) if isinstance(st, ast.Assign) and any(isinstance(t, ast.Name) and t.id == stop_at for t in st.targets)]
        if not cut:
            raise Untranslatable(f"{name}: no assignment to {stop_at}")
        body = body[:cut[0] + 1] + [ast.Return(value=ast.Name(id=stop_at, ctx=ast.Load()))]
    lines = d.block(body)
    if d.ret is None and rettype == "unit":
        lines.append("return ()")
        d.ret = "unit"
    if d.ret != rettype:
        raise Untranslatable(f"{name}: returns {d.ret}, expected {rettype}")
    seen, args = set(), []
    for _, lean, ty in params:
        if lean not in seen:
            seen.add(lean)
            args.append(f"({lean} : {LEAN_TY[ty]})")
    seg = ast.get_source_segment(src, fn)
    sha = hashlib.sha256(seg.encode()).hexdigest()[:16]
    return (f"/-- translated statement by statement from {path}:{fn.lineno}-{fn.end_lineno} ({name}), sha256 {sha} -/\n"
            f"def {lean_name} {' '.join(args)} : Except Err ({LEAN_TY[rettype]}) := do\n" + "\n".join("  " + ln for ln in lines) + "\n")
