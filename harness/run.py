"""Entry point: run.py <property> <quick|thorough|--replay path>."""
import importlib
import json
import os
import random
import sys
import time
import traceback

sys.path.insert(0, os.path.dirname(os.path.abspath(__file__)))
import common as C  # noqa: E402


DUMMY_OPS = {"power_comb 1", "power_comb 0", "check_region [ 0 1 0 1 ]", "splinecv_select [ [ 0 ] ]"}


def load_known(prop):
    path = os.path.join(C.VERIF, "known_findings.json")
    if not os.path.exists(path):
        return {}
    items = json.load(open(path))
    return {i["key"]: i for i in items if i["property"] == prop and i.get("status") == "known"}


def write_replay(prop, kind, payload):
    os.makedirs(os.path.join(C.VERIF, "replays"), exist_ok=True)
    name = f"{prop}_{kind}_{int(time.time())}_{os.getpid()}_{payload.get('index', 0)}.json"
    path = os.path.join(C.VERIF, "replays", name)
    payload = dict(payload, property=prop, kind=kind)
    with open(path, "w") as f:
        json.dump(payload, f, indent=1, default=str)
    return os.path.relpath(path, C.VERIF)


def restore_gen():
    """Every generated file this run does NOT regenerate is put back to its pinned snapshot first (an earlier run against a scratch copy of the
    repository may have left its own translation behind): the only generated definitions that differ from the snapshots are then the ones
    translated from the tree under check in this run."""
    gen, snap = os.path.join(C.LEAN_DIR, "VerdeModel", "Gen"), os.path.join(C.LEAN_DIR, "VerdeModel", "GenSnapshot")
    for f in sorted(os.listdir(snap)):
        if f.endswith(".lean.txt"):
            want = open(os.path.join(snap, f)).read()
            tgt = os.path.join(gen, f[:-4])
            if not os.path.exists(tgt) or open(tgt).read() != want:
                with open(tgt, "w") as h:
                    h.write(want)


def lean_stage(prop, tier, translated=False):
    """Regenerate translated definitions (if any), build the property's theorem module + driver, audit axioms."""
    res = {"build_ok": False, "obligations": 0, "discharged": 0, "broken": [], "log": "", "translator": "not used"}
    targets = [f"VerdeModel.Props.{prop}", "verde_model"]
    pre = None
    if translated:
        import py2lean
        import py2lean_gridder

        def pre():
            restore_gen()
            st, detail = {"coords": py2lean.main_coords, "utils": py2lean.main_utils, "io": py2lean.main_io, "base": py2lean.main_base, "chain": py2lean.main_chain, "score": py2lean.main_score, "neighbors": py2lean.main_neighbors, "grid": py2lean.main_grid, "blocks": py2lean.main_blocks, "ls": py2lean.main_ls, "gridder": py2lean_gridder.main_gridder, "mask": py2lean_gridder.main_mask, "cvsplit": py2lean_gridder.main_cvsplit, "windows": py2lean_gridder.main_windows, "modelsel": py2lean_gridder.main_modelsel, "blocksplit": py2lean_gridder.main_blocksplit, "distmask": py2lean_gridder.main_distmask, "vector": py2lean_gridder.main_vector, "fit": py2lean_gridder.main_fit, "makegrid": py2lean_gridder.main_makegrid, "blockmean": py2lean_gridder.main_blockmean, "gridcoords": py2lean_gridder.main_gridcoords}.get(translated, py2lean.main_kernels_and_trend)()
            res["translator"] = st + (": " + detail if detail else "")
    ok, log = C.lake_build(targets, pre=pre or restore_gen)
    res["build_ok"] = ok
    res["checker_cmd"] = f"cd lean && lake build {' '.join(targets)} && lake env lean <generated #print axioms file for Props/{prop}.lean>"
    names = C.theorem_names(prop)
    res["obligations"] = len(names)
    res["theorems"] = names
    if not ok:
        res["log"] = log[-3000:]
        res["broken"] = ["build:" + prop]
        return res
    forb = C.forbidden_tokens()
    if forb:
        res["broken"] += ["forbidden:" + h for h in forb]
    ax, out = C.audit(prop, names)
    for n in names:
        a = ax.get(n)
        if a is None:
            res["broken"].append("missing:" + n)
        elif not set(a) <= C.ALLOWED_AXIOMS:
            res["broken"].append("axioms:" + n + ":" + ",".join(a))
        else:
            res["discharged"] += 1
    res["axioms"] = {n: ax.get(n) for n in names}
    if tier == "thorough" and not res["broken"]:
        import subprocess
        try:
            r = subprocess.run(["lake", "env", "leanchecker", f"VerdeModel.Props.{prop}"], cwd=C.LEAN_DIR,
                               capture_output=True, text=True, timeout=3000)
            res["leanchecker"] = "ok" if r.returncode == 0 else "failed: " + (r.stdout + r.stderr)[-500:]
            if r.returncode != 0:
                res["broken"].append("leanchecker:" + prop)
            res["checker_cmd"] += f" && lake env leanchecker VerdeModel.Props.{prop}"
        except Exception as exc:  # noqa: BLE001
            res["leanchecker"] = "not run: " + repr(exc)
    return res


def _run_chunk(args):
    P, cases = args
    impl_outs = []
    for c in cases:
        try:
            impl_outs.append(P.impl(c))
        except C.Infra:
            raise
        except Exception as exc:  # noqa: BLE001  (harness bug or impl crash outside call())
            impl_outs.append(["err", "Harness:" + type(exc).__name__ + ":" + str(exc)[:200]])
    model_raw = C.run_model([c["op"] for c in cases])
    results = []
    for c, io, mr in zip(cases, impl_outs, model_raw):
        r = {"case": c, "impl": io, "model_raw": mr, "harness_error": None}
        if mr == "bad-op":
            r["cmp"] = "diff:model rejected the op line (bad-op)"
        else:
            try:
                r["cmp"] = P.compare(c, io, C.dec(mr))
            except Exception as exc:  # noqa: BLE001
                r["cmp"] = "ok"
                r["harness_error"] = "compare raised " + repr(exc)[:300]
        try:
            r["oracle"] = P.oracle(c, io)
        except Exception as exc:  # noqa: BLE001   (a bug in the harness is an infrastructure failure, never a violation)
            r["oracle"] = None
            r["harness_error"] = "oracle raised " + repr(exc)[:300]
        r["finding"] = None
        if r["oracle"]:
            try:
                r["finding"] = P.finding_key(c, io)
            except Exception:  # noqa: BLE001
                r["finding"] = None
        try:
            r["nontrivial"] = bool(P.nontrivial(c, io))
        except Exception:  # noqa: BLE001
            r["nontrivial"] = False
        r["impl"] = C.enc_json(io, 4000)
        r["model_raw"] = mr[:4000]
        results.append(r)
    return results


_POOL_P = None


def _run_chunk_idx(chunk):
    return _run_chunk((_POOL_P, chunk))


def run_cases(P, cases, jobs=None):
    """impl + model + compare + oracle for every case (forked workers). Returns list of result dicts."""
    global _POOL_P
    jobs = jobs or int(os.environ.get("VERIF_JOBS", "12"))
    if not getattr(P, "PARALLEL", True) or len(cases) < 64 or jobs <= 1:
        return _run_chunk((P, cases))
    import multiprocessing as mp
    _POOL_P = P
    n = min(jobs * 4, max(1, len(cases) // 16))
    chunks = [cases[i::n] for i in range(n)]
    with mp.get_context("fork").Pool(jobs) as pool:
        parts = pool.map(_run_chunk_idx, chunks)
    out = [r for part in parts for r in part]
    out.sort(key=lambda r: r["case"].get("index", 0))
    return out


def summarise_case(r, full=False):
    c = r["case"]
    lim = None if full else 600
    return {"op": c["op"][:lim], "kind": c.get("kind"), "impl": r["impl"][:lim],
            "model": r["model_raw"][:lim], "cmp": r["cmp"], "oracle": r["oracle"]}


def main():
    if len(sys.argv) < 3:
        print("usage: run.py <property> <quick|thorough|--replay path>")
        return 2
    prop = sys.argv[1]
    mode = sys.argv[2]
    t0 = time.time()
    seed = int(os.environ.get("VERIF_SEED", "0"))
    os.environ.setdefault("VERDE_VERIF", "1")
    import warnings
    warnings.simplefilter("ignore")
    try:
        C.assert_repo_verde()
        P = importlib.import_module("props." + prop.lower())
        if mode == "--replay":
            return replay(P, prop, sys.argv[3])
        tier = mode if mode in ("quick", "thorough") else os.environ.get("VERIF_TIER", "quick")
        return check(P, prop, tier, seed, t0)
    except C.Infra as exc:
        print(f"INFRA-ERROR property={prop}: {exc}")
        return 2
    except Exception:  # noqa: BLE001
        traceback.print_exc()
        print(f"INFRA-ERROR property={prop}: harness exception")
        return 2


def replay(P, prop, path):
    data = json.load(open(path if os.path.isabs(path) else os.path.join(C.VERIF, path)))
    cases = data.get("cases") or []
    if data.get("gen_inputs"):
        import gensearch
        bad = gensearch.rerun(data["translated_kind"], data["gen_inputs"])
        print(f"replay: {bad} of {len(data['gen_inputs'])} inputs still fail on the real code")
        return 1 if bad else 0
    if not cases:
        print("replay has no cases (theorem/correspondence named):", data.get("broken"))
        return 1
    C.lake_build(["verde_model"])
    results = run_cases(P, cases)
    bad = 0
    for r in results:
        s = summarise_case(r, full=True)
        print(json.dumps(s, default=str)[:4000])
        if r["oracle"] or r["cmp"].startswith("diff"):
            bad += 1
    print(f"replay: {bad} of {len(results)} cases still fail")
    return 1 if bad else 0


def check(P, prop, tier, seed, t0):
    known = load_known(prop)
    lean = lean_stage(prop, tier, translated=getattr(P, "TRANSLATED", False))
    if lean["translator"].startswith("untranslatable"):
        print(f"NOTE tie-degraded translator: {lean['translator']} (the snapshot definitions are used; correspondence remains the tie)")
    rng = random.Random(seed * 1000003 + (17 if tier == "thorough" else 0))
    cases = list(P.corpus()) + list(P.generate(rng, tier))
    for i, c in enumerate(cases):
        c["index"] = i
    results = run_cases(P, cases)
    results.sort(key=lambda r: r["case"]["index"])

    viol, known_hits, mismatches, amb = [], {}, [], 0
    gen_search = None
    kinds = {}
    distinct = set()
    for r in results:
        k = r["case"].get("kind", "?")
        kinds[k] = kinds.get(k, 0) + 1
        if r["cmp"] == "amb":
            amb += 1
        if r["oracle"]:
            key = r.get("finding")
            if key is not None and key in known:
                known_hits.setdefault(key, r)
            else:
                viol.append(r)
        elif r["cmp"].startswith("diff"):
            mismatches.append(r)
        if r["nontrivial"] and not r["oracle"] and not r["cmp"].startswith("diff"):
            c_ = r["case"]
            key_ = c_.get("key")
            if key_ is None and c_["op"] in DUMMY_OPS:      # oracle-only cases share a placeholder op line
                key_ = repr(c_.get("args"))
            distinct.add(c_["op"] if key_ is None else c_["op"] + "#" + str(key_))

    lines = []
    exit_code = 0
    herr = [r for r in results if r.get("harness_error")]
    for key, r in known_hits.items():
        lines.append(f"KNOWN-FINDING: property={prop} {known[key]['what']} [key={key}]")
    if viol:
        exit_code = 1
        for r in viol[:3]:
            p = write_replay(prop, "impl-violates-property",
                             {"cases": [r["case"]], "impl": r["impl"], "model": r["model_raw"],
                              "oracle": r["oracle"], "cmp": r["cmp"], "seed": seed, "tier": tier,
                              "index": r["case"]["index"], "lean_broken": lean["broken"]})
            lines.append(f"VIOLATION property={prop} replay={p}")
    elif mismatches or lean["broken"]:
        exit_code = 1
        broken = list(lean["broken"])
        tkind = getattr(P, "TRANSLATED", False)
        if lean["broken"] and tkind and lean["translator"].startswith("changed"):
            import gensearch
            found, gstats = gensearch.search("utils" if tkind in ("cvsplit", "blockmean") else "coords" if tkind in ("windows", "blocksplit", "gridcoords") else tkind if tkind in ("coords", "utils", "io", "base", "chain", "score", "neighbors", "grid", "blocks", "ls", "gridder", "mask", "cvsplit", "modelsel", "distmask", "vector", "fit", "makegrid") else "kernels")
            gen_search = gstats
            if found:
                p = write_replay(prop, "translated-definition-fails",
                                 {"broken": broken, "translated_kind": "utils" if tkind in ("cvsplit", "blockmean") else "coords" if tkind in ("windows", "blocksplit", "gridcoords") else tkind if tkind in ("coords", "utils", "io", "base", "chain", "score", "neighbors", "grid", "blocks", "ls", "gridder", "mask", "cvsplit", "modelsel", "distmask", "vector", "fit", "makegrid") else "kernels",
                                  "gen_inputs": found, "search": gstats, "seed": seed, "tier": tier,
                                  "note": "the definition regenerated from /repo's source no longer equals the proved model; "
                                          "at these inputs the real function in /repo also departs from the proved value"})
                lines.append(f"VIOLATION property={prop} replay={p}")
                broken = None
    if exit_code and not viol and broken is not None:
        if mismatches:
            broken.append("correspondence:" + prop + ":" + mismatches[0]["case"]["op"].split(" ")[0])
        p = write_replay(prop, "theorem-broken" if lean["broken"] else "model-impl-mismatch",
                         {"broken": broken, "cases": [r["case"] for r in mismatches[:5]],
                          "details": [summarise_case(r) for r in mismatches[:5]],
                          "lean_log": lean.get("log", ""), "seed": seed, "tier": tier,
                          "note": "no input violating the property itself was found by the oracle search; "
                                  "the named theorem/correspondence no longer checks"})
        lines.append(f"VIOLATION property={prop} replay={p} no-failing-input-found")
    if viol and mismatches:
        write_replay(prop, "model-impl-mismatch-also", {"cases": [r["case"] for r in mismatches[:5]],
                                                        "details": [summarise_case(r) for r in mismatches[:5]], "seed": seed, "tier": tier})

    nontriv = len(distinct)
    samples = [summarise_case(r) for r in results[:: max(1, len(results) // 6)][:6]]
    ev = {
        "property_id": prop, "tier": tier, "seed": seed, "level": "proof",
        "coverage": {
            "obligations": lean["obligations"], "discharged": lean["discharged"],
            "checker_cmd": lean["checker_cmd"],
            "trusted_base": C.GLOBAL_TRUSTED + list(getattr(P, "TRUSTED", [])),
            "theorems": lean.get("theorems", []), "axioms": lean.get("axioms", {}),
            "lean_broken": lean["broken"], "leanchecker": lean.get("leanchecker", "thorough tier only"),
            "evaluations": len(results), "distinct_nontrivial": nontriv,
            "rule": P.RULE, "samples": samples,
            "traces_validated_against_impl": sum(1 for r in results if r["cmp"] == "ok"),
            "ambiguous_skipped": amb, "mismatches": len(mismatches),
            "oracle_violations": len(viol), "known_findings_hit": sorted(known_hits),
            "input_distribution": kinds,
            "source_hashes": C.source_hashes(P.FILES),
            "tie": {"correspondence": True, "translator": lean.get("translator", "not used"),
                    "translated_definition_search": gen_search},
        },
        "assumptions": list(getattr(P, "ASSUMPTIONS", [])),
        "wall_s": round(time.time() - t0, 2),
        "violations": len(viol) + (1 if (exit_code and not viol) else 0),
    }
    # evidence/ records runs against /repo only; a development run against a scratch worktree (VERIF_REPO) writes elsewhere (git-ignored)
    evdir = "evidence" if C.REPO == "/repo" else os.path.join(".work", "evidence-scratch")
    os.makedirs(os.path.join(C.VERIF, evdir), exist_ok=True)
    with open(os.path.join(C.VERIF, evdir, prop + ".json"), "w") as f:
        json.dump(ev, f, indent=1, default=str)
    for ln in lines:
        print(ln)
    if herr:
        print(f"INFRA-ERROR property={prop}: {len(herr)} case(s) hit a bug in the harness itself, e.g. {herr[0]['harness_error']} "
              f"on {herr[0]['case']['op'][:120]}")
        if exit_code == 0:
            exit_code = 2
    print(f"{prop} {tier} seed={seed}: theorems {lean['discharged']}/{lean['obligations']}, cases {len(results)} "
          f"(ok {ev['coverage']['traces_validated_against_impl']}, ambiguous {amb}, mismatch {len(mismatches)}, "
          f"oracle-violations {len(viol)}, known {len(known_hits)}), nontrivial {nontriv}, {ev['wall_s']} s")
    return exit_code


if __name__ == "__main__":
    sys.exit(main())
