#!/bin/sh
# seed sweep: ./harness/sweep.sh <tier> <seed...>  (prints only failures and a final summary)
cd "$(dirname "$0")/.." || exit 2
tier=$1; shift
( cd lean && lake build VerdeModel verde_model >/dev/null 2>&1 ) || echo "FAIL setup: lake build VerdeModel verde_model"
fail=0
for s in "$@"; do
  for p in C01 C02 C03 C04 C05 C06 C07 C08 C09 C10 C11 C12 C13 C14 C15 C16 C17 C18 C19 C20; do
    out=$(VERIF_SEED=$s ./check $p $tier 2>&1); rc=$?
    if [ $rc -ne 0 ]; then fail=$((fail+1)); echo "FAIL seed=$s $p rc=$rc"; echo "$out" | grep -v KNOWN | tail -4; fi
    # on the unchanged tree every translator must translate: a degraded tie here is a regression of the translator, not of verde
    tr=$(grep -o '"translator": "[^"]*"' evidence/$p.json 2>/dev/null | head -1)
    case "$tr" in *'"ok"'|*'"not used"'|"") ;; *) fail=$((fail+1)); echo "FAIL seed=$s $p translator status on the clean tree: $tr";; esac
    if echo "$out" | grep -q "tie-degraded"; then fail=$((fail+1)); echo "FAIL seed=$s $p translator degraded on the clean tree"; echo "$out" | grep "tie-degraded" | cut -c1-300; fi
  done
done
echo "sweep done tier=$tier seeds=$* failures=$fail"
