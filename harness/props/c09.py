"""C09 — BlockReduce returns one correctly reduced value per non-empty block."""
from fractions import Fraction as F

import numpy as np

import blocks_common as B
import common as C
import verde as vd
from props import large as L

ID = "C09"
TRANSLATED = "blocks"      # Gen/Blocks.lean (BlockReduce.filter / _block_coordinates, pinned) is regenerated from /repo and bridged to the model in Props/C09.lean
FILES = ["verde/blockreduce.py", "verde/coordinates.py"]
RULE = ("corpus + seeded clouds (uniform and clustered, 1..N points, 2-3 coordinate arrays, 1..3 data components with non-constant dyadic values, "
        "weights or none) x reductions {mean, median, sum, min, max, numpy.average} x spacing/shape x region given/inferred x center_coordinates x drop_coords "
        "x 1-D/2-D inputs; non-trivial = accepted call with >= 2 occupied blocks or a block with >= 2 members; distinct = distinct protocol lines")
ASSUMPTIONS = ["pandas groupby: groups = equal labels, ascending keys, member order preserved",
               "block labels come from block_split (C08); cases where a point is within 1e-9 of a tie between two blocks are counted ambiguous"]
TRUSTED = ["pandas DataFrame.groupby().aggregate (contract)", "numpy reductions mean/median/sum/min/max/average"]

REDS = {"mean": np.mean, "median": np.median, "sum": np.sum, "min": np.min, "max": np.max, "average": np.average}


def mk(coords, shape2d, data, weights, region, shape, spacing, adjust, red, centre, drop, kind):
    return {"fn": "block_reduce", "kind": kind,
            "args": [coords, shape2d, data, weights, region, shape, spacing, adjust, red, centre, drop],
            "op": f"block_reduce {C.enc(coords)} {C.enc(data)} {C.enc(weights)} {B.enc_block(region, shape, spacing, adjust)} "
                  f"{red} {C.enc(centre)} {C.enc(drop)}"}


def corpus():
    return _corpus() + [dict(L.case("blocksum_big_ints", ["int64"], "corpus-64-bit-integers"), fn="rel"),
                       dict(L.case("blocksum_big_ints", ["uint64"], "corpus-64-bit-integers"), fn="rel")]


def _corpus():
    es = [0.5, 1.5, 2.5, 3.5, 0.25, 3.75, 0.75]
    ns = [0.5, 0.5, 1.5, 1.5, 0.25, 1.75, 0.75]
    up = [10.0, 20.0, 30.0, 40.0, 50.0, 60.0, 70.0]
    d1 = [1.0, 2.0, 3.0, 4.0, 5.0, 6.0, 8.0]
    d2 = [-1.0, 0.5, 2.5, 7.0, 9.0, 11.0, 13.5]
    w1 = [1.0, 2.0, 0.5, 4.0, 1.0, 1.0, 3.0]
    w2 = [2.0, 1.0, 1.5, 0.25, 3.0, 1.0, 1.0]
    cs = []
    for red in REDS:
        cs.append(mk([es, ns], [7], [d1], None, [0, 4, 0, 2], None, [1.0, 2.0], "spacing", red, False, True, "corpus"))
    cs.append(mk([es, ns, up], [7], [d1, d2], [w1, w2], [0, 4, 0, 2], None, [1.0, 2.0], "spacing", "average", False, False, "corpus-weights"))
    cs.append(mk([es, ns, up], [7], [d1, d2], None, None, (2, 2), None, "spacing", "median", True, False, "corpus-centre"))
    # readings and weights stored in narrow integer types (the weighted mean is a real number all the same)
    di = [30000.0, 29000.0, -31000.0, 32000.0, 30500.0, 32767.0, 28000.0]
    wi = [200.0, 100.0, 250.0, 255.0, 180.0, 90.0, 220.0]
    cs.append(mk([es, ns], [7], [di], [wi], [0, 4, 0, 2], None, [2.0, 2.0], "spacing", "average", False, True, "corpus-narrow-int"))
    cs.append(mk([es, ns], [7], [di, [v / 250.0 for v in di]], [wi, wi[::-1]], [0, 4, 0, 2], None, [4.0, 2.0], "spacing", "average", True, True, "corpus-narrow-int"))
    cs.append(mk([es, ns], [7], [[100.0, 120.0, 90.0, 127.0, 110.0, 125.0, 101.0]], [[3.0, 2.0, 1.0, 3.0, 2.0, 2.0, 1.0]], [0, 4, 0, 2], None, [4.0, 2.0], "spacing", "average",
                 False, True, "corpus-narrow-int8"))
    cs.append(mk([es, ns], [7], [d1], [w1], [0, 4, 0, 2], (1, 3), None, "spacing", "average", True, True, "corpus-single-row"))
    # a sparse survey on a fine block grid: far more blocks than points, occupied blocks with large indices
    import random
    rng = random.Random(9)
    for shape in ((20, 20), (18, 40)):
        k = 40
        se = [(2 * rng.randint(0, 64 * 8 - 1) + 1) / 128.0 for _ in range(k)]
        sn = [(2 * rng.randint(0, 64 * 8 - 1) + 1) / 128.0 for _ in range(k)]
        se[-1], sn[-1] = se[0] + 1 / 64.0, sn[0]      # (two points share a block)
        sd = [rng.randint(-64, 64) / 8.0 for _ in range(k)]
        for red, centre in (("median", False), ("sum", True)):
            cs.append(mk([se, sn], [k], [sd], None, [0, 8, 0, 8], shape, None, "spacing", red, centre, True, "corpus-sparse-on-fine-grid"))
    # a LARGE survey (more points than any chunk size a table library or a refactor might introduce): checked inside the worker against
    # an independent vectorised reduction; only the summary travels back
    cs.append(mk_large(620_000, 5, (6, 9), "median", False))
    cs.append(mk_large(540_000, 6, (8, 5), "mean", True))
    return cs


def mk_large(n, seed, shape, red, centre):
    return {"fn": "large", "kind": "corpus-large-survey", "args": [n, seed, list(shape), red, centre], "op": "power_comb 0",
            "key": f"large-{n}-{seed}-{shape}-{red}-{centre}"}


def _large(a):
    n, seed, shape, red, centre = a
    rs = np.random.RandomState(seed)
    # an uneven survey: density and values drift along the acquisition order, so any slice of the table differs from the whole
    t = np.linspace(0.0, 1.0, n)
    e = (rs.uniform(0, 1, n) ** 1.5) * 40.0 + 5.0 * t
    no = rs.uniform(0, 1, n) * 30.0 - 10.0 + 3.0 * np.sin(7 * t)
    d = 100.0 * t + rs.normal(size=n) + 0.25 * e
    region = (0.0, 45.0, -13.0, 23.0)
    br = vd.BlockReduce(REDS[red], shape=tuple(shape), region=region, center_coordinates=centre)
    (be, bn), bd = br.filter((e, no), d)
    # independent labels: block (i, j) by floor division, clamped; row-major from the south-west
    dy, dx = (region[3] - region[2]) / shape[0], (region[1] - region[0]) / shape[1]
    j = np.clip(np.floor((e - region[0]) / dx).astype(int), 0, shape[1] - 1)
    i = np.clip(np.floor((no - region[2]) / dy).astype(int), 0, shape[0] - 1)
    lab = i * shape[1] + j
    keys = np.unique(lab)

    def ref(v):
        if red == "mean":
            return np.bincount(lab, weights=v, minlength=lab.max() + 1)[keys] / np.bincount(lab, minlength=lab.max() + 1)[keys]
        order = np.lexsort((v, lab))
        ls, vs = lab[order], v[order]
        starts = np.searchsorted(ls, keys, side="left")
        ends = np.searchsorted(ls, keys, side="right")
        lo, hi = starts + (ends - starts - 1) // 2, starts + (ends - starts) // 2
        return 0.5 * (vs[lo] + vs[hi])
    out = {"nblocks": int(len(bd)), "expected_blocks": int(len(keys)), "n": n}
    if len(bd) == len(keys):
        out["data_err"] = float(np.max(np.abs(np.asarray(bd) - ref(d))))
        if centre:
            cy, cx = np.divmod(keys, shape[1])
            out["coord_err"] = float(max(np.max(np.abs(np.asarray(be) - (region[0] + (cx + 0.5) * dx))), np.max(np.abs(np.asarray(bn) - (region[2] + (cy + 0.5) * dy)))))
        else:
            out["coord_err"] = float(max(np.max(np.abs(np.asarray(be) - ref(e))), np.max(np.abs(np.asarray(bn) - ref(no)))))
    return out


def generate(rng, tier):
    n = 300 if tier == "quick" else 5000
    maxpts = 30 if tier == "quick" else 200
    cs = []
    for _ in range(n):
        reg, es, ns = B.cloud(rng, maxpts)
        npts = len(es)
        region, shape, spacing, adjust = B.block_args(rng, reg)
        if rng.random() < 0.06:      # sparse on a fine grid: more than 256 blocks, fewer points than blocks
            shape, spacing = (rng.randint(17, 30), rng.randint(17, 30)), None
        coords = [es, ns] + ([B.values(rng, npts)] if rng.random() < 0.35 else [])
        ncomp = rng.choice([1, 1, 2, 3])
        data = [B.values(rng, npts) for _ in range(ncomp)]
        if rng.random() < 0.2:
            data = [[float(rng.randint(-40, 400)) for _ in range(npts)] for _ in range(ncomp)]      # counts / integer-coded readings (handed over as integers, see impl)
        weighted = rng.random() < 0.35
        red = "average" if weighted else rng.choice(list(REDS))
        weights = [B.pos_weights(rng, npts) for _ in range(ncomp)] if weighted else None
        if weighted and rng.random() < 0.3:
            # discarded readings: weight exactly zero (in every component) at the extreme points of the cloud - they still belong to their blocks
            es_, ns_ = coords[0], coords[1]
            for j in {es_.index(min(es_)), es_.index(max(es_)), ns_.index(max(ns_))}:
                for wc in weights:
                    wc[j] = 0.0
        shape2d = [npts]
        if npts % 2 == 0 and rng.random() < 0.3:
            shape2d = [npts // 2, 2]
        cs.append(mk(coords, shape2d, data, weights, region, shape, spacing, adjust, red, rng.random() < 0.4, rng.random() < 0.5,
                     ("weighted-" if weighted else "") + red))
    return cs


def impl(case):
    if case["fn"] == "rel":
        r = C.call(L.run, case["args"])
        return r if C.is_err(r) else ["rel", r]
    if case["fn"] == "large":
        r = C.call(_large, case["args"])
        return r if C.is_err(r) else ["large", r]
    coords, shape2d, data, weights, region, shape, spacing, adjust, red, centre, drop = case["args"]
    key = case["op"][-60:]
    cs = tuple(C.mkarr(c, shape2d, f"{key}c{i}") for i, c in enumerate(coords))
    ds = tuple(C.mkarr(d, shape2d, f"{key}d{i}") for i, d in enumerate(data))
    ws = None if weights is None else tuple(C.mkarr(w, shape2d, f"{key}w{i}") for i, w in enumerate(weights))
    # counts / integer-coded readings keep their integer dtype, component by component (the weights stay what they are: fractional weights of
    # integer data)
    ds = tuple(np.asarray(d).astype("int64" if (len(data[0]) + i) % 2 else "int32") if all(float(v).is_integer() for v in data[i]) else d
               for i, d in enumerate(ds))
    if case["kind"].startswith("corpus-narrow-int"):
        small = case["kind"].endswith("8")
        ds = tuple(np.asarray(d).astype("int8" if small else "int16") if all(float(v).is_integer() for v in data[i]) else d for i, d in enumerate(ds))
        ws = tuple(np.asarray(w).astype("int8" if small else "uint8") for w in ws)
    for a in cs + ds + (ws or ()):
        a.setflags(write=False)
    if len(case["op"]) % 3 == 0:
        # history: built with other settings, then reconfigured the scikit-learn way before use (set_params / attribute assignment)
        br = vd.BlockReduce(np.max if ws is None else np.average, spacing=None if spacing is None else 7.25, shape=None if shape is None else (1, 1),
                            region=region, adjust=adjust, center_coordinates=not centre, drop_coords=not drop)
        br.set_params(reduction=REDS[red], spacing=spacing, shape=shape, center_coordinates=centre)
        br.drop_coords = drop
    else:
        br = vd.BlockReduce(REDS[red], spacing=spacing, region=region, adjust=adjust, center_coordinates=centre, shape=shape, drop_coords=drop)
    import zlib
    if len(shape2d) == 1 and zlib.crc32(("series" + key).encode()) % 3 == 0:
        # columns of a table that was sorted / filtered before: pandas Series whose index is NOT 0..n-1 (positions are what counts)
        import pandas as pd
        n_ = len(coords[0])
        idx = [list(range(n_ - 1, -1, -1)), [(7 * k + 3) % n_ if n_ % 7 else n_ - 1 - k for k in range(n_)], list(range(1000, 1000 + n_))][len(key) % 3]
        ser = lambda a: pd.Series(np.array(a), index=idx)  # noqa: E731
        which = zlib.crc32(("which" + key).encode()) % 3      # 0: data only; 1: data and weights; 2: everything
        ds = tuple(ser(d) for d in ds)
        if ws is not None and which >= 1:
            ws = tuple(ser(w) for w in ws)
        if which == 2:
            cs = tuple(ser(c) for c in cs)
    d_arg = ds[0] if len(ds) == 1 else ds
    w_arg = None if ws is None else (ws[0] if len(ws) == 1 else ws)
    # history: the same instance is first used on a different cloud (shifted, stretched); the result on the case's cloud
    # must not depend on that earlier call
    C.call(br.filter, tuple(np.asarray(c) * 3.0 + 17.0 for c in cs), d_arg, w_arg)
    r = C.call(br.filter, cs, d_arg, w_arg)
    if C.is_err(r):
        return r
    bc, bd = r
    if len(ds) == 1:
        bd = (bd,)
    return [[np.asarray(c, dtype=float).tolist() for c in bc], [np.asarray(d, dtype=float).tolist() for d in bd]]


def compare(case, io, mo):
    if case["fn"] == "rel":
        return "diff:implementation failed: " + io[1] if C.is_err(io) else "ok"
    if case["fn"] == "large":
        return "diff:implementation failed: " + io[1] if C.is_err(io) else "ok"
    r = C.std_compare(io, mo, tol=1e-11)
    if r != "ok":      # (also when one side failed: a zero-weight point that lands alone in a block on one side of a tie only)
        a = case["args"]
        if B.near_tie(a[0][0], a[0][1], a[4], a[5], a[6], a[7]):
            return "amb"
    return r


def _reduce(red, vals, ws=None):
    v = [C.fq(x) for x in vals]
    if red == "average" and ws is not None:
        w = [C.fq(x) for x in ws]
        return sum(a * b for a, b in zip(v, w)) / sum(w)
    if red in ("mean", "average"):
        return sum(v) / len(v)
    if red == "sum":
        return sum(v)
    if red == "min":
        return min(v)
    if red == "max":
        return max(v)
    s = sorted(v)
    n = len(s)
    return s[n // 2] if n % 2 else (s[n // 2 - 1] + s[n // 2]) / 2


def oracle(case, io):
    if case["fn"] == "rel":
        return (io[1] or None) if not C.is_err(io) else "failed: " + io[1]
    if case["fn"] == "large":
        if C.is_err(io):
            return "BlockReduce failed on a large survey: " + io[1]
        r = io[1]
        if r["nblocks"] != r["expected_blocks"]:
            return f"{r['n']} points: {r['nblocks']} output entries for {r['expected_blocks']} non-empty blocks"
        if not (r["data_err"] <= 1e-8) or not (r["coord_err"] <= 1e-8):
            return (f"{r['n']} points, reduction {case['args'][3]}: block values differ from the reduction over each block's own members by {r['data_err']}"
                    f" (coordinates by {r['coord_err']})")
        return None
    coords, shape2d, data, weights, region, shape, spacing, adjust, red, centre, drop = case["args"]
    es, ns = coords[0], coords[1]
    if C.is_err(io) and io[1] == "ZeroDivisionError" and weights is not None:
        # a weighted average over a block whose weights are all zero is undefined: the error is the right answer exactly then
        _, labels0 = vd.block_split((np.array(es), np.array(ns)), spacing=spacing, shape=shape, adjust=adjust, region=region)
        if any(sum(wc[i] for i in members) == 0 for members in B.groups(labels0).values() for wc in weights):
            return None
    if C.is_err(io):
        return "valid arguments rejected: " + io[1]
    if B.near_tie(es, ns, region, shape, spacing, adjust):
        return None
    (be, bn), labels = vd.block_split((np.array(es), np.array(ns)), spacing=spacing, shape=shape, adjust=adjust, region=region)
    gr = B.groups(labels)
    oc, od = io
    nblocks = len(gr)
    if any(len(c) != nblocks for c in oc) or any(len(d) != nblocks for d in od):
        return f"expected one entry per non-empty block ({nblocks}); got coords {[len(c) for c in oc]}, data {[len(d) for d in od]}"
    if len(od) != len(data) or len(oc) != (2 if drop else len(coords)):
        return "wrong number of output components / coordinate arrays"
    for pos, (lab, members) in enumerate(gr.items()):
        for c, comp in enumerate(data):
            exp = _reduce(red, [comp[i] for i in members], None if weights is None else [weights[c][i] for i in members])
            if not C.close(od[c][pos], exp, 1e-10, max(1.0, abs(float(exp)))):
                return (f"block {lab} (output position {pos}), component {c}: got {od[c][pos]} but {red} of its members "
                        f"{[comp[i] for i in members]}" + (f" with weights {[weights[c][i] for i in members]}" if weights else "") + f" is {float(exp)}")
        for k in range(len(oc)):
            if centre and k < 2:
                exp = float((be, bn)[k][lab])
            else:
                exp = _reduce(red, [coords[k][i] for i in members])
            if not C.close(oc[k][pos], exp, 1e-10, max(1.0, abs(float(exp)))):
                return f"block {lab}: coordinate {k} is {oc[k][pos]}, expected {float(exp)} ({'block centre' if centre and k < 2 else red + ' of member coordinates'})"
    if red == "sum":
        for c, comp in enumerate(data):
            if not C.close(sum(od[c]), sum(comp), 1e-9, max(1.0, sum(abs(x) for x in comp))):
                return "sum reduction does not conserve the input total"
    return None


def nontrivial(case, io):
    if case["fn"] == "rel":
        return not C.is_err(io)
    if C.is_err(io):
        return False
    if case["fn"] == "large":
        return True
    return len(io[1][0]) >= 2 or len(case["args"][0][0]) > len(io[1][0])


def finding_key(case, io):
    return None
