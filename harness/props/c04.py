"""C04 — gridding results do not depend on array layout, point order or dtype; linear gridders are linear in the data."""
import warnings

import numpy as np
import pandas as pd

import common as C
import verde as vd
from props import large as L

ID = "C04"
TRANSLATED = "fit"          # the mathematics the invariances rest on is stated about the regenerated least_squares / Trend.fit / Trend.predict (Props/C04.lean: src_*); layout and dtype are observed on the real gridders
FILES = ["verde/base/utils.py", "verde/spline.py", "verde/trend.py", "verde/vector.py", "verde/neighbors.py", "verde/scipygridder.py"]
RULE = ("corpus + seeded integer-valued point sets in general position for every gridder (Trend 0..3, Spline damped/undamped, VectorSpline2D, KNeighbors "
        "mean/median, Linear, Cubic): the base fit is compared with the same fit after (1) a random permutation of the points, (2) 2-D C-ordered, "
        "Fortran-ordered and strided-view inputs and pandas Series with the same element sequence, (3) appended ignored extra coordinates, (4) integer "
        "dtype for coordinates and/or data (fit and predict), (5) a d1 + b d2 for the linear gridders; query arrays are 2-D (the prediction must have their shape); "
        "Trend variants are also compared with the exact rational fit of the model; non-trivial = all variants accepted with >= 4 points; "
        "distinct = distinct protocol lines")
ASSUMPTIONS = ["solver round-off: variants compared at 1e-7 relative to the data scale times max(1, cond * 1e-9)",
               "points in general position (no tied neighbour distances for KNeighbors; hull-interior queries for Linear/Cubic)"]
TRUSTED = ["numpy ravel/atleast_1d/broadcast semantics", "pandas Series -> ndarray conversion"]

LINEAR = {"trend", "spline", "vector", "knn-mean", "linear", "chain-trend-knn", "vector-trend", "spline-dense-forces", "vector-dense-forces", "chain-blockcentres-trend"}
VEC = {"vector", "vector-trend", "vector-dense-forces"}


def pts(rng, n):
    seen, es, ns = set(), [], []
    while len(es) < n:
        x, y = float(rng.randint(-40, 40)), float(rng.randint(-40, 40))
        if (x, y) not in seen:
            seen.add((x, y))
            es.append(x)
            ns.append(y)
    return es, ns


def mk(kind, params, es, ns, d1, d2, w, perm, a, b, seed):
    qe, qn = QE, QN
    op = "power_comb 1"
    if kind == "trend":
        fq = [x for r in qe for x in r]
        fn = [y for r in qn for y in r]
        op = f"trend_fit {C.enc(es)} {C.enc(ns)} {C.enc(d1)} {C.enc(w)} {params['degree']} {C.enc(fq)} {C.enc(fn)}"
    return {"fn": "meta", "kind": kind, "args": [kind, params, es, ns, d1, d2, w, perm, a, b, qe, qn, seed], "op": op,
            "key": repr((kind, sorted(params.items()), es, ns, d1, w, perm))}


def build(kind, params):
    if kind == "trend":
        return vd.Trend(params["degree"])
    if kind == "spline":
        return vd.Spline(damping=params.get("damping"))
    if kind == "vector":
        return vd.VectorSpline2D(poisson=params["poisson"], mindist=params["mindist"], damping=params.get("damping"))
    if kind in ("spline-dense-forces", "vector-dense-forces"):
        # more forces than data (a dense regular grid of them), damped: an under-determined but well-posed ridge problem
        fc = tuple(np.ravel(c) for c in vd.grid_coordinates((-44.0, 44.0, -44.0, 44.0), shape=(params["nf"], params["nf"] + 1)))
        if kind == "spline-dense-forces":
            return vd.Spline(damping=params["damping"], force_coords=fc)
        return vd.VectorSpline2D(poisson=0.5, mindist=4.0, damping=params["damping"], force_coords=fc)
    if kind == "knn-mean":
        return vd.KNeighbors(k=params["k"])
    if kind == "knn-median":
        return vd.KNeighbors(k=params["k"], reduction=np.median)
    if kind == "linear":
        return vd.Linear(rescale=params["rescale"])
    if kind == "cubic":
        return vd.Cubic(rescale=params["rescale"])
    if kind == "knn-max":
        return vd.KNeighbors(k=params["k"], reduction=np.max)
    if kind == "chain-trend-knn":
        return vd.Chain([("trend", vd.Trend(1)), ("knn", vd.KNeighbors(k=params["k"]))])
    if kind == "chain-knnmax-trend":
        return vd.Chain([("knn", vd.KNeighbors(k=params["k"], reduction=np.max)), ("trend", vd.Trend(1))])
    if kind == "vector-trend":
        return vd.Vector([vd.Trend(1), vd.Trend(params["degree"])])
    if kind == "chain-blockcentres-trend":
        # decimation to block means placed at the block CENTRES, then a trend: which mean goes with which centre does not depend on the order
        # in which the points (hence the blocks) are met
        return vd.Chain([("reduce", vd.BlockReduce(np.mean, spacing=params["spacing"], center_coordinates=True)), ("trend", vd.Trend(1))])
    raise ValueError(kind)


QE = [[0.5, -1.25, 2.0], [1.0, 13.5, -2.0], [0.0, 0.25, 24.0], [-23.0, 2.5, 1.5]]
QN = [[1.5, 1.0, -2.5], [-0.75, 10.5, 2.0], [0.25, -1.0, 13.5], [3.0, 0.0, -20.5]]
IQ = ([[0, -1, 2], [13, 1, -22]], [[1, 0, 3], [-2, 12, 1]])


def _has_ties(es, ns, at_data=False):
    """True if some query point has two data points at exactly the same distance (KNeighbors is then order dependent).
    at_data: the data points themselves are queries too (a chain evaluates its neighbour step at the data to form residuals)."""
    qs = [(x, y) for re, rn in zip(QE, QN) for x, y in zip(re, rn)] + [(float(x), float(y)) for re, rn in zip(*IQ) for x, y in zip(re, rn)]
    if at_data:
        qs += [(float(x), float(y)) for x, y in zip(es, ns)] + [(float(x) - 0.375, float(y)) for x, y in zip(es, ns)] + \
              [(float(x), float(y) + 0.25) for x, y in zip(es, ns)]
    for qx, qy in qs:
        d = [(qx - e) ** 2 + (qy - n) ** 2 for e, n in zip(es, ns)]
        if len(set(d)) != len(d):
            return True
    return False


def _degenerate(es, ns):
    """True if three points are collinear or four are co-circular: the Delaunay triangulation (Linear, Cubic) is then not unique
    and legitimately depends on the point order — not 'general position'."""
    import itertools
    P = [(int(x), int(y)) for x, y in zip(es, ns)]
    for a, b, c in itertools.combinations(P, 3):
        if (b[0] - a[0]) * (c[1] - a[1]) - (b[1] - a[1]) * (c[0] - a[0]) == 0:
            return True
    for a, b, c, d in itertools.combinations(P, 4):
        m = [[p[0] - d[0], p[1] - d[1], (p[0] - d[0]) ** 2 + (p[1] - d[1]) ** 2] for p in (a, b, c)]
        det = (m[0][0] * (m[1][1] * m[2][2] - m[1][2] * m[2][1]) - m[0][1] * (m[1][0] * m[2][2] - m[1][2] * m[2][0])
               + m[0][2] * (m[1][0] * m[2][1] - m[1][1] * m[2][0]))
        if det == 0:
            return True
    return False


def rand_case(rng, kind=None, amp=None):
    kind = kind or rng.choice(["trend", "trend", "spline", "spline", "vector", "knn-mean", "knn-median", "linear", "cubic",
                               "knn-max", "chain-trend-knn", "chain-knnmax-trend", "vector-trend", "spline-dense-forces", "vector-dense-forces",
                               "chain-blockcentres-trend"])
    n = rng.choice([6, 8, 9, 10, 12])
    es, ns = pts(rng, n)
    while ((kind.startswith("knn") or "knn" in kind) and _has_ties(es, ns, at_data=kind.startswith("chain"))) or (kind in ("linear", "cubic") and _degenerate(es, ns)):
        es, ns = pts(rng, n)
    amp = amp or rng.choice([1.0, 1.0, 1.0, 0.001, 12500.0])      # data in other units (mm .. large counts): invariances do not depend on the data's amplitude
    d1 = [float(rng.randint(-20, 20)) * amp for _ in range(n)]
    d2 = [float(rng.randint(-20, 20)) * amp for _ in range(n)]
    w = [float(rng.randint(1, 5)) for _ in range(n)] if (kind in ("trend", "spline", "vector") and rng.random() < 0.5) else None
    params = {"trend": {"degree": rng.randint(0, 2)},
              "spline": {"damping": rng.choice([None, 1e-3, 1e-1])},
              "vector": {"poisson": rng.choice([-0.5, 0.0, 0.5]), "mindist": rng.choice([1.0, 4.0]), "damping": rng.choice([None, 1e-2])},
              "knn-mean": {"k": rng.randint(1, 3)}, "knn-median": {"k": rng.randint(1, 3)}, "knn-max": {"k": rng.randint(1, 3)},
              "chain-trend-knn": {"k": rng.randint(1, 3)}, "chain-knnmax-trend": {"k": rng.randint(1, 3)},
              "vector-trend": {"degree": rng.randint(0, 2)},
              "chain-blockcentres-trend": {"spacing": rng.choice([6.5, 9.25, 13.0])},
              "spline-dense-forces": {"damping": rng.choice([1e-3, 1e-2]), "nf": rng.randint(5, 8)},
              "vector-dense-forces": {"damping": rng.choice([1e-3, 1e-2]), "nf": rng.randint(4, 6)},
              "linear": {"rescale": rng.random() < 0.5}, "cubic": {"rescale": rng.random() < 0.5}}[kind]
    if w is not None and kind in ("spline", "vector") and params.get("damping") is None:
        w = None
    perm = list(range(n))
    rng.shuffle(perm)
    sf = rng.choice([1.0, 1.0, 1.0, 1e-12, 1e9])      # "for all scalars a, b": also a change of units by many orders of magnitude (volts to picovolts)
    return mk(kind, params, es, ns, d1, d2, w, perm, (rng.randint(-3, 3) + 0.5) * sf, (rng.randint(-3, 3) - 0.25) * sf, rng.randint(0, 10**6))


def corpus():
    return _corpus() + [L.case("vector_mixed_dtype", [1], "corpus-mixed-dtypes"),
                       L.case("vector_mixed_dtype", [2], "corpus-mixed-dtypes"),
                       L.case("cv_layout", [24, 1, 4], "corpus-cv-2d-arrays"),
                       L.case("cv_layout", [30, 2, 3], "corpus-cv-2d-arrays")]


def _corpus():
    import random
    rng = random.Random(4)
    cs = [rand_case(rng, k, 1.0) for k in ["trend", "spline", "vector", "knn-mean", "knn-median", "linear", "cubic",
                                           "knn-max", "chain-trend-knn", "chain-knnmax-trend", "vector-trend", "spline-dense-forces", "vector-dense-forces",
                                           "chain-blockcentres-trend", "chain-blockcentres-trend"]]
    # families exercised on EVERY run: every kind also with data of large and of tiny amplitude
    cs += [rand_case(rng, k, a) for a in (12500.0, 0.001) for k in ("cubic", "linear", "spline", "trend", "knn-median", "vector")]
    # ... and with scalars a, b of order 1e-12 (every value of a d1 + b d2 far below 1e-8)
    for k in ("spline", "trend", "vector", "knn-mean", "linear"):
        c = rand_case(rng, k, 1.0)
        c["args"][8], c["args"][9] = 2.5e-12, -1.25e-12
        cs.append(mk(*c["args"][:10], c["args"][12]))
    return cs


def generate(rng, tier):
    return [rand_case(rng) for _ in range(90 if tier == "quick" else 1500)]


def _fit_predict(kind, params, coords, data, weights, query):
    g = build(kind, params)
    g.fit(coords, data, weights)
    p = g.predict(query)
    return [np.asarray(x, dtype=float) for x in (p if isinstance(p, tuple) else (p,))]


def _variants(kind, es, ns, d1, d2, w, perm, seed):
    """name -> (coords, data, weights) with the same logical element sequence (or a permutation of the points)."""
    n = len(es)
    E, N = np.array(es), np.array(ns)
    vec = kind in VEC
    D = (np.array(d1), np.array(d2)) if vec else np.array(d1)
    W = None if w is None else ((np.array(w), np.array(w)[::-1].copy()) if vec else np.array(w))

    def each(f, x):
        if x is None:
            return None
        return tuple(f(i) for i in x) if isinstance(x, tuple) else f(x)
    out = {"base": ((E, N), D, W)}
    p = np.array(perm)
    out["permuted"] = ((E[p], N[p]), each(lambda x: x[p], D), each(lambda x: x[p], W))
    if n % 2 == 0:
        sh = (2, n // 2)
        out["2d-C"] = ((E.reshape(sh), N.reshape(sh)), each(lambda x: x.reshape(sh), D), each(lambda x: x.reshape(sh), W))
        out["2d-F"] = ((np.asfortranarray(E.reshape(sh)), np.asfortranarray(N.reshape(sh))),
                       each(lambda x: np.asfortranarray(x.reshape(sh)), D), each(lambda x: np.asfortranarray(x.reshape(sh)), W))

    def strided(x):
        buf = np.full(2 * x.size + 1, -999.0)
        buf[1::2] = x
        return buf[1::2]
    out["strided"] = ((strided(E), strided(N)), each(strided, D), each(strided, W))
    out["series"] = ((pd.Series(E), pd.Series(N)), each(pd.Series, D), each(pd.Series, W))
    # columns of a DataFrame that was shuffled/sorted without reset_index: same element sequence, index labels are a permutation
    pidx = [(5 * i + 2) % n for i in range(n)] if n % 5 else list(range(n - 1, -1, -1))
    ps = lambda x: pd.Series(np.asarray(x).copy(), index=pidx)  # noqa: E731
    out["series-permuted-index"] = ((ps(E), ps(N)), each(ps, D), each(ps, W))
    out["extra-coords"] = ((E, N, np.arange(n) * 7.0 - 3.0), D, W)
    # ignored extra coordinates may hold anything - e.g. station heights missing (NaN) for some points
    hole = np.arange(n) * 7.0 - 3.0
    hole[:: max(2, n // 3)] = np.nan
    out["extra-coords-with-nan"] = ((E, N, hole), D, W)
    out["int-coords"] = ((E.astype("int64"), N.astype("int64")), D, W)
    if all(float(v).is_integer() for v in list(d1) + list(d2)):      # (only integer-VALUED data can be handed over with an integer dtype)
        out["int-data"] = ((E, N), each(lambda x: x.astype("int64"), D), W)
        out["int-all"] = ((E.astype("int32"), N.astype("int32")), each(lambda x: x.astype("int64"), D), W)
    return out


def _ro(x):
    x.setflags(write=False)
    return x


def impl(case):
    if case["fn"] == "large":
        r = C.call(L.run, case["args"])
        return r if C.is_err(r) else ["large", r]
    kind, params, es, ns, d1, d2, w, perm, a, b, qe, qn, seed = case["args"]

    def run():
        with warnings.catch_warnings():
            warnings.simplefilter("ignore")
            qE, qN = np.array(qe), np.array(qn)          # 2-D query arrays of shape (4, 3)
            res = {}
            allv = _variants(kind, es, ns, d1, d2, w, perm, seed)
            # the SAME object fitted to the base points, then re-fitted to the same points in another order (VectorSpline2D keeps
            # the force positions of its first fit, so forces and data then come in different orders)
            g2 = build(kind, params)
            g2.fit(*allv["base"])
            g2.fit(*allv["permuted"])
            p2 = g2.predict((qE, qN))
            res["refit-permuted"] = [np.asarray(x, dtype=float).ravel().tolist() for x in (p2 if isinstance(p2, tuple) else (p2,))]
            # the SAME object fitted first to integer-typed data, then to fractional data of the same size: what it then predicts is what a fresh
            # object fitted to the fractional data predicts (nothing of the first fit's dtype or buffers survives)
            bc, bd, bw = allv["base"]
            frac = tuple(0.5 * np.asarray(x, dtype=float) + 0.25 * np.asarray(x, dtype=float)[::-1] + 0.125 for x in (bd if isinstance(bd, tuple) else (bd,)))
            ints = tuple(np.round(np.asarray(x, dtype=float)).astype("int64") for x in (bd if isinstance(bd, tuple) else (bd,)))
            g3 = build(kind, params)
            g3.fit(bc, ints if isinstance(bd, tuple) else ints[0], bw)
            g3.fit(bc, frac if isinstance(bd, tuple) else frac[0], bw)
            p3 = g3.predict((qE, qN))
            pfresh = _fit_predict(kind, params, bc, frac if isinstance(bd, tuple) else frac[0], bw, (qE, qN))
            res["mixed:refit-after-integer-data"] = [[np.asarray(x, dtype=float).ravel().tolist() for x in (p3 if isinstance(p3, tuple) else (p3,))],
                                                     [x.ravel().tolist() for x in pfresh]]
            for name, (coords, data, weights) in allv.items():
                p = _fit_predict(kind, params, coords, data, weights, (qE, qN))
                if any(x.shape != (4, 3) for x in p):
                    raise RuntimeError(f"{name}: prediction shape {p[0].shape} is not the broadcast shape (4, 3)")
                res[name] = [x.ravel().tolist() for x in p]
            # the same query points handed over in other memory layouts / shapes: same values at the same logical positions
            gq = build(kind, params)
            gq.fit(*allv["base"])
            big = np.full((8, 6), -777.0)
            def view(x):
                b = big.copy()
                b[::2, 1::2] = x
                return b[::2, 1::2]
            qvars = {"query-F": (np.asfortranarray(qE), np.asfortranarray(qN)), "query-T-view": (qE.T.copy().T, qN.T.copy().T),
                     "query-strided-view": (view(qE), view(qN)), "query-mixed-orders": (np.asfortranarray(qE), qN.copy()),
                     "query-3d": (qE.reshape(2, 2, 3), np.asfortranarray(qN.reshape(2, 2, 3))), "query-1d": (qE.ravel(), qN.ravel()),
                     "query-readonly-F": tuple(_ro(np.asfortranarray(x)) for x in (qE, qN))}
            for nm, qv in qvars.items():
                pq = gq.predict(qv)
                pq = [np.asarray(x, dtype=float) for x in (pq if isinstance(pq, tuple) else (pq,))]
                if any(x.shape != qv[0].shape for x in pq):
                    raise RuntimeError(f"{nm}: prediction shape {pq[0].shape} is not the query's shape {qv[0].shape}")
                res[nm] = [x.ravel().tolist() for x in pq]
            # results are the caller's: a prediction already returned does not change when the same object predicts again (same number of points,
            # other points), and the two results do not share memory
            first = gq.predict((qE, qN))
            first = first if isinstance(first, tuple) else (first,)
            kept = [np.array(x, dtype=float, copy=True) for x in first]
            second = gq.predict((qE[::-1] * 0.5 + 0.375, qN * -1.0 + 0.25))
            second = second if isinstance(second, tuple) else (second,)
            if any(not np.array_equal(np.asarray(x, dtype=float), k_, equal_nan=True) for x, k_ in zip(first, kept)) or \
                    any(np.shares_memory(np.asarray(x), np.asarray(y)) for x in first for y in second):
                raise RuntimeError("a prediction returned earlier changed (or shares memory) when the same object predicted again")
            # queries with an axis of length one: a single row, a single column, one point as a 1-element or a 1 x 1 array - the prediction has
            # exactly the query's shape
            flatE, flatN = qE.ravel(), qN.ravel()
            for nm, qs in {"query-single-row": (flatE[None, :], flatN[None, :]), "query-single-column": (flatE[:, None], flatN[:, None]),
                           "query-1-element": (flatE[:1], flatN[:1]), "query-1x1": (qE[:1, :1], qN[:1, :1]), "query-1x1x1": (qE[:1, :1, None], qN[:1, :1, None])}.items():
                ps = gq.predict(qs)
                ps = [np.asarray(x, dtype=float) for x in (ps if isinstance(ps, tuple) else (ps,))]
                if any(x.shape != qs[0].shape for x in ps):
                    raise RuntimeError(f"{nm}: prediction shape {ps[0].shape} is not the query's shape {qs[0].shape}")
                res["mixed:" + nm] = [[x.ravel().tolist() for x in ps], [np.asarray(k_).ravel()[:ps[0].size].tolist() for k_ in kept]]
            # a single query point handed over as two scalars (Python floats, NumPy scalars, 0-d arrays): the prediction is 0-dimensional (the
            # broadcast shape of two scalars) and is the value predicted at that point
            q0 = (float(qE[1, 1]), float(qN[1, 1]))
            p1 = gq.predict((np.array([q0[0]]), np.array([q0[1]])))
            p1 = [np.asarray(x, dtype=float) for x in (p1 if isinstance(p1, tuple) else (p1,))]
            for nm, qs in {"query-0d-float": q0, "query-0d-numpy-scalar": (np.float64(q0[0]), np.float64(q0[1])), "query-0d-array": (np.array(q0[0]), np.array(q0[1]))}.items():
                ps = gq.predict(qs)
                ps = [np.asarray(x, dtype=float) for x in (ps if isinstance(ps, tuple) else (ps,))]
                if any(x.shape != () for x in ps):
                    raise RuntimeError(f"{nm}: prediction shape {ps[0].shape} is not the broadcast shape () of two scalars")
                res["mixed:" + nm] = [[x.ravel().tolist() for x in ps], [x.ravel().tolist() for x in p1]]
            # the query as a "sparse" meshgrid - a row of eastings and a column of northings that BROADCAST to the grid: the prediction has the
            # broadcast shape and the dense grid's values.  (The scipy-based gridders accept such queries; the others refuse arrays of different
            # sizes with a ValueError, which is a refusal, not a prediction.)
            for nm, (nx_, ny_) in {"query-sparse-meshgrid": (3, 4), "query-sparse-meshgrid-square": (3, 3)}.items():
                gx, gy = np.linspace(qE.min(), qE.max(), nx_), np.linspace(qN.min(), qN.max(), ny_)
                try:
                    ps = gq.predict(tuple(np.meshgrid(gx, gy, sparse=True)))
                except ValueError:
                    if kind in ("linear", "cubic"):
                        raise
                    continue
                ps = [np.asarray(x, dtype=float) for x in (ps if isinstance(ps, tuple) else (ps,))]
                if any(x.shape != (ny_, nx_) for x in ps):
                    raise RuntimeError(f"{nm}: prediction shape {ps[0].shape} is not the broadcast shape {(ny_, nx_)}")
                pdn = gq.predict(tuple(np.meshgrid(gx, gy)))
                res["mixed:" + nm] = [[x.ravel().tolist() for x in ps], [np.asarray(x, dtype=float).ravel().tolist() for x in (pdn if isinstance(pdn, tuple) else (pdn,))]]
            # integer query coordinates give the same predictions as float ones
            coords, data, weights = _variants(kind, es, ns, d1, d2, w, perm, seed)["base"]
            iq = (np.array(IQ[0]), np.array(IQ[1]))
            pf = _fit_predict(kind, params, coords, data, weights, (iq[0].astype(float), iq[1].astype(float)))
            pi = _fit_predict(kind, params, coords, data, weights, iq)
            res["int-query"] = [[x.ravel().tolist() for x in pf], [x.ravel().tolist() for x in pi]]
            # mixed dtypes: one coordinate integer-typed, the other float with fractional values
            Eb, Nb = np.array(es), np.array(ns)
            for nm, (ce, cn) in {"int-east+frac-north": (Eb.astype("int64"), Nb + 0.25), "frac-east+int-north": (Eb - 0.375, Nb.astype("int32"))}.items():
                pm = _fit_predict(kind, params, (ce, cn), data, weights, (qE, qN))
                pr = _fit_predict(kind, params, (ce.astype(float), cn.astype(float)), data, weights, (qE, qN))
                res["mixed:" + nm] = [[x.ravel().tolist() for x in pm], [x.ravel().tolist() for x in pr]]
            if kind in LINEAR:
                vec = kind in VEC
                E, N = np.array(es), np.array(ns)
                D1 = (np.array(d1), np.array(d2)) if vec else np.array(d1)
                D2 = (np.array(d2)[::-1].copy(), np.array(d1)[::-1].copy()) if vec else np.array(d2)
                comb = tuple(a * x + b * y for x, y in zip(D1, D2)) if vec else a * D1 + b * D2
                p1 = _fit_predict(kind, params, (E, N), D1, weights, (qE, qN))
                p2 = _fit_predict(kind, params, (E, N), D2, weights, (qE, qN))
                pc = _fit_predict(kind, params, (E, N), comb, weights, (qE, qN))
                res["linearity"] = [[x.ravel().tolist() for x in pc], [(a * x + b * y).ravel().tolist() for x, y in zip(p1, p2)],
                                    float(max([abs(a) * float(np.nanmax(np.abs(x))) for x in p1] + [abs(b) * float(np.nanmax(np.abs(y))) for y in p2]))]
            return res
    r = C.call(run)
    return r if C.is_err(r) else ["meta", r]


def _tol(case):
    kind, params, es, ns = case["args"][:4]
    cond = 1.0
    with warnings.catch_warnings():
        warnings.simplefilter("ignore")
        c = (np.array(es), np.array(ns))
        if kind == "spline" and params.get("damping") is None:
            cond = np.linalg.cond(vd.Spline().jacobian(c, c))
        if kind == "vector" and params.get("damping") is None:
            cond = np.linalg.cond(vd.VectorSpline2D(poisson=params["poisson"], mindist=params["mindist"]).jacobian(c, c))
        if kind == "trend":
            cond = np.linalg.cond(vd.Trend(params["degree"]).jacobian(c)) ** 2
    if kind == "cubic":
        return 1e-4      # Clough-Tocher estimates gradients iteratively (tol 1e-6): order dependent at that level
    return 1e-7 * max(1.0, cond * 1e-8)


def compare(case, io, mo):
    if case["fn"] == "large":
        return "diff:implementation failed: " + io[1] if C.is_err(io) else "ok"
    if case["args"][0] != "trend":
        return "ok"
    if C.is_err(io):
        return "diff:implementation failed: " + io[1]
    if mo == "singular":
        return "amb"
    pred_m = C.tofloat(mo[1])
    tol = _tol(case)
    sc = max(1.0, max(abs(v) for v in pred_m))
    for name, p in io[1].items():
        if name in ("int-query", "linearity") or name.startswith("mixed:"):
            continue
        for x, y in zip(p[0], pred_m):
            if not np.isfinite(x) and not np.isfinite(y):
                continue
            if not (abs(x - y) <= tol * sc):
                return f"diff:variant {name}: Trend prediction {x} vs exact model {y}"
    return "ok"


def oracle(case, io):
    if case["fn"] == "large":
        return (io[1] or None) if not C.is_err(io) else "failed on a large input: " + io[1]
    if C.is_err(io):
        return "a layout/dtype variant failed or returned the wrong shape: " + io[1]
    res = io[1]
    tol = _tol(case)
    base = np.array(res["base"])
    sc = max(1.0, float(np.nanmax(np.abs(base)))) if np.any(np.isfinite(base)) else 1.0
    for name, p in res.items():
        if name.startswith("mixed:"):
            pm, pr = np.array(p[0]), np.array(p[1])
            if not np.allclose(pm, pr, rtol=0, atol=tol * sc, equal_nan=True):
                return (f"{case['args'][0]} {case['args'][1]}: {'a refit after integer-typed data differs from a fresh fit' if 'refit' in name else 'integer-typed coordinates (' + name[6:] + ') change the prediction'} "
                        f"(max difference {np.nanmax(np.abs(pm - pr))})")
            continue
        if name in ("base", "int-query", "linearity"):
            continue
        p = np.array(p)
        if not np.allclose(p, base, rtol=0, atol=tol * sc, equal_nan=True):
            return (f"{case['args'][0]} {case['args'][1]}: predictions change under variant '{name}' "
                    f"(max difference {np.nanmax(np.abs(p - base))}, scale {sc})")
    pf, pi = np.array(res["int-query"][0]), np.array(res["int-query"][1])
    if not np.allclose(pf, pi, rtol=0, atol=tol * sc, equal_nan=True):
        return "integer-typed query coordinates change the prediction"
    if "linearity" in res:
        pc, pl = np.array(res["linearity"][0]), np.array(res["linearity"][1])
        # (linear maps are homogeneous: the yardstick is the size of the two terms, whatever the units)
        s2 = res["linearity"][2] if len(res["linearity"]) > 2 and np.isfinite(res["linearity"][2]) and res["linearity"][2] > 0 else 1.0
        if not np.allclose(pc, pl, rtol=0, atol=10 * tol * s2, equal_nan=True):
            return f"fit(a d1 + b d2) differs from a fit(d1) + b fit(d2) by {np.nanmax(np.abs(pc - pl))}"
    return None


def nontrivial(case, io):
    if case["fn"] == "large":
        return not C.is_err(io)
    return (not C.is_err(io)) and len(case["args"][2]) >= 4


def finding_key(case, io):
    return None
