"""C20 — calls are pure, repeatable, history-free and reject inconsistent input."""
import warnings

import numpy as np
import pandas as pd
import xarray as xr
from sklearn.base import clone
from sklearn.exceptions import NotFittedError
from sklearn.model_selection import KFold

import blocks_common as B
import common as C
import verde as vd
from moment import MomentGridder
from props.c06 import build as build_spec, enc_spec

ID = "C20"
TRANSLATED = "base"        # Gen/Base.lean (check_coordinates, check_fit_input validation) is regenerated from /repo and bridged to the model in Props/C20.lean
FILES = ["verde/base/utils.py", "verde/base/base_classes.py", "verde/base/least_squares.py", "verde/spline.py", "verde/vector.py", "verde/utils.py",
         "verde/blockreduce.py", "verde/coordinates.py"]
RULE = ("(a) purity sweep: every public callable / estimator method of the modelled surface is run on fresh writable copies of seeded arguments (bytes "
        "compared before/after), on read-only copies, and twice (results identical); (b) histories: random sequences of fit (on different datasets) / predict / "
        "clone / set_params(get_params) on Trend, MomentGridder, KNeighbors, chains and vectors compared with the Lean life-cycle model (which keeps only the "
        "latest fit), VectorSpline2D/Spline/Linear/Cubic compared with fresh estimators (VectorSpline2D with the first fit's force coordinates); predict before "
        "fit must raise NotFittedError; (c) every single shape/count inconsistency injected into check_fit_input and the estimators' fit (model: decision over "
        "shapes), both/neither of shape and spacing, invalid regions; non-trivial = the case ran to a verdict on >= 2 arrays or ops; distinct = distinct protocol lines + case keys")
ASSUMPTIONS = ["'does not modify its arguments' and 'identical results when repeated' are observed on the implementation (bytes before/after, two runs); "
               "a pure functional model cannot express object mutation", "least_squares(copy_jacobian=False) scales the Jacobian in place by documented design and is excluded"]
TRUSTED = ["numpy tobytes / array_equal", "scikit-learn clone, get_params, set_params, check_is_fitted"]


# ----------------------------------------------------------------------------- (a) purity sweep
def _data(seed):
    rs = np.random.RandomState(seed)
    n = 16
    e = np.round(rs.uniform(0, 10, n) * 64) / 64 + 1 / 128
    no = np.round(rs.uniform(-5, 5, n) * 64) / 64 + 1 / 256
    return {"e": e, "n": no, "d": np.round(rs.normal(size=n) * 16) / 16, "d2": np.round(rs.normal(size=n) * 16) / 16,
            "w": np.round(rs.uniform(0.5, 2, n) * 16) / 16, "up": np.arange(n) * 1.0,
            "var": np.array([0.0, 1.0, np.nan, 4.0, 1e-16, 2.0, 0.5, 3.0]), "lon": np.array([-170.0, 10.0, 350.0, 180.0]),
            "lat": np.array([-10.0, 0.0, 45.0, 80.0]), "E2": None, "N2": None,
            # non-data arguments given as arrays (regions, pads, spacings, points, sizes): they must not be written to either
            "reg": np.array(REG), "reg2": np.array([2.0, 8.0, -2.0, 2.0]), "lonreg": np.array([350.0, 10.0, -30.0, 30.0]),
            "lonreg2": np.array([-170.0, 190.0, -30.0, 30.0]), "pad": np.array([1.0, 2.0]), "spacing": np.array([2.5, 2.0]),
            "sizes": np.array([2.0, 6.0]), "center": np.array([5.0, 0.0]), "p1": np.array([0.0, 1.0]), "p2": np.array([4.0, -2.0])}


REG = (0.0, 10.0, -5.0, 5.0)


def _canon(x):
    if x is None or isinstance(x, (str, bool, int, float)):
        return x
    if isinstance(x, xr.Dataset):
        return {k: _canon(x[k].values) for k in list(x.data_vars) + list(x.coords)}
    if isinstance(x, xr.DataArray):
        return _canon(x.values)
    if isinstance(x, pd.DataFrame):
        return {str(k): _canon(x[k].values) for k in x.columns}
    if isinstance(x, (list, tuple)):
        return [_canon(i) for i in x]
    if isinstance(x, dict):
        return {k: _canon(v) for k, v in x.items()}
    a = np.asarray(x)
    if a.dtype == object:
        return [_canon(i) for i in a.ravel().tolist()]
    return ("arr", a.shape, a.dtype.str, a.tobytes())


def _scipy_options_untouched(a):
    """Options handed over in a dictionary are the caller's: fitting (also a fit that SciPy refuses) leaves the dictionary and get_params as they
    were, and the same object re-configured and refitted behaves like a fresh one with those options."""
    args = {"fill_value": -999.0, "rescale": True}
    original = dict(args)
    g = vd.ScipyGridder(method="nearest", extra_args=args)
    try:
        g.fit((a["e"], a["n"]), a["d"])
    except TypeError:
        pass      # (NearestNDInterpolator takes no fill_value: refused by SciPy)
    if args != original or g.get_params()["extra_args"] != original:
        raise RuntimeError(f"fit changed the options dictionary it was given: {original} -> {args}")
    g.set_params(method="linear")
    g.fit((a["e"], a["n"]), a["d"])
    out = (np.array([a["e"].max() + 50.0]), np.array([a["n"].max() + 50.0]))
    fresh = vd.ScipyGridder(method="linear", extra_args=dict(original)).fit((a["e"], a["n"]), a["d"])
    if not np.array_equal(g.predict(out), fresh.predict(out)) or args != original:
        raise RuntimeError("an estimator re-configured and refitted differs from a fresh one with the same options")
    return g.predict((a["e"][:4], a["n"][:4]))


def _table_columns_in_order(a):
    """Columns of grid_to_table come in a defined order - dimension coordinates, then the other coordinates as the grid lists them, then the
    variables - in every interpreter session (nothing hangs on a set's iteration order, which changes with the hash seed)."""
    e, n = np.arange(4.0), np.arange(3.0) * 2.0
    z = np.arange(12.0).reshape(3, 4)
    names = ["zeta", "alpha", "mid", "beta", "omega"]
    ds = xr.Dataset({"v": (("northing", "easting"), z), "a": (("northing", "easting"), -z)}, coords={"easting": e, "northing": n})
    ds = ds.assign_coords({k: (("northing", "easting"), z * (i + 2)) for i, k in enumerate(names)})
    t = vd.grid_to_table(ds)
    want = ["northing", "easting"] + names + ["v", "a"]
    if list(t.columns) != want:
        raise RuntimeError(f"grid_to_table columns {list(t.columns)} instead of {want}")
    return t.values


CALLABLES = {
    "ScipyGridder-options-dictionary": _scipy_options_untouched,
    "grid_to_table-column-order": _table_columns_in_order,
    "inside-arrayregion": lambda a: vd.inside((a["e"], a["n"]), a["reg2"]),
    "pad_region-arrays": lambda a: vd.pad_region(a["reg"], a["pad"]),
    "scatter_points-arrayregion": lambda a: vd.scatter_points(a["reg"], 7, random_state=3),
    "grid_coordinates-arrays": lambda a: vd.grid_coordinates(a["reg"], spacing=a["spacing"]),
    "profile_coordinates-arrays": lambda a: vd.profile_coordinates(a["p1"], a["p2"], 6),
    "block_split-arrays": lambda a: vd.block_split((a["e"], a["n"]), spacing=a["spacing"], region=a["reg"]),
    "rolling_window-arrays": lambda a: vd.rolling_window((a["e"], a["n"]), size=4.0, spacing=a["spacing"], region=a["reg"]),
    "expanding_window-arrays": lambda a: vd.expanding_window((a["e"], a["n"]), center=a["center"], sizes=a["sizes"]),
    "longitude_continuity-arrayregion": lambda a: vd.longitude_continuity([a["lon"], a["lat"]], a["lonreg"]),
    "longitude_continuity-arrayregion-only": lambda a: [vd.longitude_continuity(None, a["lonreg"]), vd.longitude_continuity(None, a["lonreg2"])],
    "check_region+get_region-arrays": lambda a: [vd.coordinates.check_region(a["reg"]), vd.get_region((a["e"], a["n"]))],
    "project_region-array": lambda a: vd.project_region(a["reg"], lambda e, n: (2.0 * e + 1.0, n * n)),
    "BlockReduce.filter-arrays": lambda a: vd.BlockReduce(np.median, spacing=a["spacing"], region=a["reg"]).filter((a["e"], a["n"]), a["d"]),
    "Trend.grid-arrayregion": lambda a: [vd.Trend(1).fit((a["e"], a["n"]), a["d"]).grid(region=a["reg"], spacing=a["spacing"]),
                                         vd.Trend(1).fit((a["e"], a["n"]), a["d"]).scatter(region=a["reg"], size=5, random_state=0),
                                         vd.Trend(1).fit((a["e"], a["n"]), a["d"]).profile(a["p1"], a["p2"], 5)],
    "CheckerBoard-arrayregion": lambda a: vd.synthetic.CheckerBoard(region=a["reg"]).predict((a["e"], a["n"])),

    "get_region": lambda a: vd.get_region((a["e"], a["n"])),
    "inside": lambda a: vd.inside((a["e"], a["n"]), (2.0, 8.0, -2.0, 2.0)),
    "pad_region": lambda a: vd.pad_region(REG, (1.0, 2.0)),
    "scatter_points": lambda a: vd.scatter_points(REG, 7, random_state=3, extra_coords=a["up"][:2]),
    "grid_coordinates": lambda a: vd.grid_coordinates(REG, spacing=(2.5, 2.0), extra_coords=a["up"][:2]),
    "profile_coordinates": lambda a: vd.profile_coordinates((0.0, 1.0), (4.0, -2.0), 6, extra_coords=a["up"][:1]),
    "block_split": lambda a: vd.block_split((a["e"], a["n"], a["up"]), spacing=2.5),
    "rolling_window": lambda a: vd.rolling_window((a["e"], a["n"]), size=4.0, spacing=2.0, region=REG),
    "expanding_window": lambda a: vd.expanding_window((a["e"], a["n"]), center=(5.0, 0.0), sizes=[2.0, 6.0]),
    "longitude_continuity": lambda a: vd.longitude_continuity([a["lon"], a["lat"]], (-20.0, 20.0, -30.0, 30.0)),
    "variance_to_weights": lambda a: vd.variance_to_weights(a["var"]),
    "variance_to_weights-tuple": lambda a: vd.variance_to_weights((a["var"], a["var"][::-1].copy())),
    "maxabs": lambda a: vd.maxabs(a["d"], a["d2"]),
    "make_xarray_grid+grid_to_table": lambda a: vd.grid_to_table(vd.make_xarray_grid((a["e"][:4], a["n"][:3]), a["d"][:12].reshape(3, 4), "v")),
    "median_distance": lambda a: vd.median_distance((a["e"], a["n"]), k_nearest=3),
    "distance_mask": lambda a: vd.distance_mask((a["e"], a["n"]), 1.5, coordinates=(a["e"][::-1].copy() + 0.5, a["n"])),
    "convexhull_mask": lambda a: vd.convexhull_mask((a["e"], a["n"]), coordinates=(a["e"][::-1].copy() + 0.5, a["n"])),
    "BlockReduce.filter": lambda a: vd.BlockReduce(np.median, spacing=2.5).filter((a["e"], a["n"], a["up"]), (a["d"], a["d2"])),
    "BlockReduce.filter-weights": lambda a: vd.BlockReduce(np.average, spacing=2.5, center_coordinates=True).filter((a["e"], a["n"]), a["d"], a["w"]),
    "BlockMean.filter": lambda a: vd.BlockMean(spacing=2.5).filter((a["e"], a["n"]), a["d"]),
    "BlockMean.filter-uncertainty": lambda a: vd.BlockMean(spacing=2.5, uncertainty=True).filter((a["e"], a["n"]), (a["d"], a["d2"]), (a["w"], a["w"])),
    "Trend": lambda a: _est(vd.Trend(2), a, weights=True),
    "Spline": lambda a: _est(vd.Spline(damping=1e-3), a, weights=True),
    "Spline-force_coords": lambda a: _est(vd.Spline(damping=1e-3, force_coords=(a["e"][:6], a["n"][:6])), a, weights=True),
    "Spline-force_coords-clone": lambda a: _est(clone(vd.Spline(damping=1e-3, force_coords=(a["e"][:6], a["n"][:6]))), a, weights=True),
    "VectorSpline2D-force_coords-clone": lambda a: _est(clone(vd.VectorSpline2D(damping=1e-2, force_coords=(a["e"][:6], a["n"][:6]))), a, weights=True, vector=True),
    "VectorSpline2D": lambda a: _est(vd.VectorSpline2D(damping=1e-2), a, weights=True, vector=True),
    "VectorSpline2D-decoupled": lambda a: _est(vd.VectorSpline2D(poisson=-1, damping=1e-2), a, weights=True, vector=True),
    "VectorSpline2D-decoupled-jacobian": lambda a: vd.VectorSpline2D(poisson=-1).jacobian((a["e"], a["n"]), (a["e"][::2] + 0.5, a["n"][::2])),
    "VectorSpline2D-jacobian": lambda a: vd.VectorSpline2D(poisson=0.25).jacobian((a["e"], a["n"]), (a["e"][::2] + 0.5, a["n"][::2])),
    "Spline-jacobian": lambda a: vd.Spline().jacobian((a["e"], a["n"]), (a["e"][::2] + 0.5, a["n"][::2])),
    "KNeighbors": lambda a: _est(vd.KNeighbors(k=3), a),
    "Linear": lambda a: _est(vd.Linear(), a),
    "Cubic": lambda a: _est(vd.Cubic(), a),
    "Chain": lambda a: _est(vd.Chain([("mean", vd.BlockMean(spacing=1.0)), ("trend", vd.Trend(1)), ("spline", vd.Spline(damping=1e-2))]), a, weights=True),
    "Vector": lambda a: _est(vd.Vector([vd.Trend(1), vd.Spline(damping=1e-2)]), a, weights=True, vector=True),
    "cross_val_score": lambda a: vd.cross_val_score(vd.Trend(1), (a["e"], a["n"]), a["d"], weights=a["w"], cv=KFold(4, shuffle=True, random_state=1)),
    "BlockKFold.split-shuffle-balanced": lambda a: [[tr.tolist(), te.tolist()] for tr, te in vd.BlockKFold(
        spacing=2.5, n_splits=3, shuffle=True, random_state=4).split(np.column_stack([a["e"], a["n"]]))],
    "BlockKFold.split-shuffle-unbalanced": lambda a: [[tr.tolist(), te.tolist()] for tr, te in vd.BlockKFold(
        spacing=2.5, n_splits=3, shuffle=True, random_state=4, balance=False).split(np.column_stack([a["e"], a["n"]]))],
    "BlockShuffleSplit.split": lambda a: [[tr.tolist(), te.tolist()] for tr, te in vd.BlockShuffleSplit(
        spacing=2.5, n_splits=3, test_size=0.3, random_state=4).split(np.column_stack([a["e"], a["n"]]))],
    "cross_val_score-BlockKFold-unbalanced": lambda a: vd.cross_val_score(
        vd.Trend(1), (a["e"], a["n"]), a["d"], cv=vd.BlockKFold(spacing=2.5, n_splits=3, shuffle=True, random_state=1, balance=False)),
    "train_test_split": lambda a: vd.train_test_split((a["e"], a["n"], a["up"]), (a["d"], a["d2"]), (a["w"], a["w"]), random_state=2, spacing=2.5),
    "SplineCV": lambda a: vd.SplineCV(dampings=(1e-3, 1e-1), cv=KFold(3, shuffle=True, random_state=0)).fit((a["e"], a["n"]), a["d"]).predict((a["e"][:3], a["n"][:3])),
}


def _est(g, a, weights=False, vector=False):
    coords = (a["e"], a["n"], a["up"])
    d = (a["d"], a["d2"]) if vector else a["d"]
    w = None if not weights else ((a["w"], a["w"]) if vector else a["w"])
    g.fit(coords, d, w)
    q = (a["e"][:5] + 0.25, a["n"][:5] - 0.5)
    out = [g.predict(q), g.filter(coords, d, w), g.score(coords, d, w), g.grid(spacing=2.5), g.get_params() is not None]
    return out


def purity_case(name, seed):
    return {"fn": "purity", "kind": "purity-" + name.split(".")[0], "args": [name, seed], "op": "power_comb 0", "key": f"{name}:{seed}"}


_JUNK = [0]


def _dirty_heap(a):
    """Fill and release buffers of the sizes a call is likely to allocate next, with a different value each time: a result that depends on
    memory the function never wrote is then not repeatable."""
    _JUNK[0] += 1
    n = max((v.size for v in a.values() if v is not None), default=8)
    junk = [np.full(shape, 1000.0 * _JUNK[0] + 0.5) for shape in ((2 * n, 2 * n), (n, n), (2 * n, n), (n, 2 * n), (2 * n, 2 * (n // 2 + n % 2)), (n, n // 2 + n % 2),
                                                                 (2 * n,), (n,), (n // 2 + n % 2,)) for _ in range(2)]
    del junk


def _run_purity(name, seed):
    f = CALLABLES[name]
    with warnings.catch_warnings():
        warnings.simplefilter("ignore")
        a1 = {k: (None if v is None else v.copy()) for k, v in _data(seed).items()}
        before = {k: (None if v is None else v.tobytes()) for k, v in a1.items()}
        r1 = _canon(f(a1))
        mutated = [k for k, v in a1.items() if v is not None and v.tobytes() != before[k]]
        a2 = {k: (None if v is None else v.copy()) for k, v in _data(seed).items()}
        for v in a2.values():
            if v is not None:
                v.setflags(write=False)
        try:
            r2 = _canon(f(a2))
            ro_err = None
        except Exception as exc:  # noqa: BLE001
            r2, ro_err = None, f"{type(exc).__name__}: {str(exc)[:120]}"
        a3 = {k: (None if v is None else v.copy()) for k, v in _data(seed).items()}
        _dirty_heap(a3)
        r3 = _canon(f(a3))
    return {"mutated": mutated, "readonly_error": ro_err, "same_readonly": ro_err is None and _eq(r1, r2), "repeatable": _eq(r1, r3)}


def _eq(a, b):
    if isinstance(a, (list, tuple)) and isinstance(b, (list, tuple)):
        return len(a) == len(b) and all(_eq(x, y) for x, y in zip(a, b))
    if isinstance(a, dict) and isinstance(b, dict):
        return a.keys() == b.keys() and all(_eq(a[k], b[k]) for k in a)
    if isinstance(a, float) and isinstance(b, float):
        return a == b or (a != a and b != b)
    return a == b


# ----------------------------------------------------------------------------- (b) histories
def dataset(rng, npts, ncomp):
    es = [rng.randint(-64, 64) / 8.0 + 1 / 64 for _ in range(npts)]
    ns = [rng.randint(-64, 64) / 8.0 + 1 / 128 for _ in range(npts)]
    data = [[rng.randint(-32, 32) / 4.0 for _ in range(npts)] for _ in range(ncomp)]
    w = [[rng.randint(1, 16) / 8.0 for _ in range(npts)] for _ in range(ncomp)] if rng.random() < 0.4 else None
    return [es, ns], data, w


def history_case(rng):
    kind = rng.choice(["model", "model", "model", "real"])
    q = [[0.5, -1.25, 3.0], [1.5, 0.25, -2.0]]
    nops = rng.randint(1, 6)
    if kind == "model":
        ncomp = rng.choice([1, 1, 2])
        if ncomp == 1:
            spec = rng.choice([["trend", rng.randint(0, 2)], ["moment"], ["knn", rng.randint(1, 3), rng.choice(["mean", "median", "max"])],
                               ["chain", [["trend", 1], ["moment"]]], ["chain", [["moment"], ["knn", 1, "mean"]]]])
        else:
            spec = rng.choice([["moment"], ["vector", [["trend", 1], ["moment"]]], ["chain", [["moment"], ["vector", [["trend", 0], ["knn", 1, "mean"]]]]]])
        ops = []
        for _ in range(nops):
            u = rng.random()
            if u < 0.55:
                c, d, w = dataset(rng, rng.randint(6, 12), ncomp)
                ops.append(["fit", c, d, w])
            elif u < 0.7:
                ops.append(["clone"])
            elif u < 0.85:
                ops.append(["set_params"])
            else:
                ops.append(["predict"])
        def enc_op(o):
            if o[0] == "fit":
                return f"[ fit {C.enc(o[1])} {C.enc(o[2])} {C.enc(o[3])} ]"
            return f"[ {o[0]} ]"
        return {"fn": "history", "kind": "history-" + spec[0], "args": [spec, ops, q],
                "op": f"history {enc_spec(spec)} [ {' '.join(enc_op(o) for o in ops)} ] {C.enc(q)}"}
    which = rng.choice(["vs2d", "spline", "spline-fc", "linear", "cubic", "splinecv-free", "knn-small-first", "chain-reduce", "chain-mean", "chain-reduce-knn"])
    sets = [dataset(rng, rng.randint(6, 10), 2 if which == "vs2d" else 1) for _ in range(rng.randint(1, 3))]
    if which == "knn-small-first":          # first fitted on fewer points than neighbours (fit alone is fine), then on a full dataset
        sets = [dataset(rng, rng.randint(1, 3), 1)] + sets
    if which.startswith("chain-") and len(sets) > 1 and rng.random() < 0.7:      # later datasets cover a different area
        for k, (c, d, w) in enumerate(sets[1:], 1):
            c[0][:] = [v * 3.0 + 40.0 * k for v in c[0]]
            c[1][:] = [v * 2.0 - 25.0 * k for v in c[1]]
    if which in ("chain-reduce", "chain-reduce-knn"):
        sets = [(c, d, None) for c, d, w in sets]
    return {"fn": "history-real", "kind": "history-" + which, "args": [which, sets, q], "op": "power_comb 0", "key": repr((which, sets))}


# ----------------------------------------------------------------------------- (b') queries leave the object they are called on / given untouched
def _fit(g, a, vector=False, weights=False):
    d = (a["d"], a["d2"]) if vector else a["d"]
    w = None if not weights else ((a["w"], a["w"]) if vector else a["w"])
    return g.fit((a["e"], a["n"]), d, w)


def _cvs(obj, a, **kw):
    return vd.cross_val_score(obj, (a["e"], a["n"]), a["d"], cv=KFold(3, shuffle=True, random_state=1), **kw)


_EST_QUERIES = [("predict", lambda g, a: g.predict((a["e"][:5] + 0.25, a["n"][:5] - 0.5))), ("score", lambda g, a: g.score((a["e"], a["n"]), a["d"])),
                ("grid", lambda g, a: g.grid(region=REG, spacing=2.5)), ("scatter", lambda g, a: g.scatter(region=REG, size=5, random_state=0)),
                ("profile", lambda g, a: g.profile((0.0, 1.0), (4.0, -2.0), 5)), ("cross_val_score", _cvs),
                ("cross_val_score-delayed", lambda g, a: __import__("dask").compute(*_cvs(g, a, delayed=True), scheduler="synchronous"))]
_VEC_QUERIES = [("predict", lambda g, a: g.predict((a["e"][:5] + 0.25, a["n"][:5] - 0.5))), ("score", lambda g, a: g.score((a["e"], a["n"]), (a["d"], a["d2"]))),
                ("grid", lambda g, a: g.grid(region=REG, spacing=2.5)),
                ("cross_val_score", lambda g, a: vd.cross_val_score(g, (a["e"], a["n"]), (a["d"], a["d2"]), cv=KFold(3, shuffle=True, random_state=1)))]
_RED_QUERIES = [("filter", lambda g, a: g.filter((a["e"], a["n"]), a["d"])),
                ("filter-elsewhere", lambda g, a: g.filter((a["e"] * 3.0 + 40.0, a["n"] * 2.0 - 25.0), a["d2"])),
                ("filter-weights", lambda g, a: g.filter((a["e"], a["n"]), a["d"], a["w"]))]
_CV_QUERIES = [("split", lambda g, a: list(g.split(np.column_stack([a["e"], a["n"]])))), ("get_n_splits", lambda g, a: g.get_n_splits()),
               ("cross_val_score", lambda g, a: vd.cross_val_score(vd.Trend(1), (a["e"], a["n"]), a["d"], cv=g))]
OBJECTS = {
    "Trend-fitted": (lambda a: _fit(vd.Trend(1), a, weights=True), _EST_QUERIES),
    "Trend-unfitted": (lambda a: vd.Trend(1), _EST_QUERIES[5:]),
    "Spline-fitted": (lambda a: _fit(vd.Spline(damping=1e-3), a), _EST_QUERIES),
    "Spline-unfitted": (lambda a: vd.Spline(damping=1e-3), _EST_QUERIES[5:]),
    "KNeighbors-fitted": (lambda a: _fit(vd.KNeighbors(k=3), a), _EST_QUERIES),
    "KNeighbors-unfitted": (lambda a: vd.KNeighbors(k=3), _EST_QUERIES[5:]),
    "Linear-fitted": (lambda a: _fit(vd.Linear(), a), _EST_QUERIES[:5]),
    "Chain-fitted": (lambda a: _fit(vd.Chain([("mean", vd.BlockMean(spacing=1.0)), ("trend", vd.Trend(1)), ("knn", vd.KNeighbors(k=2))]), a), _EST_QUERIES),
    "Chain-unfitted": (lambda a: vd.Chain([("reduce", vd.BlockReduce(np.median, spacing=1.0)), ("trend", vd.Trend(1))]), _EST_QUERIES[5:]),
    "Vector-fitted": (lambda a: _fit(vd.Vector([vd.Trend(1), vd.Spline(damping=1e-2)]), a, vector=True), _VEC_QUERIES),
    "Vector-unfitted": (lambda a: vd.Vector([vd.Trend(1), vd.Trend(2)]), _VEC_QUERIES[3:]),
    "VectorSpline2D-fitted": (lambda a: _fit(vd.VectorSpline2D(damping=1e-2), a, vector=True), _VEC_QUERIES),
    "VectorSpline2D-unfitted": (lambda a: vd.VectorSpline2D(damping=1e-2), _VEC_QUERIES[3:]),
    "BlockReduce": (lambda a: vd.BlockReduce(np.median, spacing=2.5), _RED_QUERIES[:2]),
    "BlockReduce-average-centre": (lambda a: vd.BlockReduce(np.average, spacing=2.5, center_coordinates=True), _RED_QUERIES),
    "BlockMean": (lambda a: vd.BlockMean(spacing=2.5), _RED_QUERIES),
    "BlockMean-uncertainty": (lambda a: vd.BlockMean(spacing=2.5, uncertainty=True), _RED_QUERIES[2:]),
    "BlockKFold": (lambda a: vd.BlockKFold(spacing=2.5, n_splits=3, shuffle=True, random_state=4), _CV_QUERIES),
    "BlockKFold-unshuffled": (lambda a: vd.BlockKFold(spacing=2.5, n_splits=3), _CV_QUERIES),
    "BlockShuffleSplit": (lambda a: vd.BlockShuffleSplit(spacing=2.5, n_splits=3, test_size=0.3, random_state=4), _CV_QUERIES),
    "CheckerBoard": (lambda a: vd.synthetic.CheckerBoard(region=REG), _EST_QUERIES[:1] + _EST_QUERIES[2:5]),
}


# ----------------------------------------------------------------------------- (b'') reconfigured objects behave like fresh ones
def _run_est(g, a):
    return _est(g, a)


def _run_red(g, a):
    return g.filter((a["e"], a["n"], a["up"]), a["d"])


def _run_redw(g, a):
    return g.filter((a["e"], a["n"]), a["d"], a["w"])


def _run_cv(g, a):
    return [[tr.tolist(), te.tolist()] for tr, te in g.split(np.column_stack([a["e"], a["n"]]))]


RECONF = {
    "Trend-degree": (vd.Trend, {"degree": 1}, {"degree": 2}, _run_est),
    "Spline-damping-mindist": (vd.Spline, {"damping": 1e-3}, {"damping": 1e-1, "mindist": 0.5}, _run_est),
    "KNeighbors-k-reduction": (vd.KNeighbors, {"k": 1}, {"k": 3, "reduction": np.median}, _run_est),
    "BlockReduce-reduction": (vd.BlockReduce, {"reduction": np.mean, "spacing": 2.5}, {"reduction": np.median}, _run_red),
    "BlockReduce-reduction-weighted": (vd.BlockReduce, {"reduction": np.mean, "spacing": 2.5}, {"reduction": np.average, "center_coordinates": True}, _run_redw),
    "BlockReduce-spacing-region": (vd.BlockReduce, {"reduction": np.median, "spacing": 2.5}, {"spacing": 4.0, "region": (-1.0, 11.0, -6.0, 6.0), "drop_coords": False}, _run_red),
    "BlockMean-uncertainty": (vd.BlockMean, {"spacing": 2.5}, {"uncertainty": True, "spacing": 3.0}, _run_redw),
    "BlockKFold": (vd.BlockKFold, {"spacing": 2.5, "n_splits": 3}, {"n_splits": 4, "shuffle": True, "random_state": 3, "balance": False}, _run_cv),
    "BlockShuffleSplit": (vd.BlockShuffleSplit, {"spacing": 2.5, "n_splits": 3, "random_state": 1}, {"test_size": 0.4, "random_state": 5, "balancing": 3}, _run_cv),
    "Chain-steps": (lambda steps=None: vd.Chain(steps if steps is not None else [("trend", vd.Trend(1))]), {},
                    {"steps": [("reduce", vd.BlockReduce(np.median, spacing=1.0)), ("trend", vd.Trend(2))]}, _run_est),
    "Vector-components": (lambda components=None: vd.Vector(components if components is not None else [vd.Trend(1), vd.Trend(1)]), {},
                          {"components": [vd.Trend(2), vd.KNeighbors(k=2)]}, lambda g, a: _est(g, a, vector=True)),
}


def clone_params(p):
    """Fresh, unfitted copies of the estimators inside a parameter dictionary."""
    def cp(v):
        if hasattr(v, "get_params"):
            return clone(v)
        if isinstance(v, (list, tuple)):
            return type(v)(cp(x) for x in v)
        return v
    return {k: cp(v) for k, v in p.items()}


def _run_reconf(name, seed, how, used_first):
    ctor, p1, p2, runner = RECONF[name]
    p2 = clone_params(p2)
    with warnings.catch_warnings():
        warnings.simplefilter("ignore")
        g = ctor(**p1)
        if used_first:                       # the object has already been used with its first configuration
            try:
                runner(g, _data(seed + 1))
            except TypeError:                # (weights given to a reduction that takes none: the first use need not succeed)
                pass
        if hasattr(g, "set_params") and (how == "set_params" or any("__" in k for k in p2)):
            g.set_params(**p2)
        else:
            for k, v in p2.items():
                setattr(g, k, v)
        got = _canon_any(runner(g, _data(seed)))
        fresh = ctor(**{**p1, **clone_params(p2)})
        exp = _canon_any(runner(fresh, _data(seed)))
        return {"same": _eq(got, exp), "params": not hasattr(g, "get_params") or C.params_state(g) == C.params_state(fresh)}


def _run_objstate(name, seed):
    """Every query is run on the SAME object; its complete state (all attributes, nested estimators, arrays by bytes) must stay what it was,
    and a query repeated at the end must answer what it answered the first time."""
    build, queries = OBJECTS[name]
    with warnings.catch_warnings():
        warnings.simplefilter("ignore")
        a = _data(seed)
        obj = build(a)
        state0 = C.deep_state(obj)
        first = None
        for label, q in queries:
            r = _canon_any(q(obj, _data(seed)))
            first = r if first is None else first
            if C.deep_state(obj) != state0:
                return {"changed_by": label, "repeat": True}
        again = _canon_any(queries[0][1](obj, _data(seed)))
        return {"changed_by": None, "repeat": _eq(first, again)}


def _canon_any(x):
    if isinstance(x, (list, tuple)):
        return [_canon_any(i) for i in x]
    try:
        return _canon(x)
    except Exception:  # noqa: BLE001
        return repr(x)


# ----------------------------------------------------------------------------- (c) inconsistencies
def cfi_case(rng):
    n = rng.choice([4, 6, 8])
    base = rng.choice([[n], [2, n // 2]])
    ncoord = rng.randint(2, 3)
    ncomp = rng.randint(1, 3)
    coords = [list(base) for _ in range(ncoord)]
    data = [list(base) for _ in range(ncomp)]
    weights = None if rng.random() < 0.4 else [rng.choice([list(base), [n]]) for _ in range(ncomp)]
    k = rng.choice(["ok", "ok", "coord-shape", "data-shape", "weight-count", "weight-size", "data-transposed", "coord-broadcastable", "data-broadcastable"])
    if k == "coord-shape":
        coords[rng.randrange(1, ncoord)] = [n + 1] if len(base) == 1 else [n // 2, 2] if n // 2 != 2 else [n]
    elif k == "data-shape":
        data[rng.randrange(ncomp)] = [n - 1]
    elif k in ("coord-broadcastable", "data-broadcastable"):
        # a DIFFERENT shape that numpy would happily broadcast against the others (length 1, a row against a column, 0-d): still inconsistent
        odd = rng.choice([[1], []] if len(base) == 1 else [[1, base[1]], [base[0], 1], [1], [base[1]]])
        if k == "coord-broadcastable":
            coords[rng.randrange(1, ncoord)] = odd
        else:
            data[rng.randrange(ncomp)] = odd
    elif k == "weight-count":
        weights = [list(base) for _ in range(ncomp + 1 if (ncomp == 1 or rng.random() < 0.5) else ncomp - 1)]
    elif k == "weight-size":
        weights = [list(base) for _ in range(ncomp)]
        weights[rng.randrange(ncomp)] = [n + 2]
    elif k == "data-transposed" and len(base) == 2 and base[0] != base[1]:
        data[0] = base[::-1]
    return {"fn": "cfi", "kind": "cfi-" + k, "args": [coords, data, weights], "op": f"cfi {C.enc(coords)} {C.enc(data)} {C.enc(weights)}"}


REJECTS = {
    "grid_coordinates-both": lambda: vd.grid_coordinates(REG, shape=(2, 2), spacing=1.0),
    "grid_coordinates-neither": lambda: vd.grid_coordinates(REG),
    "line_coordinates-both": lambda: vd.line_coordinates(0, 1, size=3, spacing=0.5),
    "rolling_window-neither": lambda: vd.rolling_window((np.arange(4.0), np.arange(4.0)), size=1.0),
    "BlockReduce-both": lambda: vd.BlockReduce(np.mean, spacing=1.0, shape=(2, 2)).filter((np.arange(4.0), np.arange(4.0)), np.arange(4.0)),
    "BlockReduce-neither": lambda: vd.BlockReduce(np.mean).filter((np.arange(4.0), np.arange(4.0)), np.arange(4.0)),
    "BlockKFold-neither": lambda: vd.BlockKFold(),
    "BlockShuffleSplit-neither": lambda: vd.BlockShuffleSplit(),
    "check_region-WE": lambda: vd.grid_coordinates((1.0, 0.0, 0.0, 1.0), shape=(2, 2)),
    "check_region-SN": lambda: vd.inside((np.arange(3.0), np.arange(3.0)), (0.0, 1.0, 2.0, 1.0)),
    "check_region-length": lambda: vd.scatter_points((0.0, 1.0, 0.0), 3),
    "block_split-coord-shapes": lambda: vd.block_split((np.arange(4.0), np.arange(5.0)), spacing=1.0),
    # only the EXTRA coordinate disagrees (a missing value, a transposed array): the index arrays returned would address it wrongly
    "cross_val_score-data-longer": lambda: vd.cross_val_score(vd.Trend(1), (np.arange(8.0), np.arange(8.0) ** 2 % 5), np.arange(9.0), cv=KFold(2)),
    "cross_val_score-weights-longer": lambda: vd.cross_val_score(vd.Trend(1), (np.arange(8.0), np.arange(8.0) ** 2 % 5), np.arange(8.0), weights=np.ones(9), cv=KFold(2)),
    "cross_val_score-data-transposed": lambda: vd.cross_val_score(vd.Trend(1), (np.arange(8.0).reshape(2, 4), (np.arange(8.0) ** 2 % 5).reshape(2, 4)),
                                                                   np.arange(8.0).reshape(4, 2), cv=KFold(2)),
    "train_test_split-data-longer": lambda: vd.train_test_split((np.arange(8.0), np.arange(8.0) ** 2 % 5), np.arange(9.0), random_state=0),
    "distance_mask-coordinates-shapes": lambda: vd.distance_mask((np.arange(5.0), np.arange(5.0) % 3), 2.0,
                                                                  coordinates=(np.arange(28.0).reshape(4, 7) / 4, np.arange(28.0).reshape(7, 4) / 9)),
    "convexhull_mask-coordinates-shapes": lambda: vd.convexhull_mask((np.array([0.0, 4.0, 4.0, 0.0, 2.0]), np.array([0.0, 0.0, 3.0, 3.0, 1.0])),
                                                                      coordinates=(np.arange(28.0).reshape(4, 7) / 7, np.arange(28.0).reshape(7, 4) / 9)),
    "distance_mask-extra-coordinate-shape": lambda: vd.distance_mask((np.arange(5.0), np.arange(5.0) % 3), 2.0,
                                                                      coordinates=(np.arange(6.0), np.arange(6.0) / 2, np.arange(5.0))),
    "grid_coordinates-uint-region-west>east": lambda: vd.grid_coordinates(np.array([200, 10, 0, 50], dtype="uint8"), spacing=5),
    "inside-uint-region-south>north": lambda: vd.inside((np.arange(6.0), np.arange(6.0)), np.array([0, 50, 40, 10], dtype="uint16")),
    "scatter_points-uint-region-west>east": lambda: vd.scatter_points(np.array([9, 3, 0, 5], dtype="uint8"), 4, random_state=0),
    "check_region-huge-int-inverted": lambda: vd.coordinates.check_region([1700000000000000100, 1700000000000000000, 0, 1]),
    "rolling_window-region-west>east": lambda: vd.rolling_window((np.arange(6.0), np.arange(6.0) * 0.5), size=2.0, spacing=1.0, region=(5.0, 0.0, 0.0, 2.5)),
    "rolling_window-region-south>north": lambda: vd.rolling_window((np.arange(6.0), np.arange(6.0) * 0.5), size=1.0, shape=(2, 2), region=(0.0, 5.0, 2.5, 0.0)),
    "block_split-region-west>east": lambda: vd.block_split((np.arange(6.0), np.arange(6.0) * 0.5), spacing=1.0, region=(5.0, 0.0, 0.0, 2.5)),
    "grid_coordinates-region-south>north": lambda: vd.grid_coordinates((0.0, 5.0, 2.5, 0.0), spacing=0.5),
    "scatter_points-region-west>east": lambda: vd.scatter_points((5.0, 0.0, 0.0, 2.5), 4, random_state=0),
    "inside-region-west>east": lambda: vd.inside((np.arange(6.0), np.arange(6.0) * 0.5), (5.0, 0.0, 0.0, 2.5)),
    "BlockReduce-region-south>north": lambda: vd.BlockReduce(np.mean, spacing=1.0, region=(0.0, 5.0, 2.5, 0.0)).filter((np.arange(6.0), np.arange(6.0) * 0.5), np.arange(6.0)),
    "rolling_window-extra-coord-shape": lambda: vd.rolling_window((np.arange(6.0), np.arange(6.0) * 0.5, np.arange(5.0)), size=2.0, spacing=1.0),
    "rolling_window-extra-coord-transposed": lambda: vd.rolling_window(
        (np.arange(6.0).reshape(2, 3), np.arange(6.0).reshape(2, 3) * 0.5, np.arange(6.0).reshape(3, 2)), size=2.0, spacing=1.0),
    "expanding_window-extra-coord-shape": lambda: vd.expanding_window((np.arange(6.0), np.arange(6.0) * 0.5, np.arange(5.0)), center=(2.0, 1.0), sizes=[1.0, 3.0]),
    "block_split-extra-coord-shape": lambda: vd.block_split((np.arange(6.0), np.arange(6.0) * 0.5, np.arange(7.0)), spacing=2.0),
    "BlockReduce-extra-coord-shape": lambda: vd.BlockReduce(np.mean, spacing=2.0, drop_coords=False).filter(
        (np.arange(6.0), np.arange(6.0) * 0.5, np.arange(5.0)), np.arange(6.0)),
    "Trend.fit-extra-coord-shape": lambda: vd.Trend(1).fit((np.arange(6.0), np.arange(6.0) ** 2 % 5, np.arange(4.0)), np.arange(6.0)),
    "Spline.fit-coord-length-1": lambda: vd.Spline().fit((np.arange(6.0), np.array([2.0])), np.arange(6.0)),
    "KNeighbors.fit-row-vs-column": lambda: vd.KNeighbors().fit((np.arange(4.0).reshape(1, 4), np.arange(4.0).reshape(4, 1)), np.arange(4.0).reshape(1, 4)),
    "Trend.fit-data-shape": lambda: vd.Trend(1).fit((np.arange(4.0), np.arange(4.0)), np.arange(5.0)),
    "Spline.fit-weights-count": lambda: vd.Spline().fit((np.arange(4.0), np.arange(4.0) ** 2), np.arange(4.0), (np.ones(4), np.ones(4))),
    **{f"{nm}.fit-weights-size": (lambda mk=mk: mk().fit((np.arange(5.0), np.arange(5.0) ** 2 % 3), np.arange(5.0) * 0.5, np.ones(4)))
       for nm, mk in (("Trend", lambda: vd.Trend(1)), ("Spline", lambda: vd.Spline()), ("KNeighbors", lambda: vd.KNeighbors()),
                      ("Linear", lambda: vd.Linear()), ("Cubic", lambda: vd.Cubic()), ("Chain-KNeighbors", lambda: vd.Chain([("k", vd.KNeighbors(k=2))])))},
    **{f"{nm}.fit-weights-count": (lambda mk=mk: mk().fit((np.arange(5.0), np.arange(5.0) ** 2 % 3), np.arange(5.0) * 0.5, (np.ones(5), np.ones(5))))
       for nm, mk in (("Trend", lambda: vd.Trend(1)), ("KNeighbors", lambda: vd.KNeighbors()), ("Linear", lambda: vd.Linear()), ("Cubic", lambda: vd.Cubic()))},
    "VectorSpline2D.fit-weights-size": lambda: vd.VectorSpline2D().fit((np.arange(5.0), np.arange(5.0) ** 2 % 3), (np.arange(5.0), np.arange(5.0) * 2),
                                                                        (np.ones(4), np.ones(4))),
    "VectorSpline2D.fit-one-component": lambda: vd.VectorSpline2D().fit((np.arange(4.0), np.arange(4.0) ** 2), np.arange(4.0)),
    "Vector.fit-not-tuple": lambda: vd.Vector([vd.Trend(1), vd.Trend(1)]).fit((np.arange(4.0), np.arange(4.0) ** 2), np.arange(4.0)),
    "BlockMean-uncertainty-noweights": lambda: vd.BlockMean(spacing=1.0, uncertainty=True).filter((np.arange(4.0), np.arange(4.0)), np.arange(4.0)),
    "make_xarray_grid-names": lambda: vd.make_xarray_grid((np.arange(3.0), np.arange(2.0)), np.ones((2, 3)), ("a", "b")),
    "BlockKFold-n_splits": lambda: vd.BlockKFold(spacing=1.0, n_splits=1),
    "grid-coordinates+shape": lambda: MomentGridder().grid(coordinates=(np.arange(3.0), np.arange(2.0)), shape=(2, 3)),
    "longitude_continuity-range": lambda: vd.longitude_continuity(None, (-200.0, 10.0, 0.0, 1.0)),
    # component counts that disagree by a missing (None) entry: any error is a rejection, running unweighted is a guess
    "anyerror:check_fit_input-weights-(w,None)": lambda: vd.base.check_fit_input((np.arange(4.0), np.arange(4.0)), (np.arange(4.0), np.arange(4.0)),
                                                                                   (np.ones(4), None)),
    "anyerror:check_fit_input-weights-(None,w)": lambda: vd.base.check_fit_input((np.arange(4.0), np.arange(4.0)), (np.arange(4.0), np.arange(4.0)),
                                                                                   (None, np.ones(4))),
    "anyerror:Vector.fit-weights-(w,None)": lambda: vd.Vector([vd.Trend(1), vd.Trend(1)]).fit(
        (np.arange(5.0), np.arange(5.0) ** 2), (np.arange(5.0), np.arange(5.0)), (np.ones(5), None)),
    "anyerror:BlockMean.filter-weights-(w,None)": lambda: vd.BlockMean(spacing=2.0).filter(
        (np.arange(6.0), np.arange(6.0)), (np.arange(6.0), np.arange(6.0) * 2), (np.ones(6), None)),
    "anyerror:Trend.fit-weights-(w,None)": lambda: vd.Trend(1).fit((np.arange(5.0), np.arange(5.0) ** 2), np.arange(5.0), (np.ones(5), None)),
}
UNFITTED = {"Trend": lambda: vd.Trend(1), "Spline": lambda: vd.Spline(), "SplineCV": lambda: vd.SplineCV(), "VectorSpline2D": lambda: vd.VectorSpline2D(),
            "KNeighbors": lambda: vd.KNeighbors(), "Linear": lambda: vd.Linear(), "Cubic": lambda: vd.Cubic(),
            "Chain": lambda: vd.Chain([("t", vd.Trend(1))]), "Vector": lambda: vd.Vector([vd.Trend(1), vd.Trend(1)]),
            # a NEW, never fitted composite built from parts that carry state from earlier, unrelated fits: still unfitted
            "Vector-of-fitted-parts": lambda: vd.Vector([_fitted_part(vd.Trend(1)), _fitted_part(vd.Spline(damping=1e-2))]),
            "Chain-of-fitted-parts": lambda: vd.Chain([("t", _fitted_part(vd.Trend(1))), ("k", _fitted_part(vd.KNeighbors(k=1)))]),
            "Chain-of-Vector-of-fitted-parts": lambda: vd.Chain([("v", vd.Vector([_fitted_part(vd.Trend(0)), _fitted_part(vd.Trend(1))]))]),
            # a chain whose fit died half-way (the first step is fitted, the second refused its collinear points) - and a fitted chain that was
            # given a new, never fitted step afterwards: a step that cannot predict yet must stop the whole prediction
            "Chain-whose-fit-died-half-way": lambda: _half_fitted_chain(),
            "Chain-given-an-unfitted-step-after-fit": lambda: _chain_with_new_step(),
            "Vector-given-an-unfitted-component-after-fit": lambda: _vector_with_new_component(),
            "clone-of-fitted-Trend": lambda: __import__("sklearn.base").base.clone(_fitted_part(vd.Trend(1))),
            "clone-of-fitted-Chain": lambda: __import__("sklearn.base").base.clone(
                vd.Chain([("t", vd.Trend(1)), ("s", vd.Spline(damping=1e-2))]).fit((np.arange(6.0), np.arange(6.0) ** 2 % 5), np.arange(6.0)))}


def _half_fitted_chain():
    ch = vd.Chain([("trend", vd.Trend(1)), ("linear", vd.Linear()), ("knn", vd.KNeighbors(1))])
    e = np.arange(8.0)
    try:
        ch.fit((e, 2.0 * e + 1.0), 0.25 * e)      # a single flight line: the triangulation refuses collinear points
    except Exception:  # noqa: BLE001
        pass
    else:
        raise RuntimeError("the fit that was meant to fail half-way succeeded")
    return ch


def _chain_with_new_step():
    ch = _fitted_part(vd.Chain([("trend", vd.Trend(1)), ("knn", vd.KNeighbors(1))]))
    ch.set_params(steps=[("trend", ch.steps[0][1]), ("spline", vd.Spline(damping=1e-2)), ("knn", ch.steps[1][1])])
    return ch


def _vector_with_new_component():
    e = np.array([0.0, 1.0, 2.5, 3.0, 4.5, 6.0])
    n = np.array([1.0, -1.0, 0.5, 2.0, 3.5, -2.0])
    v = vd.Vector([vd.Trend(1), vd.Trend(1)]).fit((e, n), (e - n, e + n))
    v.components = [v.components[0], vd.KNeighbors(2)]
    return v


def _fitted_part(g):
    e = np.array([0.0, 1.0, 2.5, 3.0, 4.5, 6.0])
    n = np.array([1.0, -1.0, 0.5, 2.0, 3.5, -2.0])
    return g.fit((e, n), 0.5 * e - n + 1.0)


def corpus():
    cs = [purity_case(name, 1) for name in CALLABLES]
    cs += [{"fn": "reject", "kind": "reject", "args": [name], "op": "power_comb 0", "key": name} for name in REJECTS]
    cs += [{"fn": "unfitted", "kind": "unfitted", "args": [name], "op": "power_comb 0", "key": name} for name in UNFITTED]
    cs += [{"fn": "objstate", "kind": "objstate-" + name.split("-")[0], "args": [name, 1], "op": "power_comb 0", "key": f"objstate:{name}:1"} for name in OBJECTS]
    cs += [{"fn": "reconf", "kind": "reconf-" + name.split("-")[0], "args": [name, 1, how, used], "op": "power_comb 0", "key": f"reconf:{name}:{how}:{used}"}
           for name in RECONF for how in ("set_params", "setattr") for used in (False, True)]
    return cs


def generate(rng, tier):
    cs = []
    n = 120 if tier == "quick" else 2000
    names = list(CALLABLES)
    for i in range(n):
        u = rng.random()
        if u < 0.08:
            name = rng.choice(list(OBJECTS))
            sd = rng.randint(2, 10**6)
            cs.append({"fn": "objstate", "kind": "objstate-" + name.split("-")[0], "args": [name, sd], "op": "power_comb 0", "key": f"objstate:{name}:{sd}"})
        elif u < 0.3:
            cs.append(purity_case(rng.choice(names), rng.randint(2, 10**6)))
        elif u < 0.65:
            cs.append(history_case(rng))
        else:
            cs.append(cfi_case(rng))
    return cs


def _build_real(which, first_coords=None):
    if which == "vs2d":
        return vd.VectorSpline2D(damping=1e-2, force_coords=None if first_coords is None else tuple(np.array(c) for c in first_coords))
    if which == "spline":
        return vd.Spline(damping=1e-3)
    if which == "spline-fc":      # force positions given by the user (arrays as hyper-parameters: kept as given, cloned like any other)
        return vd.Spline(damping=1e-3, force_coords=(np.array([0.5, 3.0, 7.5, 9.0, 2.0, 6.0]), np.array([-4.0, 1.5, -2.0, 4.0, 3.5, -0.5])))
    if which == "linear":
        return vd.Linear()
    if which == "cubic":
        return vd.Cubic()
    if which == "knn-small-first":
        return vd.KNeighbors(k=4, reduction=np.median)
    if which == "chain-reduce":            # reducers with the DEFAULT region (taken from each dataset) inside a chain
        return vd.Chain([("reduce", vd.BlockReduce(np.median, spacing=3.0)), ("trend", vd.Trend(1))])
    if which == "chain-mean":
        return vd.Chain([("mean", vd.BlockMean(spacing=3.0)), ("trend", vd.Trend(1))])
    if which == "chain-reduce-knn":
        return vd.Chain([("reduce", vd.BlockReduce(np.mean, spacing=2.0, center_coordinates=True)), ("knn", vd.KNeighbors(k=1))])
    return vd.Spline()


def impl(case):
    a = case["args"]
    fn = case["fn"]

    def run():
        with warnings.catch_warnings():
            warnings.simplefilter("ignore")
            if fn == "purity":
                return ["purity", _run_purity(a[0], a[1])]
            if fn == "objstate":
                return ["objstate", _run_objstate(a[0], a[1])]
            if fn == "reconf":
                return ["reconf", _run_reconf(*a)]
            if fn == "reject":
                try:
                    REJECTS[a[0]]()
                except ValueError:
                    return ["reject", "ValueError"]
                except Exception as exc:  # noqa: BLE001
                    return ["reject", type(exc).__name__]
                return ["reject", "accepted"]
            if fn == "unfitted":
                try:
                    UNFITTED[a[0]]().predict((np.arange(3.0), np.arange(3.0)))
                except NotFittedError:
                    return ["unfitted", "NotFittedError"]
                except Exception as exc:  # noqa: BLE001
                    return ["unfitted", type(exc).__name__]
                return ["unfitted", "predicted"]
            if fn == "cfi":
                coords, data, weights = a
                mk = lambda shp: np.arange(float(np.prod(shp))).reshape(shp)  # noqa: E731
                r = C.call(vd.base.check_fit_input, tuple(mk(s) for s in coords), tuple(mk(s) for s in data),
                           None if weights is None else tuple(mk(s) + 1.0 for s in weights))
                return r if C.is_err(r) else "accepted"
            if fn == "history":
                spec, ops, q = a
                prev = "nothing"
                g = build_spec(spec)
                qq = tuple(np.array(x) for x in q)
                params0 = C.params_state(g)
                for o in ops:
                    if C.params_state(g) != params0:
                        raise RuntimeError("hyper-parameters (get_params) changed by " + prev)
                    prev = o[0]
                    if o[0] == "fit":
                        c, d, w = o[1], o[2], o[3]
                        dd = tuple(np.array(x) for x in d)
                        ww = None if w is None else tuple(np.array(x) for x in w)
                        cc = tuple(np.array(x) for x in c)
                        g.fit(cc, dd[0] if len(dd) == 1 else dd, None if ww is None else (ww[0] if len(ww) == 1 else ww))
                        for arr in cc + dd + (ww or ()):       # the caller reuses its buffers after the fit: the model must not follow them
                            arr[...] = arr * -2.0 + 7.0
                    elif o[0] == "clone":
                        g = clone(g)
                    elif o[0] == "set_params":
                        g.set_params(**g.get_params())
                    else:
                        try:
                            g.predict(qq)
                        except NotFittedError:
                            pass
                try:
                    p = g.predict(qq)
                except NotFittedError:
                    return ["err", "NotFitted"]
                p = p if isinstance(p, tuple) else (p,)
                return [np.asarray(x, dtype=float).ravel().tolist() for x in p]
            if fn == "history-real":
                which, sets, q = a
                qq = tuple(np.array(x) for x in q)
                g = _build_real(which)

                def fit(est, ds):
                    c, d, w = ds
                    dd = tuple(np.array(x) for x in d)
                    ww = None if w is None else tuple(np.array(x) for x in w)
                    cc = tuple(np.array(x) for x in c)
                    est.fit(cc, dd[0] if len(dd) == 1 else dd, None if ww is None else (ww[0] if len(ww) == 1 else ww))
                    for arr in cc + dd + (ww or ()):       # the caller reuses its buffers after the fit
                        arr[...] = arr * -2.0 + 7.0
                    return est
                exempt = ("force_coords",) if which == "vs2d" else ()       # documented: VectorSpline2D.fit stores the force positions there
                params0 = C.params_state(g, exempt)
                for ds in sets:
                    fit(g, ds)
                    if C.params_state(g, exempt) != params0:
                        raise RuntimeError("hyper-parameters (get_params) changed by fit")
                    try:
                        g.predict(qq)
                    except NotFittedError:
                        raise
                    except Exception:  # noqa: BLE001  (e.g. fewer data than neighbours: predicting may fail, fitting again must still work)
                        pass
                got = g.predict(qq)
                fresh = fit(_build_real(which, sets[0][0] if which == "vs2d" else None), sets[-1])
                exp = fresh.predict(qq)
                cl = fit(clone(g), sets[-1]).predict(qq)
                tol = lambda x, y: bool(np.allclose(np.asarray(x, dtype=float), np.asarray(y, dtype=float), rtol=1e-9, atol=1e-9, equal_nan=True))  # noqa: E731
                return ["history-real", {"fresh": tol(got, exp), "clone": tol(cl, exp)}]
        raise C.Infra("unknown fn")
    r = C.call(run)
    return r


def compare(case, io, mo):
    fn = case["fn"]
    if fn in ("purity", "reject", "unfitted", "history-real", "objstate", "reconf"):
        return "ok"
    if fn == "cfi":
        if mo == "accepted" or io == "accepted":
            return "ok" if (mo == io) else f"diff:impl {io} vs model {mo}"
        return C.err_compare(io, mo) or "ok"
    e = C.err_compare(io, mo)
    if e:
        if C.is_err(mo) and mo[1] == "Other":
            return "amb"
        return e
    return C.std_compare(io, mo, tol=1e-7)


def oracle(case, io):
    fn = case["fn"]
    a = case["args"]
    if fn == "reconf" and not C.is_err(io):
        r = io[1]
        if not r["same"]:
            return f"{a[0]}: an object reconfigured with {a[2]} ({'after use' if a[3] else 'before use'}) behaves differently from a fresh one built with the same parameters"
        if not r["params"]:
            return f"{a[0]}: get_params after {a[2]} differs from a fresh object's"
        return None
    if C.is_err(io) and fn in ("purity", "history-real", "objstate", "reconf"):
        return f"{a[0]} failed: {io[1]}"
    if C.is_err(io) and fn == "history" and "hyper-parameters" in str(io[1]):
        return f"history of {a[0][0]}: {io[1]}"
    if fn == "objstate":
        r = io[1]
        if r["changed_by"]:
            return f"{a[0]}: the object's state (attributes / hyper-parameters / nested estimators) was changed by the query '{r['changed_by']}'"
        if not r["repeat"]:
            return f"{a[0]}: the first query answers differently when repeated after the other queries"
        return None
    if fn == "purity":
        r = io[1]
        if r["mutated"]:
            return f"{a[0]} modified its argument array(s) {r['mutated']}"
        if r["readonly_error"]:
            return f"{a[0]} fails on read-only input arrays: {r['readonly_error']}"
        if not r["same_readonly"]:
            return f"{a[0]} returns different results for read-only and writable copies of the same arguments"
        if not r["repeatable"]:
            return f"{a[0]} is not repeatable: two calls with identical arguments differ"
        return None
    if fn == "reject":
        if a[0].startswith("anyerror:"):
            return None if io[1] != "accepted" else f"{a[0]}: inconsistent input was accepted instead of rejected with an error"
        return None if io[1] == "ValueError" else f"{a[0]}: inconsistent/invalid input was {io[1]} instead of rejected with ValueError"
    if fn == "unfitted":
        return None if io[1] == "NotFittedError" else f"{a[0]}.predict before fit: {io[1]} instead of NotFittedError"
    if fn == "cfi":
        coords, data, weights = a
        size = lambda s: int(np.prod(s))  # noqa: E731
        ok = all(c == coords[0] for c in coords) and all(d == coords[0] for d in data) and \
            (weights is None or (len(weights) == len(data) and all(size(w) == size(d) for w in weights for d in data)))
        if ok:
            return None if io == "accepted" else f"consistent input rejected: {io}"
        return None if (C.is_err(io) and io[1] == "ValueError") else f"inconsistent shapes {coords} / {data} / {weights} were not rejected with ValueError ({io})"
    if fn == "history-real":
        r = io[1]
        if not r["fresh"]:
            return f"{a[0]}: after a history of fits the estimator does not behave like a fresh one fitted to the latest data"
        if not r["clone"]:
            return f"{a[0]}: a clone refitted on the latest data behaves differently"
        return None
    return None


def nontrivial(case, io):
    return not (C.is_err(io) and case["fn"] in ("purity", "history-real", "objstate", "reconf"))


def finding_key(case, io):
    return None
