"""C16 — hull masking and grid projection keep values only where data constrain them."""
import math
import warnings
from fractions import Fraction as F

import numpy as np
import xarray as xr

import common as C
import verde as vd

ID = "C16"
TRANSLATED = "mask"        # Gen/Mask.lean (convexhull_mask, coordinates= form, statement by statement) is regenerated from /repo and bridged to the model in Props/C16.lean
FILES = ["verde/mask.py", "verde/projections.py", "verde/utils.py"]
RULE = ("corpus + seeded data sets with non-degenerate hulls (integer lattices and random dyadic clouds, 3..12 points quick / 30 thorough) with query "
        "points inside, outside and on the hull boundary, coordinate scales 1e-3..1e7 and offsets, optional projections, array and grid forms of "
        "convexhull_mask (model: exact rational point-in-triangle search; queries within 1e-9 of the hull boundary are ambiguous, as the property allows); "
        "project_grid on small grids with/without NaN holes through affine (axis-aligned) and monotone non-linear projections, three interpolation methods "
        "and both antialias settings (model: output coordinate lines; oracle: name, NaN outside / finite inside the hull of the projected data, exact "
        "reproduction for affine projections without antialiasing, values within the input range with antialiasing); non-trivial = accepted call with >= 3 "
        "data points; distinct = distinct protocol lines")
ASSUMPTIONS = ["scipy.spatial.Delaunay triangulates the convex hull and find_simplex = -1 exactly outside it (boundary either way)",
               "SciPy/verde interpolators are exact at their nodes and NaN outside the hull (contract); Cubic may overshoot, so the range claim is checked "
               "with antialiasing / for linear and nearest as the property states"]
TRUSTED = ["scipy.spatial.Delaunay / Qhull", "scipy.interpolate interpolators", "xarray containers"]

PROJS = {"affine": lambda p: (lambda e, n: (p[0] * e + p[1], p[2] * n + p[3])), "shear": lambda p: (lambda e, n: (e + p[0] * n, n - p[0] * e)),
         "cube": lambda p: (lambda e, n: (e * e * e / p[0], n)),
         "cube2": lambda p: (lambda e, n: (e * e * e / p[0], n * n * n / p[0]))}


def pairs(es, ns):
    return [[x, y] for x, y in zip(es, ns)]


def orient(a, b, c):
    return (b[0] - a[0]) * (c[1] - a[1]) - (b[1] - a[1]) * (c[0] - a[0])


_HULLS = {}


def _hull(S):
    """Counter-clockwise convex hull polygon (Andrew's monotone chain, exact Fractions), cached per point set."""
    key = tuple(S)
    if key not in _HULLS:
        pts = sorted(set((C.fq(x), C.fq(y)) for x, y in S))
        lower, upper = [], []
        for q in pts:
            while len(lower) >= 2 and orient(lower[-2], lower[-1], q) <= 0:
                lower.pop()
            lower.append(q)
        for q in reversed(pts):
            while len(upper) >= 2 and orient(upper[-2], upper[-1], q) <= 0:
                upper.pop()
            upper.append(q)
        poly = lower[:-1] + upper[:-1]
        size = max(max(abs(x) for x, _ in pts), max(abs(y) for _, y in pts), 1)
        if len(_HULLS) > 64:
            _HULLS.clear()
        _HULLS[key] = (poly, size)
    return _HULLS[key]


def hull_info(S, p):
    """(inside the closed hull, squared distance to the nearest supporting line relative to the cloud size), exact."""
    poly, size = _hull(S)
    p = (C.fq(p[0]), C.fq(p[1]))
    inside = True
    margin = None
    for i in range(len(poly)):
        a, b = poly[i], poly[(i + 1) % len(poly)]
        o = orient(a, b, p)
        if o < 0:
            inside = False
        ln2 = (b[0] - a[0]) ** 2 + (b[1] - a[1]) ** 2
        m = F(o) ** 2 / ln2 / (size * size)
        if margin is None or m < margin:
            margin = m
    return inside, (float(margin) if margin is not None else 1.0)


def mk_mask(es, ns, qe, qn, shape2d, proj, grid, kind):
    if grid is not None:
        ge, gn = grid
        qe = [x for _ in gn for x in ge]
        qn = [y for y in gn for _ in ge]
        shape2d = [len(gn), len(ge)]
    f = None if proj is None else PROJS[proj[0]](proj[1])
    pe, pn = (es, ns) if f is None else [list(v) for v in f(np.array(es), np.array(ns))]
    pqe, pqn = (qe, qn) if f is None else [list(v) for v in f(np.array(qe), np.array(qn))]
    return {"fn": "mask", "kind": kind, "args": [es, ns, qe, qn, shape2d, proj, grid, pe, pn, pqe, pqn],
            "op": f"hull_mask {C.enc(pairs(pe, pn))} {C.enc(pairs(pqe, pqn))}"}


def mk_pg(ge, gn, vals, proj, method, antialias, kw, kind):
    """project_grid of a DataArray on axes (ge, gn); model: output coordinate lines."""
    f = PROJS[proj[0]](proj[1])
    cells = [(x, y, vals[i][j]) for i, y in enumerate(gn) for j, x in enumerate(ge) if vals[i][j] is not None]
    pe, pn = f(np.array([c[0] for c in cells]), np.array([c[1] for c in cells]))
    shape = kw.get("shape", (len(gn), len(ge)))
    return {"fn": "pg", "kind": kind, "args": [ge, gn, vals, proj, method, antialias, kw],
            "op": f"project_grid_lines {C.enc(pe.tolist())} {C.enc(pn.tolist())} {C.enc(list(shape))} {C.enc(kw.get('region'))} "
                  f"{C.enc(None if 'spacing' not in kw else [float(v) for v in np.atleast_1d(kw['spacing'])])}"}


def mk_mask_large(es, ns, region, shape, kind="mask-large-query"):
    """Hull mask of a LARGE regular grid of query points (hundreds of thousands): checked against vectorised half-plane tests on the exact hull
    polygon inside the implementation run (only the disagreements travel back); outside the Lean correspondence."""
    return {"fn": "mask_large", "kind": kind, "args": [es, ns, list(region), list(shape)], "op": "power_comb 0", "key": repr((es, ns, region, shape))}


def _large_reference(es, ns, E, N):
    poly, size = _hull(list(zip(es, ns)))
    P = [(float(x), float(y)) for x, y in poly]
    mn = np.full(E.shape, np.inf)
    for i in range(len(P)):
        (ax, ay), (bx, by) = P[i], P[(i + 1) % len(P)]
        ln = float(np.hypot(bx - ax, by - ay))
        mn = np.minimum(mn, ((bx - ax) * (N - ay) - (by - ay) * (E - ax)) / ln)
    return mn >= 0, np.abs(mn) <= 1e-9 * float(size)


def cloud(rng, n, scale, offset, lattice):
    seen, es, ns = set(), [], []
    while len(es) < n:
        if lattice:
            x, y = float(rng.randint(-6, 6)), float(rng.randint(-6, 6))
        else:
            x, y = rng.randint(-256, 256) / 32.0, rng.randint(-256, 256) / 32.0
        if (x, y) not in seen:
            seen.add((x, y))
            es.append(offset + x * scale)
            ns.append(-offset + y * scale)
    # non-degenerate hull
    if all(orient((es[0], ns[0]), (es[1], ns[1]), (x, y)) == 0 for x, y in zip(es, ns)):
        return cloud(rng, n, scale, offset, lattice)
    return es, ns


def corpus():
    es, ns = [0.0, 4.0, 0.0, 4.0, 2.0], [0.0, 0.0, 4.0, 4.0, 1.0]
    cs = [mk_mask(es, ns, [2.0, 5.0, 0.0, 1.0, 2.0, -0.5], [2.0, 5.0, 2.0, 3.0, 0.0, 2.0], [6], None, None, "corpus-square"),
          mk_mask(es, ns, None, None, None, None, ([-1.0, 1.0, 3.0, 5.0], [0.5, 2.5, 4.5]), "corpus-grid"),
          # data coordinates in a narrow integer type whose EXTENT overflows it (int16 metres spanning -20000 .. 20000)
          mk_mask([-20000.0, 20000.0, -15000.0, 18000.0, 0.0, 5000.0], [-18000.0, -20000.0, 20000.0, 16000.0, 3000.0, -2000.0],
                  [float(x) for x in range(-24000, 24001, 6000) for _ in range(9)], [float(y) for _ in range(9) for y in range(-24000, 24001, 6000)],
                  [81], None, None, "corpus-narrow-int"),
          # non-linear projections: slanted hull edges bend, so the hull must be taken of the PROJECTED points (and of nothing else)
          mk_mask([0.0, 4.0, 0.0, 1.0, 3.0, 0.5], [0.0, 0.0, 4.0, 1.0, 0.5, 3.0], [float(x) for x in range(5) for _ in range(5)],
                  [float(y) for _ in range(5) for y in range(5)], [25], ["cube2", [1.0]], None, "corpus-nonlinear-projection"),
          mk_mask([-3.0, 5.0, 1.0, 0.0, 2.0], [-1.0, 0.0, 6.0, 1.0, 2.0], None, None, None, ["cube2", [8.0]],
                  ([-3.0, -1.0, 0.0, 1.0, 2.0, 3.0, 4.0, 5.0], [-1.0, 0.0, 1.0, 2.0, 3.0, 4.0, 5.0, 6.0]), "corpus-nonlinear-projection-grid"),
          mk_mask([-3.0, 5.0, 1.0, 0.0, 2.0], [-1.0, 0.0, 6.0, 1.0, 2.0], [-2.5, -1.5, 0.5, 1.5, 2.5, 3.5, 4.5, 0.5, 1.5, 2.5], 
                  [-0.5, 0.5, 1.5, 2.5, 3.5, 0.5, 0.25, 4.5, 5.0, 4.0], [10], ["cube", [4.0]], None, "corpus-nonlinear-projection"),
          mk_mask([1e7 + x * 1e3 for x in es], [-1e7 + y * 1e3 for y in ns], [1e7 + 2e3, 1e7 + 5e3], [-1e7 + 2e3, -1e7 + 2e3], [2], None, None, "corpus-scale-1e7"),
          mk_pg([0.0, 1.0, 2.0, 3.0], [10.0, 20.0, 30.0], [[1.0, 2.0, 3.0, 4.0], [5.0, 6.0, 7.0, 8.0], [9.0, 10.0, 11.0, 12.5]],
                ["affine", [2.0, 1.0, 0.5, -3.0]], "linear", False, {}, "corpus-pg-affine"),
          mk_pg([0.0, 1.0, 2.0, 3.0], [10.0, 20.0, 30.0], [[1.0, 2.0, 3.0, 4.0], [5.0, None, 7.0, 8.0], [9.0, 10.0, 11.0, 12.5]],
                ["cube", [4.0]], "nearest", True, {}, "corpus-pg-cube-hole"),
          mk_pg([0.0, 1.0, 2.0, 3.0, 4.0], [10.0, 20.0, 30.0, 40.0],
                [[None, None, 3.0, 4.0, 5.0], [None, 6.0, 7.0, 8.0, 9.0], [9.0, 10.0, 11.0, 12.5, 13.0], [1.0, 2.0, 3.0, 4.0, 5.5]],
                ["affine", [2.0, 1.0, 0.5, -3.0]], "nearest", False, {}, "corpus-pg-cut-corner-nearest"),
          mk_pg([0.0, 1.0, 2.0, 3.0], [10.0, 20.0, 30.0, 40.0],
                [[None, None, None, None], [5.0, 6.0, 7.0, 8.0], [9.0, 10.0, 11.0, 12.5], [1.0, 2.0, 3.0, 4.0]],
                ["affine", [2.0, 1.0, 0.5, -3.0]], "linear", False, {}, "corpus-pg-nan-margin-row"),
          mk_pg([0.0, 1.0, 2.0, 3.0, 4.0], [10.0, 20.0, 30.0, 40.0, 50.0],
                [[None, None, None, None, None], [None, None, 7.0, 8.0, 9.0], [None, 10.0, 11.0, 12.5, 13.0], [None, 2.0, 3.0, 4.0, 5.5],
                 [None, 6.0, 7.0, 1.0, 2.5]], ["affine", [2.0, 1.0, 0.5, -3.0]], "linear", False, {}, "corpus-pg-nan-L-margin"),
          mk_mask_large([0.0, 40.0, 55.0, 30.0, -10.0, 20.0], [0.0, -5.0, 30.0, 60.0, 35.0, 20.0], (-12.0, 57.0, -7.0, 62.0), (530, 620)),
          mk_pg([0.0, 1.0, 2.0, 3.0, 4.0], [10.0, 20.0, 30.0, 40.0],
                [[None, None, 3.0, 4.0, 5.0], [None, 6.0, 7.0, 8.0, 9.0], [9.0, 10.0, 11.0, 12.5, 13.0], [1.0, 2.0, 3.0, 4.0, 5.5]],
                ["affine", [2.0, 1.0, 0.5, -3.0]], "nearest-object", False, {}, "corpus-pg-cut-corner-gridder-object"),
          mk_pg([0.0, 1.0, 2.0, 3.0, 4.0], [10.0, 20.0, 30.0, 40.0],
                [[None, None, 3.0, 4.0, 5.0], [None, 6.0, 7.0, 8.0, 9.0], [9.0, 10.0, 11.0, 12.5, 13.0], [1.0, 2.0, 3.0, None, None]],
                ["shear", [0.5]], "linear-object", False, {}, "corpus-pg-cut-corner-gridder-object"),
          # a requested region with west > east: refused (ValueError), whatever the data region looks like
          mk_pg([0.0, 1.0, 2.0, 3.0], [10.0, 20.0, 30.0], [[1.0, 2.0, 3.0, 4.0], [5.0, 6.0, 7.0, 8.0], [9.0, 10.0, 11.0, 12.5]],
                ["affine", [2.0, 1.0, 0.5, -3.0]], "linear", False, {"region": [6.0, 2.0, 3.0, 11.0]}, "corpus-pg-bad-region"),
          mk_pg([0.0, 1.0, 2.0, 3.0], [10.0, 20.0, 30.0], [[1.0, 2.0, 3.0, 4.0], [5.0, 6.0, 7.0, 8.0], [9.0, 10.0, 11.0, 12.5]],
                ["affine", [2.0, 1.0, 0.5, -3.0]], "nearest", True, {"region": [2.0, 6.0, 11.0, 3.0], "spacing": 1.0}, "corpus-pg-bad-region"),
          # antialiasing with a requested sub-region and spacing: the block means are taken over the region of the DATA
          mk_pg([0.0, 1.0, 2.0, 3.0, 4.0, 5.0], [10.0, 20.0, 30.0, 40.0, 50.0],
                [[1.0, 2.0, 3.0, 4.0, 5.0, 6.0], [5.0, 6.0, 7.0, 8.0, 2.0, 1.0], [9.0, 10.0, 11.0, 12.5, 3.0, 0.5], [4.0, 3.0, 2.0, 1.0, 0.0, -1.0],
                 [7.0, 7.5, 8.0, 8.5, 9.0, 9.5]], ["affine", [2.0, 1.0, 0.5, -3.0]], "nearest", True, {"region": [2.5, 9.25, 3.75, 19.5], "spacing": (3.0, 2.5)},
                "corpus-pg-antialias-subregion"),
          mk_pg([0.0, 1.0, 2.0, 3.0, 4.0, 5.0], [10.0, 20.0, 30.0, 40.0, 50.0],
                [[1.0, 2.0, 3.0, 4.0, 5.0, 6.0], [5.0, 6.0, 7.0, 8.0, 2.0, 1.0], [9.0, 10.0, 11.0, 12.5, 3.0, 0.5], [4.0, 3.0, 2.0, 1.0, 0.0, -1.0],
                 [7.0, 7.5, 8.0, 8.5, 9.0, 9.5]], ["affine", [2.0, 1.0, 0.5, -3.0]], "linear", True, {"region": [1.5, 10.5, 2.25, 21.0], "shape": (4, 5)},
                "corpus-pg-antialias-subregion"),
          # NO antialiasing and a requested grid far coarser than the data: the projected cells are interpolated as they are (no block means)
          mk_pg([0.0, 1.0, 2.0, 3.0, 4.0, 5.0], [10.0, 20.0, 30.0, 40.0, 50.0],
                [[1.0, 2.0, 3.0, 4.0, 5.0, 6.0], [5.0, 6.0, 7.0, 8.0, 2.0, 1.0], [9.0, 10.0, 11.0, 12.5, 3.0, 0.5], [4.0, 3.0, 2.0, 1.0, 0.0, -1.0],
                 [7.0, 7.5, 8.0, 8.5, 9.0, 9.5]], ["affine", [2.0, 1.0, 0.5, -3.0]], "linear", False, {"shape": (2, 3)}, "corpus-pg-coarse-no-antialias"),
          mk_pg([0.0, 1.0, 2.0, 3.0, 4.0, 5.0], [10.0, 20.0, 30.0, 40.0, 50.0],
                [[1.0, 2.0, 3.0, 4.0, 5.0, 6.0], [5.0, 6.0, 7.0, 8.0, 2.0, 1.0], [9.0, 10.0, 11.0, 12.5, 3.0, 0.5], [4.0, 3.0, 2.0, 1.0, 0.0, -1.0],
                 [7.0, 7.5, 8.0, 8.5, 9.0, 9.5]], ["shear", [0.5]], "nearest", False, {"shape": (2, 2)}, "corpus-pg-coarse-no-antialias"),
          # known finding F1: Clough-Tocher overshoots the input range even with antialiasing
          mk_pg([-3.5, -2.5, -1.5, -0.5, 0.5, 1.5], [1.5, 2.5, 3.5, 4.5],
                [[8.25, -0.5, 8.0, -2.0, -2.75, -0.25], [0.5, 6.75, -0.75, -1.25, 2.0, 5.5], [-6.5, -7.75, 3.25, -3.75, -4.5, -3.5],
                 [-1.25, 1.75, 6.75, 4.0, 4.0, 9.75]], ["cube", [64.0]], "cubic", True, {}, "corpus-F1-cubic-overshoot")]
    return cs


def generate(rng, tier):
    n = 220 if tier == "quick" else 3500
    maxpts = 12 if tier == "quick" else 30
    cs = []
    for _ in range(2 if tier == "quick" else 12):
        es, ns = cloud(rng, rng.randint(4, 9), 1.0, 0.0, False)
        cs.append(mk_mask_large(es, ns, (-9.0, 9.0, -9.0, 9.0), (rng.randint(480, 640), rng.randint(510, 700))))
    for _ in range(n):
        u = rng.random()
        if u < 0.75:
            scale = rng.choice([1e-3, 1.0, 1.0, 1.0, 1e3, 1e7])
            offset = rng.choice([0.0, 0.0, 1e3 * scale])
            if scale == 1.0 and rng.random() < 0.3:
                offset = rng.choice([5e5, 4e6, 1e7])        # a small survey far from the origin (projected metres): extent/offset down to 1e-6
            lattice = rng.random() < 0.5
            es, ns = cloud(rng, rng.randint(3, maxpts), scale, offset, lattice)
            proj = None
            if rng.random() < 0.25:
                proj = rng.choice([["affine", [2.0, 1.0, -0.5, 3.0]], ["shear", [0.5]], ["affine", [0.25, 0.0, 4.0, -1.0]]])
            if scale == 1.0 and offset == 0.0 and rng.random() < 0.35:
                # a NON-LINEAR projection (exact on these dyadic coordinates): the hull is that of the PROJECTED points
                proj = rng.choice([["cube", [4.0]], ["cube2", [1.0]], ["cube2", [8.0]]])
            nq = rng.randint(1, 10)
            if lattice:
                qe = [offset + rng.randint(-14, 14) / 2.0 * scale for _ in range(nq)]
                qn = [-offset + rng.randint(-14, 14) / 2.0 * scale for _ in range(nq)]
            else:
                qe = [offset + (rng.randint(-300, 300) / 32.0 + 1 / 64) * scale for _ in range(nq)]
                qn = [-offset + (rng.randint(-300, 300) / 32.0 + 1 / 128) * scale for _ in range(nq)]
            shape2d = [nq] if (nq % 2 or rng.random() < 0.6) else [2, nq // 2]
            if rng.random() < 0.3:
                ge = sorted(set(offset + rng.randint(-14, 14) / 2.0 * scale for _ in range(rng.randint(1, 5))))
                gn = sorted(set(-offset + rng.randint(-14, 14) / 2.0 * scale for _ in range(rng.randint(1, 5))))
                v_ = rng.random()
                if v_ < 0.2:
                    gn = gn[::-1]          # a north-up raster: northing decreases with the row index
                elif v_ < 0.3:
                    ge = ge[::-1]
                elif v_ < 0.4:
                    rng.shuffle(ge)
                    rng.shuffle(gn)
                cs.append(mk_mask(es, ns, None, None, None, proj, (ge, gn), "mask-grid"))
            else:
                cs.append(mk_mask(es, ns, qe, qn, shape2d, proj, None, "mask-lattice" if lattice else "mask-cloud"))
        else:
            ne, nn = rng.randint(3, 6), rng.randint(3, 6)
            step_e, step_n = rng.choice([0.5, 1.0, 2.0]), rng.choice([0.5, 1.0, 4.0])
            e0, n0 = rng.randint(-8, 8) / 2.0, rng.randint(-8, 8) / 2.0
            ge = [e0 + k * step_e for k in range(ne)]
            gn = [n0 + k * step_n for k in range(nn)]
            vals = [[rng.randint(-40, 40) / 4.0 for _ in ge] for _ in gn]
            if rng.random() < 0.3:
                vals[rng.randrange(nn)][rng.randrange(ne)] = None
            nanmargin = rng.random()
            if nanmargin < 0.12:          # an all-NaN margin row / column: the data footprint is smaller than the grid
                if rng.random() < 0.5:
                    vals[rng.choice([0, nn - 1])] = [None] * ne
                else:
                    j_ = rng.choice([0, ne - 1])
                    for row in vals:
                        row[j_] = None
            elif nanmargin < 0.18:        # NaN padding along two ADJACENT edges (L shape): hull vertices of the data are interior nodes
                vals[0] = [None] * ne
                for row in vals:
                    row[0] = None
                if nn > 3 and ne > 3 and rng.random() < 0.5:
                    vals[1][1] = None
            elif nanmargin < 0.24:        # a cut corner (triangle of NaNs): the data hull excludes it
                ci, cj = rng.choice([0, nn - 1]), rng.choice([0, ne - 1])
                for i_ in range(nn):
                    for j_ in range(ne):
                        if abs(i_ - ci) + abs(j_ - cj) <= 1:
                            vals[i_][j_] = None
            proj = rng.choice([["affine", [2.0, 1.0, 0.5, -3.0]], ["affine", [0.5, -2.0, 4.0, 10.0]], ["cube", [4.0]], ["cube", [64.0]],
                               ["shear", [0.5]], ["shear", [-0.25]]])      # (shear: an affine map that mixes the axes - the projected footprint is a parallelogram)
            kw = {}
            if rng.random() < 0.2:
                kw["shape"] = (rng.randint(3, 6), rng.randint(3, 6))
            if rng.random() < 0.3:
                # a requested region that differs from the bounding box of the projected data (sub-box, dyadic bounds)
                f_ = PROJS[proj[0]](proj[1])
                pe_, pn_ = f_(np.array([ge[0], ge[-1]]), np.array([gn[0], gn[-1]]))
                w_, e_, s_, n_ = float(min(pe_)), float(max(pe_)), float(min(pn_)), float(max(pn_))
                qw = lambda a, b, t: float(np.round((a + (b - a) * t) * 16) / 16)  # noqa: E731
                kw["region"] = [qw(w_, e_, 0.25), qw(w_, e_, rng.choice([0.75, 1.0])), qw(s_, n_, rng.choice([0.0, 0.25])), qw(s_, n_, 0.75)]
                if not (kw["region"][0] < kw["region"][1] and kw["region"][2] < kw["region"][3]):
                    del kw["region"]          # rounding collapsed the sub-box: a zero-extent request is not a grid
            if rng.random() < 0.15 and "shape" not in kw:
                kw["spacing"] = rng.choice([0.5, 1.0, (2.0, 0.5)])
            meth = rng.choice(["linear", "nearest", "cubic"]) if nanmargin >= 0.24 else rng.choice(["nearest", "nearest", "linear"])
            if meth != "cubic" and rng.random() < 0.3:
                meth += "-object"
            cs.append(mk_pg(ge, gn, vals, proj, meth, rng.random() < 0.5, kw, "project-grid-" + proj[0] + ("-nanmargin" if nanmargin < 0.24 else "")))
    return cs


def impl(case):
    a = case["args"]

    def run():
        with warnings.catch_warnings():
            warnings.simplefilter("ignore")
            if case["fn"] == "mask_large":
                es, ns, region, shape = a
                E, N = vd.grid_coordinates(tuple(region), shape=tuple(shape))
                if (shape[0] + shape[1]) % 2:
                    E, N = np.asfortranarray(E), np.asfortranarray(N)
                arr = np.asarray(vd.convexhull_mask((np.array(es), np.array(ns)), coordinates=(E, N)))
                if arr.shape != E.shape:
                    raise RuntimeError("wrong output shape")
                ref, near = _large_reference(es, ns, E, N)
                bad = np.argwhere((arr != ref) & ~near)
                return ["mask_large", {"n": int(arr.size), "inside": int(ref.sum()), "nbad": int(len(bad)),
                                       "first": [[int(i), int(j), float(E[i, j]), float(N[i, j]), bool(arr[i, j])] for i, j in bad[:3]]}]
            if case["fn"] == "mask":
                es, ns, qe, qn, shape2d, proj, grid = a[:7]
                f = None if proj is None else PROJS[proj[0]](proj[1])
                dc = (np.array(es), np.array(ns))
                if case["kind"].endswith("narrow-int"):
                    # whole-metre coordinates stored as int16: their extent does not fit the type, the hull must not care
                    dc = (np.array(es).astype("int16"), np.array(ns).astype("int16"))
                arr = vd.convexhull_mask(dc, coordinates=(C.mkarr(qe, shape2d, "qe:" + case["op"]), C.mkarr(qn, shape2d, "qn:" + case["op"])), projection=f)
                if list(arr.shape) != list(shape2d):
                    raise RuntimeError("wrong output shape")
                if grid is not None:
                    ge, gn = grid
                    vals = np.arange(1.0, len(ge) * len(gn) + 1).reshape(len(gn), len(ge))
                    ds = xr.Dataset({"v": (("y", "x"), vals)}, coords={"x": np.array(ge), "y": np.array(gn)})
                    if (len(ge) + len(gn)) % 2:
                        # the same grid built coordinates-first (or after Dataset arithmetic): Dataset.dims is then registered as
                        # (x, y) although the variable is (y, x) - the variable's own dims are what counts
                        ds = xr.Dataset(coords={"x": np.array(ge), "y": np.array(gn)})
                        ds["v"] = (("y", "x"), vals)
                    vals0 = vals.copy()      # (xarray wraps `vals` without copying it)
                    out = vd.convexhull_mask(dc, grid=ds, projection=f)
                    blank = np.isnan(out.v.values)
                    if not np.array_equal(blank, ~arr) or not np.array_equal(out.v.values[~blank], vals0[~blank]):
                        raise RuntimeError("grid form is not consistent with the array form")
                    # the caller's grid is an input: it is left as it was, so masking it again (a sweep over settings) gives the same answer
                    if not np.array_equal(ds.v.values, vals0) or not np.array_equal(vals, vals0):
                        raise RuntimeError("masking wrote into the grid it was given")
                    again = vd.convexhull_mask(dc, grid=ds, projection=f)
                    if not np.array_equal(np.isnan(again.v.values), blank):
                        raise RuntimeError("masking the same grid a second time gives another mask")
                return [bool(v) for v in arr.ravel()]
            ge, gn, vals, proj, method, antialias, kw = a
            f = PROJS[proj[0]](proj[1])
            arr = np.array([[np.nan if v is None else v for v in row] for row in vals])
            da = xr.DataArray(arr, coords={"northing": np.array(gn), "easting": np.array(ge)}, dims=("northing", "easting"), name=_pg_name(ge, gn))
            m_arg = {"nearest-object": vd.KNeighbors(), "linear-object": vd.Linear()}.get(method, method)      # a gridder object instead of its name
            out = vd.project_grid(da, f, method=m_arg, antialias=antialias, **kw)
            return {"name": out.name, "dims": list(out.dims), "east": [float(v) for v in out.coords[out.dims[1]].values],
                    "north": [float(v) for v in out.coords[out.dims[0]].values],
                    "values": [[None if v != v else float(v) for v in row] for row in out.values.tolist()]}
    r = C.call(run)
    if C.is_err(r) or case["fn"] in ("mask", "mask_large"):
        return r
    return ["pg", r]


def _pg_name(ge, gn):
    """Every fifth grid is a nameless DataArray (arithmetic between arrays drops the name): the result is then called "scalars"."""
    return None if (3 * len(ge) + len(gn)) % 5 == 0 else "topo"


def _degenerate_antialias(case, io):
    """A requested spacing / region / shape under which the antialiasing block means are collinear or fewer than three (e.g. two data
    columns averaged into one block column): Qhull refuses the degenerate hull — outside the property (non-degenerate hulls)."""
    if not (case["fn"] == "pg" and C.is_err(io) and "QhullError" in io[1] and case["args"][5]):
        return False
    if case["args"][6]:
        return True
    # default region / shape: degenerate only if the block means themselves (blocks of one output cell over the region of the projected data)
    # are fewer than three or collinear - a few valid cells next to a NaN margin can fall into two blocks
    ge, gn, vals, proj, method, antialias, kw = case["args"]
    try:
        f = PROJS[proj[0]](proj[1])
        cells = [(x, y, vals[i][j]) for i, y in enumerate(gn) for j, x in enumerate(ge) if vals[i][j] is not None]
        pe, pn = f(np.array([c[0] for c in cells]), np.array([c[1] for c in cells]))
        dreg = vd.get_region((pe, pn))
        osp = vd.coordinates.shape_to_spacing(dreg, (len(gn), len(ge)))
        bc, _ = vd.BlockReduce(np.mean, spacing=osp, region=dreg).filter((pe, pn), np.array([c[2] for c in cells]))
        pts_ = np.column_stack([bc[0] - bc[0].mean(), bc[1] - bc[1].mean()])
        return len(bc[0]) < 3 or np.linalg.matrix_rank(pts_, tol=1e-9 * max(1.0, float(np.abs(pts_).max()))) < 2
    except Exception:  # noqa: BLE001
        return False


def compare(case, io, mo):
    if _degenerate_antialias(case, io):
        return "amb"
    if case["fn"] == "pg" and _bad_region(case):
        if C.is_err(io) and C.is_err(mo) and io[1] == mo[1] == "ValueError":
            return "ok"
        return f"diff:an invalid requested region: implementation {io if C.is_err(io) else 'returned a grid'}, model {mo if C.is_err(mo) else 'returned lines'}"
    if C.is_err(io):
        return "diff:implementation failed: " + io[1]
    if case["fn"] == "mask_large":
        return "ok"
    if case["fn"] == "mask":
        mv = C.tofrac(mo)
        pe, pn, pqe, pqn = case["args"][7:11]
        amb = False
        for k, (x, y) in enumerate(zip(io, mv)):
            if x != y:
                _, margin = hull_info(list(zip(pe, pn)), (pqe[k], pqn[k]))
                if margin <= 1e-18:
                    amb = True
                    continue
                return f"diff:query {k} ({pqe[k]}, {pqn[k]}): mask {x} vs exact hull test {y}"
        return "amb" if amb else "ok"
    if C.is_err(mo):
        return f"diff:model refused ({mo[1]}) but implementation returned a grid"
    east, north = C.tofloat(mo)
    r = io[1]
    if len(east) != len(r["east"]) or len(north) != len(r["north"]):
        return f"diff:output grid shape ({len(r['north'])}, {len(r['east'])}) vs model ({len(north)}, {len(east)})"
    sc = max(1.0, max(abs(v) for v in east + north))
    for x, y in list(zip(r["east"], east)) + list(zip(r["north"], north)):
        if not (abs(x - y) <= 1e-9 * sc):
            return f"diff:output coordinate {x} vs {y}"
    return "ok"


def _bad_region(case):
    reg = case["args"][6].get("region")
    return reg is not None and (reg[0] > reg[1] or reg[2] > reg[3])


def oracle(case, io):
    a = case["args"]
    if _degenerate_antialias(case, io):
        return None
    if case["fn"] == "pg" and _bad_region(case):
        return None if C.is_err(io) and io[1] == "ValueError" else "a requested region with west > east or south > north was not refused with a ValueError"
    if C.is_err(io):
        return "failed: " + io[1]
    if case["fn"] == "mask_large":
        r = io[1]
        if r["nbad"]:
            i, j, x, y, got = r["first"][0]
            return (f"{r['nbad']} of {r['n']} query points wrong, e.g. node [{i}, {j}] = ({x}, {y}): mask is {got} but the point is "
                    f"{'outside' if got else 'inside'} the convex hull of the data")
        return None
    if case["fn"] == "mask":
        pe, pn, pqe, pqn = a[7:11]
        S = list(zip(pe, pn))
        for k, got in enumerate(io):
            inside, margin = hull_info(S, (pqe[k], pqn[k]))
            if margin <= 1e-18:
                continue
            if got != inside:
                return f"query {k} ({a[2][k]}, {a[3][k]}): mask is {got} but the point is {'inside' if inside else 'outside'} the convex hull of the data"
        return None
    ge, gn, vals, proj, method, antialias, kw = a
    method = method.replace("-object", "")      # (a gridder object of that kind: the same result as its name)
    r = io[1]
    if r["name"] != (_pg_name(ge, gn) or "scalars") or r["dims"] != ["northing", "easting"]:
        return f"project_grid lost the DataArray's name / dims (a nameless grid comes back as 'scalars'): {r['name']!r} {r['dims']}"
    f = PROJS[proj[0]](proj[1])
    cells = [(x, y, vals[i][j]) for i, y in enumerate(gn) for j, x in enumerate(ge) if vals[i][j] is not None]
    pe, pn = f(np.array([c[0] for c in cells]), np.array([c[1] for c in cells]))
    S = list(zip(pe.tolist(), pn.tolist()))
    vmin, vmax = min(c[2] for c in cells), max(c[2] for c in cells)
    if "shape" not in kw and "spacing" not in kw and (len(r["north"]), len(r["east"])) != (len(gn), len(ge)):
        return "projected grid does not have the input's shape"
    if "shape" in kw and (len(r["north"]), len(r["east"])) != tuple(kw["shape"]):
        return f"projected grid does not have the requested shape {tuple(kw['shape'])}"
    if "region" in kw:
        rw, re_, rs, rn = kw["region"]
        tolr = 1e-9 * max(1.0, *[abs(v) for v in kw["region"]])
        if not (abs(r["east"][0] - rw) <= tolr and abs(r["east"][-1] - re_) <= tolr and abs(r["north"][0] - rs) <= tolr and abs(r["north"][-1] - rn) <= tolr):
            return f"projected grid does not span the requested region {kw['region']}"
    for i, y in enumerate(r["north"]):
        for j, x in enumerate(r["east"]):
            v = r["values"][i][j]
            inside, margin = hull_info(S, (x, y))
            if margin <= 1e-12:
                continue
            if not inside and v is not None:
                return f"value {v} outside the convex hull of the projected data points at ({x}, {y})"
            # with antialiasing the interpolator sees block MEANS (blocks of one output cell): their hull is the data hull shrunk by at most one
            # block diagonal, so a linear/cubic value is only owed farther than that from the hull's boundary
            deep = True
            if antialias and method != "nearest":
                diag = math.hypot(abs(r["east"][1] - r["east"][0]) if len(r["east"]) > 1 else 0.0, abs(r["north"][1] - r["north"][0]) if len(r["north"]) > 1 else 0.0)
                deep = math.sqrt(margin) * float(_hull(S)[1]) > diag * (1 + 1e-9)
            if inside and v is None and margin > 1e-6 and deep and (not antialias or all(c is not None for row in vals for c in row)):
                return f"NaN inside the convex hull of the projected data points at ({x}, {y})"
            if v is not None and (antialias or method in ("linear", "nearest")) and not (vmin - 1e-9 <= v <= vmax + 1e-9):
                return f"value {v} outside the range [{vmin}, {vmax}] of the input"
    if method in ("nearest", "linear") and ("region" in kw or "spacing" in kw or "shape" in kw):
        # the documented pipeline by hand, from public pieces: block means of the projected cells in blocks of the OUTPUT spacing laid over the
        # region of the projected DATA (not the requested output region), interpolated onto the output grid, masked by the hull of the projected cells
        import warnings
        with warnings.catch_warnings():
            warnings.simplefilter("ignore")
            dreg = vd.get_region((pe, pn))
            oreg = tuple(kw.get("region", dreg))
            oshape = tuple(kw.get("shape", (len(gn), len(ge))))
            osp = kw.get("spacing", vd.coordinates.shape_to_spacing(oreg, oshape))
            try:
                if antialias:
                    bc, bd = vd.BlockReduce(np.mean, spacing=osp, region=dreg).filter((pe, pn), np.array([c[2] for c in cells]))
                else:          # without antialiasing the projected cells themselves are interpolated, however coarse the requested grid
                    bc, bd = (pe, pn), np.array([c[2] for c in cells])
                gr = (vd.KNeighbors() if method == "nearest" else vd.Linear()).fit(bc, bd).grid(region=oreg, spacing=osp, data_names=["v"])
                exp = vd.convexhull_mask((pe, pn), grid=gr).v.values
            except Exception:  # noqa: BLE001  (degenerate block means: outside the property, see _degenerate_antialias)
                exp = None
        if exp is not None:
            got = np.array([[np.nan if v is None else v for v in row] for row in r["values"]], dtype=float)
            if got.shape != exp.shape or not np.allclose(got, exp, rtol=1e-9, atol=1e-9, equal_nan=True):
                return ((f"with antialias={antialias} and a requested region / spacing / shape the result is not the " +
                         ("block means (blocks of the output spacing over the region of the projected data)" if antialias else "projected cells"))
                        + " interpolated onto the requested grid and masked by the hull of the projected cells")
    if proj[0] == "affine" and not antialias and not kw and all(c is not None for row in vals for c in row):
        pa = proj[1]
        exp_e = sorted(pa[0] * x + pa[1] for x in ge)
        exp_n = sorted(pa[2] * y + pa[3] for y in gn)
        if np.allclose(r["east"], exp_e, rtol=1e-12, atol=1e-9) and np.allclose(r["north"], exp_n, rtol=1e-12, atol=1e-9):
            arr = np.array(vals, dtype=float)
            if pa[0] < 0:
                arr = arr[:, ::-1]
            if pa[2] < 0:
                arr = arr[::-1, :]
            got = np.array([[np.nan if v is None else v for v in row] for row in r["values"]])
            if not np.allclose(got, arr, rtol=1e-9, atol=1e-9, equal_nan=False):
                return "an affine projection without antialiasing does not reproduce the original values at the projected nodes"
        else:
            return "projected nodes of an axis-aligned affine projection do not coincide with the new grid nodes"
    return None


def nontrivial(case, io):
    return (not C.is_err(io)) and (len(case["args"][0]) >= 3)


def finding_key(case, io):
    if case["fn"] == "pg" and case["args"][4] == "cubic" and not C.is_err(io):
        msg = oracle(case, io)
        if msg and "outside the range" in msg:
            return "F1-cubic-overshoot"
    return None
