"""C17 — longitude_continuity yields a valid region with unchanged angular meaning."""
from fractions import Fraction as F

import numpy as np

import common as C
import verde as vd

ID = "C17"
TRANSLATED = "coords"      # Gen/Coords.lean is regenerated from /repo by py2lean.py and bridged to the model in Props/C17.lean
FILES = ["verde/coordinates.py"]
RULE = ("exhaustive 5-degree (quick: 15-degree) lattice of (W, E) in [-180, 360]^2 with |E-W| <= 360, each with a lattice of longitudes, "
        "plus seeded off-lattice dyadic (k/8 degree) bounds/longitudes and out-of-range inputs; all values are dyadic so float '%' is exact "
        "and results are compared exactly; non-trivial = accepted region with a representable arc; distinct = distinct protocol lines")
ASSUMPTIONS = ["numpy '%' on float64 is the exact floored remainder (true for IEEE fmod); dyadic inputs keep +180/-180 exact",
               "numpy.allclose(|E-W|, 360) = |x-360| <= 1e-8 + 360e-5"]
TRUSTED = []


def mk(w, e, s, n, lons, lats, kind):
    return {"fn": "lon", "args": [w, e, s, n, lons, lats], "kind": kind,
            "op": f"lon {C.enc(w)} {C.enc(e)} {C.enc(s)} {C.enc(n)} {C.enc(lons)} {C.enc(lats)}"}


LONS = [-180.0, -179.5, -90.0, -0.125, 0.0, 0.125, 10.0, 90.0, 179.875, 180.0, 180.125, 270.0, 359.875, 360.0]


def corpus():
    cs = []
    for w, e in [(350, 10), (-70, -60), (-20, 20), (0, 360), (-180, 180), (-20, 340), (20, 20), (0, 200), (10.5, 20.25),
                 (10, 360), (-170, 180), (10, 0), (190, 180), (0, 0), (360, 360), (-180, -180), (180, 180), (0, 180), (180, 360),
                 (359.9970703125, 0), (0, 359.9970703125), (170, 10), (-10, 350.5)]:
        cs.append(mk(float(w), float(e), -10.0, 10.0, LONS, [0.0] * len(LONS), "corpus"))
    # bounds and longitudes in DECIMAL degrees (no exact binary image: the modulo arithmetic rounds): judged with a tolerance, except for what
    # needs none - a longitude that IS a bound of the region (the same number) lies inside the returned region, and equal inputs give equal outputs
    for w, e in [(350.0, 0.1), (350.3, 10.7), (-20.1, 20.2), (-70.3, -60.1), (0.1, 200.3), (190.2, 170.6), (-0.3, 0.4), (359.9, 0.7), (-179.9, 179.8), (10.1, 359.7)]:
        mid = w + (((e - w) % 360.0) or 360.0) / 3.0
        lons = [w, e, mid, w, e, (w + 360.0) if w + 360.0 <= 360.0 else (w - 360.0) if w - 360.0 >= -180.0 else w]
        cs.append(mk(w, e, -10.1, 10.3, lons, [0.1] * len(lons), "decimal-degrees"))
    for w, e, x in [(-20.0, 20.0, 350.0), (350.0, 10.0, -5.0), (0.0, 200.0, -170.0), (-70.0, -60.0, 295.0), (10.0, 30.0, 20.0), (170.0, -170.0, 180.0), (0.0, 360.0, -90.0)]:
        cs.append(mk(w, e, -10.0, 10.0, [x], [2.5], "one-point"))
    cs.append(mk(-181.0, 0.0, 0.0, 1.0, [], [], "invalid"))
    cs.append(mk(0.0, 361.0, 0.0, 1.0, [], [], "invalid"))
    cs.append(mk(-100.0, 300.0, 0.0, 1.0, [], [], "invalid"))
    cs.append(mk(0.0, 10.0, -91.0, 1.0, [], [], "invalid"))
    cs.append(mk(0.0, 10.0, 0.0, 91.0, [], [], "invalid"))
    cs.append(mk(0.0, 10.0, 0.0, 1.0, [361.0], [0.0], "invalid"))
    cs.append(mk(0.0, 10.0, 0.0, 1.0, [0.0], [-90.5], "invalid"))
    # invalid coordinates must be rejected whatever the region is - in particular for full-globe regions
    for (w0, e0) in ((0.0, 360.0), (-180.0, 180.0), (-20.0, 340.0), (10.0, 10.0), (350.0, 10.0)):
        cs.append(mk(w0, e0, -10.0, 10.0, [400.0, 5.0], [0.0, 0.0], "invalid"))
        cs.append(mk(w0, e0, -10.0, 10.0, [-200.0], [0.0], "invalid"))
        cs.append(mk(w0, e0, -10.0, 10.0, [5.0, 6.0], [0.0, 100.0], "invalid"))
    for w0 in (300.0, -60.0, 170.25, 359.0, 10.0):
        for wd in (2.0 ** -9, 2.0 ** -12, 2.0 ** -6):
            cs.append(mk(w0, w0 + wd, -5.0, 5.0, [w0, w0 + wd / 2, w0 + wd, w0 - 1.0, w0 + 1.0], [0.0] * 5, "narrow"))
    return cs


def generate(rng, tier):
    cs = []
    step = 15 if tier == "quick" else 5
    grid = list(range(-180, 361, step))
    for w in grid:
        for e in grid:
            if abs(e - w) <= 360:
                lons = [float(x) for x in rng.sample(range(-180, 361, 5), 6)] + [float(w), float(e), float((w + e) // 2)]
                lats = [float(rng.randint(-90, 90)) for _ in lons]
                cs.append(mk(float(w), float(e), -45.0, 30.5, lons, lats, "lattice"))
    n = 600 if tier == "quick" else 20000
    for _ in range(n):
        u = rng.random()
        w = rng.randint(-180 * 8, 360 * 8) / 8.0
        if u < 0.15:
            e = w + rng.choice([360.0, -360.0, 0.0, 359.875, 360.0 - 1 / 512, 359.9970703125])
        elif u < 0.27:
            # very narrow (but non-degenerate) arcs, anywhere on the globe: tolerant comparisons must not mistake them for 0 or 360
            e = w + 2.0 ** (-rng.randint(3, 14)) * rng.choice([1, 1, 1, 3])
            if e > 360:
                w, e = w - 1.0, e - 1.0
        else:
            e = rng.randint(-180 * 8, 360 * 8) / 8.0
        s = rng.randint(-90 * 4, 90 * 4) / 4.0
        nn = rng.randint(-90 * 4, 90 * 4) / 4.0
        lons = [rng.randint(-180 * 8, 360 * 8) / 8.0 for _ in range(rng.randint(0, 8))]
        lats = [rng.randint(-90 * 4, 90 * 4) / 4.0 for _ in lons]
        kind = "random"
        if u > 0.93:
            if rng.random() < 0.3:          # also with full-globe regions
                w = rng.choice([0.0, -180.0, -20.0, float(rng.randint(-180, 0))])
                e = w + 360.0
                lons = lons or [10.0]
                lats = lats or [0.0]
            kind = "invalid"
            k = rng.randint(0, 4)
            if k == 0:
                w = -180.125 - rng.randint(0, 100)
            elif k == 1:
                e = 360.125 + rng.randint(0, 100)
            elif k == 2:
                s = -90.25
            elif k == 3 and lons:
                lons[0] = rng.choice([-180.125, 360.5])
            elif lats:
                lats[0] = rng.choice([-90.125, 90.5])
        cs.append(mk(w, e, s, nn, lons, lats, kind))
    return [c for c in cs]


def impl(case):
    w, e, s, n, lons, lats = case["args"]
    region = (w, e, s, n)
    if all(float(v).is_integer() for v in region) and (int(abs(w)) + int(abs(e))) % 3 == 0:
        region = np.array([int(v) for v in region])      # whole-degree bounds as an integer array (the coordinates keep their own type)
    if len(lons) == 1 and (int(abs(w) * 8) + int(abs(e) * 8)) % 2 == 0:
        # ONE point handed over as plain numbers (a station's longitude and latitude): wrapped like any array
        r = C.call(vd.longitude_continuity, [float(lons[0]), float(lats[0])], region)
        if C.is_err(r):
            return r
        coords, reg = r
        if len(coords) != 2 or float(coords[1]) != float(lats[0]):
            return ["err", "Other:latitudes_or_extra_coordinates_changed"]
        return [[float(v) for v in reg], [float(coords[0])], [float(coords[1])]]
    if lons:
        lo = np.array(lons)
        la = np.array(lats)
        if all(float(v).is_integer() for v in lons) and len(lons) % 2:
            lo = lo.astype("int64")      # whole-degree longitudes handed over as integers; the latitudes need not be whole
        up = np.arange(len(lons)) * 0.375 - 1.25      # a further coordinate (height): none of the others is touched
        lo.setflags(write=False)
        la.setflags(write=False)
        up.setflags(write=False)
        cin = [lo, la] + ([up] if len(lons) % 3 == 0 else [])
        r = C.call(vd.longitude_continuity, cin, region)
        if C.is_err(r):
            return r
        coords, reg = r
        if len(coords) != len(cin) or any(not np.array_equal(np.asarray(a), b) for a, b in zip(coords[1:], cin[1:])):
            return ["err", "Other:latitudes_or_extra_coordinates_changed"]
        return [[float(v) for v in reg], [float(v) for v in coords[0]], [float(v) for v in coords[1]]]
    r = C.call(vd.longitude_continuity, None, region)
    if C.is_err(r):
        return r
    return [[float(v) for v in r], [], []]


def compare(case, io, mo):
    e = C.err_compare(io, mo)
    if e:
        return e
    mv = C.tofloat(mo)
    if case["kind"] == "decimal-degrees":
        ok = all(abs(x - y) <= 1e-9 for x, y in zip(io[0], mv[0])) and len(io[1]) == len(mv[1]) and all(abs(x - y) <= 1e-9 for x, y in zip(io[1], mv[1]))
        return "ok" if ok else f"diff:{io} vs {mv} (decimal degrees, 1e-9)"
    if io[0] != mv[0]:
        return f"diff:region {io[0]} vs {mv[0]}"
    if io[1] != mv[1]:
        return f"diff:longitudes {io[1]} vs {mv[1]}"
    return "ok"


def pymod(x, m):
    x = F(x)
    return x - m * (x / m).__floor__()


def analyse(w, e):
    """Exact description of the input arc."""
    w, e = C.fq(w), C.fq(e)
    d = abs(e - w)
    full = d == 360
    approx = (not full) and abs(d - 360) <= F(1, 10**8) + F(360, 10**5)
    a = F(360) if full else pymod(e - w, 360)
    w1 = pymod(w, 360)
    e1 = pymod(e, 360)
    w3 = pymod(w1 + 180, 360) - 180
    rep360 = w1 + a <= 360
    rep180 = w3 + a <= 180
    seam = (not full) and ((e1 == 0 and w1 != 0) or (w1 > e1 and e1 == 180))
    return dict(a=a, full=full, approx=approx, w1=w1, e1=e1, w3=w3, rep=rep360 or rep180, seam=seam)


def oracle(case, io):
    w, e, s, n, lons, lats = case["args"]
    invalid = (w > 360 or e > 360 or w < -180 or e < -180 or s > 90 or n > 90 or s < -90 or n < -90 or abs(e - w) > 360
               or any(x > 360 or x < -180 for x in lons) or any(x > 90 or x < -90 for x in lats))
    if invalid:
        return None if C.is_err(io) and io[1] == "ValueError" else "out-of-range region/coordinates not rejected with ValueError"
    if C.is_err(io):
        return "valid input rejected: " + io[1]
    A = analyse(w, e)
    if A["approx"] or not A["rep"]:
        return None
    if case["kind"] == "decimal-degrees":
        (W, E, S, N), olons, olats = io
        if W > E or abs((E - W) - float(A["a"])) > 1e-9:
            return f"returned region ({W}, {E}) is not the arc of {float(A['a'])} degrees from {w} eastwards to {e}"
        for x, y in zip(lons, olons):
            if min(abs(((y - x) % 360.0)), abs(((y - x) % 360.0) - 360.0)) > 1e-9:
                return f"longitude {x} -> {y} not congruent modulo 360"
            if x in (w, e) and not (W <= y <= E):
                return (f"the longitude {x} IS a bound of the region ({w}, {e}) but comes back as {y!r}, outside the returned region "
                        f"({W!r}, {E!r}): the bounds belong to the region")
        for i, x in enumerate(lons):
            for j in range(i):
                if lons[j] == x and olons[j] != olons[i]:
                    return f"the same longitude {x} comes back as {olons[j]!r} and as {olons[i]!r}"
        return None
    (W, E, S, N), olons, olats = io
    W, E = C.fq(W), C.fq(E)
    if (S, N) != (s, n) or olats != lats:
        return "latitudes changed"
    if W > E:
        return f"returned region has W > E: ({float(W)}, {float(E)}) for input ({w}, {e})"
    if not A["full"] and (pymod(W - C.fq(w), 360) != 0 or pymod(E - C.fq(e), 360) != 0):
        return f"returned bounds ({float(W)}, {float(E)}) not congruent to the inputs ({w}, {e}) modulo 360"
    if E - W != A["a"]:
        return f"width {float(E - W)} != eastward angle {float(A['a'])} from W={w} to E={e}"
    if A["full"] and (W, E) != (0, 360):
        return "full-globe input did not become (0, 360)"
    lo_conv, hi_conv = (0, 360) if W >= 0 and E > 180 or (W >= 0 and E >= 0 and W <= 360 and E <= 360 and not (W < 0)) else (-180, 180)
    if W < 0:
        lo_conv, hi_conv = -180, 180
    for x, y in zip(lons, olons):
        x, y = C.fq(x), C.fq(y)
        if pymod(y - x, 360) != 0:
            return f"longitude {float(x)} -> {float(y)} not congruent modulo 360"
        inside = W <= y <= E
        ang = pymod(x - C.fq(w), 360) <= A["a"]
        if inside != ang:
            return (f"longitude {float(x)} -> {float(y)}: inside returned region ({float(W)}, {float(E)}) is {inside} but angularly within "
                    f"the original arc ({w} -> {e}) is {ang}")
        if not (lo_conv <= y <= hi_conv):
            return f"longitude {float(y)} not in the convention [{lo_conv}, {hi_conv}] of the returned region"
    return None


def nontrivial(case, io):
    if C.is_err(io):
        return False
    A = analyse(case["args"][0], case["args"][1])
    return A["rep"] and not A["approx"]


def finding_key(case, io):
    w, e = case["args"][0], case["args"][1]
    try:
        A = analyse(w, e)
    except Exception:  # noqa: BLE001
        return None
    if A["seam"] and A["rep"] and not A["approx"]:
        return "D4-east-bound-on-seam"
    return None
