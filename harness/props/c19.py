"""C19 — load_surfer returns the file's grid faithfully or refuses it."""
import builtins
import io as _io
import math
import os
import re
import tempfile

import numpy as np

import common as C
import verde as vd

ID = "C19"
TRANSLATED = "io"          # Gen/IO.lean (_read_surfer_header, _check_surfer_integrity) is regenerated from /repo and bridged to the model in Props/C19.lean
FILES = ["verde/io.py"]
RULE = ("corpus + seeded Surfer ASCII files: shapes 2..7 x 2..7, regions, magnitudes 1e-3..1e30 incl. values adjacent to the blank threshold, negative and "
        "repeated values, blank patterns, number formatting (fixed / exponent / integer) and whitespace (spaces, tabs, leading/trailing, blank lines), both "
        "dtypes, path and open-file inputs; plus every single header corruption (counts +-1 / swapped, ranges swapped / shifted, non-numeric token, missing "
        "token), ragged rows, wrapped-row layouts (a grid row split over several lines); `open` is wrapped to observe that handles opened by the function "
        "are closed on every path; non-trivial = the call returned a grid or an error on a body of >= 4 values; distinct = distinct protocol lines")
ASSUMPTIONS = ["Python int()/float() and numpy.loadtxt lex the numeric tokens (the model receives the parsed values at the requested dtype); "
               "whitespace splitting is str.split()/loadtxt", "numpy.allclose formula for the range check"]
TRUSTED = ["numpy.loadtxt, float(), int()", "xarray.DataArray container", "OS file layer"]

BLANK64 = 1.70141e38


def fmt_num(rng, v):
    style = rng.choice(["r", "e", "f", "g"])
    if float(v).is_integer() and abs(v) < 1e15 and rng.random() < 0.4:
        return str(int(v))
    if style == "e":
        return "%.17e" % v
    if style == "g":
        return "%.17g" % v
    return repr(float(v))


def render(rng, gid, shape_toks, ns_toks, we_toks, range_toks, rows, wrap=None):
    def sep():
        return rng.choice([" ", "  ", "\t", " \t "])
    lines = [rng.choice(["", " "]) + gid + rng.choice(["", "  ", "\t"])]
    for toks in (shape_toks, ns_toks, we_toks, range_toks):
        lines.append(rng.choice(["", " "]) + sep().join(toks) + rng.choice(["", " "]))
    for r in rows:
        toks = [fmt_num(rng, v) for v in r]
        if wrap and len(toks) > wrap:
            for k in range(0, len(toks), wrap):
                lines.append(sep().join(toks[k:k + wrap]))
        else:
            lines.append(rng.choice(["", "  "]) + sep().join(toks) + rng.choice(["", " "]))
        if rng.random() < 0.1:
            lines.append("")
    return "\n".join(lines) + "\n"


def tok_enc(t):
    """header token text -> protocol token for the model (as int()/float() see it)."""
    if re.fullmatch(r"[+-]?\d+", t.strip()):
        return str(int(t))
    try:
        v = float(t)
    except ValueError:
        return "bad"
    if math.isnan(v) or math.isinf(v):
        return "bad"
    return "[ f " + C.enc(v) + " ]"


def mk(rng, gid, shape_toks, ns_toks, we_toks, range_toks, rows, dtype, as_path, kind, wrap=None):
    text = render(rng, gid, shape_toks, ns_toks, we_toks, range_toks, rows, wrap)
    # what loadtxt will see: one row per non-empty body line
    body_lines = [ln.split() for ln in text.split("\n")[5:] if ln.strip()]
    def as_read(t):
        v = float(np.dtype(dtype).type(t))
        return float(t) if math.isinf(v) and not math.isinf(float(t)) else v       # a finite number beyond the type's range reads as +-inf; the model gets the number itself (same side of the sentinel)
    with np.errstate(over="ignore"):
        body = [[as_read(t) for t in ln] for ln in body_lines]
    blank = float(np.dtype(dtype).type(BLANK64))
    op = (f"surfer {gid} [ {' '.join(tok_enc(t) for t in shape_toks)} ] [ {' '.join(tok_enc(t) for t in ns_toks)} ] "
          f"[ {' '.join(tok_enc(t) for t in we_toks)} ] [ {' '.join(tok_enc(t) for t in range_toks)} ] {C.enc(body)} {C.enc(bool(as_path))} {C.enc(blank)}")
    return {"fn": "surfer", "kind": kind, "args": [text, dtype, as_path, gid, rows, shape_toks, ns_toks, we_toks, range_toks, wrap], "op": op}


def rand_grid(rng):
    ny, nx = rng.randint(2, 7), rng.randint(2, 7)
    mag = rng.choice([1e-3, 1.0, 1.0, 100.0, 1e6, 1e30])
    rows = [[rng.choice([rng.randint(-500, 500) / 8.0 * mag, round(rng.uniform(-1, 1) * mag, 6), 0.0, 7.5 * mag]) for _ in range(nx)] for _ in range(ny)]
    if rng.random() < 0.3:
        for _ in range(rng.randint(1, 3)):
            rows[rng.randrange(ny)][rng.randrange(nx)] = rng.choice([1.70141e38, 1.70141e38, 1.7014117e38, 3e38, 1e39, 1e300])      # (the last two: beyond float32 - still blanks)
    if rng.random() < 0.1:
        rows[0][0] = rng.choice([1.70140e38, 1.701409e38])      # just below the threshold: a legitimate value
    if rng.random() < 0.12:
        # as far BELOW zero as the blank sentinel is above it: an ordinary (if extreme) value - only cells at or above the sentinel are blank
        rows[rng.randrange(ny)][rng.randrange(nx)] = rng.choice([-1.70141e38, -1.7014117e38, -3e38, -1.70140e38])
    s, w = rng.randint(-400, 400) / 4.0, rng.randint(-400, 400) / 4.0
    return ny, nx, rows, (s, s + rng.randint(1, 400) / 4.0), (w, w + rng.randint(1, 400) / 4.0)


def header_range(rows, dtype):
    vals = [float(np.dtype(dtype).type(v)) for r in rows for v in r]
    blank = float(np.dtype(dtype).type(BLANK64))
    good = [v for v in vals if v < blank]
    if not good:
        good = [0.0]
    return min(good), max(good)


def corpus():
    import random
    rng = random.Random(19)
    rows = [[1.0, 2.0, 3.0], [4.0, 5.0, 6.5]]
    base = dict(gid="DSAA", shape_toks=["2", "3"], ns_toks=["0", "10"], we_toks=["-5.5", "20"], range_toks=["1", "6.5"])
    cs = [mk(rng, rows=rows, dtype="float64", as_path=True, kind="corpus", **base),
          mk(rng, rows=rows, dtype="float32", as_path=False, kind="corpus-fileobj", **base),
          mk(rng, rows=[[1.0, 2.0, 1.70141e38], [4.0, 5.0, 6.5]], dtype="float64", as_path=True, kind="corpus-blank", **base),
          mk(rng, rows=[[1.0, -1.70141e38, 3.0], [4.0, 1.70141e38, 6.5]], dtype="float64", as_path=True, kind="corpus-negative-sentinel-magnitude",
             **dict(base, range_toks=["-1.70141e38", "6.5"])),
          mk(rng, rows=[[1.0, -3e38, 3.0], [4.0, 5.0, 6.5]], dtype="float32", as_path=False, kind="corpus-negative-sentinel-magnitude",
             **dict(base, range_toks=["-3e38", "6.5"])),
          mk(rng, rows=[[1.0, -3e38, 3.0], [4.0, 5.0, 6.5]], dtype="float64", as_path=True, kind="bad-range-omits-large-negative", **base),
          mk(rng, rows=[[1.0, 2.0, 1e39], [4.0, 5.0, 6.5]], dtype="float32", as_path=True, kind="corpus-blank-beyond-float32", **base),
          mk(rng, rows=[[1.0, 1e39, 3.0], [1e300, 5.0, 6.5]], dtype="float64", as_path=False, kind="corpus-blank-beyond-float32", **base),
          mk(rng, rows=rows, dtype="float64", as_path=True, kind="bad-shape-swapped", **dict(base, shape_toks=["3", "2"])),
          mk(rng, rows=rows, dtype="float64", as_path=True, kind="bad-range", **dict(base, range_toks=["1", "6"])),
          mk(rng, rows=rows, dtype="float64", as_path=True, kind="bad-token", **dict(base, ns_toks=["0", "x"])),
          mk(rng, rows=rows, dtype="float64", as_path=True, kind="bad-float-shape", **dict(base, shape_toks=["2.0", "3"])),
          mk(rng, rows=[[1.0, 2.0, 3.0, 4.0], [5.0, 6.0, 7.0, 6.5]], dtype="float64", as_path=True, kind="wrapped-even", wrap=2,
             **dict(base, shape_toks=["2", "4"])),
          mk(rng, rows=[[1.0, 2.0, 3.0], [4.0, 5.0, 6.5]], dtype="float64", as_path=True, kind="wrapped-ragged", wrap=2, **base)]
    # families exercised on EVERY run: header ranges just outside / inside allclose's tolerance, one-sided corruptions, aligned columns
    for toks, kind in ((["1", repr(6.5 * (1 + 3e-5))], "bad-range-just-outside-tolerance"), ([repr(1.0 * (1 - 3e-5)), "6.5"], "bad-range-just-outside-tolerance"),
                       (["1", repr(6.5 * (1 + 3e-6))], "valid-range-just-inside-tolerance"), (["1", "9.75"], "bad-range-shifted"),
                       (["3.5", "6.5"], "bad-range-shifted"), (["-2", "6.5"], "bad-range-shifted"), (["1", "4.25"], "bad-range-shifted")):
        cs.append(mk(rng, rows=rows, dtype="float64", as_path=True, kind=kind, **dict(base, range_toks=toks)))
    return cs


def generate(rng, tier):
    n = 300 if tier == "quick" else 5000
    cs = []
    for _ in range(n):
        ny, nx, rows, ns, we = rand_grid(rng)
        dtype = rng.choice(["float64", "float64", "float32"])
        lo, hi = header_range(rows, dtype)
        gid = rng.choice(["DSAA", "DSBB", "grid1"])
        H = dict(gid=gid, shape_toks=[str(ny), str(nx)], ns_toks=[fmt_num(rng, ns[0]), fmt_num(rng, ns[1])],
                 we_toks=[fmt_num(rng, we[0]), fmt_num(rng, we[1])], range_toks=[fmt_num(rng, lo), fmt_num(rng, hi)])
        as_path = rng.random() < 0.6
        u = rng.random()
        kind, wrap = "valid", None
        if u < 0.55:
            pass
        elif u < 0.62:
            H["shape_toks"] = [str(nx), str(ny)]
            kind = "bad-shape-swapped" if nx != ny else "valid-square-swapped"
        elif u < 0.69:
            k = rng.randrange(2)
            H["shape_toks"][k] = str(int(H["shape_toks"][k]) + rng.choice([-1, 1]))
            kind = "bad-count"
        elif u < 0.72 and abs(hi) > 1e-2 and abs(lo) > 1e-2:
            # a header range just outside / just inside numpy.allclose's tolerance (rtol 1e-5 of the header value, atol 1e-8)
            which, outside = rng.randrange(2), rng.random() < 0.6
            v = [lo, hi][which] * (1.0 + (3e-5 if outside else 3e-6) * rng.choice([-1, 1]))
            H["range_toks"][which] = repr(float(v))
            kind = "bad-range-just-outside-tolerance" if outside else "valid-range-just-inside-tolerance"
        elif u < 0.76:
            if rng.random() < 0.5:
                H["range_toks"] = [fmt_num(rng, hi + abs(hi) * 0.5 + 1.0), H["range_toks"][1]]
            else:
                H["range_toks"] = [H["range_toks"][0], fmt_num(rng, hi * 2 + 3.0)]
            kind = "bad-range-shifted"
        elif u < 0.8:
            H["range_toks"] = H["range_toks"][::-1]
            kind = "bad-range-swapped" if lo != hi else "valid"
        elif u < 0.85:
            which = rng.choice(["shape_toks", "ns_toks", "we_toks", "range_toks"])
            if rng.random() < 0.5:
                H[which] = H[which][:1]
                kind = "bad-missing-token"
            else:
                H[which] = [H[which][0], rng.choice(["abc", "1,5", "--3"])]
                kind = "bad-nonnumeric"
        elif u < 0.9:
            rows = [list(r) for r in rows]
            rows[rng.randrange(ny)].append(1.0)
            kind = "bad-ragged"
        elif u < 0.97:
            wrap = rng.randint(1, max(1, nx - 1))
            kind = "wrapped"
        else:
            H["ns_toks"] = H["ns_toks"][::-1]
            kind = "swapped-ns (accepted: coordinates follow the header)"
        cs.append(mk(rng, rows=rows, dtype=dtype, as_path=as_path, kind=kind, wrap=wrap, **H))
    return cs


class _LineReader:
    """A minimal file-like object (what a decompressing or network reader looks like): `readline`, iteration over lines, `read`, `close`."""

    def __init__(self, text):
        self._lines = text.splitlines(keepends=True)
        self._k = 0
        self.closed = False

    def readline(self):
        if self._k >= len(self._lines):
            return ""
        self._k += 1
        return self._lines[self._k - 1]

    def read(self, *_):
        out = "".join(self._lines[self._k:])
        self._k = len(self._lines)
        return out

    def __iter__(self):
        return self

    def __next__(self):
        line = self.readline()
        if not line:
            raise StopIteration
        return line

    def close(self):
        self.closed = True


def impl(case):
    text, dtype, as_path, gid = case["args"][:4]
    opened = []
    real_open = builtins.open

    def spy(*a, **k):
        f = real_open(*a, **k)
        opened.append(f)
        return f
    path = None
    try:
        if as_path:
            fd, path = tempfile.mkstemp(suffix=".grd", dir=C.WORK)
            os.write(fd, text.encode())
            os.close(fd)
            builtins.open = spy
            try:
                r = C.call(vd.load_surfer, path, dtype=dtype)
            finally:
                builtins.open = real_open
            mine = [f for f in opened if getattr(f, "name", None) == path]
            closed = len(mine) == 1 and mine[0].closed
        else:
            # an open file OBJECT in one of the forms callers have: an in-memory text buffer, a temporary-file wrapper (not an io.IOBase
            # subclass: it delegates), the caller's own handle from open(), or any object that reads lines (duck typing: `readline`)
            import zlib
            kind_ = zlib.crc32(("fobj" + case["op"][:3000]).encode()) % 4
            tmp_path = None
            if kind_ == 0:
                fobj = _io.StringIO(text)
            elif kind_ == 1:
                fobj = tempfile.NamedTemporaryFile("w+", suffix=".grd", dir=C.WORK)
                fobj.write(text)
                fobj.seek(0)
            elif kind_ == 2:
                fd, tmp_path = tempfile.mkstemp(suffix=".grd", dir=C.WORK)
                os.write(fd, text.encode())
                os.close(fd)
                fobj = real_open(tmp_path, "r")
            else:
                fobj = _LineReader(text)
            try:
                r = C.call(vd.load_surfer, fobj, dtype=dtype)
                closed = not fobj.closed          # a handle given by the caller must be left open
            finally:
                try:
                    fobj.close()
                except Exception:  # noqa: BLE001
                    pass
                if tmp_path and os.path.exists(tmp_path):
                    os.remove(tmp_path)
    finally:
        if path and os.path.exists(path):
            os.remove(path)
    trace = ["open", "read", "close"] if as_path else ["read"]
    if not closed:
        trace = ["handle-not-closed" if as_path else "caller-handle-closed"]
    if C.is_err(r):
        return [r, trace]
    if r.dims != ("northing", "easting") or str(r.dtype) != dtype:
        return [["err", "WrongDimsOrDtype"], trace]
    if r.attrs.get("gridID") != gid or (as_path and r.attrs.get("file") != path) or (not as_path and "file" in r.attrs):
        return [["err", "WrongAttrs"], trace]
    vals = np.ma.filled(np.ma.masked_invalid(np.asarray(r.values, dtype=float)), np.nan)
    values = [[None if math.isnan(v) else float(v) for v in row] for row in np.atleast_2d(vals).tolist()]
    return [[list(int(v) for v in r.shape), [[float(v) for v in r.northing.values], [[float(v) for v in r.easting.values], [values, gid]]]], trace]


def compare(case, io, mo):
    ri, ti = io
    rm, tm = mo
    if ti != tm:
        return f"diff:resource trace {ti} vs {tm}"
    if C.is_err(ri) and C.is_err(rm) and {ri[1], rm[1]} <= {"ValueError", "Other:IndexError", "Other"}:
        return "ok"      # malformed header/body refused on both sides (the exception class depends on which lexer meets it first)
    return C.std_compare(ri, rm, tol=1e-12)


def oracle(case, io):
    text, dtype, as_path, gid, rows, shape_toks, ns_toks, we_toks, range_toks, wrap = case["args"]
    r, trace = io
    if trace and trace[0] in ("handle-not-closed", "caller-handle-closed"):
        return "file handle management: " + trace[0]
    # the file's logical content: header + one grid row per (non-wrapped) line
    def num(t):
        try:
            return float(t)
        except ValueError:
            return None
    try:
        ny, nx = int(shape_toks[0]), int(shape_toks[1])
    except (ValueError, IndexError):
        ny = nx = None
    body_lines = [ln.split() for ln in text.split("\n")[5:] if ln.strip()]
    if C.is_err(r):
        # refusing is always allowed unless the file is well formed (one grid row per line, consistent header)
        wellformed = (ny is not None and len(shape_toks) == 2 and len(ns_toks) == 2 and len(we_toks) == 2 and len(range_toks) == 2
                      and all(num(t) is not None for t in ns_toks + we_toks + range_toks)
                      and len(body_lines) == ny and all(len(b) == nx for b in body_lines) and ny >= 2 and nx >= 2)
        if wellformed:
            vals = [float(np.dtype(dtype).type(t)) for b in body_lines for t in b]
            blank = float(np.dtype(dtype).type(BLANK64))
            good = [v for v in vals if v < blank]
            if good and np.allclose([min(good), max(good)], [num(range_toks[0]), num(range_toks[1])]):
                return "a well-formed Surfer grid was refused: " + r[1]
        return None
    shape, (north, (east, (values, g))) = r
    # a returned grid must be the grid written in the file
    if [len(values), len(values[0])] != shape:
        return "internal shape inconsistency"
    if len(body_lines) != shape[0] or any(len(b) != shape[1] for b in body_lines):
        return f"returned a {shape} grid but the file body has {len(body_lines)} lines of {sorted(set(len(b) for b in body_lines))} values"
    if ny is None or [ny, nx] != shape:
        return f"returned shape {shape} disagrees with the header counts {shape_toks}"
    blank = float(np.dtype(dtype).type(BLANK64))
    for i, b in enumerate(body_lines):
        for j, t in enumerate(b):
            v = float(np.dtype(dtype).type(t))
            got = values[i][j]
            if v >= blank:
                if got is not None:
                    return f"blank sentinel at row {i}, column {j} was not turned into NaN"
            elif got is None or got != v:
                return f"value at row {i}, column {j} is {got} but the file has {t} there (row by row, in file order)"
    # ... and its data range must agree with the header (otherwise the file must be refused)
    good = [v for row in values for v in row if v is not None]
    if good and len(range_toks) == 2 and num(range_toks[0]) is not None and num(range_toks[1]) is not None:
        if not np.allclose([min(good), max(good)], [num(range_toks[0]), num(range_toks[1])]):
            return (f"a grid was returned although its data range [{min(good)}, {max(good)}] disagrees with the header's "
                    f"{range_toks} (must raise instead)")
    s, n, w, e = num(ns_toks[0]), num(ns_toks[1]), num(we_toks[0]), num(we_toks[1])
    if not (np.allclose(north, np.linspace(s, n, shape[0]), rtol=1e-12, atol=1e-12) and np.allclose(east, np.linspace(w, e, shape[1]), rtol=1e-12, atol=1e-12)):
        return "coordinates are not evenly spaced over the header ranges"
    return None


def nontrivial(case, io):
    return sum(len(r) for r in case["args"][4]) >= 4


def finding_key(case, io):
    return None
