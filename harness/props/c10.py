"""C10 — BlockMean outputs means and (0,1] weights by the documented rule; variance_to_weights."""
import math
from fractions import Fraction as F

import numpy as np

import blocks_common as B
import common as C
import verde as vd
from props import large as L

ID = "C10"
TRANSLATED = "blockmean"   # Gen/Utils.lean (variance_to_weights loop body) and Gen/BlockMean.lean (BlockMean.filter and its aggregation helpers, pinned) are regenerated from /repo and bridged to the model in Props/C10.lean
FILES = ["verde/blockreduce.py", "verde/utils.py"]
RULE = ("corpus + seeded clouds through BlockMean.filter (no weights / weights with uncertainty on or off / uncertainty without weights) with 1..3 "
        "components, single- and many-member blocks, plus variance_to_weights on arrays with zeros, values around the tolerance, NaNs and several "
        "components (input compared before/after); non-trivial = accepted call producing >= 2 weights; distinct = distinct protocol lines")
ASSUMPTIONS = ["pandas groupby contract; aggregate(np.var) is the population variance (ddof=0) in this environment",
               "block labels from block_split (C08); near-tie layouts counted ambiguous"]
TRUSTED = ["pandas groupby/aggregate/apply (contract)", "numpy.average, numpy.var, numpy.nan_to_num"]


def mk_bm(coords, shape2d, data, weights, region, shape, spacing, adjust, centre, drop, unc, kind):
    return {"fn": "block_mean", "kind": kind,
            "args": [coords, shape2d, data, weights, region, shape, spacing, adjust, centre, drop, unc],
            "op": f"block_mean {C.enc(coords)} {C.enc(data)} {C.enc(weights)} {B.enc_block(region, shape, spacing, adjust)} "
                  f"{C.enc(centre)} {C.enc(drop)} {C.enc(unc)}"}


def mk_v2w(comps, kind, tol=None, which=0):
    """variance_to_weights on a tuple of len(comps) arrays (a bare array when there is one); the model is asked about component
    `which` (components are independent).  tol=None: the default tolerance."""
    def tok(x):
        return "nan" if (isinstance(x, float) and math.isnan(x)) else C.enc(x)
    lst = "[ " + " ".join(tok(x) for x in comps[which]) + " ]"
    return {"fn": "v2w", "kind": kind, "args": [comps, tol, which],
            "op": ("v2w " + lst) if tol is None else f"v2w_tol {lst} {C.enc(tol)}"}


def corpus():
    return _corpus() + [L.case("blockmean_by_hand", [20011, 1, True], "corpus-long-table"),
                       L.case("blockmean_by_hand", [21001, 3, False], "corpus-long-table"),
                       L.case("blockmean_by_hand", [70001, 4, True], "corpus-long-table")]


def _corpus():
    es = [0.5, 1.5, 2.5, 3.5, 0.25, 3.75, 0.75]
    ns = [0.5, 0.5, 1.5, 1.5, 0.25, 1.75, 0.75]
    d1 = [1.0, 2.0, 3.0, 4.0, 5.0, 6.0, 8.0]
    d2 = [-1.0, 0.5, 2.5, 7.0, 9.0, 11.0, 13.5]
    w1 = [1.0, 2.0, 0.5, 4.0, 1.0, 1.0, 3.0]
    w2 = [2.0, 1.0, 1.5, 0.25, 3.0, 1.0, 1.0]
    # a quiet block (scatter 2**-20) among blocks a long way apart in value: the weights are relative to the smallest positive BLOCK variance,
    # however small it is next to the spread of the whole dataset (and the other way round: tiny data overall)
    qe, qn = [0.25, 0.75, 1.25, 1.75, 2.25, 2.75], [0.5] * 6
    qd = [-2.0 ** -20, 2.0 ** -20, 131072.0, 131073.0, -131072.0, -131074.0]
    cs = [mk_bm([qe, qn], [6], [qd], None, [0, 3, 0, 1], None, [1.0, 1.0], "spacing", False, True, False, "corpus-quiet-block"),
          mk_bm([qe, qn], [6], [qd, [2.0 ** -30 * v for v in (1.0, 3.0, 2.0, 2.5, -1.0, 7.0)]], [[1.0, 1.0, 2.0, 2.0, 0.5, 0.5], [1.0] * 6], [0, 3, 0, 1], None,
                [1.0, 1.0], "spacing", False, True, False, "corpus-quiet-block"),
          mk_bm([qe, qn], [6], [[2.0 ** -30 * v for v in (1.0, 3.0, 2.0, 2.5, -1.0, 7.0)]], None, [0, 3, 0, 1], None, [1.0, 1.0], "spacing", True, True, False,
                "corpus-quiet-block")] + [mk_bm([es, ns], [7], [d1], None, [0, 4, 0, 2], None, [1.0, 2.0], "spacing", False, True, False, "corpus-noweights"),
          mk_bm([es, ns], [7], [d1, d2], [w1, w2], [0, 4, 0, 2], None, [1.0, 2.0], "spacing", False, True, True, "corpus-uncertainty"),
          mk_bm([es, ns], [7], [d1, d2], [w1, w2], [0, 4, 0, 2], None, [1.0, 2.0], "spacing", True, True, False, "corpus-weighted-variance"),
          mk_bm([es, ns], [7], [d1], None, [0, 4, 0, 2], None, [1.0, 2.0], "spacing", False, True, True, "corpus-uncertainty-noweights"),
          mk_bm([es, ns], [7], [d1], None, [0, 4, 0, 2], None, [1.0, 2.0], "spacing", False, True, True, "corpus-uncertainty-noweights-tuple"),
          mk_bm([es, ns], [7], [d1, d2], None, [0, 4, 0, 2], None, [1.0, 2.0], "spacing", False, True, True, "corpus-uncertainty-noweights-tuple"),
          mk_bm([es, ns], [7], [d1, d2], None, [0, 4, 0, 2], None, [1.0, 2.0], "spacing", False, True, False, "corpus-noweights-tuple"),
          mk_bm([es, ns], [7], [d1, d2], [[1.0] * 7, [0.25] * 7], [0, 4, 0, 2], None, [1.0, 2.0], "spacing", False, True, True, "corpus-uncertainty-constw"),
          mk_v2w([[0.0, 2.0, float("nan"), 4.0, 1e-16, 1e-15, 2e-15]], "v2w-corpus"),
          mk_v2w([[1.0, 2.0, 1e-7, 4.0], [3e-7, 0.5, 2.0]], "v2w-tuple-tol", 1e-6, 0), mk_v2w([[1.0, 2.0, 1e-7, 4.0], [3e-7, 0.5, 2.0]], "v2w-tuple-tol", 1e-6, 1),
          mk_v2w([[0.0, 0.0]], "v2w-all-zero"), mk_v2w([[float("nan")]], "v2w-nan"), mk_v2w([[5.0]], "v2w-single")]
    # readings on a high level with a small spread (absolute gravity, heights above the ellipsoid): the variances are those of the SPREAD
    for lvl in (2.0 ** 20, -2.0 ** 23):
        hi1, hi2 = [lvl + v / 8 for v in d1], [lvl + v / 4 for v in d2]
        cs.append(mk_bm([es, ns], [7], [hi1, hi2], [w1, w2], [0, 4, 0, 2], None, [2.0, 2.0], "spacing", False, True, False, "corpus-weighted-variance-high-level"))
        cs.append(mk_bm([es, ns], [7], [hi1], None, [0, 4, 0, 2], None, [2.0, 2.0], "spacing", False, True, False, "corpus-noweights-high-level"))
    return cs


def generate(rng, tier):
    n = 260 if tier == "quick" else 4000
    maxpts = 30 if tier == "quick" else 200
    cs = []
    for _ in range(n):
        if rng.random() < 0.3:
            m = rng.randint(1, 12)
            comp = []
            for _ in range(m):
                u = rng.random()
                comp.append(0.0 if u < 0.15 else float("nan") if u < 0.25 else rng.choice([1e-16, 1e-15, 5e-16, 2e-15, 1e-14]) if u < 0.4
                            else rng.randint(1, 4096) / 64.0 * rng.choice([1, 1e-3, 1e3]))
            if rng.random() < 0.4:
                # several components in one call, and/or a user tolerance: every component must be treated with the SAME rule
                comps = [comp] + [[rng.choice([0.0, 1e-9, 3e-7, 1e-16, rng.randint(1, 512) / 64.0]) for _ in range(rng.randint(1, 8))]
                                  for _ in range(rng.randint(1, 2))]
                tol = rng.choice([None, 1e-6, 1e-3, 0.25])
                cs.append(mk_v2w(comps, "v2w-tuple" + ("" if tol is None else "-tol"), tol, rng.randrange(len(comps))))
            else:
                cs.append(mk_v2w([comp], "v2w", rng.choice([None, None, 1e-6])))
            continue
        reg, es, ns = B.cloud(rng, maxpts)
        npts = len(es)
        region, shape, spacing, adjust = B.block_args(rng, reg)
        coords = [es, ns] + ([B.values(rng, npts)] if rng.random() < 0.3 else [])
        ncomp = rng.choice([1, 1, 2, 3])
        data = [B.values(rng, npts) for _ in range(ncomp)]
        if rng.random() < 0.15:      # a high level with a small spread
            lvl = rng.choice([-1.0, 1.0]) * 2.0 ** rng.choice([17, 20, 23])
            data = [[lvl + v / rng.choice([1, 8]) for v in comp] for comp in data]
        mode = rng.choice(["none", "none", "unc", "wvar", "unc-noweights", "unc-noweights-tuple", "none-tuple", "unc-constw", "wvar-constw"])
        weights = [B.pos_weights(rng, npts) for _ in range(ncomp)] if mode in ("unc", "wvar") else None
        if mode.endswith("-constw"):     # all data share one uncertainty / unit weights: still "weights given"
            weights = [[rng.choice([1.0, 0.25, 4.0])] * npts for _ in range(ncomp)]
        elif weights is not None and rng.random() < 0.3:
            weights = [[float(rng.choice([1, 1, 4, 9, 16, 25])) for _ in range(npts)] for _ in range(ncomp)]      # whole numbers (handed over as an integer array, see impl)
        if mode in ("unc", "wvar") and rng.random() < 0.3:
            # two surveys of very different quality side by side (sigma 1e-4 next to sigma 100): the weights change by many orders of magnitude
            # ACROSS the region and little within a block; every block's mean and variance are its own
            w_, e_ = reg[0], reg[1]
            weights = [[10.0 ** (2 * round(5 * (x - w_) / max(e_ - w_, 1e-9)) - 4) * rng.choice([1.0, 2.0, 4.0]) for x in es] for _ in range(ncomp)]
            mode += "-scales"
        shape2d = [npts]
        if npts % 2 == 0 and rng.random() < 0.3:
            shape2d = [2, npts // 2]
        cs.append(mk_bm(coords, shape2d, data, weights, region, shape, spacing, adjust, rng.random() < 0.4, rng.random() < 0.5,
                        mode in ("unc", "unc-scales", "unc-noweights", "unc-noweights-tuple", "unc-constw"), "blockmean-" + mode))
    return cs


def impl(case):
    if case["fn"] == "large":
        r = C.call(L.run, case["args"])
        return r if C.is_err(r) else ["large", r]
    a = case["args"]
    if case["fn"] == "v2w":
        comps, tol, which = a
        kw = {} if tol is None else {"tol": tol}
        import zlib

        def shaped(c, j):
            # a variance GRID (2-D), a table column sliced as (n, 1), a row (1, n): the rule is about all the elements of a component
            x = np.array(c)
            k_ = zlib.crc32((f"shape{j}" + case["op"][:2000]).encode()) % 4
            n_ = x.size
            return x if k_ == 0 or n_ == 0 else x.reshape(n_, 1) if k_ == 1 else x.reshape(1, n_) if k_ == 2 else (x.reshape(2, n_ // 2) if n_ % 2 == 0 else x)
        arrs = tuple(shaped(c, j) for j, c in enumerate(comps))
        before = [x.copy() for x in arrs]
        r = C.call(vd.variance_to_weights, arrs[0] if len(arrs) == 1 else arrs, **kw)
        if C.is_err(r):
            return r
        same = all(np.array_equal(b, x, equal_nan=True) for b, x in zip(before, arrs))
        ro = tuple(shaped(c, j) for j, c in enumerate(comps))
        for x in ro:
            x.setflags(write=False)
        r2 = C.call(vd.variance_to_weights, ro[0] if len(ro) == 1 else ro, **kw)
        if C.is_err(r2):
            return ["err", "ReadOnlyInput:" + r2[1]]
        if not same:
            return ["err", "MutatedInput"]
        if len(arrs) > 1 and (not isinstance(r, tuple) or len(r) != len(arrs)):
            return ["err", "NotOneOutputPerComponent"]
        out = r[which] if len(arrs) > 1 else r
        if out.shape != arrs[which].shape:
            return ["err", "ShapeChanged"]
        return [float(v) for v in np.ravel(out)]
    coords, shape2d, data, weights, region, shape, spacing, adjust, centre, drop, unc = a
    key = case["op"][-60:]
    cs = tuple(C.mkarr(c, shape2d, f"{key}c{i}") for i, c in enumerate(coords))
    ds = tuple(C.mkarr(d, shape2d, f"{key}d{i}") for i, d in enumerate(data))
    ws = None if weights is None else tuple(C.mkarr(w, shape2d, f"{key}w{i}") for i, w in enumerate(weights))
    if ws is not None and all(float(v).is_integer() for w in weights for v in w) and any(v != 1 for w in weights for v in w):
        ws = tuple(np.asarray(w).astype("int64" if (len(weights[0]) + i) % 2 else "int32") for i, w in enumerate(ws))      # 1/sigma^2 kept as whole numbers
    for arr in cs + ds + (ws or ()):
        arr.setflags(write=False)
    bm = vd.BlockMean(spacing=spacing, region=region, adjust=adjust, center_coordinates=centre, uncertainty=unc, shape=shape, drop_coords=drop)
    d_arg = ds[0] if len(ds) == 1 else ds
    w_arg = None if ws is None else (ws[0] if len(ws) == 1 else ws)
    if ws is None and case.get("kind", "").endswith("-tuple"):
        w_arg = tuple(None for _ in ds)       # verde's own canonical "no weights" (check_fit_input / train_test_split return it)
    if weights is not None or not unc:
        C.call(bm.filter, tuple(np.asarray(c) * 3.0 + 17.0 for c in cs), d_arg, w_arg)     # history: earlier use on another cloud
    r = C.call(bm.filter, cs, d_arg, w_arg)
    if C.is_err(r):
        return r
    bc, bd, bw = r
    if len(ds) == 1:
        bd, bw = (bd,), (bw,)
    return [[np.asarray(c, dtype=float).tolist() for c in bc], [np.asarray(d, dtype=float).tolist() for d in bd],
            [np.asarray(w, dtype=float).tolist() for w in bw]]


def compare(case, io, mo):
    if case["fn"] == "large":
        return "diff:implementation failed: " + io[1] if C.is_err(io) else "ok"
    r = C.std_compare(io, mo, tol=1e-10)
    if r != "ok" and case["fn"] == "block_mean":
        a = case["args"]
        if B.near_tie(a[0][0], a[0][1], a[4], a[5], a[6], a[7]):
            return "amb"
    return r


def _v2w_expected(var, tol=C.fq(1e-15)):
    v = [F(0) if (isinstance(x, float) and math.isnan(x)) else C.fq(x) for x in var]
    nz = [x for x in v if x > tol]
    if not nz:
        return [F(1)] * len(v)
    m = min(nz)
    return [m / x if x > tol else F(1) for x in v]


def oracle(case, io):
    if case["fn"] == "large":
        return (io[1] or None) if not C.is_err(io) else "failed on a large input: " + io[1]
    a = case["args"]
    if case["fn"] == "v2w":
        if C.is_err(io):
            return "variance_to_weights failed or modified its input: " + io[1]
        exp = _v2w_expected(a[0][a[2]]) if a[1] is None else _v2w_expected(a[0][a[2]], C.fq(a[1]))
        if len(io) != len(exp):
            return "shape not preserved"
        for k, (x, y) in enumerate(zip(io, exp)):
            if not C.close(x, y, 1e-12):
                return f"weight {k} = {x} but rule gives {float(y)} for variance {a[0][a[2]][k]} (component {a[2]} of {len(a[0])}, tol {a[1]})"
        if not all(0 < x <= 1 for x in io):
            return "weight outside (0, 1]"
        if io and max(io) != 1.0:
            return "no weight equal to 1"
        return None
    coords, shape2d, data, weights, region, shape, spacing, adjust, centre, drop, unc = a
    if weights is None and unc:
        return None if C.is_err(io) and io[1] == "ValueError" else "uncertainty propagation without weights not rejected"
    if C.is_err(io):
        return "valid arguments rejected: " + io[1]
    es, ns = coords[0], coords[1]
    if B.near_tie(es, ns, region, shape, spacing, adjust):
        return None
    (be, bn), labels = vd.block_split((np.array(es), np.array(ns)), spacing=spacing, shape=shape, adjust=adjust, region=region)
    gr = B.groups(labels)
    oc, od, ow = io
    nb = len(gr)
    if any(len(x) != nb for x in oc + od + ow):
        return "not one entry per non-empty block"
    for c, comp in enumerate(data):
        means, variances = [], []
        for lab, mem in gr.items():
            v = [C.fq(comp[i]) for i in mem]
            if weights is None:
                mu = sum(v) / len(v)
                var = sum((x - mu) ** 2 for x in v) / len(v)
            else:
                w = [C.fq(weights[c][i]) for i in mem]
                mu = sum(x * y for x, y in zip(v, w)) / sum(w)
                var = 1 / sum(w) if unc else sum(y * (x - mu) ** 2 for x, y in zip(v, w)) / sum(w)
            means.append(mu)
            variances.append(var)
        expw = _v2w_expected(variances)
        # round-off of a two-pass variance: the mean is good to eps * level, so a variance of spread^2 (spread >= 1/8 here) is good to
        # about eps * level / spread relatively
        wtol = max(1e-8, 1.2e-13 * max(abs(x) for x in comp))
        for pos, lab in enumerate(gr):
            if not C.close(od[c][pos], means[pos], 1e-10, max(1.0, abs(float(means[pos])))):
                return f"block {lab} component {c}: mean {od[c][pos]} != {float(means[pos])}"
            if variances[pos] > 0 and variances[pos] < F(1, 10**12):
                continue   # float variance may fall on either side of the tolerance
            if not C.close(ow[c][pos], expw[pos], wtol):
                return (f"block {lab} component {c}: weight {ow[c][pos]} != {float(expw[pos])} "
                        f"({'sum-of-weights' if unc else 'min variance / variance'} rule; variance {float(variances[pos])})")
        if not all(0 < x <= 1 for x in ow[c]):
            return "weight outside (0, 1]"
        if max(ow[c]) != 1.0:
            return "no weight equal to 1"
    for pos, (lab, mem) in enumerate(gr.items()):
        for k in range(len(oc)):
            exp = float((be, bn)[k][lab]) if (centre and k < 2) else float(sum(C.fq(coords[k][i]) for i in mem) / len(mem))
            if not C.close(oc[k][pos], exp, 1e-10, max(1.0, abs(exp))):
                return f"block {lab}: coordinate {k} = {oc[k][pos]} expected {exp}"
    return None


def nontrivial(case, io):
    if case["fn"] == "large":
        return not C.is_err(io)
    if C.is_err(io):
        return False
    return len(io) >= 2 if case["fn"] == "v2w" else len(io[2][0]) >= 2


def finding_key(case, io):
    return None
