"""C14 — rolling and expanding windows select exactly the points inside each window."""
from fractions import Fraction as F

import numpy as np

import blocks_common as B
import common as C
import gen as G
import verde as vd
from props import large as L

ID = "C14"
TRANSLATED = "windows"     # Gen/Coords.lean (rolling_window prelude) and Gen/Windows.lean (expanding_window, the queries of rolling_window) are regenerated from /repo and bridged in Props/C14.lean
FILES = ["verde/coordinates.py"]
RULE = ("corpus (points exactly on window edges, empty windows, single row/column of windows, oversize window) + seeded clouds x window sizes up to the "
        "region's smaller side x spacing/shape x region given/inferred x both adjust modes x 1-D/2-D inputs with extra coordinates, and expanding windows "
        "with arbitrary centres and size lists; non-trivial = accepted call with >= 2 windows of which one is non-empty; distinct = distinct protocol lines")
ASSUMPTIONS = ["cKDTree.query_ball_point(p=inf, r) is the closed square of half-width r",
               "index sets compared exactly unless a differing point lies within 1e-9 (relative) of a window edge (float centre rounding): counted ambiguous"]
TRUSTED = ["scipy.spatial.cKDTree.query_ball_point (contract)", "numpy.unravel_index"]


def mk_roll(es, ns, shape2d, size, region, shape, spacing, adjust, extra, kind):
    return {"fn": "rolling", "kind": kind, "args": [es, ns, shape2d, size, region, shape, spacing, adjust, extra],
            "op": f"rolling {C.enc(es)} {C.enc(ns)} {C.enc(size)} {B.enc_block(region, shape, spacing, adjust)}"}


def mk_exp(es, ns, shape2d, center, sizes, kind):
    return {"fn": "expanding", "kind": kind, "args": [es, ns, shape2d, center, sizes],
            "op": f"expanding {C.enc(es)} {C.enc(ns)} {C.enc(center[0])} {C.enc(center[1])} {C.enc(sizes)}"}


def corpus():
    return _corpus() + [L.case("windows", [70001, 1, 12.0, 10.0], "corpus-large-cloud"),
                       L.case("windows", [131075, 2, 15.0, 9.0], "corpus-large-cloud"),
                       L.case("windows", [65537, 3, 9.0, 11.0], "corpus-large-cloud")]


def _corpus():
    es = [0.0, 1.0, 2.0, 3.0, 7.0, 8.0, 4.0, 10.0, 5.0]
    ns = [0.0, 1.0, 2.0, 3.0, 7.0, 8.0, 6.0, 10.0, 5.0]
    cs = [mk_roll(es, ns, [9], 2.0, [0, 10, 0, 10], None, 2.0, "spacing", False, "corpus-edges"),
          mk_roll(es, ns, [3, 3], 2.0, [0, 10, 0, 10], (1, 3), None, "spacing", True, "corpus-single-row"),
          mk_roll(es, ns, [9], 2.0, [0, 10, 0, 10], (3, 1), None, "spacing", False, "corpus-single-col"),
          mk_roll(es, ns, [9], 4.0, None, None, 3.0, "region", False, "corpus-inferred-region-adjust"),
          mk_roll(es, ns, [9], 0.001, [-7, 1, 4, 12], None, 1.0, "spacing", False, "corpus-empty-windows"),
          mk_roll(es, ns, [9], 11.0, [0, 10, 0, 10], None, 1.0, "spacing", False, "oversize"),
          mk_roll(es, ns, [9], 2.0, [0, 10, 0, 10], None, None, "spacing", False, "malformed"),
          # a window exactly as large as the smaller side of a region whose bounds are not binary fractions (finding D9)
          mk_roll([-48.4, -10.2, -30.0, -29.3, -20.5], [0.0, 50.0, 20.0, 25.0, 31.0], [5], 38.2, [-48.4, -10.2, 0, 50], None, 5.0, "spacing", False,
                  "corpus-size-equals-side"),
          mk_roll([0.1, 0.7, 0.4, 0.3], [0.1, 2.3, 1.1, 0.9], [4], 0.6, [0.1, 0.7, 0.1, 2.3], (3, 1), None, "spacing", False, "corpus-size-equals-side"),
          mk_roll([2.4, 3.5, 3.0], [-7.9, -1.1, -4.0], [3], 1.1, None, None, (1.7, 1.0), "region", False, "corpus-size-equals-side"),
          mk_exp(es, ns, [9], (5.0, 5.0), [1.0, 2.0, 6.0, 20.0], "corpus-expanding"),
          mk_exp(es, ns, [3, 3], (1.0, 1.0), [4.0, 0.0, 2.0], "corpus-expanding-unordered")]
    return cs


def generate(rng, tier):
    n = 350 if tier == "quick" else 6000
    maxpts = 40 if tier == "quick" else 300
    cs = []
    for _ in range(n):
        reg = G.small_region(rng)
        ew, nsx = reg[1] - reg[0], reg[3] - reg[2]
        npts = rng.randint(1, maxpts)
        lat = rng.choice([4, 8, 64])
        # the cloud may be larger than the (given) region: points beyond its bounds, which windows of an adjusted region can reach
        over = rng.choice([0, 0, 1, 2, 4])
        es = [reg[0] + rng.randint(-over * lat, int(ew * lat) + over * lat) / lat for _ in range(npts)]
        ns = [reg[2] + rng.randint(-over * lat, int(nsx * lat) + over * lat) / lat for _ in range(npts)]
        shape2d = [npts] if (npts % 2 or rng.random() < 0.6) else [2, npts // 2]
        if rng.random() < 0.1:
            # single-precision survey files: decimal positions stored as float32 (the values ARE the float32 numbers), decimal centre and sizes;
            # membership is about those values, whatever the width of the array's dtype
            es = [float(np.float32(rng.randint(-60, 60) / 10.0)) for _ in range(npts)]
            ns = [float(np.float32(rng.randint(-60, 60) / 10.0)) for _ in range(npts)]
            if rng.random() < 0.6:
                center = (rng.randint(-30, 30) / 10.0, rng.randint(-30, 30) / 10.0)
                sizes = [rng.randint(0, 40) / 5.0 for _ in range(rng.randint(1, 6))]
                cs.append(mk_exp(es, ns, shape2d, center, sizes, "expanding-float32"))
            else:
                size = rng.choice([0.4, 1.0, 1.2, 2.0, 2.6])
                cs.append(mk_roll(es, ns, shape2d, size, [-6.5, 6.5, -6.5, 6.5], None, rng.choice([size, size / 2, 1.3]), "spacing", False, "rolling-float32"))
            continue
        if rng.random() < 0.25:
            center = (reg[0] + ew * rng.randint(-2, 10) / 8.0, reg[2] + nsx * rng.randint(-2, 10) / 8.0)
            sizes = [rng.randint(0, 4 * int(max(ew, nsx) + 1)) / 4.0 for _ in range(rng.randint(1, 6))]
            cs.append(mk_exp(es, ns, shape2d, center, sizes, "expanding"))
            continue
        region = list(reg) if rng.random() < 0.6 else None
        box = reg if region is not None else (min(es), max(es), min(ns), max(ns))
        small = min(box[1] - box[0], box[3] - box[2])
        if small <= 0:
            continue          # degenerate bounding box: no positive window size fits
        u = rng.random()
        if u < 0.08:
            size = small + rng.randint(1, 8) / 4.0
            kind = "oversize"
        else:
            size = max(0.25, round(small * rng.choice([0.125, 0.25, 0.5, 0.75, 1.0]) * 4) / 4.0)
            if size > small:
                size = small
            kind = "rolling"
        if kind == "rolling" and rng.random() < 0.08:
            # decimal bounds, window exactly as large as the smaller side
            dx, dy = rng.choice([0.1, 0.3, 0.7, 2.4, -48.4]), rng.choice([0.1, -0.3, 3.3, 0.05])
            es, ns = [v + dx for v in es], [v + dy for v in ns]
            if region is not None:
                region = [region[0] + dx, region[1] + dx, region[2] + dy, region[3] + dy]
            box = region if region is not None else (min(es), max(es), min(ns), max(ns))
            size = min(box[1] - box[0], box[3] - box[2])
            kind = "rolling-size-equals-side"
        adjust = rng.choice(["spacing", "region"])
        if rng.random() < 0.4:
            shape = (rng.randint(1, 5), rng.randint(1, 5))
            cs.append(mk_roll(es, ns, shape2d, size, region, shape, None, adjust, rng.random() < 0.3, kind + "-shape"))
        else:
            sp = rng.choice([size, size / 2, size * 1.5, rng.randint(1, 12) / 4.0])
            if rng.random() < 0.3:
                sp = (sp, rng.randint(1, 12) / 4.0)
            cs.append(mk_roll(es, ns, shape2d, size, region, None, sp, adjust, rng.random() < 0.3, kind + "-spacing-" + adjust))
    return cs


def _flat_indices(idx, shape2d):
    idx = tuple(np.asarray(i) for i in idx)
    if len(idx) != len(shape2d):
        raise ValueError("index tuple does not match input dimensionality")
    if idx[0].size == 0:
        return []
    return sorted(int(v) for v in np.ravel_multi_index(idx, shape2d))


def impl(case):
    if case["fn"] == "large":
        r = C.call(L.run, case["args"])
        return r if C.is_err(r) else ["large", r]
    a = case["args"]
    if case["fn"] == "expanding":
        es, ns, shape2d, center, sizes = a
        e = C.mkarr(es, shape2d, "es:" + case["op"])
        n = C.mkarr(ns, shape2d, "ns:" + case["op"])
        # history: the very same array OBJECTS were used in an earlier call while they held other positions (a pre-allocated buffer
        # refilled in place); the result must be about what the arrays hold NOW
        e, n = np.array(e), np.array(n)
        if case["kind"].endswith("-float32"):
            e, n = e.astype(np.float32), n.astype(np.float32)
            if not (np.array_equal(e.astype(float), np.array(es).reshape(shape2d)) and np.array_equal(n.astype(float), np.array(ns).reshape(shape2d))):
                raise C.Infra("float32 case with values that are not float32 numbers")
        keep_e, keep_n = e.copy(), n.copy()
        e[...] = keep_e[::-1] * 0.5 - 3.0 if e.ndim == 1 else keep_e * 0.5 - 3.0
        n[...] = keep_n * -2.0 + 1.0
        C.call(vd.expanding_window, (e, n), center, sizes)
        e[...] = keep_e
        n[...] = keep_n
        e.setflags(write=False)
        n.setflags(write=False)
        r = C.call(vd.expanding_window, (e, n, np.zeros_like(e)), center, sizes)
        if C.is_err(r):
            return r
        out = []
        for idx in r:
            if e[idx].shape != np.asarray(idx[0]).shape:
                return ["err", "IndexDoesNotIndexInput"]
            out.append(_flat_indices(idx, shape2d))
        return out
    es, ns, shape2d, size, region, shape, spacing, adjust, extra = a
    e = C.mkarr(es, shape2d, "es:" + case["op"])
    n = C.mkarr(ns, shape2d, "ns:" + case["op"])
    e, n = np.array(e), np.array(n)
    if case["kind"].endswith("-float32"):
        e, n = e.astype(np.float32), n.astype(np.float32)
    keep_e, keep_n = e.copy(), n.copy()
    e[...] = keep_e * 0.5 - 3.0          # same objects, other positions, earlier call (see expanding_window above)
    n[...] = keep_n * -2.0 + 1.0
    C.call(vd.rolling_window, (e, n), size, spacing=spacing, shape=shape, region=None if region is None else tuple(region), adjust=adjust)
    e[...] = keep_e
    n[...] = keep_n
    e.setflags(write=False)
    n.setflags(write=False)
    coords = (e, n, np.ones_like(e)) if extra else (e, n)
    r = C.call(vd.rolling_window, coords, size, spacing=spacing, shape=shape, region=None if region is None else tuple(region), adjust=adjust)
    if C.is_err(r):
        return r
    centers, indices = r
    if indices.shape != centers[0].shape:
        return ["err", "IndicesShapeMismatch"]
    east = [float(v) for v in centers[0][0, :]]
    north = [float(v) for v in centers[1][:, 0]]
    if not (np.array_equal(centers[0], np.tile(centers[0][0, :], (len(north), 1))) and
            np.array_equal(centers[1], np.tile(centers[1][:, :1], (1, len(east))))):
        return ["err", "CentresNotMeshgrid"]
    wins = []
    for idx in indices.ravel():
        if e[idx].shape != np.asarray(idx[0]).shape:
            return ["err", "IndexDoesNotIndexInput"]
        wins.append(_flat_indices(idx, shape2d))
    return [east, [north, wins]]


def _margin_ok(es, ns, k, cx, cy, half, scale):
    m = min(abs(abs(es[k] - cx) - half), abs(abs(ns[k] - cy) - half))
    return m <= 1e-9 * scale


def _undecidable(es, ns, k, cx, cy, half, scale):
    """For the oracle, which knows the implementation's own (float) centre: a disagreement about point k is below the resolution of
    float arithmetic only if the point is within round-off of an edge WITHOUT being exactly on it.  A point whose float coordinates
    lie exactly on the edge of the closed square (|x - cx| = half exactly, a representable number, so the float subtraction is exact)
    and not outside in the other direction belongs to the window, with no tolerance."""
    if not _margin_ok(es, ns, k, cx, cy, half, scale):
        return False
    dx, dy, h = abs(C.fq(es[k]) - C.fq(cx)), abs(C.fq(ns[k]) - C.fq(cy)), C.fq(half)
    tol = C.fq(1e-9 * scale)
    on_or_clearly_in = lambda d: d == h or d < h - tol  # noqa: E731
    if on_or_clearly_in(dx) and on_or_clearly_in(dy):
        return False          # exactly decidable: inside
    return True


def _cmp_windows(es, ns, iw, mw, centres, halves):
    amb = False
    scale = max(1.0, max(abs(v) for v in es + ns))
    for w, (a, b) in enumerate(zip(iw, mw)):
        b = [int(v) for v in b]
        if a != b:
            cx, cy = centres[w]
            for k in set(a) ^ set(b):
                if not _margin_ok(es, ns, k, cx, cy, halves[w], scale):
                    return f"diff:window {w} centre {(cx, cy)}: impl {a} vs model {b} (point {k} = ({es[k]}, {ns[k]}))"
            amb = True
    return "amb" if amb else "ok"


def _size_on_side(case):
    """A rolling window exactly as large as a side of the region, with bounds that are not binary fractions: whether the float
    size exceeds the exact side by an ulp (and where the single centre lands) is below the model's resolution."""
    if case["fn"] != "rolling":
        return False
    es, ns, shape2d, size, region = case["args"][:5]
    box = region if region is not None else (min(es), max(es), min(ns), max(ns))
    return any(abs((hi - lo) - size) <= 1e-9 * max(1.0, abs(hi), abs(lo)) and C.fq(hi) - C.fq(lo) != C.fq(size)
               for lo, hi in ((box[0], box[1]), (box[2], box[3])))


def compare(case, io, mo):
    if case["fn"] == "large":
        return "diff:implementation failed: " + io[1] if C.is_err(io) else "ok"
    e = C.err_compare(io, mo)
    if e and _size_on_side(case):
        return "amb"
    if e:
        return e
    a = case["args"]
    mv = C.tofloat(mo)
    if case["fn"] == "expanding":
        if len(io) != len(mv):
            return "diff:number of windows"
        return _cmp_windows(a[0], a[1], io, mv, [tuple(a[3])] * len(io), [s / 2 for s in a[4]])
    east, (north, wins) = io
    meast, (mnorth, mwins) = mv
    if (len(east) != len(meast) or len(north) != len(mnorth)) and _size_on_side(case):
        return "amb"
    if len(east) != len(meast) or len(north) != len(mnorth):
        return _amb_or_diff(case, "diff:centre grid shape")
    sc = max(1.0, max(abs(v) for v in east + north))
    for x, y in list(zip(east, meast)) + list(zip(north, mnorth)):
        if not C.close(x, y, 1e-12, sc):
            return _amb_or_diff(case, f"diff:centre {x} vs {y}")
    centres = [(cx, cy) for cy in mnorth for cx in meast]
    return _cmp_windows(a[0], a[1], wins, mwins, centres, [a[3] / 2] * len(centres))


def _amb_or_diff(case, msg):
    """Centre-grid differences are legitimate only on a spacing->size rounding tie."""
    es, ns, shape2d, size, region, shape, spacing, adjust, extra = case["args"]
    if spacing is None:
        return msg
    box = region if region is not None else (min(es), max(es), min(ns), max(ns))
    sp = list(np.atleast_1d(spacing))
    if len(sp) == 1:
        sp = [sp[0], sp[0]]
    for lo, hi, s in ((box[0], box[1], sp[1]), (box[2], box[3], sp[0])):
        q = (C.fq(hi) - C.fq(lo) - C.fq(size)) / C.fq(s)
        fr = q - (q.numerator // q.denominator)
        if abs(fr - F(1, 2)) <= F(1, 10**9):
            qf = ((hi - size / 2) - (lo + size / 2)) / s
            if C.fq(qf) != q:
                return "amb"
    return msg


def oracle(case, io):
    if case["fn"] == "large":
        return (io[1] or None) if not C.is_err(io) else "failed on a large input: " + io[1]
    a = case["args"]
    if case["fn"] == "expanding":
        es, ns, shape2d, center, sizes = a
        if C.is_err(io):
            return "expanding_window failed: " + io[1]
        if len(io) != len(sizes):
            return "one index set per size expected, in order"
        scale = max(1.0, max(abs(v) for v in es + ns))
        for w, (s, idx) in enumerate(zip(sizes, io)):
            exp = [k for k in range(len(es)) if abs(es[k] - center[0]) <= s / 2 and abs(ns[k] - center[1]) <= s / 2]
            if idx != exp:
                bad = [k for k in set(idx) ^ set(exp) if not _undecidable(es, ns, k, center[0], center[1], s / 2, scale)]
                if bad:
                    return f"size {s}: selected {idx}, but the points within half the size of {center} are {exp}"
        for i, s1 in enumerate(sizes):
            for j, s2 in enumerate(sizes):
                if s1 <= s2 and not set(io[i]) <= set(io[j]):
                    return f"windows not nested by size: size {s1} not a subset of size {s2}"
        return None
    es, ns, shape2d, size, region, shape, spacing, adjust, extra = a
    box = region if region is not None else (min(es), max(es), min(ns), max(ns))
    if shape is None and spacing is None:
        return None if C.is_err(io) and io[1] == "ValueError" else "neither shape nor spacing not rejected"
    if min(box[1] - box[0], box[3] - box[2]) < size:
        return None if C.is_err(io) and io[1] == "ValueError" else "window larger than the region not rejected"
    if C.is_err(io):
        return "valid arguments rejected: " + io[1]
    east, (north, wins) = io
    if len(wins) != len(east) * len(north):
        return "not one index set per window centre"
    half = size / 2
    scale = max(1.0, max(abs(v) for v in es + ns + list(box)))
    tol = 1e-9 * scale
    # centres: regular grid of the region shrunk by half a window
    if not (abs(east[0] - (box[0] + half)) <= tol and abs(north[0] - (box[2] + half)) <= tol):
        return f"first window centre {(east[0], north[0])} is not the south-west corner of the region shrunk by half a window"
    for line in (east, north):
        d = np.diff(line)
        if len(d) and np.max(np.abs(d - d[0])) > tol:
            return "window centres are not evenly spaced"
    if adjust == "spacing" or shape is not None:
        if abs(east[-1] - (box[1] - half)) > tol and len(east) > 1 or abs(north[-1] - (box[3] - half)) > tol and len(north) > 1:
            return "last window centre is not the north-east corner of the shrunk region"
    for w, idx in enumerate(wins):
        cy, cx = north[w // len(east)], east[w % len(east)]
        exp = [k for k in range(len(es)) if abs(es[k] - cx) <= half and abs(ns[k] - cy) <= half]
        if idx != exp:
            bad = [k for k in set(idx) ^ set(exp) if not _undecidable(es, ns, k, cx, cy, half, scale)]
            if bad:
                return f"window {w} centred {(cx, cy)} size {size}: selected {idx}, points inside the closed square are {exp}"
    # coverage
    stepe = (east[1] - east[0]) if len(east) > 1 else 0.0
    stepn = (north[1] - north[0]) if len(north) > 1 else 0.0
    if stepe <= size + tol and stepn <= size + tol:
        covered = set(k for idx in wins for k in idx)
        lo_e, hi_e, lo_n, hi_n = east[0] - half, east[-1] + half, north[0] - half, north[-1] + half
        # "the windows jointly cover the REGION": with adjust='region' the grid of centres may reach beyond the region (a centre interval of
        # round-off width still gets two nodes one spacing apart), so a point on the region's own border can sit on the seam between two windows
        lo_e, hi_e, lo_n, hi_n = max(lo_e, box[0]), min(hi_e, box[1]), max(lo_n, box[2]), min(hi_n, box[3])
        # when the step EQUALS the size (within round-off) neighbouring windows only share an edge: a point within round-off of that seam can
        # fall in the crack between the two float edges (neither the model nor the property decides it); with a real overlap there is no seam
        def on_seam(v, line, step):
            return step > size - 2 * tol and any(abs(abs(v - c) - half) <= tol for c in line)
        for k in range(len(es)):
            if lo_e + tol < es[k] < hi_e - tol and lo_n + tol < ns[k] < hi_n - tol and k not in covered \
                    and not on_seam(es[k], east, stepe) and not on_seam(ns[k], north, stepn):
                return f"windows overlap (step <= size) but point {k} = ({es[k]}, {ns[k]}) of the covered region is in no window"
    return None


def nontrivial(case, io):
    if case["fn"] == "large":
        return not C.is_err(io)
    if C.is_err(io):
        return False
    wins = io if case["fn"] == "expanding" else io[1][1]
    return len(wins) >= 2 and any(len(w) for w in wins)


def finding_key(case, io):
    return None
