"""C07 — regular coordinates honour region, spacing, shape and registration."""
from fractions import Fraction as F

import numpy as np

import common as C
import gen as G
import verde as vd

ID = "C07"
TRANSLATED = "gridcoords"  # Gen/Coords.lean (spacing_to_size, line_coordinates, the lines of grid_coordinates, …) and Gen/GridCoords.lean (its meshgrid / extra_coords part) are regenerated from /repo and bridged in Props/C07.lean
FILES = ["verde/coordinates.py"]
RULE = ("cases = corpus (ties, degenerate, spacing>extent) + seeded stream over line_coordinates / grid_coordinates / "
        "spacing_to_size / shape_to_spacing / profile_coordinates on dyadic, decimal and large-offset inputs plus malformed "
        "argument combinations; a case is non-trivial when the implementation returned coordinates (not an error) with >= 2 nodes; "
        "distinct = distinct protocol lines")
ASSUMPTIONS = ["numpy.linspace/meshgrid behave as documented (exact-arithmetic model start + i*(stop-start)/(n-1))",
               "float rounding absorbed by 1e-12 relative tolerance; integer sizes compared exactly unless extent/spacing is within 1e-9 of a half-integer"]
TRUSTED = ["numpy.linspace, numpy.meshgrid, numpy.hypot/arctan2/cos/sin (profile) by contract"]


def _line_case(start, stop, size, spacing, adjust, pixel, kind):
    return {"kind": kind, "fn": "line", "args": [start, stop, size, spacing, adjust, pixel],
            "op": f"line {C.enc(start)} {C.enc(stop)} {C.enc(size)} {C.enc(spacing)} {adjust} {C.enc(bool(pixel))}"}


def _grid_case(region, shape, spacing, adjust, pixel, extra, mesh, kind):
    sp = None if spacing is None else list(np.atleast_1d(spacing))
    return {"kind": kind, "fn": "grid", "args": [list(region), shape, spacing, adjust, pixel, extra, mesh],
            "op": f"grid {C.enc(list(region))} {C.enc(None if shape is None else list(shape))} {C.enc(sp)} {adjust} "
                  f"{C.enc(bool(pixel))} {C.enc(_exlist(extra))} {C.enc(bool(mesh))}"}


def _exlist(extra):
    """extra_coords as the list of values it stands for (None -> none, a bare scalar -> one value, incl. 0)."""
    if extra is None:
        return []
    return [float(v) for v in extra] if isinstance(extra, (list, tuple)) else [float(extra)]


def _rand_extra(rng):
    u = rng.random()
    if u < 0.55:
        return None
    if u < 0.7:
        return rng.choice([0.0, 0, -0.0, 35.0, -2.5, [0.0], [0, 0.0], 1e-300])      # bare scalars, zeros included
    return [G.number(rng) if rng.random() < 0.8 else 0.0 for _ in range(rng.randint(1, 3))]


def corpus():
    dangerous = [_line_case(0.1, 0.7, k, None, "spacing", False, "corpus-decimal-bounds") for k in (38, 68, 75)] + \
                [_line_case(0.1, 0.7, None, 0.6 / k, "spacing", False, "corpus-decimal-bounds") for k in (37, 67, 74)] + \
                [_grid_case((0.1, 0.7, -0.3, 0.3), (75, 38), None, "spacing", False, None, True, "corpus-decimal-bounds")]
    # ratios a hair away from a rounding tie (the count is the integer NEAREST to extent/spacing: 3.4999999 -> 3, 2.5000004 -> 3); the gap is
    # far above round-off (the exact dyadic offsets below are representable), so both sides are decided
    near = []
    for k, d, adj in ((3, -2.0 ** -23, "spacing"), (2, 2.0 ** -21, "region"), (7, -2.0 ** -22, "region"), (12, 2.0 ** -23, "spacing"), (0, 2.0 ** -22, "spacing")):
        near.append(_line_case(0.0, k + 0.5 + d, None, 1.0, adj, False, "corpus-near-tie"))
        near.append(_line_case(-4.0, -4.0 + 2 * (k + 0.5 + d), None, 2.0, adj, True, "corpus-near-tie"))
    # a SQUARE region with different spacings / shapes per direction (north first): nothing may be shared between the two directions
    square = [_grid_case((0, 10, 0, 10), None, (1.0, 2.0), "spacing", False, None, True, "corpus-square-region"),
              _grid_case((0, 10, 0, 10), None, (2.5, 1.0), "region", True, None, False, "corpus-square-region"),
              _grid_case((-3, 5, -3, 5), None, (0.5, 4.0), "spacing", True, [2.0], True, "corpus-square-region"),
              _grid_case((0, 10, 0, 10), (3, 3), None, "spacing", False, None, True, "corpus-square-region"),
              _grid_case((0, 10, 0, 10), (4, 7), None, "spacing", True, None, True, "corpus-square-region")]
    # decimal bounds for which `start + (stop - start)` is NOT `stop` in double precision: the last node is the east / north bound itself
    inexact = []
    pairs = [(a / 10.0, b / 10.0) for a in range(-23, 40, 3) for b in range(a + 4, a + 60, 7)]
    pairs = [(a, b) for a, b in pairs if a + (b - a) != b][:6]
    for k, (a, b) in enumerate(pairs):
        inexact.append(_line_case(a, b, 5 + k, None, "spacing", False, "corpus-inexact-difference-bounds"))
        inexact.append(_line_case(a, b, None, (b - a) / (3 + k), "spacing", False, "corpus-inexact-difference-bounds"))
    if len(pairs) >= 2:
        inexact.append(_grid_case((pairs[0][0], pairs[0][1], pairs[1][0], pairs[1][1]), (4, 6), None, "spacing", False, None, True, "corpus-inexact-difference-bounds"))
    axis_aligned = [{"kind": "corpus-profile-axis-aligned", "fn": "profile", "args": [p1, p2, 5, None], "op": f"profile {C.enc(list(p1))} {C.enc(list(p2))} 5"}
                    for p1, p2 in (((10.0, 2.0), (2.0, 2.0)), ((2.0, 2.0), (10.0, 2.0)), ((3.0, 8.0), (3.0, -4.0)), ((3.0, -4.0), (3.0, 8.0)), ((-1.5, 0.0), (-7.5, 0.0)))]
    return dangerous + near + square + inexact + axis_aligned + _corpus()


def _corpus():
    cs = []
    for pixel in (False, True):
        for adjust in ("spacing", "region"):
            cs.append(_line_case(0.0, 10.0, None, 2.5, adjust, pixel, "corpus"))
            cs.append(_line_case(0.0, 5.0, None, 2.0, adjust, pixel, "corpus-tie"))      # 2.5 -> 2
            cs.append(_line_case(0.0, 7.0, None, 2.0, adjust, pixel, "corpus-tie"))      # 3.5 -> 4
            cs.append(_line_case(0.0, 1.0, None, 2.0, adjust, pixel, "corpus-tie"))      # 0.5 -> 0 -> size 2
            cs.append(_line_case(0.0, 1.0, None, 5.0, adjust, pixel, "corpus-big-spacing"))
            cs.append(_line_case(3.0, 3.0, None, 1.0, adjust, pixel, "corpus-degenerate"))
            cs.append(_line_case(-1e6, -1e6 + 8, None, 0.75, adjust, pixel, "corpus-offset"))
        cs.append(_line_case(0.0, 1.0, 1, None, "spacing", pixel, "corpus-size1"))
        cs.append(_line_case(0.0, 1.0, 2, None, "spacing", pixel, "corpus-size2"))
    cs.append(_line_case(0.0, 1.0, 3, 0.5, "spacing", False, "malformed"))
    cs.append(_line_case(0.0, 1.0, None, None, "spacing", False, "malformed"))
    cs.append(_line_case(0.0, 1.0, None, 0.5, "nearest", False, "malformed"))
    cs.append(_grid_case((0, 10, -5, 0), (3, 5), None, "spacing", False, None, True, "corpus"))
    cs.append(_grid_case((0, 10, -5, 0), None, (2.5, 2.0), "region", True, [7.0, -1.0], True, "corpus"))
    cs.append(_grid_case((0, 10, -5, 0), None, (1.0, 2.0, 3.0), "spacing", False, None, True, "malformed"))
    cs.append(_grid_case((0, 10, -5, 0), None, 1.0, "spacing", False, [1.0], False, "malformed"))
    cs.append(_grid_case((10, 0, -5, 0), (3, 3), None, "spacing", False, None, True, "malformed"))
    return cs


def generate(rng, tier):
    n = 1500 if tier == "quick" else 40000
    cs = []
    # small exhaustive-ish rational lattice
    lat_n = 400 if tier == "quick" else 20000
    for _ in range(lat_n):
        start = rng.randint(-8, 8) / 2.0
        ext = rng.randint(0, 24) / 4.0
        sp = rng.randint(1, 16) / 4.0
        cs.append(_line_case(start, start + ext, None, sp, rng.choice(["spacing", "region"]), rng.random() < 0.5, "lattice"))
    dec = [0.1, 0.7, -0.3, 2.4, 3.3, -7.9, 10.1, 100.7, 0.05, 1 / 3.0, 2 / 3.0]
    for _ in range(700 if tier == "quick" else 12000):
        # bounds that are not binary fractions, many nodes: both bounds must still be hit EXACTLY (adjust='spacing' / a given size)
        start = rng.choice(dec) + rng.randint(-5, 5)
        stop = start + rng.choice([0.6, 1.1, 2.3, 0.07, 17.9, rng.randint(1, 40) / 10.0])
        if rng.random() < 0.6:
            cs.append(_line_case(start, stop, rng.randint(2, 120), None, "spacing", rng.random() < 0.3, "line-size-decimal"))
        else:
            cs.append(_line_case(start, stop, None, (stop - start) / rng.randint(1, 100), "spacing", rng.random() < 0.3, "line-spacing-decimal"))
    for _ in range(n):
        u = rng.random()
        if u < 0.35:
            start = G.number(rng)
            ext = 0.0 if rng.random() < 0.05 else G.positive(rng) * rng.choice([1, 1, 8])
            stop = start + ext
            adjust = rng.choice(["spacing", "region"])
            pixel = rng.random() < 0.5
            if rng.random() < 0.6:
                sp = G.positive(rng) * rng.choice([1, 1, 0.25, 4])
                if rng.random() < 0.15 and ext > 0:   # exact ties
                    sp = ext / (rng.randint(0, 6) + 0.5)
                elif rng.random() < 0.1:   # a hair away from a tie (decided: the gap is 1e-7, round-off is 1e-16)
                    kk = rng.randint(0, 9)
                    start, sp = float(rng.randint(-3, 3)), rng.choice([1.0, 2.0, 0.5])
                    ext = sp * (kk + 0.5 + rng.choice([-1, 1]) * 2.0 ** -rng.randint(21, 24))
                    stop = start + ext
                if ext / sp > 80:
                    sp = ext / rng.randint(1, 80)
                cs.append(_line_case(start, stop, None, sp, adjust, pixel, "line-spacing"))
            else:
                cs.append(_line_case(start, stop, rng.randint(1, 12), None, adjust, pixel, "line-size"))
        elif u < 0.75:
            reg = G.region(rng, degenerate_ok=True)
            if rng.random() < 0.12:      # a square region: the same bounds in both directions (spacings / shapes may still differ)
                reg = (reg[0], reg[1], reg[0], reg[1])
            adjust = rng.choice(["spacing", "region"])
            pixel = rng.random() < 0.5
            extra = _rand_extra(rng)
            mesh = rng.random() < 0.8
            if rng.random() < 0.5:
                shape = (rng.randint(1, 7), rng.randint(1, 7))
                cs.append(_grid_case(reg, shape, None, adjust, pixel, extra, mesh, "grid-shape"))
            else:
                ew, ns = reg[1] - reg[0], reg[3] - reg[2]
                if rng.random() < 0.5:
                    sp = max(ew, ns, 1.0) / rng.randint(1, 7)
                else:
                    sp = (max(ns, 0.5) / rng.randint(1, 6), max(ew, 0.5) / rng.randint(1, 6))
                cs.append(_grid_case(reg, None, sp, adjust, pixel, extra, mesh, "grid-spacing"))
        elif u < 0.85:
            reg = G.region(rng)
            shape = (rng.randint(2, 9), rng.randint(2, 9))
            pixel = rng.random() < 0.5
            cs.append({"kind": "shape2spacing", "fn": "s2sp", "args": [list(reg), shape, pixel],
                       "op": f"shape2spacing {C.enc(list(reg))} {C.enc(list(shape))} {C.enc(pixel)}"})
        elif u < 0.95:
            p1 = (G.number(rng), G.number(rng))
            p2 = (G.number(rng), G.number(rng))
            if rng.random() < 0.08:
                p2 = p1                      # zero-length segment
            elif rng.random() < 0.25:
                # along a coordinate axis, in any of the four directions (a west-bound flight line, a south-bound one): distances grow from 0
                p2 = (p2[0], p1[1]) if rng.random() < 0.5 else (p1[0], p2[1])
            size = rng.choice([1, 2, 3, 5, 8, 0, -1]) if rng.random() < 0.3 else rng.randint(1, 12)
            cs.append({"kind": "profile", "fn": "profile", "args": [p1, p2, size, _rand_extra(rng)],
                       "op": f"profile {C.enc(list(p1))} {C.enc(list(p2))} {size}"})
        else:
            start, stop = 0.0, G.positive(rng)
            k = rng.choice(["both", "neither", "adjust"])
            if k == "both":
                cs.append(_line_case(start, stop, 3, 0.5, "spacing", False, "malformed"))
            elif k == "neither":
                cs.append(_line_case(start, stop, None, None, "region", True, "malformed"))
            else:
                cs.append(_line_case(start, stop, None, 0.5, "Spacing", False, "malformed"))
    return cs


def impl(case):
    a = case["args"]
    fn = case["fn"]
    if fn == "line":
        # history: the caller changed, in place, the arrays an EARLIER identical call returned (unit conversion, shifting): the values
        # returned now must not depend on that
        r0 = C.call(vd.line_coordinates, a[0], a[1], size=a[2], spacing=a[3], adjust=a[4], pixel_register=a[5])
        if not C.is_err(r0) and isinstance(r0, np.ndarray) and r0.flags.writeable:
            r0 *= -1000.0
        r = C.call(vd.line_coordinates, a[0], a[1], size=a[2], spacing=a[3], adjust=a[4], pixel_register=a[5])
        return r if C.is_err(r) else [float(v) for v in r]
    if fn == "grid":
        kw = dict(shape=a[1], spacing=a[2], adjust=a[3], pixel_register=a[4], extra_coords=a[5], meshgrid=a[6])
        r0 = C.call(vd.grid_coordinates, a[0], **kw)
        if not C.is_err(r0):
            arrs = [v for v in r0 if isinstance(v, np.ndarray)]
            for i in range(len(arrs)):
                for j in range(i + 1, len(arrs)):
                    if arrs[i].size and np.shares_memory(arrs[i], arrs[j]):
                        return ["err", "ReturnedArraysShareMemory"]
            for v in arrs:
                if v.flags.writeable:
                    v *= -1000.0
                    v += 7.0
        r = C.call(vd.grid_coordinates, a[0], **kw)
        return r if C.is_err(r) else [np.asarray(v).tolist() for v in r]
    if fn == "s2sp":
        r = C.call(vd.coordinates.shape_to_spacing, a[0], a[1], pixel_register=a[2])
        return r if C.is_err(r) else [float(v) for v in r]
    if fn == "profile":
        extra = a[3] if len(a) > 3 else None
        r = C.call(vd.profile_coordinates, a[0], a[1], a[2], **({} if extra is None else {"extra_coords": extra}))
        if C.is_err(r):
            return r
        (x, y, *ex), d = r
        want = _exlist(extra)
        if len(ex) != len(want):
            return ["err", f"ExtraCoordinates:{len(ex)}-arrays-for-{len(want)}-values"]
        for arr, v in zip(ex, want):
            if np.shape(arr) != np.shape(x) or np.any(np.asarray(arr) != v):
                return ["err", "ExtraCoordinateNotConstantOfProfileShape"]
        return [[float(i), float(j), float(k)] for i, j, k in zip(x, y, d)]
    raise C.Infra("unknown fn " + fn)


def _tie_margin(start, stop, sp):
    q = (C.fq(stop) - C.fq(start)) / C.fq(sp)
    fr = q - (q.numerator // q.denominator)
    return abs(fr - F(1, 2)), q


def _ambiguous_sizes(case):
    """True if any spacing->size conversion in this case sits within 1e-9 of a rounding tie that float may resolve either way."""
    a = case["args"]
    pairs = []
    if case["fn"] == "line" and a[3] is not None:
        pairs.append((a[0], a[1], a[3]))
    if case["fn"] == "grid" and a[2] is not None:
        sp = list(np.atleast_1d(a[2]))
        if len(sp) == 1:
            sp = [sp[0], sp[0]]
        if len(sp) == 2:
            pairs.append((a[0][0], a[0][1], sp[1]))
            pairs.append((a[0][2], a[0][3], sp[0]))
    for st, sto, sp in pairs:
        m, q = _tie_margin(st, sto, sp)
        qf = (float(sto) - float(st)) / float(sp)
        exact = C.fq(qf) == q
        if not exact and m <= F(1, 10**9) * max(1, abs(q)):
            return True
    return False


def _flat(v):
    if isinstance(v, (list, tuple)):
        out = []
        for i in v:
            out += _flat(i)
        return out
    return [v]


def _shape(v):
    if isinstance(v, list):
        return [len(v)] + (_shape(v[0]) if v else [])
    return []


def compare(case, io, mo):
    if C.is_err(io) or C.is_err(mo):
        if C.is_err(io) and C.is_err(mo):
            return "ok" if io[1] == mo[1] else f"diff:error kinds {io[1]} vs {mo[1]}"
        return f"diff:impl={'err ' + io[1] if C.is_err(io) else 'value'} model={'err ' + mo[1] if C.is_err(mo) else 'value'}"
    mv = C.tofloat(mo)
    if case["fn"] == "profile":
        if len(io) != len(mv):
            return "diff:length"
        sc = max(1.0, max(abs(float(t)) for t in _flat(case["args"][:2])))
        for (x, y, d), (mx, my, md2) in zip(io, mv):
            if not (C.close(x, mx, 1e-12, sc) and C.close(y, my, 1e-12, sc) and C.close(d * d, md2, 4e-12, sc * sc)):
                return f"diff:profile point {(x, y, d)} vs {(float(mx), float(my), float(md2))}"
        return "ok"
    if _shape(io) != _shape(mv):
        if _ambiguous_sizes(case):
            return "amb"
        return f"diff:shape {_shape(io)} vs {_shape(mv)}"
    fi, fm = _flat(io), _flat(mv)
    sc = max([1.0] + [abs(float(t)) for t in fi])
    for x, y in zip(fi, fm):
        if not C.close(x, y, 1e-12, sc):
            if _ambiguous_sizes(case):
                return "amb"
            return f"diff:value {x} vs {float(y)}"
    return "ok"


def _check_line(nodes, start, stop, size, spacing, adjust, pixel):
    """The property's statements for one axis evaluated on implementation output (exact Fractions)."""
    xs = nodes
    start, stop = C.fq(start), C.fq(stop)
    scale = max(1, abs(start), abs(stop))
    tol = F(1, 10**11) * scale
    if spacing is not None:
        sp = C.fq(spacing)
        q = (stop - start) / sp
        fl = q.numerator // q.denominator
        fr = q - fl
        near_tie = abs(fr - F(1, 2)) <= F(1, 10**9) * max(1, abs(q)) and C.fq((float(stop) - float(start)) / float(sp)) != q
        cands = {fl, fl + 1} if near_tie else {fl if fr < F(1, 2) else fl + 1 if fr > F(1, 2) else (fl if fl % 2 == 0 else fl + 1)}
        cands = {max(1, c) for c in cands}
        nint = len(xs) - (0 if pixel else 1)
        if nint not in cands:
            return f"interval count {nint} not nearest integer to extent/spacing={float(q)} (min 1): expected {sorted(cands)}"
        m = nint
        step = sp if adjust == "region" else (stop - start) / m
        last = start + m * step
        if adjust == "spacing" and abs(last - stop) > tol:
            return "internal"
    else:
        m = size if pixel else size - 1
        if len(xs) != size:
            return f"node count {len(xs)} != requested size {size}"
        step = (stop - start) / m if m > 0 else F(0)
    # expected nodes
    fs, fst, ftol = float(start), float(step), float(tol)
    if pixel:
        exp = [fs + (i + 0.5) * fst for i in range(m)]
    else:
        exp = [fs + i * fst for i in range(m + 1)] if not (spacing is None and size == 1) else [fs]
    if len(exp) != len(xs):
        return f"node count {len(xs)} != {len(exp)}"
    for i, (x, e) in enumerate(zip(nodes, exp)):
        if not (abs(x - e) <= ftol):
            return f"node {i} = {float(x)} but evenly spaced nodes from the west/south bound give {float(e)}"
    if not pixel and adjust == "spacing" and len(xs) >= 2 and (xs[0] != float(start) or xs[-1] != float(stop)):
        return f"bounds not hit exactly: {float(xs[0])}, {float(xs[-1])} vs {float(start)}, {float(stop)}"
    return None


def oracle(case, io):
    a = case["args"]
    fn = case["fn"]
    if fn == "line":
        start, stop, size, spacing, adjust, pixel = a
        bad = (size is not None and spacing is not None) or (size is None and spacing is None) or \
              (spacing is not None and adjust not in ("spacing", "region"))
        if bad:
            return None if C.is_err(io) and io[1] == "ValueError" else "invalid argument combination not rejected with ValueError"
        if C.is_err(io):
            return f"valid arguments rejected: {io[1]}"
        return _check_line(io, start, stop, size, spacing, adjust, pixel)
    if fn == "grid":
        region, shape, spacing, adjust, pixel, extra, mesh = a
        sp = None if spacing is None else list(np.atleast_1d(spacing))
        bad = region[0] > region[1] or region[2] > region[3] or (shape is None) == (spacing is None) or \
            (sp is not None and len(sp) > 2) or (extra is not None and not mesh)
        if bad:
            return None if C.is_err(io) and io[1] == "ValueError" else "invalid argument combination not rejected with ValueError"
        if C.is_err(io):
            return f"valid arguments rejected: {io[1]}"
        if sp is not None and len(sp) == 1:
            sp = [sp[0], sp[0]]
        if mesh:
            E, N = io[0], io[1]
            nn, ne = len(E), len(E[0])
            for i in range(nn):
                for j in range(ne):
                    if E[i][j] != E[0][j] or N[i][j] != N[i][0]:
                        return f"not a (n_north, n_east) meshgrid: easting must vary along columns only, northing along rows only (cell {i},{j})"
            if _shape(N) != [nn, ne]:
                return "easting/northing shapes differ"
            east, north = E[0], [row[0] for row in N]
            ex = _exlist(extra)
            if len(io) != 2 + len(ex):
                return "wrong number of extra coordinate arrays"
            for k, v in enumerate(ex):
                if _shape(io[2 + k]) != [nn, ne] or any(t != float(v) for t in _flat(io[2 + k])):
                    return f"extra coordinate {k} is not a constant array of the grid's shape"
        else:
            east, north = io[0], io[1]
        r = _check_line(east, region[0], region[1], None if shape is None else shape[1], None if sp is None else sp[1], adjust, pixel)
        if r:
            return "easting: " + r
        r = _check_line(north, region[2], region[3], None if shape is None else shape[0], None if sp is None else sp[0], adjust, pixel)
        if r:
            return "northing: " + r
        return None
    if fn == "s2sp":
        region, shape, pixel = a
        if C.is_err(io):
            return f"valid arguments rejected: {io[1]}"
        # inverts the shape: grid_coordinates with that spacing has the shape
        g = C.call(vd.grid_coordinates, region, spacing=tuple(io), pixel_register=pixel)
        if C.is_err(g):
            return "grid_coordinates rejected the spacing: " + g[1]
        if list(g[0].shape) != list(shape):
            m1, _ = _tie_margin(region[0], region[1], io[1])
            m2, _ = _tie_margin(region[2], region[3], io[0])
            if min(m1, m2) <= F(1, 10**9):
                return None
            return f"shape_to_spacing does not invert the shape: got {g[0].shape} for {shape}"
        return None
    if fn == "profile":
        p1, p2, size = a[:3]
        if size <= 0:
            return None if C.is_err(io) and io[1] == "ValueError" else "size <= 0 not rejected"
        if C.is_err(io):
            return f"valid arguments rejected: {io[1]}"
        if len(io) != size:
            return "wrong number of profile points"
        dx, dy = C.fq(p2[0]) - C.fq(p1[0]), C.fq(p2[1]) - C.fq(p1[1])
        sc = max(1.0, *[abs(float(t)) for t in _flat([p1, p2])])
        sep = float(dx * dx + dy * dy) ** 0.5
        for t, (x, y, d) in enumerate(io):
            f = F(t, size - 1) if size > 1 else F(0)
            if not (C.close(x, C.fq(p1[0]) + f * dx, 1e-11, sc) and C.close(y, C.fq(p1[1]) + f * dy, 1e-11, sc)
                    and C.close(d, float(f) * sep, 1e-11, sc)):
                return f"profile point {t} not evenly spaced on the segment / wrong distance"
        return None
    return None


def nontrivial(case, io):
    return (not C.is_err(io)) and len(_flat(io)) >= 2


def finding_key(case, io):
    return None
