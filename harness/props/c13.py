"""C13 — regions, bounds and point-in-region tests are tight and consistent."""
from fractions import Fraction as F

import numpy as np

import common as C
import gen as G
import verde as vd

ID = "C13"
TRANSLATED = "coords"      # Gen/Coords.lean is regenerated from /repo by py2lean.py and bridged to the model in Props/C13.lean
FILES = ["verde/coordinates.py", "verde/projections.py", "verde/utils.py"]
RULE = ("corpus (boundary points, degenerate regions, invalid regions) + seeded stream over get_region / inside / pad_region / "
        "check_region / scatter_points / maxabs / project_region with arrays of shapes 1-D..3-D; non-trivial = the implementation "
        "returned a value (not an error) from at least 2 input numbers; distinct = distinct protocol lines")
ASSUMPTIONS = ["RandomState.uniform(lo, hi, n) is lo + (hi - lo) * random_sample(n) (variates passed to the model as inputs)",
               "numpy min/max/abs and logical ufuncs by contract"]
TRUSTED = ["sklearn.utils.check_random_state / numpy RandomState (variates are inputs of the model)"]

PROJS = {
    "affine": lambda p: (lambda e, n: (p[0] * e + p[1], p[2] * n + p[3])),
    "cube": lambda p: (lambda e, n: (e * e * e / p[0], n)),
    "square": lambda p: (lambda e, n: (e * e, n * n)),
    "shear": lambda p: (lambda e, n: (e + p[0] * n, n - p[0] * e)),
    # coupled and non-monotone: the first coordinate has its minimum strictly INSIDE a region that contains (a, b)
    "radial": lambda p: (lambda e, n: ((e - p[0]) * (e - p[0]) + (n - p[1]) * (n - p[1]), n - p[1] * e)),
}


def _arr(rng, reg, n, boundary=True):
    es, ns = G.points_in(rng, reg, n, lattice=rng.choice([1, 2, 8, 64]), outside=0.3)
    if boundary and n >= 2:
        es[0], ns[0] = reg[0], reg[3]
        es[-1], ns[-1] = reg[1], reg[2]
    return es, ns


def _mk(fn, args, op, kind):
    return {"fn": fn, "args": args, "op": op, "kind": kind}


def c_get_region(es, ns, shape, kind="get_region"):
    return _mk("get_region", [es, ns, shape], f"get_region {C.enc(es)} {C.enc(ns)}", kind)


def _enc_nan(xs):
    return "[ " + " ".join("nan" if x != x else C.enc(x) for x in xs) + " ]"


def c_inside(reg, es, ns, shape, kind="inside"):
    return _mk("inside", [list(reg), es, ns, shape], f"inside {C.enc(list(reg))} {_enc_nan(es)} {_enc_nan(ns)}", kind)


def _f32_inside(reg):
    """Points whose coordinates are single-precision numbers next to each bound (the nearest float32 to the bound and its two neighbours)."""
    def near(v):
        c = np.float32(v)
        return [float(np.nextafter(c, np.float32(-np.inf))), float(c), float(np.nextafter(c, np.float32(np.inf)))]
    mid_e, mid_n = float(np.float32((reg[0] + reg[1]) / 2)), float(np.float32((reg[2] + reg[3]) / 2))
    es = near(reg[0]) + near(reg[1]) + [mid_e] * 6
    ns = [mid_n] * 6 + near(reg[2]) + near(reg[3])
    return c_inside(reg, es, ns, [12], "inside-float32")


def c_nodes(reg, shape, spacing, pixel, seed, kind="nodes-inside"):
    """grid_coordinates(region, shape | spacing adjusted to the region) and scatter_points(region): every node inside the region.
    Decided on the implementation alone (float bounds that are not binary fractions are the point)."""
    d = {"fn": "nodes", "args": [list(reg), shape, spacing, pixel, seed], "op": "check_region [ 0 1 0 1 ]", "kind": kind}
    d["key"] = repr(d["args"])
    return d


def c_pad(reg, pad, kind="pad"):
    pn, pe = (pad, pad) if np.isscalar(pad) else pad
    return _mk("pad", [list(reg), pad], f"pad_region {C.enc(list(reg))} {C.enc(pn)} {C.enc(pe)}", kind)


def c_check(reg, kind="check_region"):
    return _mk("check", [list(reg)], f"check_region {C.enc(list(reg))}", kind)


def _exl(extra):
    if extra is None:
        return []
    return [float(v) for v in extra] if isinstance(extra, (list, tuple)) else [float(extra)]


def c_scatter(reg, size, seed, extra, kind="scatter"):
    rs = np.random.RandomState(seed)
    ue = rs.random_sample(size).tolist()
    un = rs.random_sample(size).tolist()
    return _mk("scatter", [list(reg), size, seed, extra],
               f"scatter {C.enc(list(reg))} {C.enc(ue)} {C.enc(un)} {C.enc(_exl(extra))}", kind)


def c_maxabs(arrays, kind="maxabs"):
    return _mk("maxabs", [arrays], f"maxabs {C.enc([C.flat(a) for a in arrays])}", kind)


def c_maxabs_special(arrays, kind="maxabs-nonfinite"):
    """Arrays holding NaN (ignored, the default) and infinities (they ARE the largest absolute value): decided by the oracle, the model's
    numbers are rationals."""
    return _mk("maxabs_special", [arrays], "check_region [ 0 1 0 1 ]", kind)


def c_project(reg, pk, pp, kind="project_region"):
    return _mk("project", [list(reg), pk, pp], f"project_region {C.enc(list(reg))} {pk} {C.enc(pp)}", kind)


def corpus():
    inf, nan = float("inf"), float("nan")
    cs = [c_maxabs_special([[1.0, -3.5, nan], [2.0, 0.25]]), c_maxabs_special([[1.0, inf, -2.0]]), c_maxabs_special([[-inf, 5.0], [nan, 7.0]]),
          c_maxabs_special([[1e308, -1.5e308, nan]]), c_maxabs_special([[3.0, nan], [-inf, nan, 2.0], [0.5]]),
          c_check((0, 1, 0, 1)), c_check((1, 1, 2, 2), "check-degenerate"), c_check((2, 1, 0, 1), "check-invalid"),
          c_check((0, 1, 3, 2), "check-invalid"), c_check((0, 1, 0), "check-invalid"), c_check((0, 1, 0, 1, 5), "check-invalid"),
          # a region has exactly four values, whatever the others look like (a 3-D box, a single interval, two boxes)
          c_check((0, 1), "check-invalid-length"), c_check((0, 1, 0, 1, -5, 5), "check-invalid-length"),
          c_check((0, 1, 0, 1, 2, 3, 4, 5), "check-invalid-length"), c_check((3,), "check-invalid-length"),
          c_inside((0, 2, 0, 2), [0.0, 2.0, 1.0, 2.0, -0.5, 2.5], [0.0, 2.0, 1.0, 0.0, 1.0, 1.0], [6], "inside-boundary"),
          c_inside((2, 0, 0, 2), [1.0], [1.0], [1], "inside-invalid-region"),
          # whole-number coordinates in a narrow integer type, far from the bounds on either side
          c_inside((-2000000000, 2000000000, -100, 100), [-2000000000.0, 2000000000.0, 5.0, -70000.0, 70000.0, 1999999999.0],
                   [0.0, 100.0, -100.0, 50.0, -99.0, 7.0], [6], "inside-int32"),
          c_inside((0, 100000, 0, 100000), [99999.0, 70000.0, 100001.0, 50000.0, 0.0], [70000.0, 99999.0, 5.0, 100000.0, 46341.0], [5], "inside-int32"),
          c_inside((10, 200, 10, 200), [250.0, 9.0, 10.0, 200.0, 128.0, 255.0], [128.0, 128.0, 255.0, 11.0, 0.0, 255.0], [6], "inside-uint8"),
          # bounds that only whole-number arithmetic can tell apart
          c_check((2 ** 53, 2 ** 53 + 1, 0, 1), "check-huge-int"), c_check((2 ** 53 + 1, 2 ** 53, 0, 1), "check-huge-int-invalid"),
          c_check((0, 1, -2 ** 60 + 1, -2 ** 60), "check-huge-int-invalid"), c_check((10 ** 18, 10 ** 18 + 3, 10 ** 18 + 7, 10 ** 18 + 8), "check-huge-int"),
          c_inside((0, 2, 0, 2), [1.0, float("nan"), 1.0, float("nan"), 3.0], [1.0, 1.0, float("nan"), float("nan"), float("nan")], [5], "inside-nan"),
          c_get_region([1.0, -3.0, 2.5], [7.0, 7.0, 7.0], [3]), c_pad((0, 1, 2, 3), 0.5), c_pad((0, 1, 2, 3), (0.25, -0.5)),
          _f32_inside((-3.3, 20.1, 0.7, 9.9)), _f32_inside((100.1, 100.3, -0.1, 0.1)),
          c_scatter((0, 10, -5, 0), 7, 0, None), c_scatter((0, 10, -5, 0), 3, 1, [4.0, 5.0]),
          c_scatter((10, 0, -5, 0), 3, 1, None, "scatter-invalid"),
          c_maxabs([[1.0, -5.0, 2.0], [[3.0, 4.0], [0.0, -1.0]]]), c_maxabs([[-7.0]]),
          c_project((0, 2, 0, 1), "shear", [0.5]), c_project((-2, 1, -1, 3), "square", []),
          c_nodes((0.1, 0.7, 0.1, 0.7), (38, 68), None, False, 1), c_nodes((0.1, 0.7, -0.3, 0.4), (75, 38), None, False, 2),
          c_nodes((0.1, 0.7, 0.1, 0.7), None, (0.6 / 37, 0.6 / 67), False, 3), c_nodes((2.4, 3.5, 0.05, 0.95), (29, 47), None, True, 4),
          c_maxabs([[3.0, 7.0, 12.0]], "maxabs-uint"), c_maxabs([[3.0, 7.0, 12.0], [-2.5, 1.0]], "maxabs-uint+float"),
          c_project((0, 4, 0, 2), "radial", [1.0, 0.5]), c_project((-3, 5, -2, 6), "radial", [1.0, 2.0])]
    return cs


def generate(rng, tier):
    n = 1200 if tier == "quick" else 20000
    cs = []
    dec = [0.1, 0.7, -0.3, 2.4, 3.3, -7.9, 10.1, 100.7, -1e3 + 0.1, 0.05, 1 / 3.0, 2 / 3.0]
    for _ in range(300 if tier == "quick" else 8000):
        # regions whose bounds are NOT binary fractions, many nodes: the last node must still not overshoot the bound
        w = rng.choice(dec) + rng.randint(-5, 5)
        e = w + rng.choice([0.6, 1.1, 2.3, 0.07, 17.9, rng.randint(1, 40) / 10.0])
        s_ = rng.choice(dec)
        n_ = s_ + rng.choice([0.6, 0.9, 3.7, rng.randint(1, 40) / 10.0])
        if rng.random() < 0.6:
            cs.append(c_nodes((w, e, s_, n_), (rng.randint(2, 90), rng.randint(2, 90)), None, rng.random() < 0.3, rng.randint(0, 10**6)))
        else:
            cs.append(c_nodes((w, e, s_, n_), None, ((n_ - s_) / rng.randint(1, 80), (e - w) / rng.randint(1, 80)), rng.random() < 0.3,
                              rng.randint(0, 10**6)))
    for _ in range(n):
        u = rng.random()
        reg = G.region(rng, degenerate_ok=True)
        if u < 0.2:
            npts = rng.randint(1, 24)
            es, ns = _arr(rng, reg, npts)
            v = rng.random()
            if v < 0.15:       # the two axes of a grid (meshgrid=False): different lengths
                cs.append(c_get_region(es, ns[: rng.randint(1, npts)], [npts], "get_region-axes"))
            elif v < 0.3:      # plain Python lists / tuples
                cs.append(c_get_region(es, ns, [npts], "get_region-lists"))
            elif v < 0.45:     # further coordinates are ignored, whatever their shape
                cs.append(c_get_region(es, ns, [npts], "get_region-extra-other-shape"))
            else:
                cs.append(c_get_region(es, ns, _shape_for(rng, npts)))
        elif u < 0.45:
            npts = rng.randint(1, 24)
            es, ns = _arr(rng, reg, npts)
            r2 = reg if rng.random() < 0.9 else (reg[1] + 1, reg[0], reg[2], reg[3])
            if rng.random() < 0.25:      # gappy positions: a NaN coordinate compares false with every bound, so the point is outside
                for _ in range(rng.randint(1, 3)):
                    (es if rng.random() < 0.5 else ns)[rng.randrange(npts)] = float("nan")
            cs.append(c_inside(r2, es, ns, _shape_for(rng, npts), "inside" if r2 is reg else "inside-invalid-region"))
            if rng.random() < 0.15:
                dreg = tuple(round(v + rng.choice([0.1, 0.3, 0.7]), 1) for v in reg)
                if dreg[0] <= dreg[1] and dreg[2] <= dreg[3]:
                    cs.append(_f32_inside(dreg))
        elif u < 0.55:
            pad = G.number(rng) if rng.random() < 0.5 else (G.number(rng), G.number(rng))
            cs.append(c_pad(reg, pad))
        elif u < 0.68:
            k = rng.random()
            if k < 0.5:
                cs.append(c_check(reg))
            elif k < 0.7:
                cs.append(c_check((reg[1] + G.positive(rng), reg[0], reg[2], reg[3]), "check-invalid"))
            elif k < 0.9:
                cs.append(c_check((reg[0], reg[1], reg[3] + G.positive(rng), reg[2]), "check-invalid"))
            else:
                cs.append(c_check(list(reg)[: rng.choice([0, 1, 2, 3])] if rng.random() < 0.4
                                  else list(reg) + rng.choice([[1.0], [1.0, 2.0], [-1.0, 1.0, 2.0, 5.0], list(reg)]), "check-invalid-length"))
        elif u < 0.82:
            extra = None if rng.random() < 0.6 else [G.number(rng) for _ in range(rng.randint(1, 2))]
            if rng.random() < 0.15:
                extra = rng.choice([0.0, 0, -0.0, 12.5, [0.0], [0, 3.0]])       # bare scalars, zeros included
            cs.append(c_scatter(reg, rng.randint(1, 30), rng.randint(0, 10**6), extra))
        elif u < 0.92:
            arrays = []
            for _ in range(rng.randint(1, 3)):
                m = rng.randint(1, 8)
                arrays.append([G.number(rng) for _ in range(m)])
            if rng.random() < 0.3:      # integer-valued arrays are handed over with (un)signed integer dtypes (see impl)
                arrays = [[float(rng.randint(1, 120)) for _ in a] for a in arrays]
                if rng.random() < 0.5:
                    arrays[0] = [-v if rng.random() < 0.5 else v for v in arrays[0]]
            cs.append(c_maxabs(arrays))
        else:
            sr = G.small_region(rng) if rng.random() < 0.7 else (-3.0, 2.0, -1.5, 4.0)
            pk = rng.choice(["affine", "cube", "square", "shear", "radial", "radial"])
            k1, k2 = rng.randint(1, 7), rng.randint(1, 7)      # a node-aligned interior point of the 101 x 101 grid (k/8 of the way: not a node -> use /100)
            pp = {"affine": [rng.choice([-2.0, 0.5, 3.0]), G.dyadic(rng, 64), rng.choice([-1.0, 2.0, 0.25]), G.dyadic(rng, 64)],
                  "cube": [rng.choice([1.0, 16.0, 1024.0])], "square": [], "shear": [rng.choice([0.5, -0.25, 2.0])],
                  "radial": [sr[0] + (sr[1] - sr[0]) * k1 / 8.0, sr[2] + (sr[3] - sr[2]) * k2 / 8.0]}[pk]
            cs.append(c_project(sr, pk, pp))
    return cs


def _shape_for(rng, n):
    opts = [[n]]
    for a in range(1, n + 1):
        if n % a == 0:
            opts.append([a, n // a])
    if n % 4 == 0:
        opts.append([2, 2, n // 4])
    return rng.choice(opts)


def impl(case):
    a = case["args"]
    fn = case["fn"]
    if fn == "get_region" and case["kind"] in ("get_region-axes", "get_region-lists", "get_region-extra-other-shape"):
        if case["kind"] == "get_region-axes":
            coords = (np.array(a[0]), np.array(a[1]))
        elif case["kind"] == "get_region-lists":
            coords = (list(a[0]), tuple(a[1])) if len(a[0]) % 2 else [list(a[0]), list(a[1])]
        else:
            coords = (np.array(a[0]), np.array(a[1]), np.float64(3.5) if len(a[0]) % 2 else np.arange(len(a[0]) + 2.0).reshape(1, -1))
        r = C.call(vd.get_region, coords)
        return r if C.is_err(r) else [float(v) for v in r]
    if fn == "get_region":
        e = C.mkarr(a[0], a[2], "a[0]:" + case["op"])
        n = C.mkarr(a[1], a[2], "a[1]:" + case["op"])
        e0, n0 = e.copy(), n.copy()
        r = C.call(vd.get_region, (e, n, np.zeros_like(e)))
        if not (np.array_equal(e, e0) and np.array_equal(n, n0)):
            return ["err", "MutatedInput"]
        return r if C.is_err(r) else [float(v) for v in r]
    if fn == "inside":
        e = C.mkarr(a[1], a[3], "a[1]:" + case["op"])
        n = C.mkarr(a[2], a[3], "a[2]:" + case["op"])
        e.setflags(write=False)
        n.setflags(write=False)
        reg_arg = a[0]
        if case["kind"].endswith("float32"):
            # single-precision coordinates against double-precision bounds (as get_region / pad_region return them): the comparison is exact
            e, n = e.astype("float32"), n.astype("float32")
            e.setflags(write=False)
            n.setflags(write=False)
            reg_arg = tuple(np.float64(v) for v in a[0])
        elif case["kind"] in ("inside-int32", "inside-uint8"):
            e, n = e.astype(case["kind"][7:]), n.astype(case["kind"][7:])
            e.setflags(write=False)
            n.setflags(write=False)
            reg_arg = tuple(int(v) for v in a[0])
        elif len(case["op"]) % 3 == 0:
            reg_arg = np.array(a[0], dtype="float64")
        r = C.call(vd.inside, (e, n), reg_arg)
        if C.is_err(r):
            return r
        if list(r.shape) != list(a[3]) or r.dtype != bool:
            return ["err", "WrongShapeOrDtype"]
        return [bool(v) for v in r.ravel()]
    if fn == "pad":
        r = C.call(vd.pad_region, tuple(a[0]), a[1])
        return r if C.is_err(r) else [float(v) for v in r]
    if fn == "check":
        r = C.call(vd.coordinates.check_region, a[0])
        return r if C.is_err(r) else [float(v) for v in a[0]]
    if fn == "scatter":
        # the seed arrives as a Python int, a NumPy integer of some width (what np.arange / randint hand out) or a RandomState made from it:
        # the same points every time
        forms = [lambda s_: s_, np.int64, lambda s_: np.random.RandomState(s_), np.uint32, np.int32]
        k_ = (a[1] + a[2]) % len(forms)
        r = C.call(vd.scatter_points, a[0], a[1], random_state=forms[k_](a[2]), extra_coords=a[3])
        if C.is_err(r):
            return r
        r2 = vd.scatter_points(a[0], a[1], random_state=forms[(k_ + 1) % len(forms)](a[2]), extra_coords=a[3])
        if any(not np.array_equal(x, y) for x, y in zip(r, r2)):
            return ["err", "NotReproducible"]
        return [np.asarray(v).tolist() for v in r]
    if fn == "maxabs":
        arrs = [np.array(x) for x in a[0]]
        for i, x in enumerate(arrs):
            fl = x.ravel()
            if fl.size and np.all(fl == np.round(fl)) and np.all(np.abs(fl) <= 120):
                # integer-valued arrays get an integer dtype: unsigned when non-negative, else signed (values well inside the range)
                arrs[i] = x.astype(["uint8", "uint16", "int64"][(i + fl.size) % 3] if np.all(fl >= 0) else ["int16", "int64"][i % 2])
        r = C.call(vd.maxabs, *arrs)
        return r if C.is_err(r) else float(r)
    if fn == "maxabs_special":
        r = C.call(vd.maxabs, *[np.array(x) for x in a[0]])
        return r if C.is_err(r) else ["special", float(r)]
    if fn == "nodes":
        reg, shape, spacing, pixel, seed = a

        def run_nodes():
            g = vd.grid_coordinates(reg, shape=None if shape is None else tuple(shape), spacing=spacing, adjust="spacing", pixel_register=pixel)
            sc = vd.scatter_points(reg, 25, random_state=seed)
            out = {"n": int(g[0].size)}
            for name, c in (("grid", g), ("scatter", sc)):
                ins = vd.inside(c, reg)
                out[name] = bool(np.all(ins))
                if not out[name]:
                    k = int(np.argmin(ins.ravel()))
                    out[name + "_bad"] = [float(c[0].ravel()[k]), float(c[1].ravel()[k])]
            if not pixel:
                e, n_ = g[0][0, :], g[1][:, 0]
                out["bounds"] = [float(e[0]), float(e[-1]), float(n_[0]), float(n_[-1])]
            return out
        r = C.call(run_nodes)
        return r if C.is_err(r) else ["nodes", r]
    if fn == "project":
        r = C.call(vd.project_region, a[0], PROJS[a[1]](a[2]))
        return r if C.is_err(r) else [float(v) for v in r]
    raise C.Infra("unknown fn")


def compare(case, io, mo):
    if case["fn"] in ("nodes", "maxabs_special"):
        return "ok"        # decided by the oracle on the implementation
    if case["fn"] == "project":
        return C.std_compare(io, mo, tol=1e-11)
    return C.std_compare(io, mo)


def oracle(case, io):
    a = case["args"]
    fn = case["fn"]
    if fn == "get_region":
        if C.is_err(io):
            return "get_region failed: " + io[1]
        es, ns = a[0], a[1]
        if io != [min(es), max(es), min(ns), max(ns)]:
            return f"not the tight bounding box: {io} vs {[min(es), max(es), min(ns), max(ns)]}"
        return None
    if fn == "inside":
        reg, es, ns, _ = a
        if reg[0] > reg[1] or reg[2] > reg[3]:
            return None if C.is_err(io) and io[1] == "ValueError" else "invalid region accepted by inside"
        if C.is_err(io):
            return "inside failed: " + io[1]
        exp = [reg[0] <= e <= reg[1] and reg[2] <= n <= reg[3] for e, n in zip(es, ns)]
        if io != exp:
            k = [i for i, (x, y) in enumerate(zip(io, exp)) if x != y][0]
            return f"inside is not the closed-box predicate at point {k} = ({es[k]}, {ns[k]}) for region {reg}: got {io[k]}"
        return None
    if fn == "pad":
        if C.is_err(io):
            return "pad_region failed: " + io[1]
        reg, pad = a
        pn, pe = (pad, pad) if np.isscalar(pad) else pad
        exp = [reg[0] - pe, reg[1] + pe, reg[2] - pn, reg[3] + pn]
        if any(not C.close(x, y, 1e-12, max(1, abs(y))) for x, y in zip(io, exp)):
            return f"pad_region moved bounds wrongly: {io} vs {exp}"
        back = vd.pad_region(tuple(io), (-pn, -pe))
        if any(not C.close(x, y, 1e-9, max(1, abs(y), abs(pn), abs(pe))) for x, y in zip(back, reg)):
            return "opposite pad does not undo pad_region"
        return None
    if fn == "check":
        reg = a[0]
        bad = len(reg) != 4 or reg[0] > reg[1] or reg[2] > reg[3]
        if bad:
            return None if C.is_err(io) and io[1] == "ValueError" else "invalid region not rejected"
        return "valid region rejected: " + io[1] if C.is_err(io) else None
    if fn == "scatter":
        reg = a[0]
        if reg[0] > reg[1] or reg[2] > reg[3]:
            return None if C.is_err(io) and io[1] == "ValueError" else "invalid region accepted by scatter_points"
        if C.is_err(io):
            return "scatter_points failed: " + io[1]
        if len(io) != 2 + len(_exl(a[3])) or any(len(v) != a[1] for v in io):
            return "scatter_points returned the wrong number/size of arrays"
        for e, n in zip(io[0], io[1]):
            if not (reg[0] <= e <= reg[1] and reg[2] <= n <= reg[3]):
                return f"scattered point ({e}, {n}) outside region {reg}"
        for k, v in enumerate(_exl(a[3])):
            if any(x != v for x in io[2 + k]):
                return "extra coordinate not constant"
        return None
    if fn == "nodes":
        if C.is_err(io):
            return "grid_coordinates / scatter_points failed: " + io[1]
        r = io[1]
        for name in ("grid", "scatter"):
            if not r[name]:
                return f"a {name} node {r[name + '_bad']} lies outside the requested region {a[0]} (verde.inside)"
        if "bounds" in r and r["bounds"] != [float(v) for v in a[0]]:
            return f"grid lines do not start/end exactly on the region bounds: {r['bounds']} vs {a[0]}"
        return None
    if fn == "maxabs":
        if C.is_err(io):
            return "maxabs failed: " + io[1]
        exp = max(abs(x) for x in C.flat(a[0]))
        return None if io == exp else f"maxabs {io} != largest absolute value {exp}"
    if fn == "maxabs_special":
        if C.is_err(io):
            return "maxabs failed: " + io[1]
        import math
        vals = [abs(x) for x in C.flat(a[0]) if not (isinstance(x, float) and math.isnan(x))]
        exp = max(vals)
        return None if io[1] == exp else f"maxabs {io[1]} != largest absolute value {exp} (NaN ignored, infinities count)"
    if fn == "project":
        if C.is_err(io):
            return "project_region failed: " + io[1]
        reg, pk, pp = a
        proj = PROJS[pk](pp)
        e, n = vd.grid_coordinates(reg, shape=(101, 101))
        pe, pn = proj(e.ravel(), n.ravel())
        tol = 1e-9 * max(1.0, np.abs(pe).max(), np.abs(pn).max())
        if pe.min() < io[0] - tol or pe.max() > io[1] + tol or pn.min() < io[2] - tol or pn.max() > io[3] + tol:
            return "projected grid nodes fall outside project_region's result"
        if not (abs(pe.min() - io[0]) <= tol and abs(pe.max() - io[1]) <= tol and abs(pn.min() - io[2]) <= tol and abs(pn.max() - io[3]) <= tol):
            return "project_region is not the tight bounding box of the projected region"
        return None
    return None


def nontrivial(case, io):
    return (not C.is_err(io)) and len(C.flat(case["args"])) >= 2


def finding_key(case, io):
    return None
