"""C18 — grid <-> table conversions preserve every value at its own coordinates."""
import numpy as np
import xarray as xr

import common as C
import gen as G
import verde as vd
from props import large as L

ID = "C18"
TRANSLATED = "makegrid"    # Gen/Grid.lean (grid_to_table, Dataset branch) and Gen/MakeGrid.lean (make_xarray_grid, meshgrid_to_1d, check_extra_coords_names) are regenerated from /repo and bridged to the model in Props/C18.lean
FILES = ["verde/utils.py", "verde/base/utils.py"]
RULE = ("corpus + seeded grids (shapes 1..7 x 1..7 incl. single row/column, non-uniform strictly increasing axes, 1..4 variables with all-distinct "
        "values, 0..3 extra coordinates, custom dims) through make_xarray_grid (1-D or 2-D coordinates), make_xarray_grid->grid_to_table round trip, "
        "grid_to_table on hand-built Dataset / named / unnamed DataArray with coordinates declared in either order, meshgrid_to_1d / meshgrid_from_1d, "
        "plus single inconsistencies (non-meshgrid 2-D input, mixed 1-D/2-D, wrong name counts, wrong shapes); non-trivial = accepted call on a grid with "
        ">= 2 cells; distinct = distinct protocol lines")
ASSUMPTIONS = ["xarray places (dims, array)[i][j] at dims[0]=i, dims[1]=j and refuses arrays whose shape conflicts with the coordinates (ValueError)",
               "pandas.DataFrame(dict) keeps insertion order of columns"]
TRUSTED = ["xarray.Dataset / DataArray containers", "pandas.DataFrame"]


def axis(rng, n):
    x = G.dyadic(rng, 256)
    out = []
    for _ in range(n):
        out.append(x)
        x += rng.randint(1, 16) / 4.0
    return out


def arr(rng, nn, ne, base):
    vals = list(range(base, base + nn * ne))
    rng.shuffle(vals)
    return [[vals[i * ne + j] / 2.0 for j in range(ne)] for i in range(nn)]


def arr_int(rng, nn, ne, base):
    """Integer-typed variable (counts, cell ids, nanosecond time stamps): Python ints, handed over as int64; values beyond 2**53 have no float64 image."""
    vals = list(range(base, base + 3 * nn * ne, 3))
    rng.shuffle(vals)
    return [[vals[i * ne + j] for j in range(ne)] for i in range(nn)]


def mesh(e, n):
    return [list(e) for _ in n], [[y] * len(e) for y in n]


def mk_make(east, north, extras, data, names, dims, exnames, table, kind):
    op = "make_grid_table" if table else "make_grid"
    return {"fn": op, "kind": kind, "args": [east, north, extras, data, names, dims, exnames],
            "op": f"{op} {C.enc(east)} {C.enc(north)} {C.enc(extras)} {C.enc(data)} {C.enc(names)} {C.enc(list(dims))} {C.enc(exnames)}"}


def mk_table(dims, east, north, extras, vars_, form, coord_order, kind):
    return {"fn": "grid_to_table", "kind": kind, "args": [dims, east, north, extras, vars_, form, coord_order],
            "op": f"grid_to_table {C.enc(list(dims))} {C.enc(east)} {C.enc(north)} {C.enc([[k, v] for k, v in extras])} "
                  f"{C.enc([[k, v] for k, v in vars_])}"}


def corpus():
    return _corpus() + [L.case("big_table", [1025, 1031, True], "corpus-large-grid"),
                       L.case("big_table", [700, 1500, False], "corpus-large-grid"),
                       L.case("table_independent", [4, 5, "dataset"], "corpus-table-is-a-value"), L.case("table_independent", [3, 7, "dataarray"], "corpus-table-is-a-value")]


def _corpus():
    e, n = [1.0, 2.0, 4.0], [10.0, 20.0]
    E, N = mesh(e, n)
    d = [[0.0, 1.0, 2.0], [3.0, 4.0, 5.0]]
    up = [[7.0, 7.5, 8.0], [9.0, 9.5, 10.0]]
    cs = [mk_make(e, n, [], [d], ["a"], ("northing", "easting"), None, False, "corpus-1d"),
          mk_make(E, N, [up], [d, up], ["a", "b"], ("lat", "lon"), ["up"], True, "corpus-2d-roundtrip"),
          mk_make(E, [[10.0, 10.0, 10.0], [20.0, 20.0, 21.0]], [], [d], ["a"], ("northing", "easting"), None, False, "not-meshgrid"),
          mk_make([[1.0, 2.0, 4.0], [1.0, 2.5, 4.0]], N, [], [d], ["a"], ("northing", "easting"), None, False, "not-meshgrid"),
          mk_make(e, N, [], [d], ["a"], ("northing", "easting"), None, False, "mixed-dims"),
          mk_make(E, N, [], [d], ["a", "b"], ("northing", "easting"), None, False, "name-count"),
          mk_make(E, N, [up], [d], ["a"], ("northing", "easting"), None, False, "extra-names-none"),
          mk_make(E, N, [up], [d], ["a"], ("northing", "easting"), ["u", "v"], False, "extra-name-count"),
          mk_make(e, n, [], [d], None, ("northing", "easting"), None, False, "names-none"),
          mk_make(e, n, [], None, None, ("northing", "easting"), None, False, "no-data"),
          mk_make(e, n, [], [[[0.0, 1.0], [2.0, 3.0], [4.0, 5.0]]], ["a"], ("northing", "easting"), None, False, "transposed-data"),
          mk_table(("y", "x"), e, n, [("up", up)], [("a", d)], "dataset", "ne", "corpus-table"),
          mk_table(("y", "x"), e, n, [], [("scalars", d)], "unnamed", "en", "corpus-unnamed-dataarray"),
          # a sheared "grid" at map-projection magnitudes: each row within numpy.allclose's tolerance of the NEXT one, the last far from the first
          mk_make([[524288.0 + x + 2.0 * i for x in (0.0, 10.0, 20.0)] for i in range(6)], [[4194304.0 + 10.0 * i] * 3 for i in range(6)], [],
                  [[[float(3 * i + j) for j in range(3)] for i in range(6)]], ["a"], ("northing", "easting"), None, False, "bad-drift"),
          # numpy.allclose(a, b) is |a - b| <= atol + rtol |b| with b the FULL array: a row that differs from the first by 0.01000006 at 1000 is
          # (just) a meshgrid row, by 5e-8 on either side of where the test would flip if the two arguments changed places
          mk_make([[1000.0, 2000.0, 4000.0], [1000.01000006, 2000.0, 4000.0]], N, [], [d], ["a"], ("northing", "easting"), None, False, "meshgrid-within-relative-tolerance"),
          mk_make(E, [[10.0, 10.0, 10.0], [2000.0, 2000.02000012, 2000.0]], [], [d], ["a"], ("northing", "easting"), None, False, "meshgrid-within-relative-tolerance"),
          # a north-up raster (northing decreasing with the row index) and axes in no particular order: rows and columns stay where they are
          mk_make(e, [20.0, 10.0], [up], [d, up], ["a", "b"], ("northing", "easting"), ["up"], True, "corpus-descending-northing"),
          mk_make([4.0, 1.0, 2.0], [10.0, 20.0], [], [d], ["a"], ("northing", "easting"), None, True, "corpus-unsorted-easting"),
          mk_make(*mesh([4.0, 1.0, 2.0], [20.0, 10.0]), [up], [d], ["a"], ("lat", "lon"), ["up"], True, "corpus-unsorted-meshgrid"),
          mk_table(("y", "x"), [4.0, 1.0, 2.0], [20.0, 10.0], [("up", up)], [("a", d)], "dataset", "ne", "corpus-table-unsorted-axes"),
          # a LINE of points stored as 2-D arrays with a single row / a single column: a meshgrid only if the other coordinate is constant along it
          mk_make([[1.0, 2.0, 4.0, 5.0]], [[10.0, 11.0, 12.0, 13.0]], [], [[[0.0, 1.0, 2.0, 3.0]]], ["a"], ("northing", "easting"), None, False, "not-meshgrid-line"),
          mk_make([[1.0], [2.0], [4.0]], [[10.0], [20.0], [30.0]], [], [[[0.0], [1.0], [2.0]]], ["a"], ("northing", "easting"), None, False, "not-meshgrid-line"),
          mk_make([[1.0, 2.0, 4.0, 5.0]], [[10.0, 10.0, 10.0, 10.0]], [], [[[0.0, 1.0, 2.0, 3.0]]], ["a"], ("northing", "easting"), None, True, "meshgrid-single-row"),
          mk_make([[3.0], [3.0], [3.0]], [[10.0], [20.0], [30.0]], [], [[[0.0], [1.0], [2.0]]], ["a"], ("northing", "easting"), None, True, "meshgrid-single-column"),
          {"fn": "to1d", "kind": "to1d-line", "args": [[[1.0, 2.0, 4.0]], [[10.0, 11.0, 12.0]], []], "op": f"to1d {C.enc([[1.0, 2.0, 4.0]])} {C.enc([[10.0, 11.0, 12.0]])} {C.enc([])}"},
          # a DataArray whose name is the integer 0 (a column label of a header-less table): it HAS a name
          mk_table(("y", "x"), e, n, [], [("n0", d)], "named-int", "en", "corpus-dataarray-named-0"),
          mk_table(("northing", "easting"), e, n, [("up", up)], [("n0", d)], "named-int", "ne", "corpus-dataarray-named-0")]
    return cs


def generate(rng, tier):
    n = 500 if tier == "quick" else 8000
    cs = []
    for _ in range(n):
        nn, ne = rng.randint(1, 7), rng.randint(1, 7)
        e, no = axis(rng, ne), axis(rng, nn)
        u_ = rng.random()
        if u_ < 0.2:
            no = no[::-1]                  # a north-up raster: northing DEcreases with the row index; rows stay where they are
        elif u_ < 0.3:
            e = e[::-1]
        elif u_ < 0.38:
            rng.shuffle(e)                 # axes in no particular order (a table of stations pivoted into a grid)
            rng.shuffle(no)
        E, N = mesh(e, no)
        nvar = rng.randint(1, 4)
        data = [arr(rng, nn, ne, 100 * k) for k in range(nvar)]
        names = [f"v{k}" for k in range(nvar)]
        if rng.random() < 0.4:      # real variable names: their alphabetical order is not their insertion order
            names = rng.sample(["velocity", "density", "temperature", "bias", "u", "Z"], nvar)
        nex = rng.choice([0, 0, 1, 2, 3])
        extras = [arr(rng, nn, ne, 1000 + 100 * k) for k in range(nex)]
        exnames = [f"x{k}" for k in range(nex)] if nex else None
        dims = rng.choice([("northing", "easting"), ("lat", "lon"), ("y", "x")])
        itag = ""
        if rng.random() < 0.2:
            base = rng.choice([0, -50, 2**53 + 1, 1_700_000_000_000_000_001])
            data[rng.randrange(nvar)] = arr_int(rng, nn, ne, base)
            if nex and rng.random() < 0.5:
                extras[rng.randrange(nex)] = arr_int(rng, nn, ne, base + 7)
            itag = "-intvar"
        u = rng.random()
        if u < 0.3:
            two_d = rng.random() < 0.5
            cs.append(mk_make(E if two_d else e, N if two_d else no, extras, data, names, dims, exnames, rng.random() < 0.6,
                              ("make-2d" if two_d else "make-1d") + itag))
        elif u < 0.55:
            form = rng.choice(["dataset", "dataset", "named", "unnamed", "named-int"])
            vs = list(zip(names, data))
            if form != "dataset":
                vs = [("scalars" if form == "unnamed" else names[0], data[0])]
            if form == "named-int":
                vs = [("n" + str(rng.choice([0, 0, 1, 7])), data[0])]      # ("n<k>" stands for the integer k in the protocol)
            cs.append(mk_table(dims, e, no, list(zip(exnames or [], extras)), vs, form, rng.choice(["en", "ne"]), "table-" + form + itag))
        elif u < 0.7:
            cs.append({"fn": "to1d", "kind": "to1d", "args": [E, N, extras],
                       "op": f"to1d {C.enc(E)} {C.enc(N)} {C.enc(extras)}"})
        elif u < 0.8:
            cs.append({"fn": "from1d", "kind": "from1d", "args": [e, no], "op": f"from1d {C.enc(e)} {C.enc(no)}"})
        else:   # one inconsistency
            k = rng.choice(["notmesh-e", "notmesh-n", "mixed", "names", "names-string", "exnames", "shape", "extrashape", "tiny-perturb", "drift", "drift", "line"])
            if k == "line":
                # a profile of points handed over as (1, n) or (n, 1) arrays: not a grid unless the other coordinate stays put
                m_ = rng.randint(2, 6)
                xs_ = sorted(rng.sample(range(-40, 40), m_))
                ys_ = [float(rng.randint(-20, 20)) + 0.5 * j for j in range(m_)]
                if rng.random() < 0.3:
                    ys_ = [ys_[0]] * m_      # (this one IS a single-row / single-column grid)
                row = rng.random() < 0.5
                wrap = (lambda v: [list(v)]) if row else (lambda v: [[x] for x in v])
                E3, N3 = (wrap([float(x) for x in xs_]), wrap(ys_)) if row else (wrap(ys_), wrap([float(x) for x in xs_]))
                cs.append(mk_make(E3, N3, [], [wrap([float(j) for j in range(m_)])], ["a"], dims, None, rng.random() < 0.5, "line-2d"))
                continue
            E2, N2, e2, n2, data2, names2, extras2, exn2 = E, N, e, no, data, names, extras, exnames
            two_d = True
            if k == "notmesh-e" and nn >= 2:
                E2 = [list(r) for r in E]
                E2[rng.randrange(1, nn)][rng.randrange(ne)] += rng.choice([0.5, -1.0, 1e-3])
            elif k == "notmesh-n" and ne >= 2:
                N2 = [list(r) for r in N]
                N2[rng.randrange(nn)][rng.randrange(1, ne)] += rng.choice([0.5, -1.0, 1e-3])
            elif k == "drift" and nn >= 4 and ne >= 2:
                # a slightly rotated / sheared "grid" at map-projection magnitudes: from one row to the next the eastings move by less than
                # numpy.allclose's tolerance, but from the first row to the last by far more - not a meshgrid
                off = 524288.0      # 2^19: coordinates of order 5e5 (UTM); allclose tolerates about 5 there
                step = 2.0
                E2 = [[off + x + step * i for x in e] for i in range(nn)]
                N2 = [[off * 8 + y for _ in e] for y in no]
                if step * (nn - 1) <= 1e-5 * (off + max(abs(x) for x in e)) + 1e-8:      # (not enough rows to leave the tolerance: skip)
                    E2 = [list(r) for r in E]
                    E2[1][0] += 0.5
            elif k == "tiny-perturb" and nn >= 2:
                E2 = [list(r) for r in E]
                E2[rng.randrange(1, nn)][rng.randrange(ne)] += 1e-12     # within allclose: accepted, regularised
            elif k == "mixed":
                cs.append(mk_make(e, N, extras, data, names, dims, exnames, False, "bad-mixed"))
                continue
            elif k == "names":
                names2 = names + ["zz"] if rng.random() < 0.5 else names[:-1]
            elif k == "names-string" and nvar >= 2:
                names2 = ["uvwz"[:nvar]]       # ONE name (handed over as a bare string) whose length happens to equal the number of arrays
            elif k == "exnames" and nex:
                exn2 = rng.choice([None, exnames + ["q"], exnames[:-1]])
            elif k == "shape" and nn != ne:
                data2 = [[[row[j] for row in d] for j in range(ne)] for d in data]
                two_d = rng.random() < 0.5
            elif k == "extrashape" and nex and nn >= 2:
                extras2 = [extras[0][:-1]] + extras[1:]
                two_d = rng.random() < 0.5
            cs.append(mk_make(E2 if two_d else e2, N2 if two_d else n2, extras2, data2, names2, dims, exn2, False, "bad-" + k))
    return cs


def _ds_out(ds, dims):
    east = [float(v) for v in ds.coords[dims[1]].values]
    north = [float(v) for v in ds.coords[dims[0]].values]
    extras = [[k, ds.coords[k].values.tolist()] for k in ds.coords if k not in dims]
    for k in ds.coords:
        if k not in dims and ds.coords[k].dims != tuple(dims):
            return ["err", "ExtraCoordWrongDims"]
    vs = []
    for k in ds.data_vars:
        if ds[k].dims != tuple(dims):
            return ["err", "VarWrongDims"]
        vs.append([k, ds[k].values.tolist()])
    return [[list(dims), [east, north]], [extras, vs]]


def _table_out(t):
    return [["n" + str(c) if isinstance(c, (int, np.integer)) else str(c), [int(v) if np.issubdtype(t[c].values.dtype, np.integer) else float(v) for v in t[c].values]] for c in t.columns]


def _A(x, role, case):
    """The nested list `x` as the array handed to verde/xarray, in a memory layout chosen per role (C, Fortran-ordered, strided)."""
    flat = C.flat(x)
    if flat and all(isinstance(v, int) and not isinstance(v, bool) for v in flat):
        a = np.array(x, dtype=np.int64)
        if len(role + case["op"][-70:]) % 2 and a.ndim == 2:
            a = np.asfortranarray(a)
        a.setflags(write=False)
        return a
    a = np.array(x, dtype=float)
    return C.mkarr(a, list(a.shape), role + case["op"][-70:])


def impl(case):
    if case["fn"] == "large":
        r = C.call(L.run, case["args"])
        return r if C.is_err(r) else ["large", r]
    a = case["args"]
    fn = case["fn"]
    if fn in ("make_grid", "make_grid_table"):
        east, north, extras, data, names, dims, exnames = a
        coords = tuple(_A(x, f"c{i}", case) for i, x in enumerate([east, north] + list(extras)))
        dat = None if data is None else tuple(_A(d, f"d{i}", case) for i, d in enumerate(data))
        if dat is not None and len(dat) == 1:
            dat = dat[0]
        nm = names if (names is None or len(names) != 1) else names[0]
        exn = exnames
        if isinstance(exnames, list) and len(exnames) == 1 and len(case["op"]) % 2:
            exn = exnames[0]      # the name of a single extra coordinate as a plain string ("upward"), like the name of a single data array
        if len(case["op"]) % 3 == 0:
            ds = C.call(vd.make_xarray_grid, coords, dat, nm, tuple(dims), extra_coords_names=exn)      # `dims` in its documented position (the fourth)
        else:
            ds = C.call(vd.make_xarray_grid, coords, dat, nm, dims=tuple(dims), extra_coords_names=exn)
        if C.is_err(ds):
            return ds
        if fn == "make_grid":
            return _ds_out(ds, dims)
        if not list(ds.data_vars):
            return ["err", "NoDataVars"]
        t = C.call(vd.grid_to_table, ds)
        return t if C.is_err(t) else _table_out(t)
    if fn == "grid_to_table":
        dims, east, north, extras, vars_, form, order = a
        coords = {}
        extras_first = bool(extras) and (len(east) + 2 * len(north) + len(extras)) % 3 == 0
        if extras_first:      # the non-index coordinates declared BEFORE the index coordinates (a grid read from a file lists them in any order)
            for k, v in extras:
                coords[k] = (tuple(dims), _A(v, "x" + str(k), case))
        for key in order:
            if key == "e":
                coords[dims[1]] = np.array(east)
            else:
                coords[dims[0]] = np.array(north)
        if not extras_first:
            for k, v in extras:
                coords[k] = (tuple(dims), _A(v, "x" + str(k), case))
        if form == "dataset":
            g = xr.Dataset({k: (tuple(dims), _A(v, "v" + str(k), case)) for k, v in vars_}, coords=coords)
        else:
            g = xr.DataArray(_A(vars_[0][1], "v0", case), coords=coords, dims=tuple(dims), name=None if form == "unnamed" else (int(vars_[0][0][1:]) if form == "named-int" else vars_[0][0]))
        # history: grid_to_table is a function of the grid it is given; a table made earlier in the same process from ANOTHER grid with the same
        # shape and the same first/last node on each axis (other interior nodes, other values) leaves no trace
        if len(east) >= 3 or len(north) >= 3:
            def bent(ax):
                ax = np.array(ax, dtype=float)
                if len(ax) >= 3:
                    ax[1:-1] = ax[1:-1] + 0.25 * (ax[2:] - ax[1:-1])
                return ax
            c2 = {dims[1]: bent(east), dims[0]: bent(north)}
            try:
                vd.grid_to_table(xr.Dataset({"w": (tuple(dims), np.arange(len(north) * len(east), dtype=float).reshape(len(north), len(east)) * -3.0)}, coords=c2))
            except Exception:  # noqa: BLE001
                pass
        extra_vars = {}
        if form == "dataset" and (len(east) + len(north)) % 2 == 0:
            # variables that are not numbers: a boolean quality flag and a time stamp per cell; they are data variables like any other and
            # get their column (checked here; the model only knows the numeric ones)
            base = np.asarray(vars_[0][1], dtype=float)
            extra_vars["flag_"] = base > np.median(base)
            extra_vars["when_"] = (np.datetime64("2001-02-03T04:05") + (np.arange(base.size).reshape(base.shape) * 37).astype("timedelta64[m]"))
            g = g.assign({k: (tuple(dims), v) for k, v in extra_vars.items()})
        t = C.call(vd.grid_to_table, g)
        if not C.is_err(t) and extra_vars:
            for k, v in extra_vars.items():
                if k not in t.columns or not np.array_equal(np.asarray(t[k].values), v.ravel()):
                    return ["err", f"NonNumericVariableLost:{k}"]
            t = t.drop(columns=list(extra_vars))
        if C.is_err(t):
            return t
        out = _table_out(t)
        # the table is a value of its own: editing the grid afterwards does not reach into it, editing the table does not reach into the grid
        names_ = [g.name] if isinstance(g, xr.DataArray) else list(g.data_vars)
        for k in names_:
            v = (g if isinstance(g, xr.DataArray) else g[k]).values
            if v.flags.writeable and v.dtype.kind == "f":
                v[...] = v * 3.0 + 1000.0
        if _table_out(t) != out:
            return ["err", "TableSharesMemoryWithGrid"]
        before = [(g if isinstance(g, xr.DataArray) else g[k]).values.copy() for k in names_]
        for c in t.columns:
            col = t[c].to_numpy()
            if col.flags.writeable and col.dtype.kind == "f":
                col[...] = -12345.5
        after = [(g if isinstance(g, xr.DataArray) else g[k]).values for k in names_]
        if not all(np.array_equal(b, a_, equal_nan=True) for b, a_ in zip(before, after)):
            return ["err", "TableSharesMemoryWithGrid"]
        return out
    if fn == "to1d":
        E, N, extras = a
        r = C.call(vd.utils.meshgrid_to_1d, tuple(_A(x, f"m{i}", case) for i, x in enumerate([E, N] + list(extras))))
        if C.is_err(r):
            return r
        if len(r) != 2 + len(extras):
            return ["err", "ExtraCoordsLost"]
        return [r[0].tolist(), r[1].tolist()]
    if fn == "from1d":
        e, n = a
        r = C.call(vd.utils.meshgrid_from_1d, (np.array(e), np.array(n)))
        return r if C.is_err(r) else [r[0].tolist(), r[1].tolist()]
    raise C.Infra("unknown fn")


def compare(case, io, mo):
    if case["fn"] == "large":
        return "diff:implementation failed: " + io[1] if C.is_err(io) else "ok"
    return C.std_compare(io, mo, tol=0.0)


def _rect(a, nn, ne):
    return len(a) == nn and all(len(r) == ne for r in a)


def oracle(case, io):
    if case["fn"] == "large":
        return (io[1] or None) if not C.is_err(io) else "failed on a large input: " + io[1]
    a = case["args"]
    fn = case["fn"]
    if fn in ("make_grid", "make_grid_table"):
        east, north, extras, data, names, dims, exnames = a
        two_e, two_n = isinstance(east[0], list), isinstance(north[0], list)
        bad = two_e != two_n
        e1, n1 = east, north
        if not bad and two_e:
            nn, ne = len(east), len(east[0])
            if not (_rect(east, nn, ne) and _rect(north, nn, ne) and all(_rect(x, nn, ne) for x in extras)):
                bad = True
            else:
                ok_e = all(np.allclose(east[0], r) for r in east)
                ok_n = all(np.allclose([r[0]] * ne, r) for r in north)
                if not (ok_e and ok_n):
                    bad = True
                e1, n1 = east[0], [r[0] for r in north]
        if not bad:
            if extras and (exnames is None or len(exnames) != len(extras)):
                bad = True
            if data is not None and (names is None or len(names) != len(data)):
                bad = True
            if not all(_rect(x, len(n1), len(e1)) for x in list(extras) + list(data or [])):
                bad = True
        if bad:
            return None if C.is_err(io) and io[1] == "ValueError" else "inconsistent input not rejected with ValueError"
        if C.is_err(io):
            return "valid input rejected: " + io[1]
        if fn == "make_grid":
            (odims, (oe, on)), (oex, ovs) = io
            if oe != e1 or on != n1:
                return "coordinate vectors differ from the source axes"
            if [k for k, _ in ovs] != list(names or []) or [k for k, _ in oex] != list(exnames or []):
                return "variable / extra coordinate names differ"
            for (k, v), src in list(zip(ovs, data or [])) + list(zip(oex, extras)):
                if v != src:
                    return f"values of {k} moved: cell (i, j) no longer holds the source cell (i, j)"
            return None
        cols = dict((k, v) for k, v in io)
        ne = len(e1)
        exp_n = [n1[k // ne] for k in range(len(n1) * ne)]
        exp_e = [e1[k % ne] for k in range(len(n1) * ne)]
        if cols.get(dims[0]) != exp_n or cols.get(dims[1]) != exp_e:
            return "table coordinates are not the row-major cells of the grid"
        for name, src in list(zip(names, data)) + list(zip(exnames or [], extras)):
            if cols.get(name) != [v for row in src for v in row]:
                return f"column {name} is not the raveled input (round trip failed)"
        if [k for k, _ in io] != [dims[0], dims[1]] + list(exnames or []) + list(names):
            return "column order/names differ"
        return None
    if fn == "grid_to_table":
        dims, east, north, extras, vars_, form, order = a
        if C.is_err(io):
            return "grid_to_table failed: " + io[1]
        cols = dict((k, v) for k, v in io)
        ne = len(east)
        ncell = len(north) * ne
        if cols.get(dims[0]) != [north[k // ne] for k in range(ncell)] or cols.get(dims[1]) != [east[k % ne] for k in range(ncell)]:
            return "one row per cell in row-major order with that cell's coordinates expected"
        for name, src in list(vars_) + list(extras):
            if cols.get(name) != [v for row in src for v in row]:
                return f"column {name}: row k does not hold cell (k // ne, k % ne)"
        return None
    if fn == "to1d":
        E, N, extras = a
        is_mesh = all(list(r) == list(E[0]) for r in E) and all(all(v == r[0] for v in r) for r in N)
        if not is_mesh:      # (clearly not one: the corpus' lines of points; near-meshgrids are not generated for this call)
            return None if C.is_err(io) and io[1] == "ValueError" else "meshgrid_to_1d accepted arrays that are not a meshgrid"
        if C.is_err(io):
            return "meshgrid_to_1d rejected a meshgrid: " + io[1]
        if io != [E[0], [r[0] for r in N]]:
            return "meshgrid_to_1d did not return E[0, :], N[:, 0]"
        back = vd.utils.meshgrid_from_1d((np.array(io[0]), np.array(io[1])))
        if back[0].tolist() != E or back[1].tolist() != N:
            return "meshgrid_from_1d does not invert meshgrid_to_1d"
        return None
    if fn == "from1d":
        e, n = a
        if C.is_err(io):
            return "meshgrid_from_1d failed: " + io[1]
        if io[0] != [list(e) for _ in n] or io[1] != [[y] * len(e) for y in n]:
            return "meshgrid_from_1d is not the meshgrid of the axes"
        back = vd.utils.meshgrid_to_1d((np.array(io[0]), np.array(io[1])))
        if back[0].tolist() != list(e) or back[1].tolist() != list(n):
            return "meshgrid_to_1d does not invert meshgrid_from_1d"
        return None
    return None


def nontrivial(case, io):
    if case["fn"] == "large":
        return not C.is_err(io)
    return (not C.is_err(io)) and len(C.flat(case["args"][:2])) >= 3


def finding_key(case, io):
    return None
