"""C12 — scores come from models fitted on training data only, with the stated metric."""
import warnings

import dask
import numpy as np
from sklearn.base import clone
from sklearn.model_selection import KFold, ShuffleSplit

import blocks_common as B
import common as C
import gen as G
import verde as vd
from moment import MomentGridder

ID = "C12"
TRANSLATED = "modelsel"   # Gen/Score.lean (select, fit_score, the cross_val_score loop) and Gen/ModelSel.lean (SplineCV.fit selection, train_test_split) are regenerated from /repo and bridged to the model in Props/C12.lean
FILES = ["verde/model_selection.py", "verde/base/utils.py", "verde/base/base_classes.py", "verde/spline.py", "verde/utils.py"]
RULE = ("corpus + seeded datasets (scalar and 2-3 component, weighted or not, 1-D/2-D arrays) x cross-validators {KFold, shuffled KFold, ShuffleSplit, "
        "BlockKFold, BlockShuffleSplit} x scorers {default, r2, neg MSE, neg MAE}; each case runs cross_val_score serially AND with delayed=True under "
        "the synchronous and threaded dask schedulers and in reversed task order, with the order-sensitive MomentGridder (model = same estimator) and "
        "with Trend (oracle: independently fitted clone); train_test_split with and without blocks; SplineCV selection on small damping grids; "
        "non-trivial = accepted call with >= 2 splits; distinct = distinct protocol lines")
ASSUMPTIONS = ["splits of the scikit-learn / verde cross-validators are inputs of the model (their correctness is C11 / scikit-learn's contract)",
               "scikit-learn r2_score / mean_squared_error / mean_absolute_error with sample_weight as documented (force_finite handling modelled)",
               "thread-level interleavings inside numpy/scikit-learn are not modelled: schedule independence is a theorem about the task-event model "
               "plus stress runs under dask's synchronous/threaded schedulers"]
TRUSTED = ["scikit-learn scorers and clone", "dask.delayed / dask.compute schedulers"]

SCORERS = [None, "r2", "neg_mean_squared_error", "neg_mean_absolute_error", "pinball-0.9-loss", "worst-misfit-loss"]
# "pinball-0.9-loss": make_scorer(metric, alpha=0.9, greater_is_better=False); "worst-misfit-loss": a user's own metric, the largest absolute
# misfit - for several components the score is the MEAN over the components of each component's own worst misfit (not the worst of all)
OPTION_SCORERS = ("pinball-0.9-loss", "worst-misfit-loss")


def _worst_misfit(y_true, y_pred, sample_weight=None):
    return float(np.max(np.abs(np.asarray(y_true, dtype=float) - np.asarray(y_pred, dtype=float))))


def scorer_of(scoring):
    """The scikit-learn `scoring` argument for a name in SCORERS."""
    if scoring == "pinball-0.9-loss":
        from sklearn.metrics import make_scorer, mean_pinball_loss
        return make_scorer(mean_pinball_loss, alpha=0.9, greater_is_better=False)
    if scoring == "worst-misfit-loss":
        from sklearn.metrics import make_scorer
        return make_scorer(_worst_misfit, greater_is_better=False)
    return scoring


def metric_of(scoring):
    """Independent evaluation of the same metric: (y, prediction, weights) -> score (greater is better)."""
    from sklearn.metrics import mean_absolute_error, mean_pinball_loss, mean_squared_error, r2_score
    return {None: lambda y, p, w: r2_score(y, p, sample_weight=w), "r2": lambda y, p, w: r2_score(y, p, sample_weight=w),
            "neg_mean_squared_error": lambda y, p, w: -mean_squared_error(y, p, sample_weight=w),
            "neg_mean_absolute_error": lambda y, p, w: -mean_absolute_error(y, p, sample_weight=w),
            "pinball-0.9-loss": lambda y, p, w: -mean_pinball_loss(y, p, sample_weight=w, alpha=0.9),
            "worst-misfit-loss": lambda y, p, w: -_worst_misfit(y, p)}[scoring]


def make_cv(spec):
    kind = spec[0]
    if kind == "kfold":
        return KFold(n_splits=spec[1], shuffle=spec[2], random_state=spec[3] if spec[2] else None)
    if kind == "shuffle":
        return ShuffleSplit(n_splits=spec[1], test_size=spec[2], random_state=spec[3])
    if kind == "shuffle-partial":      # training and test rows together do NOT cover the dataset
        return ShuffleSplit(n_splits=spec[1], test_size=spec[2], train_size=spec[4], random_state=spec[3])
    if kind == "timeseries":           # growing training sets that never cover the rows after the test fold
        from sklearn.model_selection import TimeSeriesSplit
        return TimeSeriesSplit(n_splits=spec[1])
    if kind == "overlap":              # test rows that were also used for fitting (resubstitution / bootstrap-style schemes): still scored, all of them
        return _Overlap(spec[1], spec[2])
    if kind == "blockkfold":
        return vd.BlockKFold(shape=tuple(spec[4]), n_splits=spec[1], shuffle=spec[2], random_state=spec[3])
    if kind == "blockshuffle":
        return vd.BlockShuffleSplit(shape=tuple(spec[4]), n_splits=spec[1], test_size=spec[2], random_state=spec[3])
    raise ValueError(kind)


class _Overlap:
    """A cross-validator whose training and test rows overlap: fit on a with-replacement sample, test on every `step`-th row."""

    def __init__(self, n_splits, step):
        self.n_splits, self.step = n_splits, step

    def get_n_splits(self, X=None, y=None, groups=None):
        return self.n_splits

    def split(self, X, y=None, groups=None):
        n = len(X)
        for k in range(self.n_splits):
            train = np.unique(np.random.RandomState(100 + k).randint(0, n, size=n)) if k % 2 == 0 else np.arange(n)
            yield train, np.arange(k % self.step, n, self.step)


def splits_of(spec, es, ns):
    X = np.column_stack([es, ns])
    with warnings.catch_warnings():
        warnings.simplefilter("ignore")
        return [[[int(i) for i in tr], [int(i) for i in te]] for tr, te in make_cv(spec).split(X)]


def mk_cv(coords, shape2d, data, weights, cvspec, scoring, est, kind):
    try:
        splits = splits_of(cvspec, coords[0], coords[1])
    except Exception:  # noqa: BLE001
        splits = []
    if scoring in OPTION_SCORERS:      # a metric with options is outside the Lean scorer table: decided by the oracle (independent recomputation)
        return {"fn": "cv_score", "kind": kind + "-option-scorer", "args": [coords, shape2d, data, weights, cvspec, scoring, est], "op": "splinecv_select [ [ 0 ] ]",
                "key": repr((coords, data, weights, cvspec, est))}
    return {"fn": "cv_score", "kind": kind, "args": [coords, shape2d, data, weights, cvspec, scoring, est],
            "op": f"cv_score {C.enc(coords)} {C.enc(data)} {C.enc(weights)} {C.enc(splits)} {scoring or 'r2'}"}


def mk_tts(coords, shape2d, data, weights, block_shape, test_size, seed, kind):
    es, ns = coords[0], coords[1]
    X = np.column_stack([es, ns])
    try:
        with warnings.catch_warnings():
            warnings.simplefilter("ignore")
            if block_shape is None:
                tr, te = next(ShuffleSplit(n_splits=1, test_size=test_size, random_state=seed).split(np.arange(len(es))))
            else:
                tr, te = next(vd.BlockShuffleSplit(n_splits=1, shape=tuple(block_shape), test_size=test_size, random_state=seed).split(X))
        sp = [[int(i) for i in tr], [int(i) for i in te]]
    except Exception:  # noqa: BLE001
        sp = [[], []]
    return {"fn": "tts", "kind": kind, "args": [coords, shape2d, data, weights, block_shape, test_size, seed],
            "op": f"tts {C.enc(coords)} {C.enc(data)} {C.enc(weights)} {C.enc(sp)}"}


def mk_score(coords, shape2d, data, weights, scoring, est, kind):
    """gridder.score / score_estimator called directly (fit on the same rows, imperfect fit), arrays in `shape2d`."""
    return {"fn": "score", "kind": kind, "args": [coords, shape2d, data, weights, scoring, est], "op": "splinecv_select [ [ 0 ] ]",
            "key": repr((coords[0][:3], shape2d, scoring, est, weights is None))}


def dataset(rng, maxpts, ncomp=None, extra=False):
    reg, es, ns = B.cloud(rng, maxpts)
    while len(es) < 8:
        reg, es, ns = B.cloud(rng, maxpts)
    n = len(es)
    ncomp = ncomp or rng.choice([1, 1, 2, 3])
    data = [B.values(rng, n) for _ in range(ncomp)]
    weights = [B.pos_weights(rng, n) for _ in range(ncomp)] if rng.random() < 0.5 else None
    coords = [es, ns] + ([B.values(rng, n)] if extra else [])
    shape2d = [n] if (n % 2 or rng.random() < 0.6) else [2, n // 2]
    return coords, shape2d, data, weights


def corpus():
    import random
    rng = random.Random(12)
    coords, shape2d, data, weights = dataset(rng, 24, ncomp=2)
    cs = []
    for sc in SCORERS:
        cs.append(mk_cv(coords, shape2d, data, weights, ["kfold", 3, False, 0], sc, "moment", "corpus"))
    cs.append(mk_cv(coords, shape2d, data[:1], None, ["kfold", 4, True, 3], None, "trend", "corpus-trend"))
    cs.append(mk_cv(coords, shape2d, data, weights, ["blockkfold", 2, True, 1, [2, 2]], "r2", "moment", "corpus-block"))
    # two components, NO weights, a metric that does not separate over components (the score is the mean of the per-component scores)
    cs.append(mk_cv(coords, shape2d, data[:2], None, ["kfold", 3, True, 11], "worst-misfit-loss", "vector", "corpus-vector-unweighted-nonseparable-metric"))
    cs.append(mk_score(coords[:2], [len(coords[0])], data[:2], None, "worst-misfit-loss", "vector", "corpus-vector-unweighted-nonseparable-metric"))
    # an estimator whose `fit` is a forwarding wrapper (no `weights` in its signature): weighted fit on the training rows all the same
    wfw = [[0.25 + ((5 * k) % 7) * (8.0 if k % 3 == 0 else 0.5) for k in range(len(coords[0]))]]
    cs.append(mk_cv(coords, shape2d, data[:1], wfw, ["kfold", 3, True, 5], "r2", "trendw", "corpus-forwarding-fit-weights"))
    cs.append(mk_cv(coords, shape2d, data[:1], wfw, ["shuffle", 2, 0.4, 7], "neg_mean_squared_error", "trendw", "corpus-forwarding-fit-weights"))
    # families exercised on EVERY run: cross-validators whose train and test rows do not cover the dataset
    cs.append(mk_cv(coords, shape2d, data, weights, ["shuffle-partial", 3, 0.25, 5, 0.3], None, "moment", "corpus-partial-shuffle"))
    cs.append(mk_cv(coords, shape2d, data[:1], None, ["timeseries", 4], "neg_mean_squared_error", "trend", "corpus-timeseries"))
    cs.append(mk_cv(coords, shape2d, data, weights, ["timeseries", 3], "r2", "moment", "corpus-timeseries"))
    cs.append(mk_cv(coords, shape2d, data, weights, ["overlap", 3, 2], "r2", "moment", "corpus-overlapping-train-test"))
    cs.append(mk_cv(coords, shape2d, data[:1], None, ["overlap", 2, 1], None, "trend", "corpus-overlapping-train-test"))
    cs.append(mk_cv(coords, shape2d, data[:1], None, ["overlap", 4, 3], "neg_mean_squared_error", "moment", "corpus-overlapping-train-test"))
    # a test fold whose data are all equal (the default score is then 0 for an imperfect prediction, 1 for a perfect one - never infinite / NaN)
    nc_ = len(coords[0])
    flat = [[7.5 if k < (nc_ + 2) // 3 else v for k, v in enumerate(data[0])]]
    cs.append(mk_cv(coords, shape2d, flat, None, ["kfold", 3, False, 0], None, "trend", "corpus-constant-test-fold"))
    cs.append(mk_cv(coords, shape2d, flat, [weights[0]] if weights else None, ["kfold", 3, False, 0], None, "moment", "corpus-constant-test-fold"))
    cs.append(mk_cv(coords, shape2d, [[4.0] * nc_], None, ["kfold", 3, True, 2], None, "trend", "corpus-constant-test-fold"))
    cs.append(mk_tts(coords, shape2d, data, weights, None, 0.25, 5, "corpus-tts"))
    n_ = len(coords[0])
    for sc in SCORERS:
        cs.append(mk_score(coords[:2], [2, n_ // 2] if n_ % 2 == 0 else [n_], data[:1], weights[:1] if weights else None, sc, "trend", "corpus-score-2d"))
    cs.append(mk_score(coords[:2], [2, n_ // 2] if n_ % 2 == 0 else [n_], data[:2], None, None, "vector", "corpus-score-vector-2d"))
    cs.append(mk_tts(coords, shape2d, data, weights, [2, 2], 0.5, 5, "corpus-tts-block"))
    cs.append({"fn": "splinecv", "kind": "corpus-splinecv", "args": [coords[:2], data[0], None, [1e-3, 1e-1, 1e1], 3], "op": "splinecv_select [ [ 0 ] ]"})
    for sc in ("neg_mean_squared_error", "medae-loss"):
        cs.append({"fn": "splinecv", "kind": "corpus-splinecv-loss-scorer", "args": [coords[:2], data[0], None, [1e-3, 1e-1, 1e1], 3, sc],
                   "op": "splinecv_select [ [ 0 ] ]", "key": "corpus-splinecv:" + sc})
    # data in small units, candidates listed with the heaviest damping first: error scores of order 1e-10 still pick the best, not the first
    for sc, f_ in (("neg_mean_squared_error", 1e-4), ("neg_mean_absolute_error", 1e-7), ("medae-loss", 1e-7)):
        cs.append({"fn": "splinecv", "kind": "corpus-splinecv-small-units", "args": [coords[:2], [v * f_ for v in data[0]], None, [1e1, 1e-3, 1e-1], 3, sc],
                   "op": "splinecv_select [ [ 0 ] ]", "key": "splinecv-small-units-" + sc})
    cs.append({"fn": "splinecv", "kind": "corpus-splinecv-mindists", "args": [coords[:2], data[0], None, [1e-3, 1e1], 3, None, [0.0, 1.0, 4.0]],
               "op": "splinecv_select [ [ 0 ] ]", "key": "corpus-splinecv:mindists"})
    return cs


def generate(rng, tier):
    n = 120 if tier == "quick" else 2000
    maxpts = 40 if tier == "quick" else 150
    cs = []
    for _ in range(n):
        u = rng.random()
        coords, shape2d, data, weights = dataset(rng, maxpts, extra=rng.random() < 0.2)
        npts = len(coords[0])
        if u < 0.12:
            est = rng.choice(["trend", "trendw", "chain", "vector"])
            n_ = len(coords[0])
            sh = [2, n_ // 2] if n_ % 2 == 0 else ([3, n_ // 3] if n_ % 3 == 0 else [n_])
            d_, w_ = data, weights
            if est == "vector":
                if len(d_) < 2:
                    d_ = [d_[0], [v * 0.5 - 1.0 for v in d_[0]][::-1]]
                    w_ = None if w_ is None else [w_[0], w_[0][::-1]]
                d_, w_ = d_[:2], (w_[:2] if w_ else None)
            else:
                d_, w_ = d_[:1], (w_[:1] if w_ else None)
            cs.append(mk_score(coords[:2], sh, d_, w_, rng.choice(SCORERS), est, "score-" + est + ("-2d" if len(sh) == 2 else "")))
            continue
        if u < 0.75:
            k = rng.random()
            seed = rng.randint(0, 10**6)
            if k < 0.3:
                spec = ["kfold", rng.randint(2, min(5, npts // 2)), rng.random() < 0.5, seed]
            elif k < 0.4:
                spec = ["shuffle", rng.randint(1, 4), rng.choice([0.25, 0.4, 0.5]), seed]
            elif k < 0.5:
                spec = rng.choice([["shuffle-partial", rng.randint(1, 3), rng.choice([0.25, 0.3]), seed, rng.choice([0.3, 0.5])],
                                   ["timeseries", rng.randint(2, min(4, npts // 3))]])
            elif k < 0.8:
                spec = ["blockkfold", 2, rng.random() < 0.5, seed, [rng.randint(2, 3), rng.randint(2, 3)]]
            else:
                spec = ["blockshuffle", rng.randint(1, 3), 0.5, seed, [rng.randint(2, 3), rng.randint(2, 3)]]
            est = rng.choice(["moment"] * 6 + ["trend", "trendw", "chain", "vector"])
            if est in ("trend", "trendw", "chain"):
                data, weights = data[:1], (weights[:1] if weights else None)
            if est == "vector":
                if len(data) < 2:
                    data = [data[0], [v * 0.5 - 1.0 for v in data[0]][::-1]]
                    weights = None if weights is None else [weights[0], weights[0][::-1]]
                data, weights = data[:2], (weights[:2] if weights else None)
            cs.append(mk_cv(coords, shape2d, data, weights, spec, rng.choice(SCORERS), est, "cv-" + spec[0] + "-" + est))
        elif u < 0.93:
            bs = None if rng.random() < 0.5 else [rng.randint(2, 3), rng.randint(2, 3)]
            cs.append(mk_tts(coords, shape2d, data, weights, bs, rng.choice([0.25, 0.5, 0.3]), rng.randint(0, 10**6),
                             "tts-block" if bs else "tts"))
        else:
            dampings = sorted(rng.sample([1e-4, 1e-3, 1e-2, 1e-1, 1.0, 10.0], rng.randint(2, 3)))
            if rng.random() < 0.4:
                dampings = dampings[::-1]      # (any order: the selection is by score, not by position)
            scoring = rng.choice(SCORERS + ["medae-loss", "neg_root_mean_squared_error"])
            mindists = None if rng.random() < 0.5 else sorted(rng.sample([0.0, 0.5, 2.0, 8.0], rng.randint(2, 3)))
            d0 = data[0]
            if rng.random() < 0.35:
                # data in small units (metres for a millimetre signal): error scores of order 1e-9 .. 1e-12 still rank the candidates
                f_ = rng.choice([1e-4, 1e-6])
                d0 = [v * f_ for v in d0]
                scoring = rng.choice(["neg_mean_squared_error", "neg_mean_absolute_error", "medae-loss"])
            cs.append({"fn": "splinecv", "kind": "splinecv" + ("" if scoring in (None, "r2") else "-loss-scorer") + ("-mindists" if mindists else ""),
                       "args": [coords[:2], d0, weights[0] if weights else None, dampings, rng.randint(2, 3), scoring, mindists],
                       "op": "splinecv_select [ [ 0 ] ]", "key": repr((coords[:2], d0, dampings, scoring, mindists))})
    return cs


def _arrays(coords, shape2d, data, weights, key=""):
    # every array gets its own memory layout (C / Fortran / strided), chosen from the case key
    cs = tuple(C.mkarr(c, shape2d, f"{key}c{i}") for i, c in enumerate(coords))
    ds = tuple(C.mkarr(d, shape2d, f"{key}d{i}") for i, d in enumerate(data))
    ws = None if weights is None else tuple(C.mkarr(w, shape2d, f"{key}w{i}") for i, w in enumerate(weights))
    for a in cs + ds + (ws or ()):
        a.setflags(write=False)
    import zlib
    if len(shape2d) == 1 and zlib.crc32(("series" + key).encode()) % 4 == 0:
        # columns of a DataFrame that was sorted / shuffled without reset_index: same VALUES in the same ORDER, but the
        # index labels are a permutation of 0..n-1 (positional and label-based indexing differ)
        import pandas as pd
        n = shape2d[0]
        idx = [(7 * i + 3) % n for i in range(n)] if n % 7 else list(range(n - 1, -1, -1))
        ser = lambda x: pd.Series(np.asarray(x).copy(), index=idx)  # noqa: E731
        cs, ds = tuple(ser(c) for c in cs), tuple(ser(d) for d in ds)
        ws = None if ws is None else tuple(ser(w) for w in ws)
    d_arg = ds[0] if len(ds) == 1 else ds
    w_arg = None if ws is None else (ws[0] if len(ws) == 1 else ws)
    return cs, d_arg, w_arg


class ForwardingTrend(vd.Trend):
    """A user's subclass that wraps `fit` (logging, timing, unit conversion ...) and forwards whatever it is given: its signature names no
    `weights`, the weights still reach Trend.fit."""

    def fit(self, *args, **kwargs):
        return super().fit(*args, **kwargs)


def mk_est(est):
    if est == "trendw":
        return ForwardingTrend(1)
    if est == "moment":
        return MomentGridder(tag=2)       # fit lingers 2 ms after writing its state
    if est == "trend":
        return vd.Trend(1)
    if est == "chain":
        return vd.Chain([("t0", vd.Trend(0)), ("t1", vd.Trend(1))])
    if est == "vector":
        return vd.Vector([vd.Trend(1), vd.Trend(0)])
    raise ValueError(est)


REAL = ("trend", "trendw", "chain", "vector")


def _deep_state(obj, depth=0):
    """Fingerprint of an estimator INCLUDING the estimators nested in it (Chain steps, Vector components)."""
    if isinstance(obj, np.ndarray):
        return ("arr", obj.shape, obj.dtype.str, obj.tobytes())
    if isinstance(obj, (list, tuple)):
        return [_deep_state(x, depth + 1) for x in obj]
    if hasattr(obj, "get_params") and hasattr(obj, "__dict__") and depth < 6:
        return (type(obj).__name__, id(obj), sorted((k, repr(_deep_state(v, depth + 1))) for k, v in obj.__dict__.items()))
    return repr(obj)


def impl(case):
    a = case["args"]
    fn = case["fn"]
    if fn == "cv_score":
        coords, shape2d, data, weights, cvspec, scoring, est = a
        cs, d_arg, w_arg = _arrays(coords, shape2d, data, weights, case["op"][-60:])
        estimator = mk_est(est)
        prefit = est in REAL and (len(coords[0]) % 2 == 0)
        q = (np.asarray(cs[0]).ravel()[:4] + 0.125, np.asarray(cs[1]).ravel()[:4] - 0.25)
        if prefit:       # the user's own fitted model must survive cross-validation untouched
            estimator.fit(cs, d_arg, w_arg)
            pred0 = _deep_state(estimator.predict(q))
        before = _deep_state(estimator)

        def run():
            serial = vd.cross_val_score(estimator, cs, d_arg, weights=w_arg, cv=make_cv(cvspec), scoring=scorer_of(scoring))
            if _deep_state(estimator) != before:
                raise RuntimeError("estimator (or an estimator nested in it) modified")
            serial = [float(v) for v in serial]
            delayed = vd.cross_val_score(estimator, cs, d_arg, weights=w_arg, cv=make_cv(cvspec), scoring=scorer_of(scoring), delayed=True)
            runs = [dask.compute(*delayed, scheduler="synchronous"), dask.compute(*delayed, scheduler="threads"),
                    tuple(reversed(dask.compute(*reversed(delayed), scheduler="threads")))]
            for r in runs:
                r = [float(v) for v in r]
                if len(r) != len(serial) or any(not (x == y or (x != x and y != y)) for x, y in zip(r, serial)):
                    raise RuntimeError(f"delayed result differs from serial: {r} vs {serial}")
            # lazy scores of a SECOND, different model built before anything is computed, then everything computed in ONE graph:
            # each task must still belong to its own call (no sharing of task names / results across calls)
            other = {"moment": lambda: MomentGridder(tag=5), "trend": lambda: vd.Trend(2), "trendw": lambda: ForwardingTrend(2), "chain": lambda: vd.Chain([("t", vd.Trend(2))]),
                     "vector": lambda: vd.Vector([vd.Trend(0), vd.Trend(2)])}[est]()
            serial_b = [float(v) for v in vd.cross_val_score(other, cs, d_arg, weights=w_arg, cv=make_cv(cvspec), scoring=scorer_of(scoring))]
            lazy_a = vd.cross_val_score(estimator, cs, d_arg, weights=w_arg, cv=make_cv(cvspec), scoring=scorer_of(scoring), delayed=True)
            lazy_b = vd.cross_val_score(other, cs, d_arg, weights=w_arg, cv=make_cv(cvspec), scoring=scorer_of(scoring), delayed=True)
            both = [float(v) for v in dask.compute(*lazy_a, *lazy_b, scheduler="synchronous")]
            same = lambda x, y: len(x) == len(y) and all(p == q or (p != p and q != q) for p, q in zip(x, y))  # noqa: E731
            if not (same(both[:len(serial)], serial) and same(both[len(serial):], serial_b)):
                raise RuntimeError(f"delayed scores of two calls computed in one graph got mixed up: {both} vs {serial} + {serial_b}")
            if _deep_state(estimator) != before:
                raise RuntimeError("estimator (or an estimator nested in it) modified")
            # a hyper-parameter sweep: lazy scores are built for the estimator as it is NOW; the caller then re-configures the same object for
            # the next candidate before anything is computed - the scores still belong to the configuration that was passed in
            if est in ("trend", "trendw", "moment") and not prefit:
                lazy_c = vd.cross_val_score(estimator, cs, d_arg, weights=w_arg, cv=make_cv(cvspec), scoring=scorer_of(scoring), delayed=True)
                saved = estimator.get_params()
                if est in ("trend", "trendw"):
                    estimator.set_params(degree=(saved["degree"] + 1) % 3)
                else:
                    estimator.set_params(tag=saved.get("tag", 0) + 3)
                late = [float(v) for v in dask.compute(*lazy_c, scheduler="synchronous")]
                estimator.set_params(**saved)
                if not same(late, serial):
                    raise RuntimeError(f"delayed scores computed after the caller re-configured the estimator differ from its scores when passed in: {late} vs {serial}")
            if prefit and _deep_state(estimator.predict(q)) != pred0:
                raise RuntimeError("the fitted estimator passed in predicts differently after cross-validation")
            return serial
        r = C.call(run)
        if C.is_err(r):
            return r
        if est in REAL:
            return ["trend", r]
        return [None if v != v else v for v in r]
    if fn == "score":
        coords, shape2d, data, weights, scoring, est = a
        cs, d_arg, w_arg = _arrays(coords, shape2d, data, weights, case["key"][-60:] + "2d")

        def run_score():
            with warnings.catch_warnings():
                warnings.simplefilter("ignore")
                g = mk_est(est).fit(cs, d_arg, w_arg)
                if scoring is None:
                    return float(g.score(cs, d_arg, w_arg))
                from verde.base.utils import score_estimator
                return float(score_estimator(scorer_of(scoring), g, cs, d_arg, weights=w_arg))
        r = C.call(run_score)
        return r if C.is_err(r) else ["score", r]
    if fn == "tts":
        coords, shape2d, data, weights, block_shape, test_size, seed = a
        cs, d_arg, w_arg = _arrays(coords, shape2d, data, weights, case["op"][-60:])
        kw = {} if block_shape is None else {"shape": tuple(block_shape)}
        r = C.call(vd.train_test_split, cs, d_arg, w_arg, test_size=test_size, random_state=seed, **kw)
        if C.is_err(r):
            return r
        out = []
        for part in r:
            c, d, w = part
            wl = None if (w is None or any(i is None for i in w)) else [np.asarray(i).tolist() for i in w]
            out.append([[np.asarray(i).tolist() for i in c], [[np.asarray(i).tolist() for i in d], wl]])
        return out
    if fn == "splinecv":
        return ["splinecv", _splinecv(a)]
    raise C.Infra("unknown fn")


def _splinecv(a):
    coords, data, weights, dampings, k = a[:5]
    scoring = a[5] if len(a) > 5 else None
    mindists = a[6] if len(a) > 6 else None
    scoring = scorer_of(scoring)
    if scoring == "medae-loss":          # a user-made loss scorer (greater_is_better=False): scikit-learn negates it, highest is still best
        from sklearn.metrics import make_scorer, median_absolute_error
        scoring = make_scorer(median_absolute_error, greater_is_better=False)
    cs = tuple(np.array(c) for c in coords)
    d = np.array(data)
    w = None if weights is None else np.array(weights)

    def run():
        with warnings.catch_warnings():
            warnings.simplefilter("ignore")
            cv = KFold(n_splits=k, shuffle=True, random_state=0)
            mkw = {} if mindists is None else {"mindists": tuple(mindists)}
            scv = vd.SplineCV(dampings=dampings, cv=cv, scoring=scoring, **mkw).fit(cs, d, w)
            scv_lazy = vd.SplineCV(dampings=dampings, cv=cv, delayed=True, scoring=scoring, **mkw).fit(cs, d, w)
            lazy_scores = [float(v) for v in dask.compute(*scv_lazy.scores_, scheduler="synchronous")]      # documented: Delayed objects
            if not np.allclose(lazy_scores, scv.scores_, rtol=1e-12, atol=0) or scv_lazy.damping_ != scv.damping_:
                raise RuntimeError(f"SplineCV(delayed=True) differs from the serial run: scores {lazy_scores} vs {list(scv.scores_)}")
            means, cands = [], []
            for md in ([None] if mindists is None else list(mindists)):      # documented order: every mindist, and for each every damping
                for dm in dampings:
                    sp = vd.Spline(damping=dm) if md is None else vd.Spline(damping=dm, mindist=md)
                    sc = vd.cross_val_score(sp, cs, d, weights=w, cv=cv, scoring=scoring)
                    means.append(float(np.mean(sc)))
                    cands.append((md, dm))
            best = int(np.argmax(means))
            bmd, bdm = cands[best]
            ref = (vd.Spline(damping=bdm) if bmd is None else vd.Spline(damping=bdm, mindist=bmd)).fit(cs, d, w)
            q = (cs[0] + 0.125, cs[1] - 0.25)
            if mindists is not None and float(scv.mindist_) != float(bmd) and abs(means[best] - sorted(means)[-2 if len(means) > 1 else -1]) > 1e-9 * max(1.0, abs(means[best])):
                raise RuntimeError(f"SplineCV chose mindist {scv.mindist_} but the highest mean score belongs to mindist {bmd}, damping {bdm}")
            out = {"chosen": float(scv.damping_), "expected": float(bdm), "scores": [float(v) for v in scv.scores_], "means": means,
                   "pred_diff": float(np.max(np.abs(scv.predict(q) - ref.predict(q)))), "scale": float(np.max(np.abs(ref.predict(q))) + 1.0)}
            if len(cs[0]) >= 8:
                # explicit force positions (fewer than the data): the cross-validated candidates AND the final model sit on them
                fc = (cs[0][::2] + 0.0625, cs[1][::2] - 0.03125)
                scf = vd.SplineCV(dampings=dampings, cv=cv, scoring=scoring, force_coords=fc, **mkw).fit(cs, d, w)
                mf = []
                for md in ([None] if mindists is None else list(mindists)):
                    for dm in dampings:
                        sp = vd.Spline(damping=dm, force_coords=fc) if md is None else vd.Spline(damping=dm, mindist=md, force_coords=fc)
                        mf.append((float(np.mean(vd.cross_val_score(sp, cs, d, weights=w, cv=cv, scoring=scoring))), md, dm))
                bf = max(range(len(mf)), key=lambda i_: (mf[i_][0], -i_))
                reff = (vd.Spline(damping=mf[bf][2], force_coords=fc) if mf[bf][1] is None else
                        vd.Spline(damping=mf[bf][2], mindist=mf[bf][1], force_coords=fc)).fit(cs, d, w)
                tie = sorted(x[0] for x in mf)
                if len(tie) < 2 or abs(tie[-1] - tie[-2]) > 1e-9 * max(1.0, abs(tie[-1])):
                    out["forces_pred_diff"] = float(np.max(np.abs(scf.predict(q) - reff.predict(q))))
                    out["forces_scores_diff"] = float(np.max(np.abs(np.array([x[0] for x in mf]) - np.asarray(scf.scores_, dtype=float))))
                    out["forces_count"] = [int(np.size(scf.spline_.force_coords_[0])), int(np.size(fc[0]))]
            return out
    return C.call(run)


def compare(case, io, mo):
    fn = case["fn"]
    if fn in ("splinecv", "score") or (fn == "cv_score" and (case["args"][6] in REAL or case["args"][5] in OPTION_SCORERS)):
        return "ok"      # no model counterpart: decided by the oracle on the implementation
    if fn == "cv_score":
        e = C.err_compare(io, mo)
        if e:
            return e
        mv = C.tofloat(mo)
        if len(io) != len(mv):
            return f"diff:{len(io)} scores vs {len(mv)} splits"
        for x, y in zip(io, mv):
            if (x is None) != (y is None):
                return f"diff:score {x} vs {y}"
            if x is not None and abs(x - y) > 1e-8 * max(1.0, abs(y)):
                return f"diff:score {x} vs {y}"
        return "ok"
    return C.std_compare(io, mo, tol=0.0)


def oracle(case, io):
    a = case["args"]
    fn = case["fn"]
    if fn == "splinecv":
        r = io[1]
        if C.is_err(r):
            return "SplineCV failed: " + r[1]
        if not np.allclose(r["scores"], r["means"], rtol=1e-9, atol=1e-12):
            return f"SplineCV.scores_ {r['scores']} are not the mean cross-validated scores {r['means']}"
        if r["chosen"] != r["expected"]:
            return f"SplineCV chose damping {r['chosen']} but the highest mean score belongs to {r['expected']}"
        if r["pred_diff"] > 1e-6 * r["scale"]:
            return "SplineCV does not predict like a Spline with the selected parameters fitted to all the data"
        if "forces_pred_diff" in r and (r["forces_count"][0] != r["forces_count"][1] or r["forces_pred_diff"] > 1e-6 * r["scale"]
                                        or r["forces_scores_diff"] > 1e-9 * max(1.0, max(abs(v) for v in r["means"]))):
            return (f"SplineCV(force_coords=...): the final model has {r['forces_count'][0]} forces for {r['forces_count'][1]} given positions, its "
                    f"predictions differ from the selected Spline on those positions by {r['forces_pred_diff']}, scores by {r['forces_scores_diff']}")
        return None
    if fn == "score":
        coords, shape2d, data, weights, scoring, est = a
        if C.is_err(io):
            return "score failed: " + io[1]
        from sklearn.metrics import mean_absolute_error, mean_squared_error, r2_score
        ncomp = 2 if est == "vector" else 1
        E, N = np.array(coords[0]), np.array(coords[1])
        D = tuple(np.array(data[c]) for c in range(ncomp))
        W = None if weights is None else tuple(np.array(weights[c]) for c in range(ncomp))
        with warnings.catch_warnings():
            warnings.simplefilter("ignore")
            t = mk_est(est).fit((E, N), D if ncomp > 1 else D[0], None if W is None else (W if ncomp > 1 else W[0]))
            pred = t.predict((E, N))
        pred = pred if ncomp > 1 else (pred,)
        metric = metric_of(scoring)
        exp = float(np.mean([metric(D[c], pred[c], None if W is None else W[c]) for c in range(ncomp)]))
        got = io[1]
        if not (abs(got - exp) <= 1e-7 * max(1.0, abs(exp))):
            return (f"score {got} of arrays of shape {shape2d} is not the {scoring or 'r2'} over ALL points, averaged over components and "
                    f"weighted by the weights ({exp})")
        return None
    if fn == "cv_score":
        coords, shape2d, data, weights, cvspec, scoring, est = a
        if C.is_err(io):
            return "cross_val_score failed, was schedule dependent, or modified the estimator: " + io[1]
        scores = io[1] if est in REAL else [float("nan") if v is None else v for v in io]
        splits = splits_of(cvspec, coords[0], coords[1])
        if len(scores) != len(splits):
            return "one score per split expected"
        from sklearn.metrics import mean_absolute_error, mean_squared_error, r2_score
        for (tr, te), got in zip(splits, scores):
            sel = lambda arr, idx: np.array(arr)[idx]  # noqa: E731
            ncomp = len(data)
            dtr = tuple(sel(data[c], tr) for c in range(ncomp))
            wtr = None if weights is None else tuple(sel(weights[c], tr) for c in range(ncomp))
            t = mk_est(est).fit((sel(coords[0], tr), sel(coords[1], tr)), dtr if ncomp > 1 else dtr[0],
                                None if wtr is None else (wtr if ncomp > 1 else wtr[0]))
            pred = t.predict((sel(coords[0], te), sel(coords[1], te)))
            pred = pred if ncomp > 1 else (pred,)
            metric = metric_of(scoring)
            exp = float(np.mean([metric(sel(data[c], te), pred[c], None if weights is None else sel(weights[c], te)) for c in range(ncomp)]))
            if not (abs(got - exp) <= 1e-7 * max(1.0, abs(exp)) or (got != got and exp != exp)):
                return f"score {got} is not the {scoring or 'r2'} of a fresh clone fitted on the training rows and evaluated on the test rows ({exp})"
        return None
    if fn == "tts":
        coords, shape2d, data, weights, block_shape, test_size, seed = a
        if C.is_err(io):
            return "train_test_split failed: " + io[1]
        n = len(coords[0])
        (trc, (trd, trw)), (tec, (ted, tew)) = io
        rows = list(zip(*(list(coords) + list(data) + list(weights or []))))
        got_tr = list(zip(*(trc + trd + (trw or []))))
        got_te = list(zip(*(tec + ted + (tew or []))))
        if len(got_tr) + len(got_te) != n:
            return "train and test sizes do not add up"
        pool = list(rows)
        for r in got_tr + got_te:
            if r in pool:
                pool.remove(r)
            else:
                return "a returned row is not an (aligned) row of the input: coordinates, data and weights were misaligned"
        if pool:
            return "train and test are not complementary"
        if block_shape is not None:
            labels = vd.block_split((np.array(coords[0]), np.array(coords[1])), shape=tuple(block_shape))[1]
            lab = {}
            for i, r in enumerate(rows):
                lab.setdefault(r, set()).add(int(labels[i]))
            ltr = set().union(*[lab[r] for r in got_tr]) if got_tr else set()
            lte = set().union(*[lab[r] for r in got_te]) if got_te else set()
            if ltr & lte and len(set(rows)) == len(rows):
                return "a block contributes rows to both train and test"
        return None
    return None


def nontrivial(case, io):
    if C.is_err(io):
        return False
    if case["fn"] == "score":
        return True
    if case["fn"] == "cv_score":
        v = io[1] if case["args"][6] in REAL else io
        return len(v) >= 2
    return True


def finding_key(case, io):
    return None
