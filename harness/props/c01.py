"""C01 — exact interpolators reproduce the data at the data points; Trend reproduces polynomials everywhere."""
import warnings

import numpy as np

import common as C
import gen as G
import verde as vd
from props import large as L

ID = "C01"
TRANSLATED = "fit"         # Gen/Fit.lean (Trend.fit, Spline.fit as specifications over Gen/Trend, Gen/Loops, Gen/LeastSquares) is regenerated from /repo; Props/C01.lean proves polynomial reproduction / exactness end to end
FILES = ["verde/spline.py", "verde/vector.py", "verde/neighbors.py", "verde/scipygridder.py", "verde/trend.py", "verde/chain.py",
         "verde/base/least_squares.py"]
RULE = ("corpus + seeded pairwise-distinct point sets (3..14 points quick / 30 thorough, array shapes 1-D/2-D, coordinate scales 1e-2..1e6, offsets up to "
        "1e3 x extent): (a) Trend of degree 0..4 fitted to an exact polynomial of degree <= N and evaluated away from the data (model: exact rational fit), "
        "(b) undamped Spline / VectorSpline2D with forces at the data (model: exact solution of the implementation's own square system, which reproduces "
        "the data exactly), (c) KNeighbors(k=1) (model: nearest datum), (d) Linear, Cubic, Chain and Vector compositions (oracle: residual at the data "
        "against a tolerance proportional to the conditioning); non-trivial = accepted fit with >= 3 points; distinct = distinct protocol lines")
ASSUMPTIONS = ["float tolerance proportional to the condition number of the system (measured with numpy on the Jacobian and on its unit-variance-column form); "
               "systems with cond > 1e9 are counted ambiguous, and so is a departure from the data when cond > 1e5 (scikit-learn's LinearRegression(tol=1e-6) "
               "truncates singular values there)",
               "SciPy's Linear/CloughTocher interpolators interpolate their nodes (contract; tested only)"]
TRUSTED = ["LAPACK / scikit-learn LinearRegression", "scipy.interpolate interpolators", "scipy cKDTree"]


def pts(rng, n, scale, offset):
    seen, es, ns = set(), [], []
    while len(es) < n:
        x, y = rng.randint(-64, 64) / 64.0, rng.randint(-64, 64) / 64.0
        if (x, y) not in seen:
            seen.add((x, y))
            es.append(offset + 8 * scale * x)
            ns.append(-offset + 8 * scale * y)
    return es, ns


def combos(deg):
    return [(t - j, j) for t in range(deg + 1) for j in range(t + 1)]


def mk_trend(es, ns, deg, pdeg, coef, kind, s=1.0, sn=None, f32=False):
    """s, sn (powers of two, so everything stays exactly representable): scales of the easting and the northing (the same unless sn is given -
    a survey much longer than wide, or coordinates in different units); the polynomial is c_ij (x/s)^i (y/sn)^j.
    f32: the data are handed over in single precision (the model fits the rounded values)."""
    cb = combos(deg)
    sn = s if sn is None else sn
    if s != 1.0 or sn != 1.0:
        es, ns = [x * s for x in es], [y * sn for y in ns]
        coef = [c / (s ** i * sn ** j) for c, (i, j) in zip(coef, cb)]
    if f32:
        d32 = [float(np.float32(float(sum(C.fq(c) * C.fq(x) ** i * C.fq(y) ** j for c, (i, j) in zip(coef, cb))))) for x, y in zip(es, ns)]
        qe = [es[0] + 0.375 * s, 0.5 * s, -3.25 * s, es[-1] * 2]
        qn = [ns[0] - 0.125 * sn, -1.5 * sn, 2.0 * sn, ns[-1] * 2]
        return {"fn": "trend", "kind": kind + "-f32data", "args": [es, ns, deg, coef, d32, qe, qn, False],
                "op": f"trend_fit {C.enc(es)} {C.enc(ns)} {C.enc(d32)} none {deg} {C.enc(qe)} {C.enc(qn)}"}
    d = [float(sum(C.fq(c) * C.fq(x) ** i * C.fq(y) ** j for c, (i, j) in zip(coef, cb))) for x, y in zip(es, ns)]
    exact = all(C.fq(v) == sum(C.fq(c) * C.fq(x) ** i * C.fq(y) ** j for c, (i, j) in zip(coef, cb)) for v, x, y in zip(d, es, ns))
    qe = [es[0] + 0.375 * s, 0.5 * s, -3.25 * s, es[-1] * 2]
    qn = [ns[0] - 0.125 * sn, -1.5 * sn, 2.0 * sn, ns[-1] * 2]
    return {"fn": "trend", "kind": kind, "args": [es, ns, deg, coef, d, qe, qn, exact],
            "op": f"trend_fit {C.enc(es)} {C.enc(ns)} {C.enc(d)} none {deg} {C.enc(qe)} {C.enc(qn)}"}


def _forces(es, ns, params):
    """Explicit force positions: every data point once, in ANOTHER order (sorted by northing, then easting) - still one force under every datum."""
    if not params.get("forces"):
        return None
    order = sorted(range(len(es)), key=lambda k: (ns[k], -es[k]))
    return (np.array([es[k] for k in order]), np.array([ns[k] for k in order]))


def mk_exact(which, es, ns, shape2d, data, params, kind):
    """Spline / vector: model solves the implementation's square system exactly; others: oracle only."""
    op = "power_comb 0"
    with warnings.catch_warnings():
        warnings.simplefilter("ignore")
        coords = (np.array(es), np.array(ns))
        fc = _forces(es, ns, params) or coords
        if which == "spline":
            J = vd.Spline(mindist=params.get("mindist", 0)).jacobian(coords, fc)
            op = f"lstsq {C.enc(J.tolist())} {C.enc(data[0])} none none {J.shape[1]}"
        elif which == "vector":
            J = vd.VectorSpline2D(poisson=params["poisson"], mindist=params["mindist"]).jacobian(coords, fc)
            op = f"lstsq {C.enc(J.tolist())} {C.enc(list(data[0]) + list(data[1]))} none none {J.shape[1]}"
        elif which == "knn":
            op = f"knn {C.enc(es)} {C.enc(ns)} {C.enc(data[0])} 1 mean {C.enc([[x, y] for x, y in zip(es, ns)])}"
    return {"fn": "exact", "kind": kind, "args": [which, es, ns, shape2d, data, params], "op": op}


def corpus():
    return _corpus() + [L.case("predict_in_pieces", ["spline-many-forces", 70001, 3, "float64"], "corpus-large-queries"),
                       L.case("predict_in_pieces", ["spline-many-forces", 4200, 4, "float64"], "corpus-large-queries")]


def _corpus():
    import random
    rng = random.Random(1)
    es, ns = pts(rng, 9, 1.0, 0.0)
    cs = [mk_trend(es, ns, 2, 2, [1.0, 2.0, -3.0, 0.5, 0.25, -1.0], "corpus-trend"),
          mk_trend(es, ns, 2, 1, [1.0, 2.0, -3.0] + [0.0] * 3, "corpus-trend-lower-degree")]
    d = [rng.randint(-32, 32) / 4.0 for _ in es]
    for which, params in (("spline", {}), ("spline", {"mindist": 2.0}), ("vector", {"poisson": 0.5, "mindist": 4.0}), ("knn", {}),
                          ("linear", {"rescale": False}), ("cubic", {"rescale": True}), ("chain-trend-spline", {}), ("vector-of", {}),
                          ("chain-trend-knn", {})):
        cs.append(mk_exact(which, es, ns, [9], [d, d[::-1]], params, "corpus-" + which))
    # tiny point sets at unit spacing (pixel indices as coordinates): the documented kernel r^2 (ln r - 1) is -1 there, the systems are well posed
    for ue, un, ud in (([3.0, 4.0], [7.0, 7.0], [1.5, -2.0]), ([0.0, 1.0, 2.0], [5.0, 5.0, 5.0], [2.0, -1.0, 4.5]), ([2.0, 2.0], [0.0, 1.0], [3.0, 3.5]),
                       ([0.0, 1.0, 0.0], [0.0, 0.0, 1.0], [1.0, 2.0, 4.0])):
        for which in ("spline", "chain-trend-spline") if len(ue) > 2 else ("spline",):
            cs.append(mk_exact(which, ue, un, [len(ue)], [ud, ud[::-1]], {}, "corpus-unit-distances-" + which))
    di = [float(rng.randint(-40, 40)) for _ in es]
    for which in ("chain-trend-knn", "chain-trend-spline", "vector-of", "knn", "linear"):
        cs.append(mk_exact(which, es, ns, [9], [di, di[::-1]], {"rescale": False} if which == "linear" else {}, "corpus-intdata-" + which))
    # families that must be exercised on EVERY run, whatever the seed (each was once needed to expose a seeded change):
    e8, n8 = pts(rng, 8, 1.0, 0.0)
    d8 = [rng.randint(-32, 32) / 4.0 for _ in e8]
    # forces given explicitly: one under every data point, listed in another order (the system is square but no longer symmetric)
    cs.append(mk_exact("vector", e8, n8, [8], [d8, d8[::-1]], {"poisson": 0.5, "mindist": 2.0, "forces": "permuted"}, "corpus-vector-forces-permuted"))
    cs.append(mk_exact("spline", e8, n8, [2, 4], [d8, d8[::-1]], {"mindist": 1.0, "forces": "permuted"}, "corpus-spline-forces-permuted"))
    for which, params in (("vector", {"poisson": 0.0, "mindist": 2.0}), ("spline", {}), ("chain-trend-spline", {}), ("vector-of", {}),
                          ("chain-trend-linear-knn", {}), ("chain-trend-trend-spline", {})):
        cs.append(mk_exact(which, e8, n8, [2, 4], [d8, d8[::-1]], params, "corpus-2d-" + which))       # 2-D arrays
    for deg in (2, 3, 4):
        npar = (deg + 1) * (deg + 2) // 2
        et, nt = pts(rng, npar + 5, 0.125, 0.0)
        coef = [rng.randint(-16, 16) / 4.0 or 1.0 for _ in combos(deg)]                                   # every monomial present
        for e2 in (-7, 0, 17):
            cs.append(mk_trend(et, nt, deg, deg, coef, f"corpus-trend-{deg}-full-scale2^{e2}", 2.0 ** e2))
        # a survey far longer than wide (or easting and northing in different units): the two directions live in different binades
        for e2, n2 in ((17, 19), (20, 17), (5, -3)):
            cs.append(mk_trend(et, nt, deg, deg, coef, f"corpus-trend-{deg}-anisotropic-2^{e2}-2^{n2}", 2.0 ** e2, 2.0 ** n2))
        # single-precision data at map-projection magnitudes (judged at single-precision accuracy)
        cs.append(mk_trend(et, nt, deg, deg, coef, f"corpus-trend-{deg}-scale2^17", 2.0 ** 17, 2.0 ** 18, f32=True))
    # finding F2 (known_findings.json): SciPy's simplex search misses a hull vertex when the offset is ~1e3 x the extent and rescale=False
    f2e = [159.945, 159.96375, 160.0525, 159.9725, 159.96, 159.99875, 160.04625, 159.98875, 159.94625, 159.9525, 160.07375, 159.92875, 160.075, 160.04, 159.97875, 160.065, 160.04875]
    f2n = [-160.04125, -160.05375, -159.9325, -159.93125, -159.97875, -159.9525, -160.03875, -159.97375, -160.03875, -160.04375, -159.99875, -159.93125, -160.0, -160.0475, -160.0675, -159.94, -159.98125]
    f2d = [[2.5, 2.75, -12.5, -12.0, 8.25, -0.25, -14.25, 6.0, -3.75, -14.75, -9.75, -10.5, -5.5, -7.0, 4.25, -5.0, 7.75], [-12.5, 13.75, -3.75, -3.25, -14.25, -6.75, -7.75, 7.75, 13.75, 0.5, -3.5, -2.25, 15.5, 6.75, 11.75, 16.0, 6.25]]
    cs.append(mk_exact("chain-trend-linear-knn", f2e, f2n, [len(f2e)], f2d, {}, "corpus-F2-offset-1e3-extent"))
    cs.append(mk_exact("linear", f2e, f2n, [len(f2e)], f2d, {"rescale": False}, "corpus-F2-offset-1e3-extent-linear"))
    cs.append(mk_exact("linear", f2e, f2n, [len(f2e)], f2d, {"rescale": True}, "corpus-offset-1e3-extent-linear-rescaled"))
    return cs


def generate(rng, tier):
    n = 200 if tier == "quick" else 3000
    maxpts = 14 if tier == "quick" else 30
    cs = []
    for _ in range(n):
        scale = rng.choice([1.25e-3, 1e-2, 1.0, 1.0, 10.0, 1e3, 1e6])      # extents 2e-2 (coordinates of order 1e-2) .. 1.6e7
        offset = rng.choice([0.0, 0.0, 16.0 * scale * rng.choice([1.0, 10.0, 1e3])])
        if rng.random() < 0.4:
            deg = rng.randint(0, 4)
            pdeg = rng.randint(0, deg)
            npar = (deg + 1) * (deg + 2) // 2
            es, ns = pts(rng, npar + rng.randint(2, 8), rng.choice([0.125, 0.25]), 0.0)
            coef = [rng.randint(-16, 16) / 4.0 if (i + j) <= pdeg else 0.0 for (i, j) in combos(deg)]
            e2 = rng.choice([-7, -3, 0, 0, 7, 17])       # coordinates of order 1e-2 .. 1e5 (the fit is scale-free by design: unit-variance columns)
            n2 = e2 + rng.choice([0, 0, 0, -2, 2, 3])
            cs.append(mk_trend(es, ns, deg, pdeg, coef, f"trend-{deg}-poly{pdeg}" + (f"-scale2^{e2}" if e2 else "") + (f"-north2^{n2}" if n2 != e2 else ""),
                               2.0 ** e2, 2.0 ** n2, f32=rng.random() < 0.1))
            continue
        npts = rng.randint(3, maxpts)
        es, ns = pts(rng, npts, scale, offset)
        shape2d = [npts] if (npts % 2 or rng.random() < 0.6) else [2, npts // 2]
        data = [[rng.randint(-64, 64) / 4.0 for _ in es] for _ in range(2)]
        if rng.random() < 0.2:      # integer-valued data, handed over with an integer dtype (see impl)
            data = [[float(rng.randint(-64, 64)) for _ in es] for _ in range(2)]
        which = rng.choice(["spline", "spline", "vector", "knn", "linear", "cubic", "chain-trend-spline", "vector-of", "chain-trend-knn",
                            "chain-trend-linear-knn", "chain-trend-trend-spline"])
        params = {"spline": {"mindist": rng.choice([0, 0, 1e-3 * scale, scale])},
                  "vector": {"poisson": rng.choice([-1.0, -0.5, 0.0, 0.5, 1.0]), "mindist": rng.choice([0.5, 2.0, 8.0]) * scale},
                  "linear": {"rescale": rng.random() < 0.5}, "cubic": {"rescale": rng.random() < 0.5}}.get(which, {})
        if which in ("spline", "vector") and rng.random() < 0.25:
            params = dict(params, forces="permuted")
        cs.append(mk_exact(which, es, ns, shape2d, data, params, which + ("-forces-permuted" if params.get("forces") else "")))
    return cs


def build(which, params):
    if which == "spline":
        return vd.Spline(mindist=params.get("mindist", 0)), 1
    if which == "vector":
        return vd.VectorSpline2D(poisson=params["poisson"], mindist=params["mindist"]), 2
    if which == "knn":
        return vd.KNeighbors(k=1), 1
    if which == "linear":
        return vd.Linear(rescale=params["rescale"]), 1
    if which == "cubic":
        return vd.Cubic(rescale=params["rescale"]), 1
    if which == "chain-trend-spline":
        return vd.Chain([("trend", vd.Trend(1)), ("spline", vd.Spline())]), 1
    if which == "chain-trend-knn":
        return vd.Chain([("step", vd.Trend(2)), ("step", vd.KNeighbors(k=1))]), 1       # names are labels only (may repeat)
    if which == "chain-trend-linear-knn":       # three predicting steps: every one of them contributes to the sum
        return vd.Chain([("trend", vd.Trend(1)), ("linear", vd.Linear()), ("knn", vd.KNeighbors(k=1))]), 1
    if which == "chain-trend-trend-spline":
        return vd.Chain([("t0", vd.Trend(0)), ("t2", vd.Trend(2)), ("spline", vd.Spline())]), 1
    if which == "vector-of":
        return vd.Vector([vd.Spline(), vd.Chain([("trend", vd.Trend(1)), ("knn", vd.KNeighbors(1))])]), 2
    raise ValueError(which)


def impl(case):
    if case["fn"] == "large":
        r = C.call(L.run, case["args"])
        return r if C.is_err(r) else ["large", r]
    a = case["args"]

    def run():
        with warnings.catch_warnings():
            warnings.simplefilter("ignore")
            if case["fn"] == "trend":
                es, ns, deg, coef, d, qe, qn, exact = a
                t = vd.Trend(deg).fit((np.array(es), np.array(ns)), np.array(d, dtype="float32") if case["kind"].endswith("-f32data") else np.array(d))
                return {"coef": [float(v) for v in t.coef_], "pred": [float(v) for v in t.predict((np.array(qe), np.array(qn)))]}
            which, es, ns, shape2d, data, params = a
            g, ncomp = build(which, params)
            fc = _forces(es, ns, params)
            if fc is not None:
                import zlib as _z
                k_ = _z.crc32(("fcshape" + case["op"]).encode()) % 4
                nf = len(fc[0])
                if k_ == 1:      # the force positions as plain Python lists
                    fc = tuple(x.tolist() for x in fc)
                elif which == "spline" and k_ == 2:      # ... as column vectors (a table's columns sliced with [:, [j]])
                    fc = tuple(x.reshape(nf, 1) for x in fc)
                elif which == "spline" and k_ == 3:      # ... as 2-D arrays (forces on a grid), a single row if their number is prime
                    r_ = next((q for q in (2, 3, 5) if nf % q == 0 and nf > q), 1)
                    fc = tuple(x.reshape(r_, nf // r_) for x in fc)
                g.set_params(force_coords=fc)
            import zlib
            coords = (C.mkarr(es, shape2d, "es:" + case["op"]), C.mkarr(ns, shape2d, "ns:" + case["op"]))
            buffers = zlib.crc32(("buffers" + case["op"]).encode()) % 3 == 0
            if buffers:      # the caller's own writable, contiguous arrays - which it goes on using after the fit (see below)
                coords = (np.array(es, dtype=float).reshape(shape2d), np.array(ns, dtype=float).reshape(shape2d))
            d = tuple(C.mkarr(x, shape2d, f"d{i}:" + case["op"]) for i, x in enumerate(data[:ncomp]))
            if all(float(v).is_integer() for x in data[:ncomp] for v in x):
                d = tuple(np.asarray(x).astype("int64") for x in d)      # "all finite data values": also integer-typed ones
            elif zlib.crc32(("f32" + case["op"]).encode()) % 4 == 0 and all(float(np.float32(v)) == v for x in data[:ncomp] for v in x):
                d = tuple(np.asarray(x).astype("float32") for x in d)      # ... and single-precision ones (read from a netCDF / GeoTIFF file)
            if which != "vector" and fc is None and zlib.crc32(("hist" + case["op"]).encode()) % 3 == 0:      # (VectorSpline2D documents its force memory)
                # history: the same object was fitted before, to FEWER points elsewhere; exactness must hold for the latest fit
                m0 = max(3, len(es) // 2)
                pe = np.array([es[0] + 0.37 * (es[-1] - es[0] + 1.0) * (k % 5) - 0.11 * k * k for k in range(m0)]) + 0.013
                pn = np.array([ns[0] - 0.29 * (ns[-1] - ns[0] + 1.0) * (k % 3) + 0.07 * k * k for k in range(m0)]) - 0.021
                pd_ = tuple(np.cos(pe + 0.3 * c) + pn for c in range(ncomp))
                try:
                    g.fit((pe, pn), pd_[0] if ncomp == 1 else pd_)
                except Exception:  # noqa: BLE001  (degenerate warm-up cloud for a Delaunay-based gridder: history simply absent)
                    g, _ = build(which, params)
                    if fc is not None:
                        g.set_params(force_coords=fc)
            g.fit(coords, d[0] if ncomp == 1 else d)
            h2 = zlib.crc32(("after" + case["op"]).encode()) % 3
            if h2 == 1:
                # after the fit, hyper-parameters that only steer FITTING are changed (the scikit-learn way: they take effect at the next fit);
                # what the fitted model predicts is unchanged
                shifted = (np.ravel(coords[0]) * 0.5 + 3.0, np.ravel(coords[1]) * 0.5 - 2.0)
                for est in ([g] + [st for _, st in getattr(g, "steps", [])] + list(getattr(g, "components", []))):
                    if isinstance(est, (vd.Spline,)):
                        est.set_params(force_coords=shifted, damping=1e-2)
                    if isinstance(est, vd.Chain):
                        for _, st in est.steps:
                            if isinstance(st, vd.Spline):
                                st.set_params(force_coords=shifted, damping=1e-2)
            if h2 == 2:
                # after the fit, a refit is ATTEMPTED with arguments the estimator refuses up front (arrays of different sizes; for the
                # tree-based ones a non-finite coordinate): the caller catches the error and goes on using the fitted estimator
                bad = (np.ravel(coords[0])[:-1], np.ravel(coords[1]))
                try:
                    g.fit(bad, np.ravel(d[0]) if ncomp == 1 else tuple(np.ravel(x) for x in d))
                except Exception:  # noqa: BLE001
                    pass
                if which in ("knn", "linear", "cubic"):
                    e_bad = np.ravel(coords[0]).astype(float).copy()
                    e_bad[0] = np.nan
                    try:
                        g.fit((e_bad, np.ravel(coords[1])), -7.5 * np.ravel(d[0]).astype(float) + 1.0)
                    except Exception:  # noqa: BLE001
                        pass
            if buffers:
                # the caller shifts its origin / reads the next survey into the same arrays: the fitted model keeps the positions it was fitted on
                coords[0][...] = coords[0] * -2.0 + 1000.0
                coords[1][...] = coords[1] * 0.5 - 333.0
                coords = (np.array(es, dtype=float).reshape(shape2d), np.array(ns, dtype=float).reshape(shape2d))
            pred = g.predict(coords)
            pred = (pred,) if ncomp == 1 else pred
            if any(list(p.shape) != list(shape2d) for p in pred):
                raise RuntimeError("wrong output shape")
            return {"pred": [p.ravel().tolist() for p in pred]}
    r = C.call(run)
    return r if C.is_err(r) else ["fit", r]


def _cond(case):
    which, es, ns, shape2d, data, params = case["args"]
    coords = (np.array(es), np.array(ns))
    with warnings.catch_warnings():
        warnings.simplefilter("ignore")
        J = None
        fc = _forces(es, ns, params) or coords
        if which in ("spline", "chain-trend-spline", "vector-of", "chain-trend-trend-spline"):
            # the conditioning is that of the DOCUMENTED system (kernel r^2 (ln r - 1) of the distance plus mindist), assembled here by hand: a kernel
            # that makes a well-posed problem singular is then not excused by the singularity it created
            r_ = np.hypot(coords[0].ravel()[:, None] - np.asarray(fc[0], dtype=float).ravel()[None, :],
                          coords[1].ravel()[:, None] - np.asarray(fc[1], dtype=float).ravel()[None, :]) + params.get("mindist", 0)
            with np.errstate(divide="ignore", invalid="ignore"):
                J = np.where(r_ > 0, r_ ** 2 * (np.log(np.where(r_ > 0, r_, 1.0)) - 1.0), 0.0)
        if which == "vector":
            J = vd.VectorSpline2D(poisson=params["poisson"], mindist=params["mindist"]).jacobian(coords, fc)
        if J is not None:
            sd = J.std(axis=0)      # least_squares solves the unit-variance-column system: its conditioning counts too
            return float(max(np.linalg.cond(J), np.linalg.cond(J / np.where(sd == 0, 1.0, sd))))
    return 1.0


# scikit-learn >= 1.7 LinearRegression(tol=1e-6) hands `tol` to scipy.linalg.lstsq as `cond`: singular values below 1e-6 of the largest are
# dropped, so beyond a conditioning of about 1e5 the "exact" fit is a truncated one and departs from the data by far more than round-off.
# The property's tolerance is "proportional to the conditioning of the system"; such systems are counted ambiguous (as in C02), never decided.
SOLVER_CUTOFF_COND = 1e5


def compare(case, io, mo):
    if case["fn"] == "large":
        return "diff:implementation failed: " + io[1] if C.is_err(io) else "ok"
    if C.is_err(io):
        return "diff:implementation failed: " + io[1]
    r = io[1]
    if case["fn"] == "trend":
        if mo == "singular":
            return "amb"
        coef_m, pred_m = C.tofloat(mo[0]), C.tofloat(mo[1])
        # coefficients are compared by what they contribute over the data's extent: c_ij * L^(i+j), L the largest |coordinate|
        L = max(abs(v) for v in case["args"][0] + case["args"][1]) or 1.0
        wts = [L ** (i + j) for (i, j) in combos(case["args"][2])]
        sc = max(1.0, max(abs(v) * w for v, w in zip(coef_m, wts)))
        if case["kind"].endswith("-f32data"):
            # single-precision data make a single-precision design matrix (by design): judged on the predictions, at single-precision accuracy
            # times the conditioning such systems have (1e-2 of the data's size; a lost or zeroed term is of the data's size)
            dsc = max(1.0, max(abs(v) for v in case["args"][4]))
            for x, y in zip(r["pred"][:2], pred_m[:2]):
                if not (abs(x - y) <= 1e-2 * max(dsc, abs(y))):
                    return f"diff:prediction {x} vs {y} (single-precision data)"
            return "ok"
        for x, y, w in zip(r["coef"], coef_m, wts):
            if not (abs(x - y) * w <= 1e-6 * sc):
                return f"diff:coef {x} vs {y}"
        for x, y in zip(r["pred"], pred_m):
            if not (abs(x - y) <= 1e-6 * max(1.0, abs(y))):
                return f"diff:prediction {x} vs {y}"
        return "ok"
    which = case["args"][0]
    if which in ("spline", "vector"):
        if mo == "singular":
            return "amb"
        if mo[1] != "T":
            return "diff:model certificate failed"
        op = C.dec(case["op"])
        J = np.array([[float(C.tofrac(x)) for x in row] for row in op[1]])
        pm = J @ np.array(C.tofloat(mo[0]))
        pi = np.array(r["pred"][0] + (r["pred"][1] if which == "vector" else []))
        cond = _cond(case)
        if cond > 1e9:
            return "amb"
        sc = max(1.0, float(np.max(np.abs(pm))))
        if not (np.max(np.abs(pm - pi)) <= 1e-13 * cond * sc + 1e-9 * sc):
            if cond > SOLVER_CUTOFF_COND:
                return "amb"
            return f"diff:predictions at the data differ from the exact solution of the same system by {np.max(np.abs(pm - pi))} (cond {cond:.1e})"
        return "ok"
    if which == "knn":
        pm = C.tofloat(mo[0])
        return "ok" if r["pred"][0] == pm else f"diff:knn {r['pred'][0][:4]} vs {pm[:4]}"
    return "ok"


def oracle(case, io):
    if case["fn"] == "large":
        return (io[1] or None) if not C.is_err(io) else "failed: " + io[1]
    if C.is_err(io):
        return "fit/predict failed: " + io[1]
    r = io[1]
    a = case["args"]
    if case["fn"] == "trend":
        es, ns, deg, coef, d, qe, qn, exact = a
        if not exact:
            return None
        jac = np.array([[float(C.fq(x) ** i * C.fq(y) ** j) for (i, j) in combos(deg)] for x, y in zip(es, ns)])      # (the oracle's own design matrix)
        jac = jac / np.maximum(np.max(np.abs(jac), axis=0), 1e-300)      # (the fit is scale-free: conditioning is judged on unit-size columns)
        if np.linalg.matrix_rank(jac) < jac.shape[1] or np.linalg.cond(jac) > 1e9:
            return None      # points not unisolvent for this degree
        cb = combos(deg)
        L = max(abs(v) for v in es + ns) or 1.0
        wts = [L ** (i + j) for (i, j) in cb]
        sc = max(1.0, max(abs(c) * w for c, w in zip(coef, wts)))
        for k, (x, y) in enumerate(zip(r["coef"], coef)):
            if not (abs(x - y) * wts[k] <= 1e-6 * sc):
                return f"Trend({deg}) fitted to a polynomial of degree <= {deg} returned coefficient {k} = {x}, polynomial has {y}"
        for x, qx, qy in zip(r["pred"], qe, qn):
            v = float(sum(C.fq(c) * C.fq(qx) ** i * C.fq(qy) ** j for c, (i, j) in zip(coef, cb)))
            if not (abs(x - v) <= 1e-6 * max(1.0, abs(v))):
                return f"Trend({deg}) does not reproduce the polynomial away from the data: {x} vs {v} at ({qx}, {qy})"
        return None
    which, es, ns, shape2d, data, params = a
    cond = _cond(case)
    if cond > 1e9:
        return None
    for c, pred in enumerate(r["pred"]):
        d = np.array(data[c])
        sc = max(1.0, float(np.max(np.abs(d))))
        err = float(np.max(np.abs(np.array(pred) - d)))
        if not np.all(np.isfinite(pred)) or err > (1e-13 * cond + 1e-9) * sc:      # (same constant as the comparison with the exact solution)
            if np.all(np.isfinite(pred)) and cond > SOLVER_CUTOFF_COND:
                return None
            return (f"{which} {params}: prediction at the data points differs from the fitted values by {err} "
                    f"(component {c}, condition number {cond:.1e}, data scale {sc})")
    return None


def nontrivial(case, io):
    if case["fn"] == "large":
        return not C.is_err(io)
    return (not C.is_err(io)) and len(case["args"][1]) >= 3


def _on_hull_boundary(es, ns, k):
    """Exact: some line through point k has every point on one closed side."""
    P = [(C.fq(x), C.fq(y)) for x, y in zip(es, ns)]
    px, py = P[k]
    for j, (qx, qy) in enumerate(P):
        if j == k:
            continue
        o = [(qx - px) * (ry - py) - (qy - py) * (rx - px) for rx, ry in P]
        if all(v >= 0 for v in o) or all(v <= 0 for v in o):
            return True
    return False


def finding_key(case, io):
    """F2: an interpolator built on SciPy's Delaunay simplex search returns NaN at one of its own data points that lies on the BOUNDARY of
    the data's convex hull (round-off in `find_simplex`'s barycentric test: seen at offsets of 1e3 x the extent and, rarely, without any
    offset); everything else about the answer is right."""
    if case["fn"] != "exact" or C.is_err(io):
        return None
    which, es, ns, shape2d, data, params = case["args"]
    if which not in ("linear", "cubic", "chain-trend-linear-knn"):
        return None
    pred = np.array(io[1]["pred"][0])
    d = np.array(data[0])
    bad = [int(k) for k in np.where(~np.isfinite(pred))[0]]
    if not bad or not all(np.isnan(pred[k]) and _on_hull_boundary(es, ns, k) for k in bad):
        return None
    ok = np.isfinite(pred)
    sc = max(1.0, float(np.max(np.abs(d))))
    if np.any(ok) and float(np.max(np.abs(pred[ok] - d[ok]))) > 1e-9 * sc:
        return None
    return "F2-delaunay-misses-hull-boundary-datum"
