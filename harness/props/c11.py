"""C11 — blocked cross-validators never split a block and partition the data."""
import itertools
import math
import warnings

import numpy as np
from sklearn.model_selection import ShuffleSplit

import blocks_common as B
import common as C
import gen as G
import verde as vd
from props import large as L

ID = "C11"
TRANSLATED = "cvsplit"     # Gen/Utils.lean (partition_by_sum) and Gen/CVSplit.lean (BlockKFold / BlockShuffleSplit._iter_test_indices) are regenerated from /repo and bridged to the model in Props/C11.lean
FILES = ["verde/model_selection.py", "verde/base/base_classes.py", "verde/utils.py", "verde/coordinates.py"]
RULE = ("exhaustive small block-occupancy vectors (<= 4 occupied blocks x <= 4 points in quick, <= 6 x <= 5 in thorough; all n_splits, shuffle and "
        "balance on/off) realised as point layouts with empty blocks, seeded larger uneven layouts, BlockShuffleSplit over test sizes / balancing / seeds "
        "(the shuffled block order and ShuffleSplit candidates are read from the same RandomState/ShuffleSplit calls and passed to the model), "
        "partition_by_sum directly, invalid constructor arguments; non-trivial = accepted call yielding >= 2 splits; distinct = distinct protocol lines")
ASSUMPTIONS = ["RandomState(seed).shuffle and sklearn ShuffleSplit/KFold are inputs/contracts of the model (permutation and candidate splits passed in)",
               "block labels from block_split (C08); layouts place points at block centres so no label is near a tie"]
TRUSTED = ["sklearn.model_selection.ShuffleSplit / KFold / BaseCrossValidator.split (contract)", "numpy.searchsorted/cumsum/split/isin"]


def layout(occ, ncols, rng):
    """Points for an occupancy vector over a grid of unit blocks with `ncols` columns; returns es, ns, shape (rows, cols)."""
    nb = len(occ)
    nrows = (nb + ncols - 1) // ncols
    es, ns = [], []
    for b, cnt in enumerate(occ):
        i, j = divmod(b, ncols)
        for k in range(cnt):
            es.append(j + 0.5 + (rng.randint(-3, 3) / 16.0 if k else 0.0))
            ns.append(i + 0.5 + (rng.randint(-3, 3) / 16.0 if k else 0.0))
    # make sure the bounding box is the full grid so that shape=(nrows, ncols) gives unit blocks
    es += [0.0625, ncols - 0.0625]
    ns += [0.0625, nrows - 0.0625]
    order = list(range(len(es)))
    rng.shuffle(order)
    return [es[k] for k in order], [ns[k] for k in order], (nrows, ncols)


def mk_kfold(es, ns, shape, spacing, nsplits, shuffle, seed, balance, kind):
    order = None
    if shuffle and (shape or spacing):
        try:
            with warnings.catch_warnings():
                warnings.simplefilter("ignore")
                labels = vd.block_split((np.array(es), np.array(ns)), spacing=spacing, shape=shape)[1]
            ids = np.unique(labels)
            np.random.RandomState(seed).shuffle(ids)
            order = [int(v) for v in ids]
        except Exception:  # noqa: BLE001
            order = None
    sp = None if spacing is None else [float(v) for v in np.atleast_1d(spacing)]
    return {"fn": "kfold", "kind": kind, "args": [es, ns, shape, spacing, nsplits, shuffle, seed, balance],
            "op": f"kfold {C.enc(es)} {C.enc(ns)} {C.enc(None if shape is None else list(shape))} {C.enc(sp)} {nsplits} "
                  f"{C.enc(bool(balance))} {C.enc(order)}"}


def mk_shuffle(es, ns, shape, spacing, nsplits, test_size, train_size, seed, balancing, kind):
    cands = []
    try:
        with warnings.catch_warnings():
            warnings.simplefilter("ignore")
            labels = vd.block_split((np.array(es), np.array(ns)), spacing=spacing, shape=shape)[1]
            ids = np.unique(labels)
            for tr, te in ShuffleSplit(n_splits=nsplits * max(balancing, 0), test_size=test_size, train_size=train_size,
                                       random_state=seed).split(ids):
                cands.append([[int(v) for v in tr], [int(v) for v in te]])
    except Exception:  # noqa: BLE001
        cands = None
    sp = None if spacing is None else [float(v) for v in np.atleast_1d(spacing)]
    return {"fn": "shuffle", "kind": kind, "args": [es, ns, shape, spacing, nsplits, test_size, train_size, seed, balancing],
            "op": f"shuffle {C.enc(es)} {C.enc(ns)} {C.enc(None if shape is None else list(shape))} {C.enc(sp)} {nsplits} "
                  f"{max(balancing, 0)} {C.enc(cands)}"}


def mk_part(sizes, parts, kind):
    return {"fn": "partition", "kind": kind, "args": [sizes, parts], "op": f"partition {C.enc(sizes)} {parts}"}


def corpus():
    return _corpus() + [L.case("kfold_blocks", [30011, 1, [30, 30], 3, True], "corpus-many-blocks"),
                       L.case("kfold_blocks", [20000, 2, [25, 26], 2, True], "corpus-many-blocks"),
                       L.case("kfold_blocks", [9001, 3, [40, 40], 4, False], "corpus-many-blocks")]


def _corpus():
    import random
    rng = random.Random(7)
    cs = [mk_part(list(range(10)), 2, "corpus-partition"), mk_part(list(range(10)), 3, "corpus-partition"),
          mk_part([5, 6, 4, 6, 8, 1, 2, 6, 3, 3], 5, "corpus-partition"), mk_part([10, 1, 1], 2, "corpus-D3"),
          mk_part(list(range(10)), 8, "corpus-nopartition"), mk_part(list(range(10)), 11, "corpus-too-many")]
    es, ns, shape = layout([10, 1, 1, 0], 2, rng)
    cs.append(mk_kfold(es, ns, shape, None, 2, False, 0, True, "corpus-D3"))
    cs.append(mk_kfold(es, ns, shape, None, 3, True, 5, True, "corpus-uneven"))
    cs.append(mk_kfold(es, ns, shape, None, 5, False, 0, True, "too-many-splits"))
    cs.append(mk_kfold(es, ns, shape, None, 1, False, 0, True, "too-few-splits"))
    cs.append(mk_kfold(es, ns, None, None, 2, False, 0, True, "no-spacing-shape"))
    cs.append(mk_shuffle(es, ns, shape, None, 3, 0.34, None, 1, 4, "corpus-shuffle"))
    cs.append(mk_shuffle(es, ns, shape, None, 3, 0.34, None, 1, 0, "bad-balancing"))
    return cs


def generate(rng, tier):
    cs = []
    maxb, maxp = (4, 3) if tier == "quick" else (6, 4)
    seen = 0
    # exhaustive occupancy vectors
    for nb in range(2, maxb + 1):
        for occ in itertools.product(range(0, maxp + 1), repeat=nb):
            if sum(1 for o in occ if o) < 2:
                continue
            if tier == "quick" and rng.random() < 0.55:
                continue
            if tier == "thorough" and nb >= 5 and rng.random() < 0.8:
                continue
            ncols = rng.choice([c for c in (1, 2, 3) if c <= nb])
            es, ns, shape = layout(list(occ), ncols, rng)
            nocc = len(set(zip([int(e) for e in es], [int(n) for n in ns])))
            for k in range(2, min(nocc, 5) + 1):
                bal = rng.random() < 0.7
                shuf = rng.random() < 0.4
                cs.append(mk_kfold(es, ns, shape, None, k, shuf, rng.randint(0, 99), bal, "exhaustive-occupancy"))
                seen += 1
    # sparse data on a fine block grid (survey lines): few points, thousands of mostly empty blocks, block ids spread over a wide range
    for _ in range(4 if tier == "quick" else 60):
        nside = rng.choice([70, 80, 100])
        es, ns = [], []
        for line in range(9):          # densely sampled lines (2-3 points per block along the line), far apart
            start = rng.randint(0, (nside - 18) * 8) / 8.0
            m = rng.randint(30, 44)
            for k in range(m):
                es.append(start + 0.40625 * k + 1 / 256)
                ns.append(round((0.05 + 0.1 * line) * nside * 8) / 8 + 0.3 + 1 / 512)
        es += [0.0, float(nside)]
        ns += [0.0, float(nside)]        # corner points: the block grid spans nside x nside unit blocks
        if rng.random() < 0.6:
            cs.append(mk_shuffle(es, ns, (nside, nside), None, rng.randint(1, 3), rng.choice([0.25, 0.3, 0.4]), None, rng.randint(0, 10**6),
                                 rng.randint(1, 3), "shuffle-sparse-fine-grid"))
        else:
            cs.append(mk_kfold(es, ns, (nside, nside), None, rng.randint(2, 5), rng.random() < 0.5, rng.randint(0, 10**6), rng.random() < 0.7,
                               "kfold-sparse-fine-grid"))
    n = 150 if tier == "quick" else 3000
    for _ in range(n):
        u = rng.random()
        nb = rng.randint(2, 16)
        occ = [rng.choice([0, 0, 1, 1, 2, 3, 5, 12, 40]) for _ in range(nb)]
        if sum(1 for o in occ if o) < 2:
            occ[0], occ[-1] = 3, 1
        ncols = rng.randint(1, min(4, nb))
        es, ns, shape = layout(occ, ncols, rng)
        use_spacing = rng.random() < 0.3
        shape_arg, spacing_arg = (None, 1.0) if use_spacing else (shape, None)
        nocc = sum(1 for o in occ if o) + 0
        if u < 0.45:
            k = rng.randint(2, max(2, min(nocc, 8)))
            cs.append(mk_kfold(es, ns, shape_arg, spacing_arg, k, rng.random() < 0.5, rng.randint(0, 10**6), rng.random() < 0.7, "kfold-random"))
        elif u < 0.85:
            ts = rng.choice([0.1, 0.25, 0.3, 0.5, 0.7, 1, 2])
            tr = rng.choice([None, None, None, 0.3, 1])
            if rng.random() < 0.15:
                ts, tr = None, rng.choice([0.5, 0.6, 0.75, 1, 2])       # only the training share is given: the test set is its complement
            cs.append(mk_shuffle(es, ns, shape_arg, spacing_arg, rng.randint(1, 4), ts, tr, rng.randint(0, 10**6), rng.randint(1, 6),
                                 "shuffle-random"))
        else:
            sizes = [rng.choice([1, 1, 2, 3, 5, 12, 40]) for _ in range(rng.randint(1, 12))]
            cs.append(mk_part(sizes, rng.randint(1, len(sizes) + 1), "partition-random"))
    return cs


def _splits(cv, es, ns):
    X = np.column_stack([es, ns])
    # history: the same cross-validator object is first used on a different cloud; it must not remember anything
    try:
        with warnings.catch_warnings():
            warnings.simplefilter("ignore")
            list(cv.split(X[::-1] * 2.0 + 5.0))
    except Exception:  # noqa: BLE001
        pass
    out = []
    for tr, te in cv.split(X):
        out.append([[int(v) for v in tr], [int(v) for v in te]])
    # reproducibility on the SAME object: a fixed random_state must give the same splits on every pass
    again = [[[int(v) for v in tr], [int(v) for v in te]] for tr, te in cv.split(X)]
    if again != out:
        raise RuntimeError("not reproducible: a second split() of the same object with the same fixed random_state differs")
    return out


def _splits_fresh(cv, es, ns):
    X = np.column_stack([es, ns])
    return [[[int(v) for v in tr], [int(v) for v in te]] for tr, te in cv.split(X)]


def impl(case):
    if case["fn"] == "large":
        r = C.call(L.run, case["args"])
        return r if C.is_err(r) else ["large", r]
    a = case["args"]
    fn = case["fn"]
    if fn == "partition":
        r = C.call(vd.utils.partition_by_sum, a[0], a[1])
        return r if C.is_err(r) else [int(v) for v in r]
    es, ns = a[0], a[1]
    if fn == "kfold":
        _, _, shape, spacing, nsplits, shuffle, seed, balance = a
        def run():
            with warnings.catch_warnings(record=True) as w:
                warnings.simplefilter("always")
                cv = vd.BlockKFold(spacing=spacing, shape=shape, n_splits=nsplits, shuffle=shuffle, random_state=seed, balance=balance)
                s1 = _splits(cv, es, ns)
                fb = any("Could not balance" in str(i.message) for i in w)
            s2 = _splits_fresh(vd.BlockKFold(spacing=spacing, shape=shape, n_splits=nsplits, shuffle=shuffle, random_state=seed, balance=balance), es, ns)
            if s1 != s2:
                raise RuntimeError("not reproducible: an object used before on other data splits differently from a fresh one (same random_state)")
            return [fb, s1]
        return C.call(run)
    if fn == "shuffle":
        _, _, shape, spacing, nsplits, test_size, train_size, seed, balancing = a
        def run():
            mk = lambda: vd.BlockShuffleSplit(spacing=spacing, shape=shape, n_splits=nsplits, test_size=test_size,  # noqa: E731
                                              train_size=train_size, random_state=seed, balancing=balancing)
            s1 = _splits(mk(), es, ns)
            if s1 != _splits_fresh(mk(), es, ns):
                raise RuntimeError("not reproducible: an object used before on other data splits differently from a fresh one (same random_state)")
            return s1
        return C.call(run)
    raise C.Infra("unknown fn")


def _best_sets(case):
    """Per group of candidates: the test-block sets whose exact imbalance metric is minimal (ties are legitimate: the code
    compares float metrics, so among exactly tied candidates either may be 'the best')."""
    a = case["args"]
    es, ns, shape, spacing, nsplits, test_size, train_size, seed, balancing = a
    labels = _labels(es, ns, shape, spacing)
    ids = sorted(set(labels))
    sizes = {}
    for l in labels:
        sizes[l] = sizes.get(l, 0) + 1
    sp = list(ShuffleSplit(n_splits=nsplits * balancing, test_size=test_size, train_size=train_size, random_state=seed).split(np.arange(len(ids))))
    out = []
    for g in range(nsplits):
        ms = []
        for trb, teb in sp[g * balancing:(g + 1) * balancing]:
            trp = sum(sizes[ids[j]] for j in trb)
            tep = sum(sizes[ids[j]] for j in teb)
            ms.append((abs(C.fq(trp) / tep - C.fq(len(trb)) / len(teb)), frozenset(ids[j] for j in teb)))
        best = min(m for m, _ in ms)
        out.append((best, [t for m, t in ms if m == best], labels))
    return out


def compare(case, io, mo):
    if case["fn"] == "large":
        return "diff:implementation failed: " + io[1] if C.is_err(io) else "ok"
    r = C.std_compare(io, mo, tol=0.0)
    if r != "ok" and case["fn"] == "shuffle" and not C.is_err(io) and not C.is_err(mo):
        try:
            bs = _best_sets(case)
            if len(io) == len(bs) and all(frozenset(bs[g][2][i] for i in te) in bs[g][1] for g, (tr, te) in enumerate(io)):
                return "amb"      # an exactly tied candidate was selected (float tie-break)
        except Exception:  # noqa: BLE001
            pass
    if r != "ok" and case["fn"] != "partition" and not C.is_err(io):
        a = case["args"]
        if B.near_tie(a[0], a[1], None, a[2], a[3], "spacing"):
            return "amb"
    return r


def _labels(es, ns, shape, spacing):
    with warnings.catch_warnings():
        warnings.simplefilter("ignore")
        return [int(v) for v in vd.block_split((np.array(es), np.array(ns)), spacing=spacing, shape=shape)[1]]


def _check_split(labels, tr, te, n):
    if sorted(tr + te) != list(range(n)) or set(tr) & set(te):
        return "train and test are not a partition of the sample indices"
    lt = set(labels[i] for i in te)
    ltr = set(labels[i] for i in tr)
    if lt & ltr:
        return f"block(s) {sorted(lt & ltr)} contribute points to both train and test"
    return None


def oracle(case, io):
    if case["fn"] == "large":
        return (io[1] or None) if not C.is_err(io) else "failed on a large input: " + io[1]
    a = case["args"]
    fn = case["fn"]
    if fn == "partition":
        sizes, parts = a
        if parts > len(sizes):
            return None if C.is_err(io) and io[1] == "ValueError" else "more parts than elements not rejected"
        # independent reading of the documented rule: split where the running sum passes k * (total // parts); refuse only if that
        # leaves an empty part (a split point at 0 or a repeated one)
        import bisect
        run, acc = [], 0
        for v in sizes:
            acc += v
            run.append(acc)
        want = [bisect.bisect_right(run, k * (acc // parts)) for k in range(1, parts)]
        achievable = not (want and want[0] == 0) and len(set(want)) == len(want)
        if C.is_err(io):
            if io[1] != "ValueError":
                return "unexpected error " + io[1]
            return f"refused although the split points {want} leave no part empty" if achievable else None
        pts = io
        if len(pts) != parts - 1 or any(b <= a_ for a_, b in zip(pts, pts[1:])) or (pts and (pts[0] <= 0 or pts[-1] >= len(sizes))):
            return f"split points {pts} leave an empty part"
        return None
    es, ns = a[0], a[1]
    shape, spacing = a[2], a[3]
    if shape is None and spacing is None:
        return None if C.is_err(io) and io[1] == "ValueError" else "neither spacing nor shape not rejected"
    labels = _labels(es, ns, shape, spacing)
    nb = len(set(labels))
    n = len(es)
    sizes = {}
    for l in labels:
        sizes[l] = sizes.get(l, 0) + 1
    if fn == "kfold":
        nsplits, shuffle, seed, balance = a[4], a[5], a[6], a[7]
        if nsplits < 2 or nsplits > nb:
            return None if C.is_err(io) and io[1] == "ValueError" else "invalid n_splits not rejected"
        if C.is_err(io):
            return "valid arguments rejected / not reproducible: " + io[1]
        fb, splits = io
        if len(splits) != nsplits:
            return f"{len(splits)} folds for n_splits={nsplits}"
        seen = []
        for tr, te in splits:
            r = _check_split(labels, tr, te, n)
            if r:
                return r
            if not te:
                return "empty test fold"
            seen += te
        if sorted(seen) != list(range(n)):
            return "test folds do not cover every sample exactly once"
        if balance and not fb:
            ideal = n // nsplits
            M = max(sizes.values())
            for k, (tr, te) in enumerate(splits):
                target = ideal + (n % nsplits if k == nsplits - 1 else 0)
                if abs(len(te) - target) > M:
                    return f"balanced fold {k} has {len(te)} points; more than one block population ({M}) away from {target}"
        else:
            counts = sorted(len(set(labels[i] for i in te)) for tr, te in splits)
            if counts[-1] - counts[0] > 1:
                return f"equal-block folds differ by more than one block: {counts}"
        return None
    if fn == "shuffle":
        nsplits, test_size, train_size, seed, balancing = a[4], a[5], a[6], a[7], a[8]
        if balancing < 1:
            return None if C.is_err(io) and io[1] == "ValueError" else "balancing < 1 not rejected"
        # what sklearn prescribes
        try:
            exp_splits = list(ShuffleSplit(n_splits=nsplits * balancing, test_size=test_size, train_size=train_size, random_state=seed)
                              .split(np.arange(nb)))
        except ValueError:
            return None if C.is_err(io) and io[1] == "ValueError" else "sizes rejected by ShuffleSplit were accepted"
        if C.is_err(io):
            return "valid arguments rejected / not reproducible: " + io[1]
        if len(io) != nsplits:
            return f"{len(io)} splits for n_splits={nsplits}"
        ids = sorted(set(labels))
        for g, (tr, te) in enumerate(io):
            r = _check_split(labels, tr, te, n)
            if r:
                return r
            ntest_blocks = len(set(labels[i] for i in te))
            if ntest_blocks != len(exp_splits[0][1]):
                return f"split {g} tests {ntest_blocks} blocks; test_size/train_size prescribe {len(exp_splits[0][1])}"
            bestm, best_sets, _ = _best_sets(case)[g]
            got = frozenset(labels[i] for i in te)
            if got not in best_sets:
                return (f"split {g} tests blocks {sorted(got)} but the best point-balanced of its {balancing} candidates "
                        f"test {[sorted(b) for b in best_sets]} (metric {float(bestm)})")
        return None
    return None


def nontrivial(case, io):
    if case["fn"] == "large":
        return not C.is_err(io)
    if C.is_err(io):
        return False
    if case["fn"] == "partition":
        return len(io) >= 1
    splits = io[1] if case["fn"] == "kfold" else io
    return len(splits) >= 2 or case["fn"] == "shuffle"


def finding_key(case, io):
    return None
