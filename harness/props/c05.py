"""C05 — grid/profile/scatter place each prediction at the right coordinate."""
import warnings

import numpy as np

import common as C
import gen as G
import verde as vd
from props import large as L
from moment import PolyGridder

ID = "C05"
TRANSLATED = "gridder"     # Gen/Gridder.lean (BaseGridder.scatter / profile and their helpers, statement by statement) is regenerated from /repo and bridged to the model in Props/C05.lean
FILES = ["verde/base/base_classes.py", "verde/utils.py", "verde/coordinates.py", "verde/synthetic.py"]
RULE = ("corpus + seeded calls of BaseGridder.grid / profile / scatter on an asymmetric analytic gridder (1..4 components, a + b e + c n + d e n with "
        "dyadic coefficients) over regions (given or defaulting to region_), shapes/spacings (both adjust modes, both registrations), extra_coords, explicit "
        "1-D or 2-D coordinates (+ 2-D extra coordinates), projections (affine, shear, cubic, square), custom dims and data names, plus single "
        "inconsistencies (coordinates+shape, coordinates+region, non-meshgrid, name counts, >3 unnamed components, no region); fitted Trend and "
        "CheckerBoard grids, and grid()/scatter() with the DEFAULT region on ten kinds of really fitted gridders (incl. chains starting with block "
        "reductions and vectors: region_ must be the bounding box of the data given to fit), are checked by the oracle; explicit coordinates come in "
        "ascending, descending and shuffled order; non-trivial = accepted call with >= 2 output cells/rows; distinct = distinct protocol lines")
ASSUMPTIONS = ["xarray/pandas containers (see C18)", "RandomState variates are inputs of the model (scatter)",
               "profile distances compared through their squares (model is rational); profile trigonometry absorbed by 1e-9 tolerance"]
TRUSTED = ["xarray.Dataset, pandas.DataFrame", "numpy.hypot/arctan2/cos/sin in profile_coordinates"]

PROJS = {
    "affine": lambda p: (lambda e, n: (p[0] * e + p[1], p[2] * n + p[3])),
    "cube": lambda p: (lambda e, n: (e * e * e / p[0], n)),
    "square": lambda p: (lambda e, n: (e * e, n * n)),
    "shear": lambda p: (lambda e, n: (e + p[0] * n, n - p[0] * e)),
    # smooth non-linear map with a smooth inverse (well conditioned both ways): used for profile() only (no rational model)
    "sinh": lambda p: (lambda e, n: (p[0] * np.sinh(np.asarray(e) / p[0]), n)),
}


def proj_fn(pr, inverse_too=False):
    if pr is None:
        return None
    kind, p = pr
    f = PROJS[kind](p)
    if not inverse_too:
        return f
    if kind == "affine":
        g = lambda e, n: ((e - p[1]) / p[0], (n - p[3]) / p[2])  # noqa: E731
    elif kind == "sinh":
        g = lambda e, n: (p[0] * np.arcsinh(np.asarray(e) / p[0]), n)  # noqa: E731   (monotone, NON-linear)
    else:
        den = 1 + p[0] * p[0]
        g = lambda e, n: ((e - p[0] * n) / den, (n + p[0] * e) / den)  # noqa: E731

    def both(e, n, inverse=False):
        return g(e, n) if inverse else f(e, n)
    return both


def rand_proj(rng, invertible=False):
    if rng.random() < 0.55:
        return None
    kind = rng.choice(["affine", "shear"] if invertible else ["affine", "shear", "cube", "square"])
    p = {"affine": [rng.choice([-2.0, 0.5, 4.0]), rng.randint(-8, 8) / 2.0, rng.choice([-0.25, 2.0, 1.0]), rng.randint(-8, 8) / 2.0],
         "shear": [rng.choice([0.5, -0.25, 2.0])], "cube": [rng.choice([1.0, 16.0])], "square": []}[kind]
    return [kind, p]


def rand_coefs(rng, ncomp):
    return [[rng.randint(-8, 8) / 2.0, rng.randint(-8, 8) / 2.0, rng.choice([1000.0, -64.0, 16.0]) + rng.randint(0, 3), rng.randint(-4, 4) / 8.0]
            for _ in range(ncomp)]


def mk_grid(coefs, rdef, region, shape, spacing, adjust, pixel, extra, coords, proj, dims, names, kind):
    sp = None if spacing is None else [float(v) for v in np.atleast_1d(spacing)]
    return {"fn": "grid", "kind": kind, "args": [coefs, rdef, region, shape, spacing, adjust, pixel, extra, coords, proj, dims, names],
            "op": f"bg_grid {C.enc(coefs)} {C.enc(rdef)} {C.enc(region)} {C.enc(None if shape is None else list(shape))} {C.enc(sp)} {adjust} "
                  f"{C.enc(bool(pixel))} {C.enc(extra or [])} {C.enc(coords)} {C.enc(proj)} {C.enc(None if dims is None else list(dims))} {C.enc(names)}"}


def mk_profile(coefs, p1, p2, size, proj, extra, dims, names, kind):
    if proj is not None and proj[0] == "sinh":
        # non-linear invertible projection: the model's rational inverse does not exist (cube root); decided by the oracle alone
        d = {"fn": "profile", "kind": kind + "-nonlinear", "args": [coefs, p1, p2, size, proj, extra, dims, names], "op": "check_region [ 0 1 0 1 ]"}
        d["key"] = repr(d["args"])
        return d
    return {"fn": "profile", "kind": kind, "args": [coefs, p1, p2, size, proj, extra, dims, names],
            "op": f"bg_profile {C.enc(coefs)} {C.enc(list(p1))} {C.enc(list(p2))} {size} {C.enc(proj)} {C.enc(extra or [])} "
                  f"{C.enc(None if dims is None else list(dims))} {C.enc(names)}"}


def mk_scatter(coefs, rdef, region, size, seed, extra, proj, dims, names, kind):
    rs = np.random.RandomState(seed)
    ue, un = rs.random_sample(size).tolist(), rs.random_sample(size).tolist()
    return {"fn": "scatter", "kind": kind, "args": [coefs, rdef, region, size, seed, extra, proj, dims, names],
            "op": f"bg_scatter {C.enc(coefs)} {C.enc(rdef)} {C.enc(region)} {C.enc(ue)} {C.enc(un)} {C.enc(extra or [])} {C.enc(proj)} "
                  f"{C.enc(None if dims is None else list(dims))} {C.enc(names)}"}


ONE = [[0.0, 2.0, 1000.0, 0.125]]


def corpus():
    return _corpus() + [L.case("predict_in_pieces", ["spline", 131075, 1, "float64"], "corpus-large-queries"),
                       L.case("predict_in_pieces", ["spline", 65536 * 3, 2, "float64"], "corpus-large-queries"),
                       L.case("grid_in_pieces", [[331, 401], 1], "corpus-large-grid"),
                       L.case("grid_in_pieces", [[256, 512], 2], "corpus-large-grid"),
                       L.case("predict_in_pieces", ["knn", 70001, 5, "float64"], "corpus-large-queries"),
                       L.case("predict_in_pieces", ["linear", 66001, 6, "float64"], "corpus-large-queries")]


def _corpus():
    e, n = [1.0, 2.0, 4.0], [10.0, 20.0]
    E, N = [list(e) for _ in n], [[y] * 3 for y in n]
    up = [[7.0, 7.5, 8.0], [9.0, 9.5, 10.0]]
    cs = [mk_grid(ONE, [0.0, 4.0, 0.0, 2.0], None, (2, 3), None, "spacing", False, None, None, None, None, None, "corpus-region-default"),
          mk_grid(ONE, None, [0.0, 4.0, 0.0, 2.0], None, [1.0, 2.0], "region", True, [5.0, 6.0], None, ["shear", [0.5]], ("lat", "lon"), ["a"], "corpus-all"),
          mk_grid(ONE + ONE, None, None, None, None, "spacing", False, None, [e, n, []], None, None, None, "corpus-coords-1d"),
          mk_grid(ONE, None, None, None, None, "spacing", False, None, [E, N, [up]], None, None, None, "corpus-coords-2d"),
          mk_grid(ONE, None, None, None, None, "spacing", False, None, [[4.0, 2.0, 1.0], [20.0, 10.0], []], None, None, None, "corpus-coords-1d-descending"),
          mk_grid(ONE, None, None, None, None, "spacing", False, None, [[[4.0, 2.0, 1.0]] * 2, [[20.0] * 3, [10.0] * 3], [up]], None, None, None, "corpus-coords-2d-descending"),
          mk_grid(ONE, None, [0.0, 4.0, 0.0, 2.0], (2, 2), None, "spacing", False, None, [e, n, []], None, None, None, "bad-coords+shape"),
          mk_grid(ONE, None, [0.0, 4.0, 0.0, 2.0], None, None, "spacing", False, None, [e, n, []], None, None, None, "bad-coords+region"),
          mk_grid(ONE, None, None, (2, 2), None, "spacing", False, None, None, None, None, None, "bad-no-region"),
          mk_grid(ONE * 4, None, [0.0, 4.0, 0.0, 2.0], (2, 2), None, "spacing", False, None, None, None, None, None, "bad-4-unnamed"),
          mk_grid(ONE * 4, None, [0.0, 4.0, 0.0, 2.0], (2, 2), None, "spacing", False, None, None, None, None, ["a", "b", "c", "d"], "4-named"),
          mk_grid(ONE, None, [0.0, 4.0, 0.0, 2.0], (2, 2), None, "spacing", False, None, None, None, None, ["a", "b"], "bad-name-count"),
          mk_profile(ONE, (0.0, 0.0), (4.0, 2.0), 3, ["shear", [0.5]], [7.0], None, None, "corpus-profile"),
          mk_profile(ONE * 2, (1.0, -1.0), (1.0, 5.0), 5, None, None, ("y", "x"), ["u", "v"], "corpus-profile-vertical"),
          mk_profile(ONE, (-2.0, 1.0), (4.0, 3.0), 7, ["sinh", [4.0]], None, None, None, "corpus-profile"),
          mk_profile(ONE, (1.5, -2.0), (1.5, -2.0), 4, None, None, None, None, "corpus-profile-zero-length"),
          mk_profile([[1.0, 2e-5, -3e-6, 0.0]], (412000.0, 4100000.0), (498000.0, 4163000.0), 5, None, None, None, None, "profile-utm-int"),
          mk_scatter(ONE, [0.0, 4.0, 0.0, 2.0], None, 5, 0, None, None, None, None, "corpus-scatter")]
    for k, which in enumerate(FITTED):
        cs.append(mk_fitted(which, 11 + k, (3, 4), None, "fitted-" + which))
        cs.append(mk_fitted(which, 31 + k, None, (1.5, 2.5), "fitted-" + which))
    for which in ("trend", "checker"):
        cs.append(mk_real(which, [0.0, 10.0, -5.0, 0.0], (3, 5), None, False, None, "real-" + which))
        cs.append(mk_real(which, [2.0, 9.0, -4.0, 3.0], None, (1.75, 1.0), True, ["shear", [0.5]], "real-" + which))
        cs.append(mk_real(which, [0.0, 4.0, 0.0, 6.0], (7, 2), None, False, ["affine", [2.0, 1.0, -0.5, 3.0]], "real-" + which))
    return cs


def generate(rng, tier):
    n = 300 if tier == "quick" else 6000
    cs = []
    for _ in range(12 if tier == "quick" else 150):
        if rng.random() < 0.5:
            cs.append(mk_fitted(rng.choice(FITTED), rng.randint(100, 10**6), (rng.randint(1, 6), rng.randint(1, 6)), None, "fitted-default-region"))
        else:
            cs.append(mk_fitted(rng.choice(FITTED), rng.randint(100, 10**6), None, (rng.randint(2, 12) / 4.0, rng.randint(2, 12) / 4.0), "fitted-default-region"))
    for _ in range(n):
        u = rng.random()
        ncomp = rng.choice([1, 1, 2, 3])
        coefs = rand_coefs(rng, ncomp)
        dims = rng.choice([None, None, ("lat", "lon"), ("y", "x")])
        names = None if rng.random() < 0.5 else [f"v{k}" for k in range(ncomp)]
        reg = [float(v) for v in G.small_region(rng)]
        if u < 0.55:
            adjust = rng.choice(["spacing", "region"])
            pixel = rng.random() < 0.4
            extra = None if rng.random() < 0.6 else [rng.randint(-8, 8) / 2.0 for _ in range(rng.randint(1, 2))]
            rdef, region = (reg, None) if rng.random() < 0.4 else (rng.choice([None, [0.0, 1.0, 0.0, 1.0]]), reg)
            if rng.random() < 0.5:
                shape, spacing = (rng.randint(1, 6), rng.randint(1, 6)), None
            else:
                ew, nsx = reg[1] - reg[0], reg[3] - reg[2]
                shape, spacing = None, (max(ew, nsx) / rng.randint(1, 5) if rng.random() < 0.5 else (nsx / rng.randint(1, 5), ew / rng.randint(1, 5)))
            cs.append(mk_grid(coefs, rdef, region, shape, spacing, adjust, pixel, extra, None, rand_proj(rng), dims, names, "grid-region"))
        elif u < 0.75:
            ne, nn = rng.randint(1, 6), rng.randint(1, 6)
            e = sorted(set(rng.randint(-40, 40) / 4.0 for _ in range(ne)))
            no = sorted(set(rng.randint(-40, 40) / 4.0 for _ in range(nn)))
            # explicit coordinates need not be ascending (north-up rasters are descending; any order is a legitimate axis)
            order = rng.random()
            if order < 0.25:
                e.reverse()
            elif order < 0.5:
                no.reverse()
            elif order < 0.6:
                e.reverse()
                no.reverse()
            elif order < 0.7:
                rng.shuffle(e)
                rng.shuffle(no)
            nex = rng.choice([0, 0, 1, 2])
            ex = [[[rng.randint(-99, 99) / 2.0 for _ in e] for _ in no] for _ in range(nex)]
            if rng.random() < 0.5:
                coords = [e, no, ex]
                kind = "grid-coords-1d"
            else:
                E, N = [list(e) for _ in no], [[y] * len(e) for y in no]
                kind = "grid-coords-2d"
                if rng.random() < 0.15 and len(no) > 1:
                    E[-1][0] += 0.5
                    kind = "bad-not-meshgrid"
                coords = [E, N, ex]
            cs.append(mk_grid(coefs, rng.choice([None, reg]), None, None, None, "spacing", False, None, coords, rand_proj(rng), dims, names, kind))
        elif u < 0.9:
            p1 = (rng.randint(-40, 40) / 4.0, rng.randint(-40, 40) / 4.0)
            p2 = (rng.randint(-40, 40) / 4.0, rng.randint(-40, 40) / 4.0)
            if rng.random() < 0.08:
                p2 = p1                      # sampling a single location: size copies of the point at distance 0
            size = rng.choice([1, 2, 3, 5, 9, 0]) if rng.random() < 0.4 else rng.randint(1, 12)
            extra = None if rng.random() < 0.7 else [rng.randint(-8, 8) / 2.0]
            pr = rand_proj(rng, invertible=True)
            if rng.random() < 0.25:
                pr = ["sinh", [rng.choice([2.0, 4.0, 16.0])]]
            cs.append(mk_profile(coefs, p1, p2, size, pr, extra, dims, names, "profile"))
            if rng.random() < 0.15:
                # end points read from a table of integer UTM metres (int32): tens of kilometres apart
                u1 = (float(rng.randint(300000, 700000)), float(rng.randint(4000000, 4400000)))
                u2 = (float(rng.randint(300000, 700000)), float(rng.randint(4000000, 4400000)))
                cs.append(mk_profile([[c_[0], c_[1] / 1e5, c_[2] / 1e6, 0.0] for c_ in coefs], u1, u2, rng.randint(2, 9), None, extra, dims, names, "profile-utm-int"))
        else:
            extra = None if rng.random() < 0.7 else [rng.randint(-8, 8) / 2.0]
            rdef, region = (reg, None) if rng.random() < 0.5 else (None, reg)
            cs.append(mk_scatter(coefs, rdef, region, rng.randint(1, 12), rng.randint(0, 10**6), extra, rand_proj(rng), dims, names, "scatter"))
    return cs


FITTED = ["trend", "spline", "knn", "linear", "cubic", "chain_block_trend", "chain_blockmean_spline", "chain_trend_knn", "vector",
          "chain_block_vector", "spline_forces", "splinecv_forces", "vectorspline_forces", "checkerboard_reconfigured", "checkerboard_reconfigured"]


def mk_fitted(which, seed, shape, spacing, kind):
    return {"fn": "fitted", "kind": kind, "args": [which, seed, shape, spacing], "op": "check_region [ 0 1 0 1 ]",
            "key": f"{which}-{seed}-{shape}-{spacing}"}


def _fitted(a):
    """A real gridder fitted to scattered data; grid()/scatter() with the DEFAULT region must use the bounding box of the data
    given to fit (not of anything a step of a chain derived from them) and place predict() values at their own nodes."""
    which, seed, shape, spacing = a
    rs = np.random.RandomState(seed)
    npts = 40
    e = np.round(rs.uniform(-3.0, 9.0, npts) * 8) / 8
    n = np.round(rs.uniform(10.0, 17.0, npts) * 8) / 8
    d = 2.0 + 0.5 * e - 0.25 * n + 0.125 * e * n
    d2 = -1.0 + 0.25 * e + 0.5 * n
    red = lambda: vd.BlockReduce(np.mean, spacing=3.0)  # noqa: E731
    vec = which in ("vector", "chain_block_vector", "vectorspline_forces")
    # separate force positions on a padded regular grid: the bounding box of the FORCES differs from that of the data
    fgrid = tuple(np.ravel(c) for c in vd.grid_coordinates((-6.0, 12.0, 7.0, 20.0), shape=(4, 5)))
    g = {"trend": lambda: vd.Trend(2), "spline": lambda: vd.Spline(mindist=0.5), "knn": lambda: vd.KNeighbors(k=3),
         "linear": lambda: vd.Linear(), "cubic": lambda: vd.Cubic(),
         "spline_forces": lambda: vd.Spline(damping=1e-3, force_coords=fgrid),
         "splinecv_forces": lambda: vd.SplineCV(dampings=(1e-3, 1e-1), force_coords=fgrid, cv=__import__("sklearn.model_selection").model_selection.KFold(3, shuffle=True, random_state=0)),
         "vectorspline_forces": lambda: vd.VectorSpline2D(damping=1e-2, force_coords=fgrid),
         "chain_block_trend": lambda: vd.Chain([("reduce", red()), ("trend", vd.Trend(1))]),
         "chain_blockmean_spline": lambda: vd.Chain([("mean", vd.BlockMean(spacing=2.5)), ("spline", vd.Spline(mindist=1.0, damping=1e-3))]),
         "chain_trend_knn": lambda: vd.Chain([("trend", vd.Trend(1)), ("knn", vd.KNeighbors(k=2))]),
         "vector": lambda: vd.Vector([vd.Trend(1), vd.Trend(2)]),
         "chain_block_vector": lambda: vd.Chain([("reduce", red()), ("vector", vd.Vector([vd.Trend(1), vd.Trend(1)]))]),
         "checkerboard_reconfigured": lambda: vd.synthetic.CheckerBoard(amplitude=3.0, region=(-20.0, -4.0, 30.0, 41.0))}[which]()
    if seed % 3 == 0 or which == "checkerboard_reconfigured":
        # history: the same object was used before on ANOTHER survey / with another region, and its default region was looked up there
        # (grid and scatter without `region=`); what counts afterwards is the latest fit / the current parameters
        if which != "checkerboard_reconfigured":
            g.fit((e[:25] * 0.5 - 40.0, n[:25] * 2.0 + 100.0), (d[:25], d2[:25]) if vec else d[:25])
        g.grid(shape=(3, 4))
        g.scatter(size=3, random_state=0)
    if which == "checkerboard_reconfigured":
        reg = [float(e.min()), float(e.max()), float(n.min()), float(n.max())]
        if seed % 2:
            g.set_params(region=tuple(reg))
        else:
            g.region = tuple(reg)
    else:
        g.fit((e, n), (d, d2) if vec else d)
    reg = [float(e.min()), float(e.max()), float(n.min()), float(n.max())]
    out = {"region_": [float(v) for v in g.region_], "bbox": reg}
    ds = g.grid(shape=shape, spacing=spacing)
    exp = vd.grid_coordinates(tuple(reg), shape=shape, spacing=spacing)
    names = list(ds.data_vars)
    east, north = ds.coords["easting"].values, ds.coords["northing"].values
    out["coords_ok"] = bool(east.shape == exp[0][0, :].shape and north.shape == exp[1][:, 0].shape
                            and np.array_equal(exp[0][0, :], east) and np.array_equal(exp[1][:, 0], north))
    E, N = np.meshgrid(east, north)
    pred = g.predict((E, N))
    pred = pred if vec else (pred,)
    worst = 0.0
    for nm, p in zip(names, pred):
        v = ds[nm].values
        both = np.isnan(v) & np.isnan(p)
        worst = max(worst, float(np.max(np.where(both, 0.0, np.abs(v - p)) / np.maximum(1.0, np.abs(np.where(both, 1.0, p))))))
    out["worst"] = worst if worst == worst else 1.0
    out["nvars"] = len(names)
    out["ncells"] = int(E.size)
    tb = g.scatter(size=7, random_state=seed)
    pts = vd.scatter_points(tuple(reg), 7, random_state=seed)
    out["scatter_ok"] = bool(np.array_equal(tb["easting"].values, pts[0]) and np.array_equal(tb["northing"].values, pts[1]))
    return out


def mk_real(which, region, shape, spacing, pixel, proj, kind):
    return {"fn": "real", "kind": kind, "args": [which, region, shape, spacing, pixel, proj], "op": "check_region [ 0 1 0 1 ]"}


def _real_grid(a):
    which, region, shape, spacing, pixel, proj = a
    if which == "trend":
        rs = np.random.RandomState(3)
        e, n = rs.uniform(region[0], region[1], 30), rs.uniform(region[2], region[3], 30)
        g = vd.Trend(2).fit((e, n), 1.0 + 2.0 * e - 3.0 * n + 0.5 * e * n + 0.25 * n * n)
    else:
        g = vd.synthetic.CheckerBoard(amplitude=7.0, region=tuple(region), w_east=(region[1] - region[0]) / 3.0)
    f = proj_fn(proj)
    ds = g.grid(region=tuple(region), shape=shape, spacing=spacing, pixel_register=pixel, projection=f)
    name = list(ds.data_vars)[0]
    east, north = ds.coords["easting"].values, ds.coords["northing"].values
    vals = ds[name].values
    worst = 0.0
    for i, y in enumerate(north):
        for j, x in enumerate(east):
            px, py = (x, y) if f is None else f(x, y)
            v = float(g.predict((np.array([px]), np.array([py])))[0])
            worst = max(worst, abs(vals[i, j] - v) / max(1.0, abs(v)))
    exp = vd.grid_coordinates(tuple(region), shape=shape, spacing=spacing, pixel_register=pixel)
    ok_coords = np.array_equal(exp[0][0, :], east) and np.array_equal(exp[1][:, 0], north)
    return {"worst": worst, "coords_ok": bool(ok_coords), "dims": list(ds[name].dims), "shape": list(vals.shape), "ncells": int(vals.size),
            "meta": "Generated by" in str(ds.attrs.get("metadata", ""))}


def _gridder(coefs, rdef):
    return PolyGridder(coefs=tuple(tuple(c) for c in coefs), region=None if rdef is None else tuple(rdef))


def _ds_out(ds):
    dims = None
    for k in ds.data_vars:
        dims = ds[k].dims
        break
    if dims is None or len(dims) != 2:
        return ["err", "NoVarsOrDims"]
    east = [float(v) for v in ds.coords[dims[1]].values]
    north = [float(v) for v in ds.coords[dims[0]].values]
    extras = []
    for k in ds.coords:
        if k not in dims:
            if ds.coords[k].dims != dims:
                return ["err", "ExtraCoordWrongDims"]
            extras.append([str(k), ds.coords[k].values.tolist()])
    vs = []
    for k in ds.data_vars:
        if ds[k].dims != dims:
            return ["err", "VarWrongDims"]
        if ds[k].attrs.get("metadata") != ds.attrs.get("metadata") or "Generated by PolyGridder(" not in str(ds.attrs.get("metadata")):
            return ["err", "MetadataMissing"]
        vs.append([str(k), ds[k].values.tolist()])
    return [[list(dims), [east, north]], [extras, vs]]


def _table_out(t):
    return [[str(c), [float(v) for v in t[c].values]] for c in t.columns]


def impl(case):
    if case["fn"] == "large":
        r = C.call(L.run, case["args"])
        return r if C.is_err(r) else ["large", r]
    a = case["args"]
    fn = case["fn"]
    with warnings.catch_warnings():
        warnings.simplefilter("ignore")
        if fn == "real":
            r = C.call(_real_grid, a)
            return r if C.is_err(r) else ["real", r]
        if fn == "fitted":
            r = C.call(_fitted, a)
            return r if C.is_err(r) else ["fitted", r]
        if fn == "grid":
            coefs, rdef, region, shape, spacing, adjust, pixel, extra, coords, proj, dims, names = a
            g = _gridder(coefs, rdef)
            kw = {}
            if coords is None:
                kw = dict(adjust=adjust, pixel_register=pixel)
                if extra is not None:
                    kw["extra_coords"] = extra
                cc = None
            else:
                cc = tuple(np.array(x) for x in [coords[0], coords[1]] + list(coords[2]))
            import zlib
            h = zlib.crc32(("hist" + case["op"][:3000]).encode()) % 4
            pf = proj_fn(proj)
            if h == 0 and coords is None:
                # history: the same object gridded just before, same region / shape or spacing / projection, but the OTHER registration and the
                # other adjustment (same number of nodes, other node positions): nothing of it may survive into the call under test
                try:
                    g.grid(region=None if region is None else tuple(region), shape=shape, spacing=spacing, dims=dims, data_names=names, projection=pf,
                           adjust=("region" if adjust == "spacing" else "spacing"), pixel_register=not pixel)
                    g.grid(region=None if region is None else tuple(region), shape=shape, spacing=spacing, dims=dims, data_names=names, projection=pf,
                           adjust=adjust, pixel_register=not pixel)
                except Exception:  # noqa: BLE001  (invalid arguments fail here as they will below)
                    pass
            if dims is None and h in (2, 3):
                # history: the same object was asked, just before, for a grid / a table / a profile with CUSTOM names (dims, data names, the name
                # of an extra coordinate): names given in one call are that call's; the next call without them uses the defaults again
                try:
                    g.grid(region=(0.0, 2.0, 0.0, 1.0), shape=(2, 2), dims=("lat", "lon"), data_names=None if names is None else [n_ + "_x" for n_ in names])
                    g.scatter(region=(0.0, 2.0, 0.0, 1.0), size=3, random_state=0, dims=("lat", "lon"))
                    g.profile((0.0, 0.0), (1.0, 1.0), 3, dims=("lat", "lon"))
                except Exception:  # noqa: BLE001
                    pass
            call_dims = dims
            if h == 1 and dims is not None:
                # the dimension names as an attribute of the gridder (a geographic subclass sets dims = ("latitude", "longitude")) instead of an
                # argument: grid() must honour them like profile() and scatter() do
                g.dims = tuple(dims)
                call_dims = None
            r = C.call(g.grid, region=None if region is None else tuple(region), shape=shape, spacing=spacing, dims=call_dims, data_names=names,
                       projection=pf, coordinates=cc, **kw)
            return r if C.is_err(r) else _ds_out(r)
        if fn == "profile":
            coefs, p1, p2, size, proj, extra, dims, names = a
            g = _gridder(coefs, None)
            kw = {} if extra is None else {"extra_coords": extra}
            call_dims = dims
            if dims is not None and len(case["op"]) % 2:
                g.dims = tuple(dims)
                call_dims = None
            if case["kind"].startswith("profile-utm-int"):
                p1, p2 = np.array(p1).astype("int32"), np.array(p2).astype("int32")
            r = C.call(g.profile, p1, p2, size, dims=call_dims, data_names=names, projection=proj_fn(proj, True), **kw)
            if C.is_err(r):
                return r
            t = _table_out(r)
            for col in t:
                if col[0] == "distance":
                    col[1] = [v * v for v in col[1]]
            return t
        if fn == "scatter":
            coefs, rdef, region, size, seed, extra, proj, dims, names = a
            g = _gridder(coefs, rdef)
            kw = {} if extra is None else {"extra_coords": extra}
            call_dims = dims
            if dims is not None and len(case["op"]) % 2:
                g.dims = tuple(dims)
                call_dims = None
            r = C.call(g.scatter, region=None if region is None else tuple(region), size=size, random_state=seed, dims=call_dims, data_names=names,
                       projection=proj_fn(proj), **kw)
            return r if C.is_err(r) else _table_out(r)
    raise C.Infra("unknown fn")


def compare(case, io, mo):
    if case["fn"] == "large":
        return "diff:implementation failed: " + io[1] if C.is_err(io) else "ok"
    if case["fn"] in ("real", "fitted") or case.get("kind", "").endswith("-nonlinear"):
        return "ok"      # fitted gridders / non-rational projections: decided by the oracle on the implementation
    r = C.std_compare(io, mo, tol=1e-9)
    if r != "ok" and case["fn"] == "grid" and not C.is_err(io) and case["args"][4] is not None:
        import props.c07 as c07
        a = case["args"]
        reg = a[2] if a[2] is not None else a[1]
        fake = {"fn": "grid", "args": [reg, a[3], a[4], a[5], a[6], a[7], True]}
        if reg is not None and c07._ambiguous_sizes(fake):
            return "amb"
    return r


def _poly(coefs, k, e, n):
    a, b, c, d = coefs[k]
    return a + b * e + c * n + d * e * n


def oracle(case, io):
    if case["fn"] == "large":
        return (io[1] or None) if not C.is_err(io) else "failed on a large input: " + io[1]
    a = case["args"]
    fn = case["fn"]
    if fn == "real":
        if C.is_err(io):
            return "grid of a real gridder failed: " + io[1]
        r = io[1]
        if r["worst"] > 1e-9:
            return f"{a[0]}: grid value differs from predict(easting[j], northing[i]) (relative {r['worst']})"
        if not r["coords_ok"] or r["dims"] != ["northing", "easting"] or not r["meta"]:
            return f"{a[0]}: coordinates/dims/metadata of the grid are wrong"
        return None
    if fn == "fitted":
        if C.is_err(io):
            return "grid()/scatter() of a fitted gridder with the default region failed: " + io[1]
        r = io[1]
        if r["region_"] != r["bbox"]:
            return f"{a[0]}: region_ {r['region_']} is not the bounding box {r['bbox']} of the data given to fit"
        if not r["coords_ok"]:
            return f"{a[0]}: grid() with the default region does not use grid_coordinates of the bounding box of the fitted data"
        if r["worst"] > 1e-9:
            return f"{a[0]}: grid value differs from predict(easting[j], northing[i]) (relative {r['worst']})"
        if not r["scatter_ok"]:
            return f"{a[0]}: scatter() with the default region does not predict at scatter_points of the bounding box of the fitted data"
        return None
    if fn == "grid":
        coefs, rdef, region, shape, spacing, adjust, pixel, extra, coords, proj, dims, names = a
        ncomp = len(coefs)
        bad = (coords is not None and (shape is not None or spacing is not None or region is not None)) or \
              (coords is None and region is None and rdef is None) or (names is None and ncomp > 3) or \
              (names is not None and len(names) != ncomp) or (coords is None and (shape is None) == (spacing is None))
        if coords is not None and isinstance(coords[0][0], list):
            E, N = coords[0], coords[1]
            if any(not np.allclose(E[0], r) for r in E) or any(not np.allclose([r[0]] * len(r), r) for r in N):
                bad = True
        if bad:
            return None if C.is_err(io) and io[1] == "ValueError" else "inconsistent arguments not rejected with ValueError"
        if C.is_err(io):
            return "valid arguments rejected: " + io[1]
        (odims, (east, north)), (oex, ovs) = io
        if tuple(odims) != tuple(dims or ("northing", "easting")):
            return f"dims {odims}"
        if coords is None:
            reg = region if region is not None else rdef
            kw = {} if extra is None else {"extra_coords": extra}
            exp = vd.grid_coordinates(reg, shape=shape, spacing=spacing, adjust=adjust, pixel_register=pixel, **kw)
            ee, en = exp[0][0, :].tolist(), exp[1][:, 0].tolist()
            exl = [x.tolist() for x in exp[2:]]
        else:
            if isinstance(coords[0][0], list):
                ee, en = coords[0][0], [r[0] for r in coords[1]]
            else:
                ee, en = coords[0], coords[1]
            exl = coords[2]
        if east != ee or north != en:
            return "grid coordinate vectors are not those of grid_coordinates / the given coordinates"
        expn = names or {1: ["scalars"], 2: ["east_component", "north_component"], 3: ["east_component", "north_component", "vertical_component"]}[ncomp]
        if [k for k, _ in ovs] != list(expn):
            return f"data variable names {[k for k, _ in ovs]} != {expn}"
        exn = ["extra_coord" + ("" if i == 0 else f"_{i}") for i in range(len(exl))]
        if [k for k, _ in oex] != exn or [v for _, v in oex] != exl:
            return "extra coordinates (names or values) wrong"
        f = proj_fn(proj)
        for k, (_, arr) in enumerate(ovs):
            if len(arr) != len(north) or any(len(r) != len(east) for r in arr):
                return "variable shape is not (n_north, n_east)"
            for i, y in enumerate(north):
                for j, x in enumerate(east):
                    px, py = (x, y) if f is None else f(x, y)
                    v = _poly(coefs, k, px, py)
                    if not (abs(arr[i][j] - v) <= 1e-9 * max(1.0, abs(v))):
                        return (f"component {k}: value at row {i}, column {j} is {arr[i][j]} but the prediction at "
                                f"(easting[{j}], northing[{i}]) = ({x}, {y}){' projected' if f else ''} is {v}")
        return None
    if fn == "profile":
        coefs, p1, p2, size, proj, extra, dims, names = a
        ncomp = len(coefs)
        if size <= 0 or (names is None and ncomp > 3) or (names is not None and len(names) != ncomp):
            return None if C.is_err(io) and io[1] == "ValueError" else "invalid profile arguments not rejected"
        if C.is_err(io):
            return "valid arguments rejected: " + io[1]
        cols = dict((k, v) for k, v in io)
        d = dims or ("northing", "easting")
        f = proj_fn(proj, True)
        q1 = p1 if f is None else f(*p1)
        q2 = p2 if f is None else f(*p2)
        sc = max(1.0, *[abs(v) for v in list(q1) + list(q2) + list(p1) + list(p2)])
        expn = names or {1: ["scalars"], 2: ["east_component", "north_component"], 3: ["east_component", "north_component", "vertical_component"]}[ncomp]
        if [k for k, _ in io] != [d[0], d[1], "distance"] + ["extra_coord"] * (1 if extra else 0) + list(expn):
            return f"profile columns {[k for k, _ in io]}"
        for t in range(size):
            fr = t / (size - 1) if size > 1 else 0.0
            x, y = q1[0] + fr * (q2[0] - q1[0]), q1[1] + fr * (q2[1] - q1[1])
            bx, by = (x, y) if f is None else f(x, y, inverse=True)
            d2 = fr * fr * ((q2[0] - q1[0]) ** 2 + (q2[1] - q1[1]) ** 2)
            if not (abs(cols[d[1]][t] - bx) <= 1e-9 * sc and abs(cols[d[0]][t] - by) <= 1e-9 * sc):      # (NaN fails too)
                return f"profile point {t}: returned coordinates are not the (inverse-projected) evenly spaced point"
            if not (abs(cols["distance"][t] - d2) <= 1e-8 * sc * sc):
                return f"profile point {t}: distance is not the Cartesian distance from the first point in projected units"
            for k, nm in enumerate(expn):
                v = _poly(coefs, k, x, y)
                if not (abs(cols[nm][t] - v) <= 1e-8 * max(1.0, abs(v))):
                    return f"profile point {t} component {k}: {cols[nm][t]} is not the prediction {v} at the projected point"
        return None
    if fn == "scatter":
        coefs, rdef, region, size, seed, extra, proj, dims, names = a
        ncomp = len(coefs)
        if (region is None and rdef is None) or (names is None and ncomp > 3) or (names is not None and len(names) != ncomp):
            return None if C.is_err(io) and io[1] == "ValueError" else "invalid scatter arguments not rejected"
        if C.is_err(io):
            return "valid arguments rejected: " + io[1]
        cols = dict((k, v) for k, v in io)
        d = dims or ("northing", "easting")
        reg = region if region is not None else rdef
        kw = {} if extra is None else {"extra_coords": extra}
        pts = vd.scatter_points(reg, size, random_state=seed, **kw)
        if cols[d[1]] != pts[0].tolist() or cols[d[0]] != pts[1].tolist():
            return "scatter does not predict at the reproducible scatter_points of the region"
        f = proj_fn(proj)
        expn = names or {1: ["scalars"], 2: ["east_component", "north_component"], 3: ["east_component", "north_component", "vertical_component"]}[ncomp]
        for t in range(size):
            x, y = pts[0][t], pts[1][t]
            px, py = (x, y) if f is None else f(x, y)
            for k, nm in enumerate(expn):
                v = _poly(coefs, k, px, py)
                if not (abs(cols[nm][t] - v) <= 1e-9 * max(1.0, abs(v))):
                    return f"scatter row {t} component {k}: not the prediction at its own (projected) point"
        return None
    return None


def nontrivial(case, io):
    if case["fn"] == "large":
        return not C.is_err(io)
    if case["fn"] in ("real", "fitted"):
        return (not C.is_err(io)) and io[1]["ncells"] >= 2
    return (not C.is_err(io)) and len(C.flat(io)) >= 6


def finding_key(case, io):
    return None
