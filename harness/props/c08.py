"""C08 — block_split assigns every point to the one block that contains it."""
from fractions import Fraction as F

import numpy as np

import common as C
import gen as G
import verde as vd
from props import large as L

ID = "C08"
TRANSLATED = "blocksplit"  # Gen/Coords.lean (prelude) and Gen/BlockSplit.lean (the nearest-centre query, the return order) are regenerated from /repo and bridged in Props/C08.lean
FILES = ["verde/coordinates.py", "verde/utils.py"]
RULE = ("corpus (edge/corner/outside points, single row/column layouts, degenerate extent) + seeded clouds (clustered, lattice points on block "
        "edges, points outside the region) over regions given or inferred, scalar/pair spacings, both adjust modes and shapes, 1-D/2-D arrays; "
        "non-trivial = accepted call with >= 2 blocks and >= 2 points; distinct = distinct protocol lines")
ASSUMPTIONS = ["scipy cKDTree.query returns a nearest centre (ties may go to either neighbour: accepted when the two squared distances agree to 1e-9)",
               "float rounding of block centres absorbed by 1e-12 relative tolerance"]
TRUSTED = ["scipy.spatial.cKDTree nearest-neighbour query (contract)"]


def mk(es, ns, shape2d, region, shape, spacing, adjust, kind):
    sp = None if spacing is None else [float(v) for v in np.atleast_1d(spacing)]
    return {"fn": "block_split", "kind": kind,
            "args": [es, ns, shape2d, None if region is None else list(region), shape, spacing, adjust],
            "op": f"block_split {C.enc(es)} {C.enc(ns)} {C.enc(None if region is None else list(region))} "
                  f"{C.enc(None if shape is None else list(shape))} {C.enc(sp)} {adjust}"}


def corpus():
    return _corpus() + [L.case("block_labels", [65537, 1, [7, 9]], "corpus-large-cloud"),
                       L.case("block_labels", [131073, 2, [5, 4]], "corpus-large-cloud"),
                       L.case("block_labels", [70001, 3, [40, 60]], "corpus-large-cloud")]


def _corpus():
    cs = []
    es = [0.5, 1.0, 2.0, 3.5, 4.0, 0.0, -1.0, 5.0, 2.0, 2.0]
    ns = [0.5, 1.0, 1.0, 1.5, 2.0, 0.0, 1.0, 3.0, -7.0, 0.25]
    cs.append(mk(es, ns, [10], (0, 4, 0, 2), None, 1.0, "spacing", "corpus-edges"))
    cs.append(mk(es, ns, [2, 5], (0, 4, 0, 2), None, (1.0, 2.0), "spacing", "corpus-edges-2d"))
    cs.append(mk(es, ns, [10], (0, 4, 0, 2), (1, 4), None, "spacing", "corpus-single-row"))
    cs.append(mk(es, ns, [10], (0, 4, 0, 2), (3, 1), None, "spacing", "corpus-single-col"))
    cs.append(mk(es, ns, [10], None, None, 1.5, "region", "corpus-inferred"))
    # pixel indices / counts as unsigned integers, some of them west or south of the whole-number region they are split over
    ue = [3.0, 10.0, 40.0, 90.0, 130.0, 200.0, 250.0, 0.0, 60.0, 100.0]
    un = [0.0, 5.0, 45.0, 20.0, 70.0, 110.0, 255.0, 250.0, 10.0, 55.0]
    cs.append(mk(ue, un, [10], (50, 250, 40, 240), None, 50.0, "spacing", "corpus-unsigned-coordinates"))
    cs.append(mk(ue, un, [10], (100, 200, 100, 200), (2, 2), None, "spacing", "corpus-unsigned-coordinates"))
    cs.append(mk(ue, un, [2, 5], (20, 220, 60, 260), None, (100.0, 40.0), "region", "corpus-unsigned-coordinates"))
    cs.append(mk(es, ns, [10], (0, 4, 0, 2), (2, 2), 1.0, "spacing", "malformed"))
    cs.append(mk(es, ns, [10], (0, 4, 0, 2), None, None, "spacing", "malformed"))
    cs.append(mk(es, ns, [10], (4, 0, 0, 2), None, 1.0, "spacing", "malformed"))
    # whole-number regions whose adjusted bounds are fractional (adjust="region", spacing not dividing the extent): a bound of 9.6 is 9.6
    for sp_ in (2.4, (1.7, 2.4), 3.3):
        cs.append(mk(es, ns, [10], (0, 10, 0, 5), None, sp_, "region", "corpus-integer-region-adjusted"))
        cs.append(mk([x * 2.5 for x in es], [y * 2.5 for y in ns], [10], (-3, 11, -2, 7), None, sp_, "region", "corpus-integer-region-adjusted"))
    # points strictly inside a block but only extent * 2^-31 away from its east / north edge (their two nearest centres differ in distance by
    # far more than round-off: decided, not ambiguous), next to points as close on the other side of the same edges
    d_ = 2.0 ** -28
    ne_ = [j - d_ for j in range(1, 8)] + [j + d_ for j in range(1, 8)] + [0.5, 7.5, 3.5, 3.5]
    nn_ = [0.5 + (j % 4) for j in range(1, 8)] + [0.5 + ((j + 1) % 4) for j in range(1, 8)] + [1.0 - d_ / 2, 3.0 + d_ / 2, 2.0 - d_ / 2, 2.0 + d_ / 2]
    cs.append(mk(ne_, nn_, [len(ne_)], (0, 8, 0, 4), (4, 8), None, "spacing", "corpus-hairline-inside"))
    cs.append(mk([x * 125.0 for x in ne_], [y * 250.0 for y in nn_], [len(ne_)], (0, 1000, 0, 1000), None, (250.0, 125.0), "spacing", "corpus-hairline-inside"))
    return cs


def generate(rng, tier):
    n = 500 if tier == "quick" else 8000
    maxpts = 40 if tier == "quick" else 300
    cs = []
    for _ in range(n):
        reg = G.small_region(rng)
        ew, nsx = reg[1] - reg[0], reg[3] - reg[2]
        npts = rng.randint(1, maxpts)
        style = rng.random()
        if style < 0.4:
            es, ns = G.points_in(rng, reg, npts, lattice=rng.choice([4, 16, 64]), outside=0.15)
        elif style < 0.7:   # lattice points: many exactly on block edges
            es = [reg[0] + rng.randint(-2, int(ew * 4) + 2) / 4.0 for _ in range(npts)]
            ns = [reg[2] + rng.randint(-2, int(nsx * 4) + 2) / 4.0 for _ in range(npts)]
        else:               # clustered
            cx, cy = reg[0] + ew * rng.random(), reg[2] + nsx * rng.random()
            es = [round((cx + rng.gauss(0, ew / 10)) * 64) / 64 for _ in range(npts)]
            ns = [round((cy + rng.gauss(0, nsx / 10)) * 64) / 64 for _ in range(npts)]
        shape2d = [npts]
        if npts % 2 == 0 and rng.random() < 0.3:
            shape2d = [2, npts // 2]
        region = reg if rng.random() < 0.7 else None
        adjust = rng.choice(["spacing", "region"])
        if rng.random() < 0.4:
            shape = (rng.randint(1, 6), rng.randint(1, 6))
            cs.append(mk(es, ns, shape2d, region, shape, None, adjust, "shape"))
        else:
            if rng.random() < 0.5:
                sp = max(ew, nsx) / rng.randint(1, 6)
                if rng.random() < 0.5:
                    sp = rng.randint(1, 16) / 4.0
            else:
                sp = (rng.randint(1, 12) / 4.0, rng.randint(1, 12) / 4.0)
            cs.append(mk(es, ns, shape2d, region, None, sp, adjust, "spacing-" + adjust))
    return cs


def impl(case):
    if case["fn"] == "large":
        r = C.call(L.run, case["args"])
        return r if C.is_err(r) else ["large", r]
    es, ns, shape2d, region, shape, spacing, adjust = case["args"]
    e = C.mkarr(es, shape2d, "es:" + case["op"])
    n = C.mkarr(ns, shape2d, "ns:" + case["op"])
    e.setflags(write=False)
    n.setflags(write=False)
    # history: block_split is a function of its arguments only; earlier calls in the same process (same region, the same NUMBER of blocks, other
    # block sizes; another cloud) must leave no trace
    import zlib
    if zlib.crc32(("hist" + case["op"][:2000]).encode()) % 2 == 0:
        try:
            if spacing is not None:
                sp_ = np.atleast_1d(spacing).astype(float) * 1.03125
                vd.block_split((e, n), spacing=tuple(sp_) if sp_.size > 1 else float(sp_[0]), adjust="region", region=region, shape=None)
                vd.block_split((e, n), spacing=tuple(sp_ / 1.0625) if sp_.size > 1 else float(sp_[0] / 1.0625), adjust="region", region=region, shape=None)
            else:
                vd.block_split((e * 0.5 + 1.0, n * 0.5 - 1.0), spacing=None, adjust=adjust, region=region, shape=shape)
        except Exception:  # noqa: BLE001  (the warm-up arguments may be invalid; only the call under test counts)
            pass
    reg_arg = region
    if region is not None and len(region) == 4 and all(float(v).is_integer() for v in region):
        # whole-number bounds as the caller has them: Python ints, or an integer array (a region read from metadata)
        k_ = zlib.crc32(("intregion" + case["op"][:2000]).encode()) % 3
        reg_arg = [int(v) for v in region] if k_ == 0 else np.array(region).astype("int64") if k_ == 1 else region
    if case["kind"] == "corpus-unsigned-coordinates":
        e, n = e.astype("uint8"), n.astype("uint16")
        reg_arg = [int(v) for v in region] if len(case["op"]) % 2 else np.array(region, dtype="int64")
    r = C.call(vd.block_split, (e, n), spacing=spacing, adjust=adjust, region=reg_arg, shape=shape)
    if C.is_err(r):
        return r
    (be, bn), labels = r
    if be.ndim != 1 or labels.shape != (len(es),):
        return ["err", "WrongOutputShape"]
    return [[[float(x), float(y)] for x, y in zip(be, bn)], [int(v) for v in labels]]


def compare(case, io, mo):
    if case["fn"] == "large":
        return "diff:implementation failed: " + io[1] if C.is_err(io) else "ok"
    e = C.err_compare(io, mo)
    if e:
        return e
    mv = C.tofloat(mo)
    ic, il = io
    mc, ml = mv
    r = C.std_compare(ic, mo[0])
    if r != "ok":
        import blocks_common as B
        if B.size_tie(case["args"][0], case["args"][1], case["args"][3], case["args"][5]):
            return "amb"
        return r.replace("diff:", "diff:centres ")
    if len(il) != len(ml):
        return "diff:label count"
    es, ns = case["args"][0], case["args"][1]
    amb = False
    for k, (a, b) in enumerate(zip(il, ml)):
        b = int(b)
        if a != b:
            if not (0 <= a < len(mc)):
                return f"diff:label {a} out of range"
            da = (es[k] - mc[a][0]) ** 2 + (ns[k] - mc[a][1]) ** 2
            db = (es[k] - mc[b][0]) ** 2 + (ns[k] - mc[b][1]) ** 2
            if abs(da - db) <= 1e-9 * max(1.0, da, db):
                amb = True
                continue
            return f"diff:label of point {k} ({es[k]}, {ns[k]}): impl {a} vs model {b}"
    return "ok"


def _axis(lo, hi, size, spacing, adjust):
    lo, hi = C.fq(lo), C.fq(hi)
    if size is not None:
        m = size
        step = (hi - lo) / m
    else:
        sp = C.fq(spacing)
        q = (hi - lo) / sp
        fl = q.numerator // q.denominator
        fr = q - fl
        r = fl if fr < F(1, 2) else fl + 1 if fr > F(1, 2) else (fl if fl % 2 == 0 else fl + 1)
        m = max(1, r)
        step = sp if adjust == "region" else (hi - lo) / m
        if abs(fr - F(1, 2)) < F(1, 10**9):
            return None
    return lo, step, m


def _allowed(x, lo, step, m, eps):
    x = C.fq(x)
    if step == 0:
        return set(range(m))
    out = set()
    for j in range(m):
        a, b = lo + j * step, lo + (j + 1) * step
        if a - eps <= x <= b + eps:
            out.add(j)
    if x < lo + eps:
        out.add(0)
    if x > lo + m * step - eps:
        out.add(m - 1)
    return out


def oracle(case, io):
    if case["fn"] == "large":
        return (io[1] or None) if not C.is_err(io) else "failed on a large input: " + io[1]
    es, ns, shape2d, region, shape, spacing, adjust = case["args"]
    sp = None if spacing is None else list(np.atleast_1d(spacing))
    bad = (shape is None) == (spacing is None) or (region is not None and (region[0] > region[1] or region[2] > region[3]))
    if bad:
        return None if C.is_err(io) and io[1] == "ValueError" else "invalid arguments not rejected with ValueError"
    if C.is_err(io):
        return "valid arguments rejected: " + io[1]
    reg = region if region is not None else (min(es), max(es), min(ns), max(ns))
    if sp is not None and len(sp) == 1:
        sp = [sp[0], sp[0]]
    ax_e = _axis(reg[0], reg[1], None if shape is None else shape[1], None if sp is None else sp[1], adjust)
    ax_n = _axis(reg[2], reg[3], None if shape is None else shape[0], None if sp is None else sp[0], adjust)
    if ax_e is None or ax_n is None:
        return None
    (w, dx, ne), (s, dy, nn) = ax_e, ax_n
    centres, labels = io
    if len(centres) != ne * nn:
        return f"{len(centres)} block centres for a {nn} x {ne} layout"
    scale = max(1.0, abs(float(w)), abs(float(s)), abs(float(w + ne * dx)), abs(float(s + nn * dy)))
    for k, (cx, cy) in enumerate(centres):
        i, j = divmod(k, ne)
        if not (C.close(cx, w + (j + F(1, 2)) * dx, 1e-11, scale) and C.close(cy, s + (i + F(1, 2)) * dy, 1e-11, scale)):
            return f"block {k} centre {(cx, cy)} is not the pixel-registered centre of row {i}, column {j} (row-major from the south-west)"
    eps = F(1, 10**9) * F(scale)
    for k, lab in enumerate(labels):
        if not (0 <= lab < ne * nn):
            return f"label {lab} of point {k} is not a valid block index"
        i, j = divmod(lab, ne)
        if j not in _allowed(es[k], w, dx, ne, eps) or i not in _allowed(ns[k], s, dy, nn, eps):
            return (f"point {k} = ({es[k]}, {ns[k]}) labelled {lab} (row {i}, col {j}) but that block "
                    f"[{float(w + j * dx)}, {float(w + (j + 1) * dx)}] x [{float(s + i * dy)}, {float(s + (i + 1) * dy)}] does not contain it "
                    f"and is not the nearest border block")
    return None


def nontrivial(case, io):
    if case["fn"] == "large":
        return not C.is_err(io)
    return (not C.is_err(io)) and len(io[0]) >= 2 and len(io[1]) >= 2


def finding_key(case, io):
    return None
