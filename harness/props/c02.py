"""C02 — fitted models are the weighted, damped least-squares optimum."""
import warnings

import numpy as np

import common as C
import gen as G
import verde as vd
from props import large as L
from verde.base import least_squares

ID = "C02"
TRANSLATED = "ls"          # Gen/LeastSquares.lean (least_squares as a specification over scikit-learn contracts) is regenerated from /repo and bridged in Props/C02.lean
FILES = ["verde/base/least_squares.py", "verde/trend.py", "verde/spline.py", "verde/vector.py", "verde/base/utils.py"]
RULE = ("corpus + seeded well-conditioned systems: verde.base.least_squares on random integer Jacobians (m x n, n <= 8 quick / 14 thorough), Trend.fit "
        "(degrees 0..4), Spline.fit and VectorSpline2D.fit (forces at the data or at a separate smaller set, Poisson in [-1, 1]) with weights none/positive and "
        "damping in {None} U [1e-8, 1e2]; the model solves the normal equations exactly on the implementation's own Jacobian (converted exactly) and its "
        "answer carries a checked certificate; metamorphic checks (weights x c, weight -> 0 versus deletion) run on the implementation; "
        "non-trivial = accepted, non-singular system with >= 2 parameters; distinct = distinct protocol lines")
ASSUMPTIONS = ["scikit-learn StandardScaler / LinearRegression / Ridge return the minimiser of the stated objective (LAPACK); compared at 1e-6 relative",
               "under-determined and ill-conditioned systems are excluded (property: 'whenever well conditioned'); the model reports 'singular' for them"]
TRUSTED = ["LAPACK / scikit-learn solvers (contract)", "Green's-function Jacobians are taken from the implementation (their formulas are C03)"]


def mk_ls(J, d, w, damping, kind):
    return {"fn": "lstsq", "kind": kind, "args": [J, d, w, damping],
            "op": f"lstsq {C.enc(J)} {C.enc(d)} {C.enc(w)} {C.enc(damping)} {len(J[0])}"}


def mk_trend(es, ns, d, w, deg, kind):
    qe = [es[0] + 0.25, -1.5, 0.0]
    qn = [ns[0] - 0.5, 2.0, 0.125]
    return {"fn": "trend", "kind": kind, "args": [es, ns, d, w, deg, qe, qn],
            "op": f"trend_fit {C.enc(es)} {C.enc(ns)} {C.enc(d)} {C.enc(w)} {deg} {C.enc(qe)} {C.enc(qn)}"}


def _spline_case(kind, es, ns, data, w, damping, force, poisson, mindist):
    """Spline / VectorSpline2D: the Jacobian is taken from the implementation and handed to the model exactly."""
    args = [es, ns, data, w, damping, force, poisson, mindist]
    label = kind + ("-forces" if force else "") + ("-damped" if damping else "")
    try:
        with warnings.catch_warnings():
            warnings.simplefilter("ignore")
            coords = (np.array(es), np.array(ns))
            fc = coords if force is None else (np.array(force[0]), np.array(force[1]))
            if kind == "spline":
                J = vd.Spline(mindist=mindist).jacobian(coords, fc)
                d = list(data[0])
                ww = None if w is None else list(w[0])
            else:
                J = vd.VectorSpline2D(poisson=poisson, mindist=mindist).jacobian(coords, fc)
                d = list(data[0]) + list(data[1])
                ww = None if w is None else list(w[0]) + list(w[1])
    except Exception as exc:  # noqa: BLE001   (the public jacobian method itself failed: reported by the oracle, not a harness error)
        return {"fn": kind, "kind": label + "-jacobian-failed", "args": args, "op": "power_comb 0", "jacobian_error": type(exc).__name__,
                "key": repr(args)}
    return {"fn": kind, "kind": label, "args": args,
            "op": f"lstsq {C.enc(J.tolist())} {C.enc(d)} {C.enc(ww)} {C.enc(damping)} {J.shape[1]}"}


def pts(rng, n, scale=8.0):
    seen = set()
    es, ns = [], []
    while len(es) < n:
        x, y = rng.randint(-64, 64) / 64.0 * scale, rng.randint(-64, 64) / 64.0 * scale
        if (x, y) not in seen:
            seen.add((x, y))
            es.append(x)
            ns.append(y)
    return es, ns


def corpus():
    return _corpus() + [L.case("compiled_loops", [1], "corpus-compiled-loops"),
                       L.case("compiled_loops", [2], "corpus-compiled-loops"),
                       L.case("jacobian_in_pieces", [45001, 400, 1], "corpus-long-table")]


def _corpus():
    import random
    rng = random.Random(2)
    cs = [mk_ls([[1.0, 0.0], [1.0, 1.0], [1.0, 2.0], [1.0, 3.0]], [1.0, 3.0, 5.0, 8.0], None, None, "corpus"),
          mk_ls([[1.0, 0.0], [1.0, 1.0], [1.0, 2.0], [1.0, 3.0]], [1.0, 3.0, 5.0, 8.0], [1.0, 2.0, 1.0, 0.5], 0.1, "corpus-damped"),
          mk_ls([[1.0, 2.0], [2.0, 4.0], [3.0, 6.0]], [1.0, 2.0, 3.0], None, None, "corpus-singular")]
    es, ns = pts(rng, 9)
    cs.append(mk_trend(es, ns, [1.0 + 2 * x - 3 * y for x, y in zip(es, ns)], None, 1, "corpus-trend"))
    d = [rng.randint(-32, 32) / 4.0 for _ in es]
    cs.append(_spline_case("spline", es, ns, [d], None, 1e-3, None, 0.5, 0.0))
    cs.append(_spline_case("vector", es, ns, [d, d[::-1]], [[1.0] * 9, [2.0] * 9], 1e-2, None, 0.5, 4.0))
    fe, fn_ = pts(rng, 4)
    wts = [[0.5, 4.0, 1.0, 2.0, 0.25, 3.0, 1.5, 1.0, 2.5], [2.0, 1.0, 0.5, 3.0, 1.0, 0.25, 4.0, 1.5, 1.0]]
    cs.append(_spline_case("spline", es, ns, [d], wts[:1], None, [[x + 1 / 128 for x in fe], fn_], 0.5, 1.0))
    fe9, fn9 = pts(rng, 9)
    cs.append(_spline_case("spline", es, ns, [d], None, None, [[x + 1 / 128 for x in fe9], fn9], 0.5, 0.0))     # square but NOT symmetric
    cs.append(_spline_case("vector", es, ns, [d, d[::-1]], None, None, [[x + 1 / 128 for x in fe9], fn9], 0.5, 4.0))
    cs.append(_spline_case("vector", es, ns, [d, d[::-1]], wts, None, [[x + 1 / 128 for x in fe], fn_], 0.5, 4.0))
    # families exercised on EVERY run (each was once needed to expose a seeded change)
    er, nr = es + es[:2], ns + ns[:2]                     # repeated locations, other values, under damping
    dr = d + [d[0] + 2.5, d[1] - 1.5]
    cs.append(_spline_case("spline", er, nr, [dr], None, 1e-2, None, 0.5, 0.0))
    cs.append(_spline_case("spline", er, nr, [dr], [[0.5 + 0.25 * (k % 5) for k in range(len(er))]], 1e-1, None, 0.5, 1.0))
    cs.append(_spline_case("vector", er, nr, [dr, dr[::-1]], None, 1e-2, None, 0.0, 4.0))
    for cw in (0.01, 25.0):                               # the same uncertainty everywhere, under damping
        cs.append(_spline_case("spline", es, ns, [d], [[cw] * 9], 0.5, None, 0.5, 0.0))
        cs.append(_spline_case("spline", es, ns, [d], [[cw] * 9], 0.5, [[x + 1 / 128 for x in fe], fn_], 0.5, 0.0))
    cs.append(mk_trend(es, ns, d, [25.0] * 9, 1, "corpus-trend-uniform-weights"))
    cs.append(mk_trend(es, ns, d, wts[0], 0, "corpus-trend-degree0-weights"))
    cs.append(_spline_case("spline", es, ns, [d], wts[:1], None, [[x + 1 / 128 for x in fe9], fn9], 0.5, 0.0))     # as many separate forces as data, weighted
    # non-uniform weights that are all tiny in absolute value (sigma ~ 1e5): still non-uniform
    cs.append(mk_trend(es, ns, d, [x * 1e-10 for x in wts[0]], 2, "corpus-trend-tiny-weights"))
    # dampings that are elements of a candidate array: 0.5 and 0.25 (exact in float32), 2 and 1 (integers)
    for dmp in (0.5, 0.25, 2.0, 1.0, 0.5, 2.0):
        cs.append(_spline_case("spline", es, ns, [d], wts[:1], dmp, [[x + 1 / 128 for x in fe], fn_], 0.5, 0.0))
        cs.append(mk_ls([[float((3 * i + 2 * j) % 7 - 3) for j in range(3)] for i in range(8)], [float((5 * i) % 9 - 4) / 2 for i in range(8)], None, dmp, "corpus-lstsq-numpy-damping"))
    # a TALL damped system (two interleaved surveys of different character, 41 000 rows): the column scales are those of ALL the rows
    tall = [[float((i * 7) % 11 - 5) * (1.0 if i % 2 else 16.0), float((i * 5) % 13 - 6) * (8.0 if i % 2 else 1.0), 1.0] for i in range(41000)]
    tc = mk_ls(tall, [0.25 * r_[0] - 0.5 * r_[1] + 3.0 + float((i * 3) % 17 - 8) / 4.0 for i, r_ in enumerate(tall)], None, 20000.0, "corpus-lstsq-tall-damped")
    tc["op"] = mk_ls([[1.0, 0.0], [0.0, 1.0], [1.0, 1.0]], [1.0, 2.0, 4.0], None, 0.5, "")["op"]      # (exact arithmetic on 41 000 rows would take the model minutes: this one is
    tc["oracle_only"] = True                                      #  judged by the independent solve alone)
    cs.append(tc)
    # surveys in metres, degrees 3 and 4: columns from 1 to 1e13 (unit-variance columns are what the estimator is specified to work with)
    for deg_, scale_, nx_ in ((4, 2000.0, 6), (3, 150000.0, 5), (4, 12000.0, 7)):
        ge = [(-1.0 + 2.0 * i / (nx_ - 1) + (0.03125 if i % 2 else 0.0)) * scale_ for i in range(nx_)]
        ue, un = [x for _ in ge for x in ge], [y * 0.75 for y in ge for _ in ge]
        ud = [rng.randint(-64, 64) / 4.0 for _ in ue]
        cs.append(mk_trend(ue, un, ud, None, deg_, f"corpus-trend-metres-{deg_}"))
        cs.append(mk_trend(ue, un, ud, [rng.randint(1, 32) / 8.0 for _ in ue], deg_, f"corpus-trend-metres-{deg_}-weights"))
    cs.append(_spline_case("spline", es, ns, [d], [[x * 1e-12 for x in wts[0]]], None, [[x + 1 / 128 for x in fe], fn_], 0.5, 0.0))
    cs.append(_spline_case("vector", es, ns, [d, d[::-1]], [[x * 1e-9 for x in wts[0]], [x * 1e-9 for x in wts[1]]], None, [[x + 1 / 128 for x in fe], fn_], 0.5, 4.0))
    # a datum switched off by a vanishing weight (its value is a fill value of any size): the fit is the fit without it
    for tiny, fill in ((1e-40, 1e15), (1e-20, -1e9), (0.0, 1e12)):
        dv, wv = list(d), list(wts[0])
        dv[3], wv[3] = fill, tiny
        cs.append(mk_trend(es, ns, dv, wv, 2 if tiny else 1, f"corpus-trend-vanishing-weight-{tiny:g}"))
        cs.append(_spline_case("spline", es, ns, [dv], [wv], 1e-2, [[x + 1 / 128 for x in fe], fn_], 0.5, 0.0))
        cs.append(_spline_case("spline", es, ns, [dv], [wv], None, [[x + 1 / 128 for x in fe], fn_], 0.5, 1.0))
    cs.append(_spline_case("vector", es, ns, [[1e15 if k == 2 else v for k, v in enumerate(d)], d[::-1]],
                           [[1e-40 if k == 2 else v for k, v in enumerate(wts[0])], wts[1]], 1e-2, [[x + 1 / 128 for x in fe], fn_], 0.5, 4.0))
    return cs


def generate(rng, tier):
    n = 150 if tier == "quick" else 2500
    maxn = 8 if tier == "quick" else 14
    cs = []
    for _ in range(n):
        u = rng.random()
        weighted = rng.random() < 0.5
        damping = None if rng.random() < 0.4 else 10 ** rng.uniform(-8, 2)
        if u < 0.3:
            nn = rng.randint(2, maxn)
            m = nn + rng.randint(2, 10)
            J = [[float(rng.randint(-8, 8)) for _ in range(nn)] for _ in range(m)]
            if rng.random() < 0.3:
                for r in J:
                    r[0] = 1.0
            d = [rng.randint(-64, 64) / 4.0 for _ in range(m)]
            w = [rng.randint(1, 32) / 8.0 for _ in range(m)] if weighted else None
            cs.append(mk_ls(J, d, w, damping, "lstsq-damped" if damping else "lstsq"))
        elif u < 0.55:
            deg = rng.randint(0, 4)
            npar = (deg + 1) * (deg + 2) // 2
            es, ns = pts(rng, npar + rng.randint(3, 12), scale=2.0 if deg >= 3 else 8.0)
            if deg >= 2 and rng.random() < 0.35:
                # a survey in metres: the monomial columns differ by many orders of magnitude (the estimator scales its columns)
                es, ns = pts(rng, npar + rng.randint(6, 14), scale=rng.choice([512.0, 2048.0, 16384.0]))
            d = [rng.randint(-64, 64) / 4.0 for _ in es]
            w = [rng.randint(1, 32) / 8.0 for _ in es] if weighted else None
            if weighted and rng.random() < 0.2:
                w = [rng.choice([0.01, 25.0])] * len(es)
            elif weighted and rng.random() < 0.25:
                k_ = rng.randrange(len(es))
                w[k_] = rng.choice([0.0, 1e-300, 1e-40, 1e-20, 1e-13])
                d[k_] = rng.choice([-1.0, 1.0]) * 10.0 ** rng.randint(6, 15)
            if w is not None and rng.random() < 0.3:      # weights in other units: 1/sigma^2 with sigma ~ 1e4..1e6, or huge
                f_ = 10.0 ** rng.choice([-12, -9, -6, 6])
                w = [x * f_ for x in w]
            cs.append(mk_trend(es, ns, d, w, deg, f"trend-{deg}"))
        else:
            npts = rng.randint(3, 10 if tier == "quick" else 16)
            es, ns = pts(rng, npts)
            force = None
            if rng.random() < 0.4:
                fe, fn_ = pts(rng, npts if rng.random() < 0.25 else rng.randint(2, max(2, npts - 1)))     # sometimes as many forces as data
                force = [[x + 1 / 128 for x in fe], fn_]
            if damping is not None and force is None and damping >= 1e-4 and rng.random() < 0.3:
                # repeated measurements: some locations occur twice (other values, other weights).  Forces sit at EVERY datum; the damped
                # problem stays well posed
                for j in range(rng.randint(1, 2)):
                    es.append(es[j]); ns.append(ns[j])
            kind = "spline" if rng.random() < 0.55 else "vector"
            ncomp = 1 if kind == "spline" else 2
            data = [[rng.randint(-64, 64) / 4.0 for _ in es] for _ in range(ncomp)]
            w = [[rng.randint(1, 32) / 8.0 for _ in es] for _ in range(ncomp)] if weighted else None
            if weighted and rng.random() < 0.25:
                # the same uncertainty everywhere: all weights equal but not 1 (under damping this is NOT the unweighted problem)
                cw = rng.choice([0.01, 0.25, 4.0, 25.0])
                w = [[cw for _ in es] for _ in range(ncomp)]
            if damping is None and force is not None and rng.random() < 0.4:
                damping = 10 ** rng.uniform(-6, 0)       # otherwise: undamped, over-determined (fewer forces than data): weights matter
            if w is not None and force is not None and len(force[0]) <= npts - 2 and rng.random() < 0.3:
                # one datum per component switched off by a vanishing weight; its value is a fill value
                for c_ in range(ncomp):
                    k_ = rng.randrange(len(es))
                    w[c_][k_] = rng.choice([0.0, 1e-300, 1e-40, 1e-20, 1e-13])
                    data[c_][k_] = rng.choice([-1.0, 1.0]) * 10.0 ** rng.randint(6, 15)
            if w is not None and damping is None and rng.random() < 0.3:      # (undamped: a common factor of the weights changes nothing)
                f_ = 10.0 ** rng.choice([-12, -9, -6, 6])
                w = [[x * f_ for x in comp] for comp in w]
            cs.append(_spline_case(kind, es, ns, data, w, damping, force, rng.choice([-1.0, -0.25, 0.0, 0.5, 1.0]),
                                   rng.choice([0.0, 1.0, 4.0]) if kind == "spline" else rng.choice([0.5, 4.0, 16.0])))
    return cs


def _lay(values, role, case):
    """The logical element sequence `values` as the array given to verde: 2-D (2, n/2) when n is even, in a memory layout chosen
    per ROLE (coordinates, data and weights each get their own: C, Fortran-ordered or strided), read-only."""
    n = len(values)
    shape = [2, n // 2] if (n % 2 == 0 and n >= 4) else [n]
    return C.mkarr(values, shape, role + case["op"][:80])


def _np_number(damping, key):
    """The damping as the caller may hold it: a Python number, or a NumPy scalar (an element of an array of candidates) of a type that holds it
    exactly - float64 always, float32 / int64 / int32 when the value survives."""
    if damping is None:
        return None
    import zlib
    forms = [float, np.float64]
    if float(np.float32(damping)) == damping:
        forms.append(np.float32)
    if float(damping).is_integer():
        forms += [np.int64, np.int32, int]
    return forms[zlib.crc32(("damping" + key).encode()) % len(forms)](damping)


def _fit(case):
    a = case["args"]
    fn = case["fn"]
    L = lambda v, role: _lay(v, role, case)  # noqa: E731
    with warnings.catch_warnings():
        warnings.simplefilter("ignore")
        if fn == "lstsq":
            J, d, w, damping = a
            damping = _np_number(damping, case["op"][:3000])
            p = least_squares(np.array(J), np.array(d), None if w is None else np.array(w), damping=damping, copy_jacobian=True)
            return {"params": [float(v) for v in p]}
        import zlib
        hist = zlib.crc32(("refit" + case["op"][:4000]).encode()) % 3      # 0: fresh object; 1: fitted before to other data on the SAME points;
        #                                                                     2: ... and with other weights (the latest fit must be the optimum)
        if fn == "trend":
            es, ns, d, w, deg, qe, qn = a
            t = vd.Trend(deg)
            if hist:
                t.fit((L(es, "e"), L(ns, "n")), np.array([1.5 * v + 1.0 for v in d[::-1]]).reshape(np.shape(L(d, "d"))),
                      None if (w is None or hist == 1) else np.array([0.5 + (k % 3) for k in range(len(d))], dtype=float).reshape(np.shape(L(d, "d"))))
            t.fit((L(es, "e"), L(ns, "n")), L(d, "d"), None if w is None else L(w, "w"))
            return {"params": [float(v) for v in t.coef_], "pred": [float(v) for v in t.predict((np.array(qe), np.array(qn)))]}
        es, ns, data, w, damping, force, poisson, mindist = a
        damping = _np_number(damping, case["op"][:3000])
        coords = (L(es, "e"), L(ns, "n"))
        fc = None if force is None else (np.array(force[0]), np.array(force[1]))
        def other(x, i):
            return np.array([1.5 * v + 1.0 + i for v in x[::-1]]).reshape(np.shape(L(x, f"d{i}")))

        def otherw(x, i):
            return np.array([0.5 + ((k + i) % 3) for k in range(len(x))], dtype=float).reshape(np.shape(L(x, f"w{i}")))
        if fn == "spline":
            g = vd.Spline(mindist=mindist, damping=damping, force_coords=fc)
            if hist:
                g.fit(coords, other(data[0], 0), None if (w is None or hist == 1) else otherw(w[0], 0))
            g.fit(coords, L(data[0], "d"), None if w is None else L(w[0], "w"))
        else:
            g = vd.VectorSpline2D(poisson=poisson, mindist=mindist, damping=damping, force_coords=fc)
            if hist:
                g.fit(coords, tuple(other(x, i) for i, x in enumerate(data)),
                      None if (w is None or hist == 1) else tuple(otherw(x, i) for i, x in enumerate(w)))
            g.fit(coords, tuple(L(x, f"d{i}") for i, x in enumerate(data)),
                  None if w is None else tuple(L(x, f"w{i}") for i, x in enumerate(w)))
        if zlib.crc32(("buffers" + case["op"][:4000]).encode()) % 2 == 0:
            # the caller goes on using its coordinate buffers after the fit (in place: an origin shift, the next survey read into the same arrays):
            # the fitted model is the optimum of the problem it was given and keeps predicting it
            from sklearn.base import clone
            ce, cn = np.array(es, dtype=float), np.array(ns, dtype=float)
            g2 = clone(g)
            A1 = lambda x: np.array(x, dtype=float)  # noqa: E731
            g2.fit((ce, cn), A1(data[0]) if len(data) == 1 else tuple(A1(x) for x in data),
                   None if w is None else (A1(w[0]) if len(w) == 1 else tuple(A1(x) for x in w)))
            q_ = (np.array(es, dtype=float) + 0.125, np.array(ns, dtype=float) - 0.25)
            before = [np.array(x, dtype=float) for x in np.atleast_2d(g2.predict(q_))]
            ce += 1000.0
            cn *= -3.0
            after = [np.array(x, dtype=float) for x in np.atleast_2d(g2.predict(q_))]
            if any(not np.array_equal(x, y, equal_nan=True) for x, y in zip(before, after)):
                raise RuntimeError("the fitted model's predictions follow the caller's coordinate arrays after the fit")
        return {"params": [float(v) for v in g.force_]}


def impl(case):
    if case["fn"] == "large":
        r = C.call(L.run, case["args"])
        return r if C.is_err(r) else ["large", r]
    r = C.call(_fit, case)
    return r if C.is_err(r) else ["fit", r]


def _system(case):
    """(J, d, w, alpha) as numpy arrays for the oracle (Jacobian from the implementation for splines)."""
    a = case["args"]
    fn = case["fn"]
    if fn == "lstsq":
        J, d, w, damping = a
        return np.array(J), np.array(d), None if w is None else np.array(w), damping
    if fn == "trend":
        es, ns, d, w, deg, _, _ = a
        return vd.Trend(deg).jacobian((np.array(es), np.array(ns))), np.array(d), None if w is None else np.array(w), None
    op = C.dec(case["op"])
    J = np.array([[float(C.tofrac(x)) for x in row] for row in op[1]])
    d = np.array([float(C.tofrac(x)) for x in op[2]])
    w = None if op[3] == "none" else np.array([float(C.tofrac(x)) for x in op[3]])
    return J, d, w, a[4]


def _sig(w, d):
    """Rows that carry weight: a datum whose weight is below 1e-9 of the largest is being switched off (its value may be a fill value of any
    size), so agreement is judged on the other rows and in THEIR units."""
    if w is None:
        return np.ones(len(d), dtype=bool)
    w = np.asarray(w, dtype=float)
    return w >= 1e-9 * np.max(w)


def compare(case, io, mo):
    if case["fn"] == "large":
        return "diff:implementation failed: " + io[1] if C.is_err(io) else "ok"
    if case.get("jacobian_error") or case.get("oracle_only"):
        return "ok"
    if C.is_err(io):
        return "diff:implementation failed: " + io[1]
    if mo == "singular":
        return "amb"
    p_model = C.tofloat(mo[0])
    if case["fn"] != "trend" and mo[1] != "T":
        return "diff:model certificate (normal equations) failed"
    p_impl = io[1]["params"]
    if len(p_impl) != len(p_model):
        return f"diff:{len(p_impl)} parameters vs {len(p_model)}"
    J, d, w, alpha = _system(case)
    # compare predictions J p (well conditioned even when p is not) and parameters when the system is well conditioned
    sig = _sig(w, d)
    pi, pm = (J @ np.array(p_impl))[sig], (J @ np.array(p_model))[sig]
    sc = max(1.0, float(np.max(np.abs(d[sig]))))
    if not (np.max(np.abs(pi - pm)) <= 1e-6 * sc):
        # scikit-learn's LinearRegression solves with lstsq(cond=1e-6)-like singular-value truncation on the column-scaled,
        # weight-scaled Jacobian: beyond ~1e5 the undamped answer legitimately departs from the exact optimum ("whenever that
        # problem is well conditioned")
        # (the conditioning that counts is that of the problem the estimator is specified to solve: columns scaled to unit variance - a Jacobian of
        # monomials in metres is hopeless as it stands and perfectly ordinary once its columns are scaled)
        sd = J.std(axis=0)
        Js = J / np.where(sd == 0, 1.0, sd)
        cond = np.linalg.cond(Js * (np.sqrt(w)[:, None] if w is not None else 1.0))
        if cond > 1e5 and not alpha:
            return "amb"
        return f"diff:predictions of the fitted parameters differ by {np.max(np.abs(pi - pm))} (scale {sc})"
    if case["fn"] == "trend":
        pred_m = C.tofloat(mo[1])
        for x, y in zip(io[1]["pred"], pred_m):
            if not (abs(x - y) <= 1e-5 * max(1.0, abs(y), sc)):
                return f"diff:Trend.predict {x} vs model {y}"
    return "ok"


def oracle(case, io):
    if case["fn"] == "large":
        return (io[1] or None) if not C.is_err(io) else "failed: " + io[1]
    if case.get("jacobian_error"):
        return f"the public jacobian method failed ({case['jacobian_error']}) for {len(case['args'][0])} data points and " \
               f"{'forces at the data' if case['args'][5] is None else str(len(case['args'][5][0])) + ' separate forces'}"
    if C.is_err(io):
        return "fit failed: " + io[1]
    J, d, w, alpha = _system(case)
    if case["fn"] in ("spline", "vector"):
        # the problem being solved is the one with the DOCUMENTED design matrix: the Green's functions of the data-to-force offsets, written
        # out here from their formulas (r = |offset| + mindist; r^2 (ln r - 1); the elastic kernels with the Poisson ratio as given)
        es_, ns_, _, _, _, force_, nu, md = case["args"]
        fe_, fn_ = (es_, ns_) if force_ is None else force_
        de = np.array(es_, dtype=float)[:, None] - np.array(fe_, dtype=float)[None, :]
        dn = np.array(ns_, dtype=float)[:, None] - np.array(fn_, dtype=float)[None, :]
        r = np.hypot(de, dn) + md
        with np.errstate(divide="ignore", invalid="ignore"):
            if case["fn"] == "spline":
                Jref = np.where(r == 0, 0.0, r ** 2 * (np.log(np.where(r == 0, 1.0, r)) - 1))
            else:
                lnr, o2 = (3 - nu) * np.log(r), (1 + nu) / r ** 2
                Jref = np.vstack([np.hstack([lnr + o2 * dn ** 2, -o2 * de * dn]), np.hstack([-o2 * de * dn, lnr + o2 * de ** 2])])
        if np.all(np.isfinite(Jref)) and (Jref.shape != J.shape or not np.allclose(J, Jref, rtol=1e-9, atol=1e-9 * max(1.0, float(np.max(np.abs(Jref)))))):
            return ("the design matrix is not the documented Green's functions of the data-to-force offsets "
                    f"(largest departure {float(np.max(np.abs(J - Jref))) if Jref.shape == J.shape else 'shape'})")
    m, n = J.shape
    ws = np.ones(m) if w is None else w
    if m < n and not alpha:
        return None
    p = np.array(io[1]["params"])
    var = J.var(axis=0)
    s = np.where(var == 0, 1.0, var)
    a = 0.0 if alpha is None else alpha
    # independently assembled and solved problem, in units in which every column has largest entry 1 (p = q / cmax; any diagonal scaling
    # gives the same optimum, this one is not the estimator's)
    cmax = np.max(np.abs(J), axis=0)
    cmax = np.where(cmax == 0, 1.0, cmax)
    Jn = J / cmax
    A = Jn.T @ (ws[:, None] * Jn) + a * np.diag(s / cmax ** 2)
    cond = np.linalg.cond(A)
    if cond > 1e10:
        return None
    ref = np.linalg.solve(A, Jn.T @ (ws * d)) / cmax
    sig = _sig(w, d)
    sc = max(1.0, float(np.max(np.abs(d[sig]))))
    Jfull = J
    J = J[sig]      # (from here on only predictions at the rows that carry weight are compared)
    if not (np.max(np.abs(J @ p - J @ ref)) <= 1e-6 * sc * max(1.0, cond * 1e-9)):
        return (f"fitted parameters are not the weighted, damped least-squares optimum: predictions differ from an independently solved "
                f"problem by {np.max(np.abs(J @ p - J @ ref))}")
    # objective is not improved by perturbations
    def phi(q):
        return float(np.sum(ws * (d - Jfull @ q) ** 2) + a * np.sum(s * q * q))
    base = phi(p)
    rs = np.random.RandomState(len(p))
    for _ in range(4):
        q = p + rs.normal(size=n) * 1e-3 * max(1.0, np.max(np.abs(p)))
        if phi(q) < base - 1e-9 * max(1.0, abs(base)):
            return "a perturbed parameter vector has a smaller objective than the fitted one"
    # metamorphic relations on the real estimators
    if case["fn"] != "lstsq" and w is not None and not alpha and m >= n:
        c2 = dict(case)
        a2 = list(case["args"])
        widx = 3
        fac = [4.0, 1e-9, 1e7][len(case["op"]) % 3]
        a2[widx] = [[x * fac for x in comp] for comp in a2[widx]] if case["fn"] != "trend" else [x * fac for x in a2[widx]]
        c2["args"] = a2
        r2 = C.call(_fit, c2)
        if C.is_err(r2):
            return "fit with scaled weights failed"
        p2 = np.array(r2["params"])
        if not (np.max(np.abs(J @ p2 - J @ p)) <= 1e-6 * sc * max(1.0, cond * 1e-9)):
            return "multiplying all weights by a positive constant changed an undamped fit"
    return None


def nontrivial(case, io):
    if case["fn"] == "large":
        return not C.is_err(io)
    return (not C.is_err(io)) and len(io[1]["params"]) >= 2


def finding_key(case, io):
    return None
