"""Large-input cases (tens of thousands to a million points / cells): decided on the implementation alone, by relations the property implies -
the result on a large input restricted to a part equals the result on that part, labels equal floor division, every row holds its own cell.
Sizes sit on both sides of powers of two (2**16, 2**17, 2**20 cells) and are not multiples of anything convenient.  Each function returns ""
or a description of what failed."""
import warnings

import numpy as np
import verde as vd


def case(prop_fn, args, kind):
    return {"fn": "large", "kind": kind, "args": [prop_fn] + list(args), "op": "power_comb 0", "key": f"large-{prop_fn}-{args}"}


def run(a):
    with warnings.catch_warnings():
        warnings.simplefilter("ignore")
        return FUNCS[a[0]](*a[1:])


def _cloud(n, seed):
    rs = np.random.RandomState(seed)
    t = np.linspace(0.0, 1.0, n)
    e = (rs.uniform(0, 1, n) ** 1.3) * 40.0 + 3.0 * t
    no = rs.uniform(0, 1, n) * 30.0 - 10.0 + 2.0 * np.sin(9 * t)
    d = 50.0 * t + rs.normal(size=n) + 0.25 * e - 0.125 * no
    return e, no, d, rs


def _pieces(n, k):
    edges = sorted({0, n} | {int(n * f) for f in np.linspace(0, 1, k + 1)[1:-1]} | {n // 3 + 1})
    return list(zip(edges[:-1], edges[1:]))


def predict_in_pieces(which, n, seed, dtype):
    """A fitted gridder's prediction at n points equals its predictions at the pieces of those points, put together."""
    e, no, d, rs = _cloud(n, seed)
    k = 12
    fe, fn = rs.uniform(0, 43, k), rs.uniform(-12, 22, k)
    fd = np.sin(fe / 7.0) + 0.1 * fn
    if which == "spline":
        g = vd.Spline(mindist=0.5, damping=1e-6).fit((fe, fn), fd)
    elif which == "chain":
        g = vd.Chain([("trend", vd.Trend(1)), ("spline", vd.Spline(damping=1e-4))]).fit((fe, fn), fd)
    elif which == "chain3":
        g = vd.Chain([("mean", vd.BlockReduce(np.mean, spacing=4.0)), ("trend", vd.Trend(2)), ("knn", vd.KNeighbors(k=3)), ("lin", vd.Trend(1))]).fit((fe, fn), fd)
    elif which == "chain-f32data":      # single-precision data, a first step that hands its data's type on (nearest neighbour), then double-precision steps
        g = vd.Chain([("knn", vd.KNeighbors(k=3)), ("trend", vd.Trend(2)), ("spline", vd.Spline(damping=1e-6))]).fit((fe, fn), (1000.0 + 37.0 * fd).astype("float32"))
    elif which == "spline-many-forces":      # hundreds of forces set by hand (a model read from a file), many query points
        g = vd.Spline(mindist=0.5)
        m = 311
        g.force_coords_ = (rs.uniform(0, 43, m), rs.uniform(-12, 22, m))
        g.force_ = rs.normal(size=m)
        g.region_ = (0.0, 43.0, -12.0, 22.0)
    elif which == "vector":
        g = vd.Vector([vd.Trend(1), vd.Spline(damping=1e-4)]).fit((fe, fn), (fd, fd * 0.5 - 1.0))
    elif which == "vs2d":
        g = vd.VectorSpline2D(damping=1e-4, mindist=0.5).fit((fe, fn), (fd, fd * 0.5 - 1.0))
    else:
        g = {"trend": vd.Trend(3), "knn": vd.KNeighbors(k=2), "linear": vd.Linear()}[which].fit((fe, fn), fd)
    q = (e.astype(dtype), no.astype(dtype))
    whole = g.predict(q)
    whole = whole if isinstance(whole, tuple) else (whole,)
    parts = [g.predict((q[0][a:b], q[1][a:b])) for a, b in _pieces(n, 9)]
    parts = [p if isinstance(p, tuple) else (p,) for p in parts]
    tol = 1e-4 if dtype == "float32" else 1e-9      # (single-precision COORDINATES: the pieces see the same rounded coordinates, the tolerance is for the arithmetic)
    if which == "chain-f32data":
        tol = 1e-12
    for c, w in enumerate(whole):
        if w.shape != (n,):
            return f"{which}: prediction at {n} points has shape {w.shape}"
        ref = np.concatenate([p[c] for p in parts])
        bad = ~np.isclose(w, ref, rtol=tol, atol=tol, equal_nan=True)
        if bad.any():
            i = int(np.argmax(bad))
            return f"{which} ({dtype}): prediction at {n} points differs from the prediction at the same points taken in pieces, first at row {i}: {w[i]} vs {ref[i]} ({int(bad.sum())} rows)"
    return ""


def grid_in_pieces(shape, seed):
    """Spline.grid on a fine grid = predict at its nodes taken in pieces."""
    rs = np.random.RandomState(seed)
    fe, fn = rs.uniform(0, 10, 9), rs.uniform(0, 8, 9)
    g = vd.Spline(mindist=0.25).fit((fe, fn), np.cos(fe) + fn)
    grid = g.grid(region=(0, 10, 0, 8), shape=tuple(shape))
    E, N = np.meshgrid(grid.easting.values, grid.northing.values)
    e, no = E.ravel(), N.ravel()
    ref = np.concatenate([g.predict((e[a:b], no[a:b])) for a, b in _pieces(e.size, 7)])
    got = grid.scalars.values.ravel()
    bad = ~np.isclose(got, ref, rtol=1e-9, atol=1e-9)
    return "" if not bad.any() else f"Spline.grid(shape={tuple(shape)}): {int(bad.sum())} of {e.size} nodes differ from predict at the node, first at {int(np.argmax(bad))}"


def block_labels(n, seed, shape):
    e, no, _, _ = _cloud(n, seed)
    region = (0.0, 43.0, -12.0, 22.0)
    (be, bn), labels = vd.block_split((e, no), shape=tuple(shape), region=region)
    dy, dx = (region[3] - region[2]) / shape[0], (region[1] - region[0]) / shape[1]
    fj, fi = (e - region[0]) / dx, (no - region[2]) / dy
    lab = np.clip(np.floor(fi).astype(int), 0, shape[0] - 1) * shape[1] + np.clip(np.floor(fj).astype(int), 0, shape[1] - 1)
    clear = (np.abs(fj - np.round(fj)) > 1e-9) & (np.abs(fi - np.round(fi)) > 1e-9)
    if labels.shape != (n,):
        return f"block_split on {n} points: {labels.shape} labels"
    bad = clear & (labels != lab)
    return "" if not bad.any() else f"block_split on {n} points: {int(bad.sum())} labels are not the block the point lies in, first at row {int(np.argmax(bad))} (label {labels[np.argmax(bad)]}, block {lab[np.argmax(bad)]})"


def windows(n, seed, size, spacing):
    e, no, _, _ = _cloud(n, seed)
    region = (0.0, 43.0, -12.0, 22.0)
    (ce, cn), idx = vd.rolling_window((e, no), size=size, spacing=spacing, region=region)
    for (i, j), _ in np.ndenumerate(ce):
        got = np.sort(np.asarray(idx[i, j][0]))
        de, dn = np.abs(e - ce[i, j]), np.abs(no - cn[i, j])
        sure = (de < size / 2 - 1e-9) & (dn < size / 2 - 1e-9)
        maybe = (de <= size / 2 + 1e-9) & (dn <= size / 2 + 1e-9)
        mask = np.zeros(n, dtype=bool)
        mask[got] = True
        if got.size != np.unique(got).size or (sure & ~mask).any() or (mask & ~maybe).any():
            return (f"rolling_window on {n} points: window ({i}, {j}) centred at ({ce[i, j]}, {cn[i, j]}) lists {got.size} points; "
                    f"{int((sure & ~mask).sum())} points inside it are missing, {int((mask & ~maybe).sum())} listed points lie outside it")
    return ""


def blockmean_by_hand(n, seed, weighted):
    """BlockMean(uncertainty=False) on a long, unsorted table against each block's own rows."""
    e, no, d, rs = _cloud(n, seed)
    w = rs.uniform(0.5, 4.0, n) if weighted else None
    bm = vd.BlockMean(spacing=(17.0 / 3, 5.5), region=(0.0, 44.0, -12.0, 22.0), uncertainty=False, center_coordinates=True)
    (be, bn), bd, bw = bm.filter((e, no), d, w)
    return _bm_variances(bm, e, no, d, w, None, be, bn, bd, bw)


def _bm_variances(bm, e, no, d, w, west, be, bn, bd, bw):
    n = e.size
    # by hand: labels by block_split, weighted mean and weighted variance about it per block; weight = smallest positive variance / variance
    (ce, cn), labels = vd.block_split((e, no), spacing=bm.spacing, region=bm.region)
    ww = np.ones(n) if w is None else w
    nb = labels.max() + 1
    tot = np.bincount(labels, weights=ww, minlength=nb)
    occ = np.bincount(labels, minlength=nb) > 0
    mean = np.bincount(labels, weights=ww * d, minlength=nb)[occ] / tot[occ]
    full = np.zeros(nb)
    full[occ] = mean
    var = np.bincount(labels, weights=ww * (d - full[labels]) ** 2, minlength=nb)[occ] / tot[occ]
    pos = var[var > 1e-15]
    expw = np.where(var > 1e-15, pos.min() / np.where(var > 1e-15, var, 1.0), 1.0) if pos.size else np.ones_like(var)
    if bd.shape != mean.shape:
        return f"BlockMean on {n} rows: {bd.size} blocks for {mean.size} occupied ones"
    if not np.allclose(bd, mean, rtol=1e-8, atol=1e-10):
        return f"BlockMean on {n} rows: block means differ from the (weighted) mean of each block's own rows by up to {np.abs(bd - mean).max()}"
    if not np.allclose(bw, expw, rtol=1e-6, atol=1e-12):
        k = int(np.argmax(np.abs(bw - expw)))
        return (f"BlockMean on {n} rows (weighted={w is not None}, uncertainty=False): output weight of block {k} is {bw[k]}; smallest positive variance / the "
                f"variance of the block's own rows about their mean is {expw[k]}")
    return ""


def kfold_blocks(n, seed, shape, n_splits, shuffle):
    e, no, _, _ = _cloud(n, seed)
    X = np.column_stack([e, no])
    cv = vd.BlockKFold(shape=tuple(shape), n_splits=n_splits, shuffle=shuffle, random_state=seed)
    _, labels = vd.block_split((e, no), shape=tuple(shape), region=vd.get_region((e, no)))
    seen = np.zeros(n, dtype=int)
    for k, (tr, te) in enumerate(cv.split(X)):
        if np.intersect1d(tr, te).size or tr.size + te.size != n or np.unique(te).size != te.size:
            return f"BlockKFold({tuple(shape)}, {n_splits}) on {n} points, fold {k}: train and test overlap or do not cover the data ({tr.size} + {te.size} rows)"
        if np.intersect1d(labels[tr], labels[te]).size:
            return f"BlockKFold({tuple(shape)}, {n_splits}) on {n} points, fold {k}: {np.intersect1d(labels[tr], labels[te]).size} blocks have points on both sides"
        seen[te] += 1
    return "" if (seen == 1).all() else f"BlockKFold({tuple(shape)}, {n_splits}) on {n} points: {int((seen != 1).sum())} points are not tested exactly once"


def big_table(nn, ne, order):
    import xarray as xr
    east = np.cumsum(0.5 + (np.arange(ne) % 7) * 0.25)
    north = -3.0 + np.cumsum(1.0 + (np.arange(nn) % 5) * 0.5)
    vals = (np.arange(nn * ne, dtype=float).reshape(nn, ne) * 0.5) % 1013.0
    coords = {"easting": east, "northing": north} if order else {"northing": north, "easting": east}
    t = vd.grid_to_table(xr.Dataset({"v": (("northing", "easting"), vals)}, coords=coords))
    if len(t) != nn * ne:
        return f"grid_to_table on a {nn} x {ne} grid: {len(t)} rows"
    E, N = np.meshgrid(east, north)
    for name, ref in (("easting", E.ravel()), ("northing", N.ravel()), ("v", vals.ravel())):
        if not np.array_equal(np.asarray(t[name].values), ref):
            k = int(np.argmax(np.asarray(t[name].values) != ref))
            return f"grid_to_table on a {nn} x {ne} grid: column {name!r} is not the row-major ravel of the grid, first at row {k}"
    return ""


def table_independent(nn, ne, form):
    """The table made from a grid is a value of its own: it keeps the cell values it was made from when the grid is edited afterwards, and the
    grid keeps its values when the table is edited (history: convert, edit one of the two in place, look at the other / convert again)."""
    import xarray as xr
    east, north = np.arange(ne) * 2.0 + 1.0, np.arange(nn) * 3.0 - 4.0
    vals = np.arange(nn * ne, dtype=float).reshape(nn, ne) * 1.5 - 2.0
    extra = vals * 0.0 + np.arange(ne) * 10.0
    g = xr.Dataset({"v": (("northing", "easting"), vals.copy())}, coords={"easting": east, "northing": north, "height": (("northing", "easting"), extra.copy())})
    if form == "dataarray":
        g = g.v
    t = vd.grid_to_table(g)
    first = {c: np.asarray(t[c].values).copy() for c in t.columns}
    (g if form == "dataarray" else g.v).values[...] = -777.0
    g.height.values[...] = 5.0
    for c in t.columns:
        if not np.array_equal(np.asarray(t[c].values), first[c]):
            return f"grid_to_table ({form}): column {c!r} of a table made earlier changed when the grid was edited in place"
    g2 = xr.Dataset({"v": (("northing", "easting"), vals.copy())}, coords={"easting": east, "northing": north, "height": (("northing", "easting"), extra.copy())})
    t2 = vd.grid_to_table(g2)
    for c in t2.columns:
        col = t2[c].to_numpy()
        if col.flags.writeable:
            col[...] = 31.0
        try:
            t2.loc[:, c] = 31.0
        except Exception:  # noqa: BLE001
            pass
    if not (np.array_equal(g2.v.values, vals) and np.array_equal(g2.height.values, extra)):
        return "grid_to_table: editing the table in place rewrote the grid it was made from"
    t3 = vd.grid_to_table(g2)
    if not np.array_equal(np.asarray(t3["v"].values), vals.ravel()):
        return "grid_to_table: a second conversion of the same grid, after the first table was edited, does not return the grid's values"
    return ""


def cv_layout(n, seed, rows):
    """Cross-validated scores / the spline SplineCV selects do not depend on whether the arrays come as 1-D or as 2-D of the same sequence."""
    from sklearn.model_selection import KFold
    rs = np.random.RandomState(seed)
    e, no = rs.uniform(0, 40, n), rs.uniform(-10, 20, n)
    d = np.sin(e / 6.0) * 3.0 + 0.1 * no + rs.normal(scale=0.3, size=n)
    w = rs.uniform(0.5, 2.0, n)
    q = (np.linspace(1, 39, 7), np.linspace(-9, 19, 7))
    outs = []
    for sh in ((n,), (rows, n // rows), (n // rows, rows)):
        f = lambda x: x.reshape(sh)  # noqa: E731
        sc = vd.cross_val_score(vd.Spline(damping=1e-2), (f(e), f(no)), f(d), weights=f(w), cv=KFold(n_splits=4))
        cvs = vd.SplineCV(dampings=(1e-4, 1e-1, 100.0), mindists=(0.5, 5.0), cv=KFold(n_splits=3)).fit((f(e), f(no)), f(d))
        outs.append((np.asarray(sc, dtype=float), np.asarray(cvs.scores_, dtype=float), float(cvs.damping_), float(cvs.mindist_), cvs.predict(q)))
    for k, o in enumerate(outs[1:]):
        for name, a, b in zip(("cross_val_score scores", "SplineCV.scores_", "selected damping", "selected mindist", "SplineCV predictions"), outs[0], o):
            if not np.allclose(a, b, rtol=1e-7, atol=1e-9, equal_nan=True):
                return f"{name} differ between 1-D arrays and the same {n} points given as {('(%d, %d)' % ((rows, n // rows) if k == 0 else (n // rows, rows)))} arrays: {np.ravel(a)[:4]} vs {np.ravel(b)[:4]}"
    return ""


def knn_big_ints(red):
    """Neighbour reductions that pick a data value (min / max, or any reduction of ONE neighbour's value that keeps integers) return that value
    exactly, also for 64-bit integers that a float cannot hold."""
    e = np.array([0.0, 10.0, 20.0, 30.0, 40.0, 50.0])
    no = np.array([0.0, 1.0, 0.0, 1.0, 0.0, 1.0])
    d = np.array([2 ** 53 + 1, 2 ** 53 + 3, 2 ** 60 + 7, -(2 ** 55) - 1, 2 ** 62 + 12345, 9007199254740993], dtype="int64")
    f = {"max": np.max, "min": np.min}[red]
    g = vd.KNeighbors(k=2, reduction=f).fit((e, no), d)
    q = (np.array([4.0, 16.0, 24.0, 36.0, 46.0]), np.array([0.5, 0.5, 0.5, 0.5, 0.5]))
    got = g.predict(q)
    pairs = [(0, 1), (1, 2), (2, 3), (3, 4), (4, 5)]
    ref = [int(f(d[list(p)])) for p in pairs]
    if [int(v) for v in got] != ref:
        return f"KNeighbors(k=2, reduction={red}) on 64-bit integer data: {[int(v) for v in got]} instead of the neighbours' values {ref}"
    g1 = vd.KNeighbors(k=1, reduction=f).fit((e, no), d)
    got1 = [int(v) for v in g1.predict((e + 0.25, no))]
    return "" if got1 == [int(v) for v in d] else f"KNeighbors(k=1, reduction={red}) at the data points: {got1} instead of the data {[int(v) for v in d]}"


def blocksum_big_ints(dtype):
    """A block's sum is the sum of exactly its members, in the data's own integer arithmetic."""
    e = np.array([0.5, 0.75, 1.5, 1.25, 2.5, 0.25, 2.75, 1.75])
    no = np.array([0.5] * 8)
    d = np.array([2 ** 53 + 1, 2 ** 53 + 3, 5, 2 ** 54 + 1, 2 ** 60 + 1, 7, 2, 2 ** 54 + 3], dtype=dtype)
    (be, bn), bd = vd.BlockReduce(np.sum, spacing=1.0, region=(0, 3, 0, 1)).filter((e, no), d)
    ref = [int(d[[0, 1, 5]].sum()), int(d[[2, 3, 7]].sum()), int(d[[4, 6]].sum())]
    if [int(v) for v in bd] != ref:
        return f"BlockReduce(np.sum) on {dtype} data: {[int(v) for v in bd]} instead of the sums of the blocks' members {ref}"
    return "" if int(np.sum(bd)) == int(d.sum()) else "block sums do not add up to the total"


def vector_components(seed):
    """Vector([...]).predict = each component's own prediction, also when the components are the same kind of gridder with their own settings."""
    rs = np.random.RandomState(seed)
    e, no = rs.uniform(0, 20, 15), rs.uniform(0, 10, 15)
    d1, d2 = np.sin(e / 4.0) + no * 0.2, np.cos(no / 3.0) * 2.0 - e * 0.1
    fa = (rs.uniform(0, 20, 6), rs.uniform(0, 10, 6))
    fb = (rs.uniform(0, 20, 6), rs.uniform(0, 10, 6))
    q = (rs.uniform(0, 20, (3, 4)), rs.uniform(0, 10, (3, 4)))
    mk = lambda: [vd.Spline(damping=1e-3, force_coords=fa), vd.Spline(damping=1e-3, force_coords=fb)]  # noqa: E731
    for comps in (mk, lambda: [vd.Spline(damping=1e-2), vd.Spline(damping=1e-2, force_coords=tuple(c[::-1] + 0.5 for c in (e, no)))],
                  lambda: [vd.Spline(mindist=2.0, damping=1e-3), vd.Spline(mindist=2.0, damping=10.0)]):
        v = vd.Vector(comps()).fit((e, no), (d1, d2))
        got = v.predict(q)
        own = [c.fit((e, no), d).predict(q) for c, d in zip(comps(), (d1, d2))]
        for k in range(2):
            if got[k].shape != (3, 4) or not np.allclose(got[k], own[k], rtol=1e-9, atol=1e-9):
                return f"Vector of two Splines: component {k} predicts {np.ravel(got[k])[:3]}, the same Spline fitted on its own predicts {np.ravel(own[k])[:3]}"
    return ""


def compiled_loops(seed):
    """The explicit loops behind engine="numba" (run here as plain Python when numba is absent: the decorator keeps the source) build the same
    Jacobians and predictions as the array code, also when the forces are fewer or more than the data points."""
    import types

    import verde.spline as sp
    import verde.vector as vv

    def src(f):
        return getattr(f, "__wrapped__", getattr(f, "py_func", None))
    saved = []

    def patch(mod, name, value):
        saved.append((mod, name, getattr(mod, name, None), hasattr(mod, name)))
        setattr(mod, name, value)
    try:
        for mod, names in ((sp, ("greens_func_jit",)), (vv, ("GREENS_FUNC_2D_JIT",))):
            for nm in names:
                if src(getattr(mod, nm)) is None:
                    return ""
                patch(mod, nm, src(getattr(mod, nm)))
            if not hasattr(mod, "numba") or getattr(mod, "numba") is None:
                patch(mod, "numba", types.SimpleNamespace(prange=range))
        rs = np.random.RandomState(seed)
        for npts, nf in ((7, 4), (5, 9), (6, 6)):
            e, no = rs.uniform(0, 20, npts), rs.uniform(0, 10, npts)
            fe, fn = rs.uniform(0, 20, nf), rs.uniform(0, 10, nf)
            for md in (0.0, 1.5):
                ref = vd.Spline(mindist=md, engine="numpy").jacobian((e, no), (fe, fn))
                got = src(sp.jacobian_numba)(e, no, fe, fn, md, np.full((npts, nf), np.nan))
                if not np.allclose(got, ref, rtol=1e-11, atol=1e-11):
                    return f"spline.jacobian_numba ({npts} points, {nf} forces) differs from the array Jacobian"
                forces = rs.normal(size=nf)
                if not np.allclose(src(sp.predict_numba)(e, no, fe, fn, md, forces, np.full(npts, np.nan)), ref @ forces, rtol=1e-10, atol=1e-10):
                    return f"spline.predict_numba ({npts} points, {nf} forces) differs from Jacobian times forces"
                for nu in (0.5, -1.0, 0.0):
                    vref = vd.VectorSpline2D(poisson=nu, mindist=md, engine="numpy").jacobian((e, no), (fe, fn))
                    vgot = src(vv.jacobian_2d_numba)(e, no, fe, fn, md, nu, np.full((2 * npts, 2 * nf), np.nan))
                    if vgot.shape != vref.shape or not np.allclose(vgot, vref, rtol=1e-11, atol=1e-11, equal_nan=False):
                        return f"vector.jacobian_2d_numba ({npts} points, {nf} forces, poisson {nu}) differs from the array Jacobian"
                    f2 = rs.normal(size=2 * nf)
                    pe, pn = src(vv.predict_2d_numba)(e, no, fe, fn, md, nu, f2, np.full(npts, np.nan), np.full(npts, np.nan))
                    if not np.allclose(np.concatenate([pe, pn]), vref @ f2, rtol=1e-10, atol=1e-10):
                        return f"vector.predict_2d_numba ({npts} points, {nf} forces, poisson {nu}) differs from Jacobian times forces"
    finally:
        for mod, name, val, had in reversed(saved):
            if had:
                setattr(mod, name, val)
            else:
                delattr(mod, name)
    return ""


def jacobian_in_pieces(n, nf, seed):
    """Spline.jacobian / a Spline fitted with separate force positions on a long table: rows of the Jacobian are the rows of the Jacobian of
    the pieces; the fitted forces solve the least-squares problem assembled from those pieces."""
    e, no, d, rs = _cloud(n, seed)
    side = int(round(nf ** 0.5))
    fc = tuple(np.ravel(c) for c in vd.grid_coordinates((0, 43, -12, 22), shape=(side, side)))
    jac = vd.Spline(mindist=1.0).jacobian((e, no), fc)
    ref = np.vstack([vd.Spline(mindist=1.0).jacobian((e[a:b], no[a:b]), fc) for a, b in _pieces(n, 11)])
    if jac.shape != ref.shape or not np.allclose(jac, ref, rtol=1e-12, atol=1e-12):
        bad = np.where(~np.isclose(jac, ref, rtol=1e-12, atol=1e-12).all(axis=1))[0]
        return f"Spline.jacobian for {n} points x {fc[0].size} forces: {bad.size} rows differ from the Jacobian of the same points taken in pieces, first row {bad[0] if bad.size else '?'}"
    g = vd.Spline(mindist=1.0, damping=1e-3, force_coords=fc).fit((e, no), d)
    pred = g.predict((e[::97], no[::97]))
    # independent: normal equations of the scaled, damped problem are not needed - the optimum's residual is orthogonal to the columns up to damping;
    # here simply: predictions equal (pieces Jacobian) @ force_
    if not np.allclose(pred, ref[::97] @ g.force_, rtol=1e-9, atol=1e-9):
        return f"Spline fitted to {n} points with {fc[0].size} forces: predict differs from the Jacobian of the points times force_"
    from sklearn.preprocessing import StandardScaler
    sc = StandardScaler(copy=True, with_mean=False, with_std=True).fit(ref)
    A = sc.transform(ref)
    hess = A.T @ A + 1e-3 * np.eye(A.shape[1])
    grad = A.T @ d
    p_ref = np.linalg.solve(hess, grad) / sc.scale_
    r_fit, r_ref = d - ref @ g.force_, d - ref @ p_ref
    if not np.isclose(np.linalg.norm(r_fit), np.linalg.norm(r_ref), rtol=1e-6):
        return (f"Spline fitted to {n} points with {fc[0].size} forces: misfit {np.linalg.norm(r_fit)} is not that of the damped least-squares "
                f"solution assembled from the pieces ({np.linalg.norm(r_ref)})")
    return ""


def vector_mixed_dtype(seed):
    """VectorSpline2D with one component handed over as integers and the other as fractions: same result as all-float input."""
    rs = np.random.RandomState(seed)
    e, no = rs.uniform(0, 20, 12), rs.uniform(0, 10, 12)
    de = rs.randint(-20, 20, 12).astype(float)
    dn = rs.uniform(-3, 3, 12)
    w = rs.randint(1, 5, 12).astype(float)
    q = (rs.uniform(0, 20, 7), rs.uniform(0, 10, 7))
    mk = lambda: vd.VectorSpline2D(damping=1e-2, mindist=1.0)  # noqa: E731
    ref = mk().fit((e, no), (de, dn), (w, w * 0.5)).predict(q)
    for name, data, wts in (("east component int64", (de.astype("int64"), dn), (w, w * 0.5)), ("east weights int32", (de, dn), (w.astype("int32"), w * 0.5)),
                            ("north component int64 (fractional east)", (dn, de.astype("int64")), (w * 0.5, w))):
        if name.startswith("north"):
            r2 = mk().fit((e, no), (dn, de), (w * 0.5, w)).predict(q)
        else:
            r2 = ref
        got = mk().fit((e, no), data, wts).predict(q)
        if not all(np.allclose(a, b, rtol=1e-9, atol=1e-9) for a, b in zip(got, r2)):
            return f"VectorSpline2D with the {name}: predictions differ from the all-float fit"
    return ""


FUNCS = {"compiled_loops": compiled_loops, "jacobian_in_pieces": jacobian_in_pieces, "vector_mixed_dtype": vector_mixed_dtype, "knn_big_ints": knn_big_ints, "blocksum_big_ints": blocksum_big_ints, "vector_components": vector_components, "cv_layout": cv_layout, "table_independent": table_independent, "predict_in_pieces": predict_in_pieces, "grid_in_pieces": grid_in_pieces, "block_labels": block_labels, "windows": windows,
         "blockmean_by_hand": blockmean_by_hand, "kfold_blocks": kfold_blocks, "big_table": big_table}
