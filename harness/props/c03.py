"""C03 — predictions evaluate the documented analytic models with the fitted parameters."""
import math
import warnings

import numpy as np
from scipy.interpolate import CloughTocher2DInterpolator, LinearNDInterpolator

import common as C
import gen as G
import verde as vd
from props import large as L

ID = "C03"
TRANSLATED = "kernels"      # Gen/Kernels.lean is regenerated from /repo by py2lean.py and bridged to the model in Props/C03.lean
FILES = ["verde/spline.py", "verde/vector.py", "verde/trend.py", "verde/synthetic.py", "verde/scipygridder.py"]
RULE = ("corpus of dangerous distances {0, 1e-300, 1e-12, 1/2, 1-eps, 1, 1+eps, e, 1e4, 1e8} x mindist {0, 1e-3, 1, 1e4} x Poisson in [-1, 1] + seeded "
        "point/force sets: Spline.jacobian / predict (parameters set externally), VectorSpline2D.jacobian / predict, Trend.jacobian / predict for degrees "
        "0..6, CheckerBoard.predict (default and custom wavelengths), all query shapes; the same generic Lean definitions are executed at Float and "
        "compared at 1e-12 relative to the kernel magnitude; Linear/Cubic are compared with SciPy's interpolators directly (no model); "
        "non-trivial = finite output with >= 2 entries; distinct = distinct protocol lines")
ASSUMPTIONS = ["libm log/pow/sqrt/sin/cos of numpy and of Lean's Float agree to 1e-12 relative (both call the platform libm)",
               "Linear/Cubic == SciPy is a differential test only (external algorithm, no theorem possible)"]
TRUSTED = ["platform libm", "scipy.interpolate.LinearNDInterpolator / CloughTocher2DInterpolator"]

DIST = [0.0, 1e-300, 1e-12, 0.5, 1.0 - 2.0 ** -53, 1.0, 1.0 + 2.0 ** -52, math.e, 1e4, 1e8]


def pairs(es, ns):
    return [[x, y] for x, y in zip(es, ns)]


def mk_sjac(oe, on, fe, fn, mindist, kind):
    return {"fn": "sjac", "kind": kind, "args": [oe, on, fe, fn, mindist],
            "op": f"k_spline_jac {C.enc(pairs(oe, on))} {C.enc(pairs(fe, fn))} {C.enc(mindist)}"}


def mk_spred(oe, on, shape2d, fe, fn, mindist, forces, kind):
    return {"fn": "spred", "kind": kind, "args": [oe, on, shape2d, fe, fn, mindist, forces],
            "op": f"k_spline_predict {C.enc(pairs(oe, on))} {C.enc(pairs(fe, fn))} {C.enc(mindist)} {C.enc(forces)}"}


def mk_vjac(oe, on, fe, fn, mindist, poisson, kind):
    return {"fn": "vjac", "kind": kind, "args": [oe, on, fe, fn, mindist, poisson],
            "op": f"k_vector_jac {C.enc(pairs(oe, on))} {C.enc(pairs(fe, fn))} {C.enc(mindist)} {C.enc(poisson)}"}


def mk_vpred(oe, on, shape2d, fe, fn, mindist, poisson, f_e, f_n, kind):
    return {"fn": "vpred", "kind": kind, "args": [oe, on, shape2d, fe, fn, mindist, poisson, f_e, f_n],
            "op": f"k_vector_predict {C.enc(pairs(oe, on))} {C.enc(pairs(fe, fn))} {C.enc(mindist)} {C.enc(poisson)} {C.enc(f_e)} {C.enc(f_n)}"}


def mk_trend(es, ns, shape2d, deg, coef, kind):
    return {"fn": "trend", "kind": kind, "args": [es, ns, shape2d, deg, coef],
            "op": f"trend_predict {C.enc(coef)} {deg} {C.enc(es)} {C.enc(ns)}"}


def mk_checker(region, amp, we, wn, es, ns, shape2d, kind):
    w_e = (region[1] - region[0]) / 2 if we is None else we
    w_n = (region[3] - region[2]) / 2 if wn is None else wn
    return {"fn": "checker", "kind": kind, "args": [region, amp, we, wn, es, ns, shape2d],
            "op": f"k_checker {C.enc(amp)} {C.enc(w_e)} {C.enc(w_n)} {C.enc(es)} {C.enc(ns)}"}


def mk_scipy(which, rescale, es, ns, d, qe, qn, kind):
    return {"fn": "scipy", "kind": kind, "args": [which, rescale, es, ns, d, qe, qn], "op": "power_comb 1"}


def corpus():
    return _corpus() + [L.case("predict_in_pieces", ["spline", 65536, 4, "float64"], "corpus-large-queries"),
                       L.case("predict_in_pieces", ["spline", 131072, 5, "float64"], "corpus-large-queries"),
                       L.case("predict_in_pieces", ["vs2d", 65536, 6, "float64"], "corpus-large-queries"),
                       L.case("compiled_loops", [3], "corpus-compiled-loops")]


def _corpus():
    cs = []
    for md in (0.0, 1e-3, 1.0, 1e4):
        oe = list(DIST) + [r * 0.6 for r in DIST]
        on = [0.0] * len(DIST) + [r * 0.8 for r in DIST]
        cs.append(mk_sjac(oe, on, [0.0], [0.0], md, "corpus-distances"))
        for nu in (-1.0, 0.0, 0.5, 1.0):
            cs.append(mk_vjac(oe, on, [0.0], [0.0], md, nu, "corpus-distances-vector"))
    cs.append(mk_sjac([0.0, 1.0, 2.0], [0.0, 1.0, 0.0], [0.0, 1.0, 2.0], [0.0, 1.0, 0.0], 0.0, "corpus-coincident"))
    for deg in range(7):
        npar = (deg + 1) * (deg + 2) // 2
        cs.append(mk_trend([0.5, -1.25, 2.0], [1.5, 0.25, -0.75], [3], deg, [float(k + 1) / 4 for k in range(npar)], f"corpus-trend-{deg}"))
    cs.append(mk_checker((0.0, 5000.0, -5000.0, 0.0), 1000.0, None, None, [0.0, 625.0, 1250.0, 4000.0], [0.0, -625.0, -100.0, -5000.0], [4], "corpus-checker"))
    for c in list(cs):
        if c["fn"] in ("sjac", "vjac"):
            cs.append(dict(c, numba_src=True, kind=c["kind"] + "-numba-src", key="numba-src"))
    # families exercised on EVERY run: single-precision Jacobians of surveys with a large common offset (projected metres)
    for off in (2.0 ** 19, 2.0 ** 22):
        oe = [off + v for v in (0.25, 1.5, 3.75, 7.0)]
        on = [-off + v for v in (0.5, 2.25, 1.0, 6.5)]
        c = mk_sjac(oe, on, [off + 1.0, off + 5.25], [-off + 0.75, -off + 4.0], 0.0, "corpus-offset")
        cs.append(c)
        cs.append(dict(c, dtype32=True, kind="corpus-offset-float32", key="float32"))
    return cs


def generate(rng, tier):
    n = 250 if tier == "quick" else 4000
    cs = []
    for _ in range(n):
        u = rng.random()
        scale = rng.choice([1e-9, 1e-6, 1e-2, 1.0, 1.0, 50.0, 1e4, 1e6])      # (surveys in tiny units .. projected metres)
        nobs, nf = rng.randint(1, 8), rng.randint(1, 6)
        off = rng.choice([0.0, 0.0, 1e3 * scale])
        oe = [off + G.dyadic(rng, 512, 6) * scale for _ in range(nobs)]
        on = [off + G.dyadic(rng, 512, 6) * scale for _ in range(nobs)]
        fe = [off + G.dyadic(rng, 512, 6) * scale for _ in range(nf)]
        fn = [off + G.dyadic(rng, 512, 6) * scale for _ in range(nf)]
        if rng.random() < 0.3:
            fe[0], fn[0] = oe[0], on[0]
        v_ = rng.random()
        if v_ < 0.1:
            # the forces share ONE coordinate with the observations (placed below / beside them): same eastings, other northings - or the reverse
            fe, fn = list(oe), [y + rng.choice([0.25, -1.5]) * scale for y in on]
        elif v_ < 0.2:
            fe, fn = [x + rng.choice([0.5, -2.0]) * scale for x in oe], list(on)
        elif v_ < 0.27:
            fe, fn = list(oe), list(on)      # forces exactly at the observations (the symmetric case)
        nf = len(fe)
        shape2d = [nobs] if (nobs % 2 or rng.random() < 0.6) else [2, nobs // 2]
        if u < 0.2:
            cs.append(mk_sjac(oe, on, fe, fn, rng.choice([0.0, 0.0, 1e-3, 1.0, scale]), "spline-jac"))
        elif u < 0.35:
            forces = [rng.randint(-64, 64) / 8.0 for _ in range(nf)]
            cs.append(mk_spred(oe, on, shape2d, fe, fn, rng.choice([0.0, 0.0, 1.0, scale]), forces, "spline-predict"))
        elif u < 0.5:
            cs.append(mk_vjac(oe, on, fe, fn, rng.choice([1e-3, 1.0, scale, 10e3]), rng.randint(-8, 8) / 8.0, "vector-jac"))
        elif u < 0.65:
            f_e = [rng.randint(-64, 64) / 8.0 for _ in range(nf)]
            f_n = [rng.randint(-64, 64) / 8.0 for _ in range(nf)]
            cs.append(mk_vpred(oe, on, shape2d, fe, fn, rng.choice([1e-3, 1.0, scale]), rng.randint(-8, 8) / 8.0, f_e, f_n, "vector-predict"))
        elif u < 0.8:
            deg = rng.randint(0, 6)
            npar = (deg + 1) * (deg + 2) // 2
            es = [G.dyadic(rng, 64, 4) for _ in range(nobs)]
            ns = [G.dyadic(rng, 64, 4) for _ in range(nobs)]
            cs.append(mk_trend(es, ns, shape2d, deg, [rng.randint(-32, 32) / 8.0 for _ in range(npar)], f"trend-{deg}"))
        elif u < 0.92:
            reg = G.small_region(rng)
            custom = rng.random() < 0.5
            cs.append(mk_checker(reg, rng.randint(1, 64) / 4.0, rng.randint(1, 40) / 4.0 if custom else None,
                                 rng.randint(1, 40) / 4.0 if custom and rng.random() < 0.7 else None, oe, on, shape2d, "checker"))
        else:
            npts = rng.randint(4, 12)
            es = [rng.random() * 10 for _ in range(npts)]
            ns = [rng.random() * 1000 for _ in range(npts)]
            d = [rng.random() for _ in range(npts)]
            qe = [rng.random() * 10 for _ in range(6)]
            qn = [rng.random() * 1000 for _ in range(6)]
            cs.append(mk_scipy(rng.choice(["linear", "cubic"]), rng.random() < 0.5, es, ns, d, qe, qn, "scipy"))
    # the numba-engine source (not importable here: numba absent) on a share of the kernel cases
    for c in list(cs):
        if c["fn"] in ("sjac", "spred", "vjac", "vpred") and rng.random() < 0.5:
            cs.append(dict(c, numba_src=True, kind=c["kind"] + "-numba-src", key="numba-src"))
        elif c["fn"] == "sjac" and rng.random() < 0.5:
            # the public jacobian's dtype argument: the same kernels (computed from the float64 coordinates), stored in single precision
            cs.append(dict(c, dtype32=True, kind=c["kind"] + "-float32", key="float32"))
    return cs


def _numba_src(fn, a):
    """The numba-engine functions, run from their source text (see common.numba_source)."""
    sp, vec = C.numba_source("verde/spline.py"), C.numba_source("verde/vector.py")
    if fn == "sjac":
        oe, on, fe, fn_, md = a
        jac = np.full((len(oe), len(fe)), np.nan)
        return sp["jacobian_numba"](np.array(oe), np.array(on), np.array(fe), np.array(fn_), md, jac).tolist()
    if fn == "spred":
        oe, on, shape2d, fe, fn_, md, forces = a
        res = np.full(len(oe), np.nan)
        return sp["predict_numba"](np.array(oe), np.array(on), np.array(fe), np.array(fn_), md, np.array(forces), res).tolist()
    if fn == "vjac":
        oe, on, fe, fn_, md, nu = a
        jac = np.full((2 * len(oe), 2 * len(fe)), np.nan)
        return vec["jacobian_2d_numba"](np.array(oe), np.array(on), np.array(fe), np.array(fn_), md, nu, jac).tolist()
    if fn == "vpred":
        oe, on, shape2d, fe, fn_, md, nu, f_e, f_n = a
        ve, vn = np.full(len(oe), np.nan), np.full(len(oe), np.nan)
        r = vec["predict_2d_numba"](np.array(oe), np.array(on), np.array(fe), np.array(fn_), md, nu,
                                    np.array(list(f_e) + list(f_n)), ve, vn)
        return [r[0].tolist(), r[1].tolist()]
    raise C.Infra("unknown numba-src fn")


def impl(case):
    if case["fn"] == "large":
        r = C.call(L.run, case["args"])
        return r if C.is_err(r) else ["large", r]
    a = case["args"]
    fn = case["fn"]

    def run():
        with warnings.catch_warnings():
            warnings.simplefilter("ignore")
            with np.errstate(all="ignore"):
                if case.get("numba_src"):
                    return _numba_src(fn, a)
                if fn == "sjac":
                    oe, on, fe, fn_, md = a
                    if case.get("dtype32"):
                        j = vd.Spline(mindist=md).jacobian((np.array(oe), np.array(on)), (np.array(fe), np.array(fn_)), dtype="float32")
                        if j.dtype != np.float32:
                            raise RuntimeError("jacobian(dtype='float32') did not return a float32 matrix")
                        return j.astype(float).tolist()
                    return vd.Spline(mindist=md).jacobian((np.array(oe), np.array(on)), (np.array(fe), np.array(fn_))).tolist()
                if fn == "spred":
                    oe, on, shape2d, fe, fn_, md, forces = a
                    s = vd.Spline(mindist=md)
                    s.force_coords_ = (np.array(fe), np.array(fn_))
                    s.force_ = np.array(forces)
                    r = s.predict((C.mkarr(oe, shape2d, "oe:" + case["op"]), C.mkarr(on, shape2d, "on:" + case["op"])))
                    if list(r.shape) != list(shape2d):
                        raise RuntimeError("wrong output shape")
                    return r.ravel().tolist()
                if fn == "vjac":
                    oe, on, fe, fn_, md, nu = a
                    return vd.VectorSpline2D(poisson=nu, mindist=md).jacobian((np.array(oe), np.array(on)), (np.array(fe), np.array(fn_))).tolist()
                if fn == "vpred":
                    oe, on, shape2d, fe, fn_, md, nu, f_e, f_n = a
                    v = vd.VectorSpline2D(poisson=nu, mindist=md, force_coords=(np.array(fe), np.array(fn_)))
                    v.force_ = np.array(list(f_e) + list(f_n))
                    r = v.predict((C.mkarr(oe, shape2d, "oe:" + case["op"]), C.mkarr(on, shape2d, "on:" + case["op"])))
                    if any(list(c.shape) != list(shape2d) for c in r):
                        raise RuntimeError("wrong output shape")
                    return [r[0].ravel().tolist(), r[1].ravel().tolist()]
                if fn == "trend":
                    es, ns, shape2d, deg, coef = a
                    t = vd.Trend(deg)
                    t.coef_ = np.array(coef)
                    r = t.predict((C.mkarr(es, shape2d, "es:" + case["op"]), C.mkarr(ns, shape2d, "ns:" + case["op"])))
                    jac = t.jacobian((np.array(es), np.array(ns)))
                    if list(r.shape) != list(shape2d) or jac.shape[1] != (deg + 1) * (deg + 2) // 2:
                        raise RuntimeError("wrong output shape / number of monomials")
                    if not np.allclose(jac @ np.array(coef), r.ravel(), rtol=1e-12, atol=1e-9):
                        raise RuntimeError("predict != jacobian @ coef")
                    return r.ravel().tolist()
                if fn == "checker":
                    region, amp, we, wn, es, ns, shape2d = a
                    c = vd.synthetic.CheckerBoard(amplitude=amp, region=tuple(region), w_east=we, w_north=wn)
                    return c.predict((C.mkarr(es, shape2d, "es:" + case["op"]), C.mkarr(ns, shape2d, "ns:" + case["op"]))).ravel().tolist()
                if fn == "scipy":
                    which, rescale, es, ns, d, qe, qn = a
                    cls, ref = (vd.Linear, LinearNDInterpolator) if which == "linear" else (vd.Cubic, CloughTocher2DInterpolator)
                    g = cls(rescale=rescale).fit((np.array(es), np.array(ns)), np.array(d))
                    got = g.predict((np.array(qe), np.array(qn)))
                    exp = ref(np.column_stack([es, ns]), np.array(d), rescale=rescale)((np.array(qe), np.array(qn)))
                    return {"got": got.tolist(), "exp": exp.tolist()}
        raise C.Infra("unknown fn")
    return C.call(run)


def _num(v):
    if isinstance(v, list):
        return [_num(i) for i in v]
    if v == "nan":
        return float("nan")
    if v == "inf":
        return float("inf")
    if v == "-inf":
        return float("-inf")
    return C.tofloat(v)


def _close(x, y, tol=1e-12):
    if isinstance(x, list):
        return len(x) == len(y) and all(_close(a, b, tol) for a, b in zip(x, y))
    if x != x or y != y:
        return x != x and y != y
    if math.isinf(x) or math.isinf(y):
        return x == y
    return abs(x - y) <= tol * max(1.0, abs(x), abs(y))


def compare(case, io, mo):
    if case["fn"] == "large":
        return "diff:implementation failed: " + io[1] if C.is_err(io) else "ok"
    if case["fn"] == "scipy":
        return "ok"
    if C.is_err(io):
        return "diff:implementation failed: " + io[1]
    mv = _num(mo)
    tol = 1e-9 if case["fn"] in ("trend",) else 1e-11
    if case.get("dtype32"):
        tol = 1e-6
    if case["fn"] == "checker":
        tol = 1e-9       # sin/cos of large arguments
    return "ok" if _close(io, mv, tol) else f"diff:{str(io)[:150]} vs {str(mv)[:150]}"


def g_spline(r):
    return 0.0 if r == 0 else r * r * (math.log(r) - 1.0)


def oracle(case, io):
    if case["fn"] == "large":
        return (io[1] or None) if not C.is_err(io) else "failed: " + io[1]
    a = case["args"]
    fn = case["fn"]
    if C.is_err(io):
        return "evaluation failed: " + io[1]
    if fn == "scipy":
        got, exp = np.array(io["got"]), np.array(io["exp"])
        if not np.allclose(got, exp, rtol=1e-12, atol=1e-12, equal_nan=True):
            return f"{a[0]} (rescale={a[1]}) differs from SciPy's interpolator on the same points"
        return None
    if fn in ("sjac", "spred"):
        if fn == "sjac":
            oe, on, fe, fn_, md = a
            jac = io
        else:
            oe, on, shape2d, fe, fn_, md, forces = a
        # tolerance RELATIVE to the kernel value (the property spans distances 1e-12 .. 1e8: an absolute tolerance would accept "0" for
        # every small distance), plus the round-off of evaluating the kernel in double precision: below 1 the code's own form
        # r (log(r**r) - r) carries an absolute error of about eps*r, above 1 the cancellation near r = e one of about eps*r^2
        eps = 2.0 ** -52
        rel = 4e-7 if case.get("dtype32") else 1e-9
        for i, (x, y) in enumerate(zip(oe, on)):
            row, slack = [], []
            for j, (fx, fy) in enumerate(zip(fe, fn_)):
                r = math.hypot(x - fx, y - fy) + md
                row.append(g_spline(r))
                slack.append(64 * eps * max(r, r * r) + (1e-45 if case.get("dtype32") else 0.0))
            if fn == "sjac":
                for j, v in enumerate(row):
                    if not (math.isfinite(jac[i][j]) and abs(jac[i][j] - v) <= rel * abs(v) + slack[j]):
                        return f"jacobian[{i}][{j}] = {jac[i][j]} but r^2 (ln r - 1) (0 at r = 0) gives {v}"
            else:
                v = sum(g * f for g, f in zip(row, forces))
                sc = sum(abs(g * f) for g, f in zip(row, forces))
                if not (abs(io[i] - v) <= 1e-9 * sc + sum(abs(f) * t for f, t in zip(forces, slack))):
                    return f"prediction {i} = {io[i]} is not sum(force * g(distance)) = {v}"
        if fn == "sjac" and len(oe) <= 6:
            sh = 37.5
            j2 = vd.Spline(mindist=md).jacobian((np.array(oe) + sh, np.array(on) - sh), (np.array(fe) + sh, np.array(fn_) - sh))
            if not case.get("dtype32") and not np.allclose(j2, np.array(io), rtol=1e-9, atol=1e-9 * max(1.0, float(np.max(np.abs(io))))):
                return "spline Jacobian changed under a common translation of data and force coordinates"
        return None
    if fn in ("vjac", "vpred"):
        if fn == "vjac":
            oe, on, fe, fn_, md, nu = a
        else:
            oe, on, shape2d, fe, fn_, md, nu, f_e, f_n = a
        nobs, nf = len(oe), len(fe)
        for i, (x, y) in enumerate(zip(oe, on)):
            acc_e = acc_n = sc = 0.0
            for j, (fx, fy) in enumerate(zip(fe, fn_)):
                e, n = x - fx, y - fy
                r = math.hypot(e, n) + md
                if r == 0:
                    return None
                gee = (3 - nu) * math.log(r) + (1 + nu) * n * n / (r * r)
                gnn = (3 - nu) * math.log(r) + (1 + nu) * e * e / (r * r)
                gne = -(1 + nu) * e * n / (r * r)
                if fn == "vjac":
                    for (ri, cj, v) in ((i, j, gee), (i + nobs, j + nf, gnn), (i, j + nf, gne), (i + nobs, j, gne)):
                        got = io[ri][cj]
                        if not (math.isfinite(got) and abs(got - v) <= 1e-9 * max(1.0, abs(v))):
                            return f"vector jacobian[{ri}][{cj}] = {got}, documented Green's function gives {v} (east rows/cols first)"
                else:
                    acc_e += gee * f_e[j] + gne * f_n[j]
                    acc_n += gne * f_e[j] + gnn * f_n[j]
                    sc += abs(gee * f_e[j]) + abs(gne * f_n[j]) + abs(gne * f_e[j]) + abs(gnn * f_n[j])
            if fn == "vpred" and not (abs(io[0][i] - acc_e) <= 1e-9 * max(1.0, sc) and abs(io[1][i] - acc_n) <= 1e-9 * max(1.0, sc)):
                return f"vector prediction {i} is not the coupled Green's functions applied to the forces"
        return None
    if fn == "trend":
        es, ns, shape2d, deg, coef = a
        combos = [(t - j, j) for t in range(deg + 1) for j in range(t + 1)]
        if len(combos) != (deg + 1) * (deg + 2) // 2:
            return "internal"
        for k, (x, y) in enumerate(zip(es, ns)):
            v = sum(c * x ** i * y ** j for c, (i, j) in zip(coef, combos))
            sc = sum(abs(c * x ** i * y ** j) for c, (i, j) in zip(coef, combos))
            if not (abs(io[k] - v) <= 1e-9 * max(1.0, sc)):
                return f"Trend prediction {k} = {io[k]} is not the polynomial in the documented monomial order ({v})"
        return None
    if fn == "checker":
        region, amp, we, wn, es, ns, shape2d = a
        w_e = (region[1] - region[0]) / 2 if we is None else we
        w_n = (region[3] - region[2]) / 2 if wn is None else wn
        for k, (x, y) in enumerate(zip(es, ns)):
            v = amp * math.sin(2 * math.pi * x / w_e) * math.cos(2 * math.pi * y / w_n)
            if not (abs(io[k] - v) <= 1e-7 * max(1.0, abs(amp)) * max(1.0, abs(x / w_e), abs(y / w_n))):
                return f"CheckerBoard value {io[k]} != amplitude*sin(2 pi e/w_east)*cos(2 pi n/w_north) = {v}"
        return None
    return None


def nontrivial(case, io):
    if case["fn"] == "large":
        return not C.is_err(io)
    if C.is_err(io):
        return False
    if case["fn"] == "scipy":
        return True
    fl = [x for x in C.flat(io)]
    return len(fl) >= 2 and all(math.isfinite(x) for x in fl)


def finding_key(case, io):
    return None
