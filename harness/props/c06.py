"""C06 — Chain, Vector and filter compose estimators without leaking or losing data."""
import warnings

import numpy as np
from sklearn.base import clone

import blocks_common as B
import common as C
import verde as vd
from props import large as L
from moment import MomentGridder

ID = "C06"
TRANSLATED = "vector"      # Gen/Chain.lean (Chain.fit, Chain.predict, BaseGridder.filter) and Gen/VectorComp.lean (Vector.fit, Vector.predict) are regenerated from /repo and bridged to the model in Props/C06.lean
FILES = ["verde/chain.py", "verde/vector.py", "verde/base/base_classes.py", "verde/blockreduce.py"]
RULE = ("corpus + seeded step trees of length 1..4 built from Trend(0..2), the order-sensitive MomentGridder, KNeighbors(k, reduction), BlockReduce, "
        "BlockMean, nested Chains and Vectors, on scalar and 2-component data with or without weights; each case fits the composed estimator, predicts at "
        "fresh query points and calls filter, then (oracle) threads freshly cloned steps by hand: prediction = sum of the separately fitted steps' "
        "predictions, prediction at the data + last residual = data entering the last reduction, Vector = separately fitted components, filter returns "
        "its inputs, and a refit after fitting other data changes nothing; non-trivial = accepted composition with >= 2 steps or components; "
        "distinct = distinct protocol lines")
ASSUMPTIONS = ["models of the individual steps are those of C02/C09/C10/C12/C15 (Trend exact rational fit, group-by reductions, moment gridder, sorted neighbours)",
               "block labels near a tie are counted ambiguous"]
TRUSTED = ["scikit-learn clone", "pandas group-by (through BlockReduce/BlockMean)"]

REDS = {"mean": np.mean, "median": np.median, "min": np.min, "max": np.max, "sum": np.sum}


def enc_spec(s):
    k = s[0]
    if k == "trend":
        return f"[ trend {s[1]} ]"
    if k == "moment":
        return "[ moment ]"
    if k == "knn":
        return f"[ knn {s[1]} {s[2]} ]"
    if k == "block_reduce":
        _, region, shape, spacing, adjust, red, centre, drop = s
        return f"[ block_reduce {B.enc_block(region, shape, spacing, adjust)} {red} {C.enc(centre)} {C.enc(drop)} ]"
    if k == "block_mean":
        _, region, shape, spacing, adjust, centre, drop, unc = s
        return f"[ block_mean {B.enc_block(region, shape, spacing, adjust)} {C.enc(centre)} {C.enc(drop)} {C.enc(unc)} ]"
    if k in ("chain", "vector"):
        return f"[ {k} [ " + " ".join(enc_spec(x) for x in s[1]) + " ] ]"
    raise ValueError(k)


def build(s):
    k = s[0]
    if k == "trend":
        return vd.Trend(s[1])
    if k == "moment":
        return MomentGridder()
    if k == "knn":
        return vd.KNeighbors(k=s[1], reduction=REDS[s[2]])
    if k == "spline":
        return vd.Spline(damping=s[1], mindist=s[2])
    if k == "block_reduce":
        _, region, shape, spacing, adjust, red, centre, drop = s
        return vd.BlockReduce({"mean": np.mean, "median": np.median, "sum": np.sum, "min": np.min, "max": np.max, "average": np.average}[red],
                              spacing=spacing, region=region, adjust=adjust, center_coordinates=centre, shape=shape, drop_coords=drop)
    if k == "block_mean":
        _, region, shape, spacing, adjust, centre, drop, unc = s
        return vd.BlockMean(spacing=spacing, region=region, adjust=adjust, center_coordinates=centre, uncertainty=unc, shape=shape, drop_coords=drop)
    if k == "chain":
        # step names are labels only: every third chain gives all its steps the same name (nothing requires unique names)
        same = (len(s[1]) + len(repr(s[1]))) % 3 == 0
        return vd.Chain([("step" if same else f"s{i}", build(x)) for i, x in enumerate(s[1])])
    if k == "vector":
        return vd.Vector([build(x) for x in s[1]])
    raise ValueError(k)


def _has_spline(spec):
    return spec[0] == "spline" or (spec[0] in ("chain", "vector") and any(_has_spline(x) for x in spec[1]))


def mk(spec, coords, data, weights, q, kind):
    if _has_spline(spec):      # splines are outside the exact step models of this property: composite versus its parts is checked by the oracle
        return {"fn": "compose", "kind": kind, "args": [spec, coords, data, weights, q], "op": "power_comb 0", "key": repr((spec, coords, data, weights))}
    if any(v != v for d in data for v in d):      # NaN readings: outside the exact model; checked by the oracle (composite versus its parts) only
        return {"fn": "compose", "kind": kind, "args": [spec, coords, data, weights, q], "op": "power_comb 0",
                "key": repr((spec, coords, [[None if v != v else v for v in d] for d in data]))}
    return {"fn": "compose", "kind": kind, "args": [spec, coords, data, weights, q],
            "op": f"compose {enc_spec(spec)} {C.enc(coords)} {C.enc(data)} {C.enc(weights)} {C.enc(q)}"}


def rand_gridder1(rng, npts, after_block=False):
    u = rng.random()
    if u < 0.4:
        return ["trend", 0 if after_block else rng.randint(0, 2)]
    if u < 0.7:
        return ["moment"]
    return ["knn", 1 if after_block else rng.randint(1, min(3, npts)), rng.choice(["mean", "median", "min", "max"])]


def rand_block(rng, reg, weighted):
    region, shape, spacing, adjust = B.block_args(rng, reg)
    if rng.random() < 0.5:
        red = "average" if weighted else rng.choice(["mean", "median", "sum"])
        if weighted and rng.random() < 0.15:
            red = rng.choice(["mean", "median", "sum"])      # cannot take the weights it is handed: TypeError, also through a chain
        return ["block_reduce", region, shape, spacing, adjust, red, rng.random() < 0.4, True]
    return ["block_mean", region, shape, spacing, adjust, rng.random() < 0.4, True, weighted and rng.random() < 0.5]


def rand_steps(rng, reg, npts, ncomp, weighted, depth=0):
    n = rng.randint(1, 4)
    steps = []
    w = weighted
    blocked = depth > 0
    for i in range(n):
        u = rng.random()
        if u < 0.25 and i < n - 1 and npts >= 6:
            b = rand_block(rng, reg, w)
            steps.append(b)
            w = b[0] == "block_mean"
            blocked = True
        elif ncomp == 1:
            if u < 0.85 or depth >= 1:
                steps.append(rand_gridder1(rng, 2, blocked))
            else:
                steps.append(["chain", [s_ for s_ in rand_steps(rng, reg, npts, 1, w, depth + 1) if not s_[0].startswith("block")] or [["moment"]]])
        else:
            if u < 0.6:
                steps.append(["moment"])
            else:
                steps.append(["vector", [rand_gridder1(rng, 2, blocked) for _ in range(ncomp)]])
    if steps[-1][0].startswith("block"):
        steps.append(["moment"])
    return steps


def cloud(rng, maxpts):
    """Benign coordinates (no large offsets): Trend steps stay well conditioned, the property is about composition."""
    w, s_ = rng.randint(-32, 32) / 4.0, rng.randint(-32, 32) / 4.0
    ew, nsx = rng.randint(8, 48) / 4.0, rng.randint(8, 48) / 4.0
    reg = (w, w + ew, s_, s_ + nsx)
    npts = rng.randint(8, maxpts)
    es = [reg[0] + (2 * rng.randint(0, int(ew * 64) - 1) + 1) / 128.0 for _ in range(npts)]
    ns = [reg[2] + (2 * rng.randint(0, int(nsx * 64) - 1) + 1) / 128.0 for _ in range(npts)]
    return reg, es, ns


def corpus():
    return _corpus() + [L.case("predict_in_pieces", ["chain", 70001, 2, "float32"], "corpus-large-queries"),
                       L.case("predict_in_pieces", ["chain3", 66000, 2, "float32"], "corpus-large-queries"),
                       L.case("predict_in_pieces", ["chain", 65536, 3, "float64"], "corpus-large-queries"),
                       L.case("predict_in_pieces", ["vector", 65537, 3, "float64"], "corpus-large-queries"),
                       L.case("predict_in_pieces", ["vs2d", 65553, 4, "float64"], "corpus-large-queries"),
                       L.case("predict_in_pieces", ["chain-f32data", 70001, 7, "float64"], "corpus-large-queries"), L.case("predict_in_pieces", ["chain-f32data", 65536, 8, "float64"], "corpus-large-queries"),
                       L.case("vector_components", [1], "corpus-vector-of-splines"), L.case("vector_components", [2], "corpus-vector-of-splines")]


def _corpus():
    es = [0.5, 1.5, 2.5, 3.5, 0.25, 3.75, 0.75, 2.25]
    ns = [0.5, 0.5, 1.5, 1.5, 0.25, 1.75, 0.75, 1.25]
    d1 = [1.0, 2.0, 3.0, 4.0, 5.0, 6.0, 8.0, -3.0]
    d2 = [-1.0, 0.5, 2.5, 7.0, 9.0, 11.0, 13.5, 0.0]
    w1 = [1.0, 2.0, 0.5, 4.0, 1.0, 1.0, 3.0, 2.0]
    q = [[0.0, 1.0, 5.0], [0.0, 0.25, 5.0]]
    blk = ["block_mean", [0.0, 4.0, 0.0, 2.0], None, [1.0, 2.0], "spacing", False, True, False]
    cs = [mk(["chain", [["trend", 1], ["knn", 1, "mean"]]], [es, ns], [d1], None, q, "corpus-chain-exact"),
          mk(["chain", [["trend", 1], ["moment"], ["trend", 0]]], [es, ns], [d1], [w1], q, "corpus-chain-weights"),
          mk(["chain", [blk, ["trend", 1], ["moment"]]], [es, ns], [d1], None, q, "corpus-chain-blockmean"),
          mk(["chain", [["trend", 1], ["chain", [["moment"], ["knn", 2, "mean"]]]]], [es, ns], [d1], None, q, "corpus-nested"),
          mk(["vector", [["trend", 1], ["chain", [["trend", 0], ["knn", 1, "mean"]]]]], [es, ns], [d1, d2], [w1, w1[::-1]], q, "corpus-vector"),
          mk(["chain", [["moment"], ["vector", [["trend", 1], ["moment"]]]]], [es, ns], [d1, d2], None, q, "corpus-chain-of-vector"),
          mk(["vector", [["trend", 1], ["trend", 1]]], [es, ns], [d1, d2], [[0.0, 2.0, 0.5, 4.0, 1.0, 0.0, 3.0, 2.0], w1[::-1]], q, "corpus-vector-zero-weight-in-one-component"),
          mk(["vector", [["trend", 0], ["chain", [["trend", 1], ["moment"]]]]], [es, ns], [d1, d2], [w1, [1.0, 0.0, 0.5, 4.0, 0.0, 1.0, 3.0, 2.0]], q, "corpus-vector-zero-weight-in-one-component"),
          mk(["trend", 1], [es, ns], [d1], [w1], q, "corpus-filter-trend"),
          mk(["chain", [["trend", 1], ["moment"], ["knn", 1, "mean"]]], [es, ns], [[float(int(3 * v)) for v in d2]], None, q, "corpus-chain-intdata"),
          mk(["vector", [["chain", [["trend", 1], ["moment"]]], ["trend", 0]]], [es, ns], [d1, [float(int(3 * v)) for v in d2]], None, q,
             "corpus-vector-intdata")]
    # families exercised on EVERY run (each was once needed to expose a seeded change)
    nan = float("nan")
    q = [[0.125, 1.1875, 5.0], [0.0625, 0.3125, 4.5]]      # (no query point equidistant from two data points)
    eg = [0.5, 1.625, 2.75, 3.5, 0.25, 3.875, 0.8125, 2.3125]      # a cloud in general position (no distance ties for k <= 3)
    ng = [0.5, 0.4375, 1.5625, 1.375, 0.1875, 1.75, 0.84375, 1.25]
    er, nr = es + es[:2], ns + ns[:2]                      # repeated locations with other values
    dr = d1 + [d1[0] + 3.5, d1[1] - 2.0]
    wavg = ["block_reduce", [0.0, 4.0, 0.0, 2.0], None, [1.0, 2.0], "spacing", "average", False, True]
    cs += [mk(["chain", [["knn", 1, "mean"], ["trend", 1]]], [er, nr], [dr], None, q, "corpus-repeated-points-knn-first"),
           mk(["chain", [["knn", 2, "mean"], ["moment"]]], [eg, ng], [d1], [w1], q, "corpus-weights-past-knn"),
           mk(["chain", [["knn", 3, "median"], ["trend", 1]]], [eg, ng], [d1], [w1], q, "corpus-weights-past-knn"),
           mk(["chain", [blk, ["knn", 1, "mean"], ["moment"]]], [es, ns], [d1], [w1], q, "corpus-weights-blockmean-knn-moment"),
           mk(["chain", [wavg, ["moment"], ["trend", 0]]], [es, ns], [d1], [w1], q, "corpus-weights-past-blockreduce"),
           mk(["chain", [["knn", 2, "mean"], ["knn", 1, "max"], ["knn", 3, "median"]]], [es, ns], [[1.0, nan, 3.0, 4.0, 5.0, nan, 8.0, -3.0]], None,
              [q[0] + es, q[1] + ns], "corpus-nan-data"),
           mk(["chain", [["trend", 1], ["spline", 1e-2, 0.5], ["knn", 2, "mean"]]], [es, ns], [d1], None, q, "corpus-spline-steps"),
           mk(["chain", [["spline", 1e-3, 0.0], ["trend", 1]]], [es, ns], [d1], [w1], q, "corpus-spline-steps"),
           mk(["chain", [["trend", 0], ["knn", 2, "mean"], ["moment"], ["knn", 1, "mean"]]], [es, ns], [d1], None, q, "corpus-four-predicting-steps"),
           mk(["chain", [["trend", 1], ["trend", 1]]], [es, ns], [d1], None, q, "corpus-same-step-twice")]
    # a reduction that keeps EVERY point (one observation per block, e.g. data already on the block grid) with the points NOT listed in block
    # order, followed by further steps, also nested: sizes before and after the reduction are equal but the order is the blocks'
    ge_ = [0.5, 2.5, 1.5, 3.5, 2.5, 0.5, 3.5, 1.5]
    gn_ = [1.5, 0.5, 0.5, 1.5, 1.5, 0.5, 0.5, 1.5]
    gd_ = [4.0, -1.0, 2.5, 7.0, 0.5, 3.0, -2.0, 6.0]
    one = ["block_reduce", [0.0, 4.0, 0.0, 2.0], None, [1.0, 1.0], "spacing", "median", False, True]
    cs += [mk(["chain", [one, ["trend", 1], ["moment"]]], [ge_, gn_], [gd_], None, q, "corpus-one-point-per-block"),
           mk(["chain", [["trend", 0], ["chain", [one, ["moment"]]], ["knn", 1, "mean"]]], [ge_, gn_], [gd_], None, q, "corpus-one-point-per-block"),
           mk(["chain", [["chain", [one, ["trend", 1]]], ["moment"]]], [ge_, gn_], [gd_], None, q, "corpus-one-point-per-block")]
    # weights reaching a reduction that has no `weights` argument: the chain must fail exactly like the step itself (TypeError), not drop them
    wmed = ["block_reduce", [0.0, 4.0, 0.0, 2.0], None, [1.0, 2.0], "spacing", "median", False, True]
    cs += [mk(["chain", [wmed, ["moment"]]], [es, ns], [d1], [w1], q, "corpus-weights-into-unweighted-reduction"),
           mk(["chain", [["trend", 1], ["chain", [wmed, ["trend", 0]]]]], [es, ns], [d1], [w1], q, "corpus-weights-into-unweighted-reduction"),
           mk(["vector", [["chain", [wmed, ["moment"]]], ["trend", 1]]], [es, ns], [d1, d2], [w1, w1[::-1]], q, "corpus-weights-into-unweighted-reduction")]
    # a chain that ENDS with a reduction (decimation as the last processing step: nothing to predict for it, `filter` is all it has)
    cs += [mk(["chain", [["trend", 1], one]], [ge_, gn_], [gd_], None, q, "corpus-chain-ends-with-reduction"),
           mk(["chain", [["moment"], ["chain", [["trend", 0], wavg]]]], [es, ns], [d1], [w1], q, "corpus-chain-ends-with-reduction"),
           mk(["chain", [["trend", 1], blk]], [es, ns], [d1], [w1], q, "corpus-chain-ends-with-reduction")]
    cs += [mk_probe(es, ns, [100.0 + 3.0 * k for k in range(len(es))], d1, 1.0), mk_probe(ge_, gn_, [7.5 - k for k in range(len(ge_))], gd_, 2.0)]
    import random
    r32 = random.Random(32)
    cs += [mk_f32(r32, es, ns, q) for _ in range(3)]
    return cs


def generate(rng, tier):
    n = 160 if tier == "quick" else 2500
    cs = []
    for _ in range(n):
        reg, es, ns = cloud(rng, 24)
        npts = len(es)
        ncomp = 1 if rng.random() < 0.65 else 2
        weighted = rng.random() < 0.4
        data = [B.values(rng, npts) for _ in range(ncomp)]
        intdata = rng.random() < 0.2
        if intdata:
            data = [[float(rng.randint(-60, 60)) for _ in range(npts)] for _ in range(ncomp)]
        weights = [B.pos_weights(rng, npts) for _ in range(ncomp)] if weighted else None
        q = [[reg[0] + (reg[1] - reg[0]) * k / 4.0 for k in range(5)], [reg[2] + (reg[3] - reg[2]) * ((3 * k) % 5) / 4.0 for k in range(5)]]
        if ncomp == 2 and rng.random() < 0.3:
            spec = ["vector", [["chain", rand_steps(rng, reg, npts, 1, weighted, 1)] if rng.random() < 0.5 else rand_gridder1(rng, 2) for _ in range(2)]]
            if weights is not None and npts >= 8 and rng.random() < 0.4:
                # observations flagged (weight exactly 0) in ONE component only: they still count, with their own weights, in the other
                c_ = rng.randrange(2)
                for k_ in rng.sample(range(npts), rng.randint(1, 2)):
                    weights[c_][k_] = 0.0
        else:
            spec = ["chain", rand_steps(rng, reg, npts, ncomp, weighted)]
        tag = ""
        u = rng.random()
        if rng.random() < 0.08 and ncomp == 1:
            # data already on the block grid, in acquisition (not block) order: the reduction keeps every point
            k1, k2 = rng.randint(2, 4), rng.randint(2, 4)
            cells = [(i, j) for i in range(k1) for j in range(k2)]
            rng.shuffle(cells)
            es = [reg[0] + (j + 0.5) * 1.0 + rng.choice([-0.125, 0.0, 0.125]) for i, j in cells]
            ns = [reg[2] + (i + 0.5) * 1.0 + rng.choice([-0.125, 0.0, 0.125]) for i, j in cells]
            npts = len(es)
            data = [B.values(rng, npts)]
            weights = None
            blk1 = ["block_reduce", [reg[0], reg[0] + k2, reg[2], reg[2] + k1], None, [1.0, 1.0], "spacing", rng.choice(["median", "mean"]), False, True]
            inner = [blk1, rand_gridder1(rng, 2, True)]
            spec = ["chain", rng.choice([[["chain", inner], ["moment"]], [blk1, ["trend", 1], ["moment"]], [["trend", 0], ["chain", inner]]])]
            q = [[reg[0] + k2 * t / 4.0 + 0.0625 for t in range(5)], [reg[2] + k1 * ((3 * t) % 5) / 4.0 + 0.03125 for t in range(5)]]
            cs.append(mk(spec, [es, ns], data, weights, q, "chain-one-point-per-block"))
            continue
        if 0.2 <= u < 0.3 and ncomp == 1:
            # (damped) splines anywhere in the chain, also where their residual feeds a later step
            sp = lambda: ["spline", rng.choice([1e-3, 1e-2, 1e-1]), rng.choice([0.0, 0.5])]  # noqa: E731
            steps = rng.choice([[["trend", 1], sp(), ["knn", rng.randint(1, 3), "mean"]], [sp(), ["trend", 1]], [["moment"], sp(), ["moment"]],
                                [["trend", 0], ["chain", [sp(), ["knn", 1, "mean"]]], ["trend", 1]], [sp(), sp()]])
            spec = ["chain", steps]
            tag = "-spline-steps"
        if u < 0.08:
            # repeated measurements: the same location occurs again with another value (and weight)
            for j in range(rng.randint(1, 3)):
                es.append(es[j]); ns.append(ns[j])
                for dcomp in data:
                    dcomp.append(dcomp[j] + rng.randint(1, 9) / 2.0)
                if weights is not None:
                    for wcomp in weights:
                        wcomp.append(wcomp[j])
            tag = "-repeated-points"
        elif u < 0.2 and ncomp == 1:
            # missing readings (NaN) through steps that accept them: neighbours and block reductions; IEEE: NaN + x = NaN
            steps = [["knn", rng.randint(1, 3), rng.choice(["mean", "median", "max"])] for _ in range(rng.randint(2, 3))]
            if rng.random() < 0.4:
                region, shape, spacing, adjust = B.block_args(rng, reg)
                steps = [["block_reduce", region, shape, spacing, adjust, "median", rng.random() < 0.4, True]] + [[x[0], 1, x[2]] for x in steps]
            spec, weights = ["chain", steps], None
            for j in rng.sample(range(npts), rng.randint(1, 2)):
                data[0][j] = float("nan")
            q = [q[0] + es[:6], q[1] + ns[:6]]
            tag = "-nan-data"
        cs.append(mk(spec, [es, ns], data, weights, q, spec[0] + ("-2comp" if ncomp == 2 else "") + ("-intdata" if intdata else "") + tag))
        if rng.random() < 0.06:
            cs.append(mk_f32(rng, es, ns, q))
    return cs


def mk_f32(rng, es, ns, q):
    """Readings kept in single precision (a float32 grid file, a sensor log): neighbours first (their mean stays float32), then a trend or spline
    on what is left (double precision).  Values are even integers below 2^15, so the float32 arithmetic of the first step is exact.
    Outside the exact model (its steps are rational): composite versus its parts, by the oracle."""
    d = [float(2 * rng.randint(2000, 16000)) for _ in es]
    spec = ["chain", [["knn", 2, "mean"], rng.choice([["trend", 1], ["trend", 2], ["spline", None, 0.0]])]]
    c = mk(spec, [es, ns], [d], None, q, "chain-f32data")
    c["op"], c["key"] = "power_comb 0", repr((spec, es, ns, d, "f32"))
    return c


def _shape(data):
    """Every third even-sized case hands over 2-D arrays (gridded input): (2, n/2)."""
    import zlib
    n = len(data[0])
    return [2, n // 2] if (n % 2 == 0 and n >= 4 and zlib.crc32(repr(data[0][:4]).encode()) % 3 == 0) else [n]


_F32 = [False]      # set per case (impl / compare / oracle): kinds ending in "-f32data" hand their data over in single precision


def _args(coords, data, weights):
    key = repr(data[0][:3])
    shp = _shape(data)
    cs = tuple(C.mkarr(c, shp, f"{key}c{i}") for i, c in enumerate(coords))
    ds = tuple(C.mkarr(d, shp, f"{key}d{i}") for i, d in enumerate(data))
    if all(v == v and float(v).is_integer() for d in data for v in d):
        # integer-valued data are handed over with an integer dtype (elevations, counts): composition must not depend on it
        ds = tuple(np.asarray(d).astype("int64" if (len(data[0]) + i) % 2 else "int32") for i, d in enumerate(ds))
    if _F32[0]:
        ds = tuple(np.asarray(d).astype("float32") for d in ds)      # (chosen so that every value and every pairwise mean is exact in float32)
    ws = None if weights is None else tuple(C.mkarr(w, shp, f"{key}w{i}") for i, w in enumerate(weights))
    return cs, (ds[0] if len(ds) == 1 else ds), (None if ws is None else (ws[0] if len(ws) == 1 else ws))


def _tolist(x):
    if x is None:
        return None
    if isinstance(x, tuple):
        if any(i is None for i in x):
            return None
        return [np.asarray(i, dtype=float).ravel().tolist() for i in x]
    return [np.asarray(x, dtype=float).ravel().tolist()]


class _Probe(vd.base.BaseGridder):
    """A step that records what it is fitted on (every coordinate array, the data, the weights) and predicts zero."""

    def fit(self, coordinates, data, weights=None):
        self.seen_ = ([np.array(c, dtype=float) for c in coordinates], np.array(data, dtype=float), None if weights is None else np.array(weights, dtype=float))
        self.region_ = vd.get_region(coordinates[:2])
        return self

    def predict(self, coordinates):
        return np.zeros(np.broadcast(*coordinates[:2]).shape)


def mk_probe(es, ns, hs, d, spacing, kind="chain-probe-extra-coordinates"):
    """What reaches each step of a chain when the caller hands over MORE than two coordinate arrays (heights, times): the first step gets them all,
    the step after a reduction that keeps them (drop_coords=False) gets the reduced ones.  Decided by the oracle (the Lean steps take two)."""
    return {"fn": "probe", "kind": kind, "args": [["probe"], [es, ns, hs], [d], None, [[spacing], [0.0]]], "op": "power_comb 0",
            "key": repr(("probe", es, ns, hs, d, spacing))}


def _probe_run(case):
    _, (es, ns, hs), (d,), _, ((spacing,), _) = case["args"]
    cs = (np.array(es), np.array(ns), np.array(hs))
    dd = np.array(d)
    first = _Probe()
    vd.Chain([("probe", first), ("trend", vd.Trend(1))]).fit(cs, dd)
    red = vd.BlockReduce(np.mean, spacing=spacing, drop_coords=False)
    after = _Probe()
    vd.Chain([("reduce", red), ("probe", after), ("trend", vd.Trend(0))]).fit(cs, dd)
    want_c, want_d = vd.BlockReduce(np.mean, spacing=spacing, drop_coords=False).filter(cs, dd)
    ok_first = len(first.seen_[0]) == 3 and all(np.array_equal(x, y) for x, y in zip(first.seen_[0], cs)) and np.array_equal(first.seen_[1], dd)
    ok_after = len(after.seen_[0]) == len(want_c) == 3 and all(np.allclose(x, y, rtol=0, atol=1e-12) for x, y in zip(after.seen_[0], want_c)) \
        and np.allclose(after.seen_[1], want_d, rtol=0, atol=1e-12)
    return {"first": bool(ok_first), "after": bool(ok_after), "n_first": len(first.seen_[0]), "n_after": len(after.seen_[0])}


def impl(case):
    if case["fn"] == "large":
        r = C.call(L.run, case["args"])
        return r if C.is_err(r) else ["large", r]
    if case["fn"] == "probe":
        r = C.call(_probe_run, case)
        return r if C.is_err(r) else ["probe", r]
    spec, coords, data, weights, q = case["args"]
    _F32[0] = case["kind"].endswith("-f32data")

    def run():
        with warnings.catch_warnings():
            warnings.simplefilter("ignore")
            cs, d, w = _args(coords, data, weights)
            g = build(spec)
            g.fit(cs, d, w)
            pred = _tolist(g.predict(tuple(np.array(x) for x in q)))
            g2 = build(spec)
            fo = g2.filter(cs, d, w)
            if not any(x[0].startswith("block") for x in ([spec] if spec[0] != "chain" else spec[1])):
                # a composition of gridders: the residuals come back in the data's shape, next to the coordinates and weights it was given
                fd, dd = (fo[1] if isinstance(fo[1], tuple) else (fo[1],)), (d if isinstance(d, tuple) else (d,))
                if [np.shape(x) for x in fd] != [np.shape(x) for x in dd] or [np.shape(x) for x in fo[0]] != [np.shape(x) for x in cs]:
                    raise RuntimeError(f"filter changed shapes: data {[np.shape(x) for x in dd]} -> {[np.shape(x) for x in fd]}")
            return [pred, [_tolist(tuple(fo[0])), [_tolist(fo[1]), _tolist(fo[2]) if len(fo) > 2 else None]]]
    return C.call(run)


def _knn_tie(es, ns, k, queries):
    """True if for some query the k-th and (k+1)-th nearest data points are at exactly the same distance."""
    pts = [(float(x), float(y)) for x, y in zip(es, ns)]
    for qx, qy in queries:
        d = sorted((float(qx) - x) ** 2 + (float(qy) - y) ** 2 for x, y in pts)
        if k < len(d) and abs(d[k - 1] - d[k]) <= 1e-9 * max(1.0, d[k]):
            return True      # (near) tie: intermediate coordinates are floats, the model's are exact
    return False


def _near_tie(spec, coords, data=None, weights=None, q=None):
    """True if some step of the composition meets an input on which float and exact arithmetic may legitimately differ:
    a point on a block edge / a size rounding tie for block steps, a distance tie for neighbour steps — evaluated on the
    coordinates that actually reach the step (the arguments are threaded through the real steps)."""
    k = spec[0]
    if k in ("block_reduce", "block_mean"):
        return B.near_tie(list(np.ravel(coords[0])), list(np.ravel(coords[1])), spec[1], spec[2], spec[3], spec[4])
    if k == "knn":
        es, ns = list(np.ravel(coords[0])), list(np.ravel(coords[1]))
        queries = list(zip(es, ns)) + ([] if q is None else list(zip(q[0], q[1])))
        return _knn_tie(es, ns, spec[1], queries)
    if k == "vector":
        return any(_near_tie(s, coords, None if data is None else [data[i]], None if weights is None else [weights[i]], q)
                   for i, s in enumerate(spec[1]))
    if k == "chain":
        if data is None:
            return any(_near_tie(s, coords, q=q) for s in spec[1])
        with warnings.catch_warnings():
            warnings.simplefilter("ignore")
            cs, d, w = _args(coords, data, weights)
            args = (cs, d, w)
            for s in spec[1]:
                cur = [np.ravel(c).tolist() for c in args[0]]
                dd = args[1] if isinstance(args[1], tuple) else (args[1],)
                ww = None if (len(args) < 3 or args[2] is None) else (args[2] if isinstance(args[2], tuple) else (args[2],))
                if _near_tie(s, cur, [np.ravel(x).tolist() for x in dd], None if ww is None else [np.ravel(x).tolist() for x in ww], q):
                    return True
                try:
                    args = build(s).filter(*args)
                except Exception:  # noqa: BLE001
                    return False
    return False


def compare(case, io, mo):
    if case["fn"] == "large":
        return "diff:implementation failed: " + io[1] if C.is_err(io) else "ok"
    _F32[0] = case["kind"].endswith("-f32data")
    if case["op"] == "power_comb 0":
        return "diff:implementation failed: " + io[1] if C.is_err(io) else "ok"
    if C.is_err(io) and isinstance(mo, list) and len(mo) == 2 and all(C.is_err(m) and m[1] == io[1] for m in mo):
        return "ok"      # both fail in the same way (the model reports the failure for the prediction and for the filter separately)
    e = C.err_compare(io, mo)
    if e and not (C.is_err(io) and C.is_err(mo)) and not (C.is_err(io) and io[1] == "TypeError"):
        if C.is_err(io):
            return e
    def refuses(m):
        return C.is_err(m) and m[1] == "TypeError"
    model_refuses = refuses(mo) or (isinstance(mo, list) and len(mo) == 2 and refuses(mo[0]) and refuses(mo[1]))
    if C.is_err(io):
        if io[1] == "TypeError" and model_refuses:
            return "ok"      # both refuse (weights handed to a reduction that has no `weights` argument)
        return "diff:implementation failed: " + io[1]
    if model_refuses:
        return "diff:model refuses (TypeError) but implementation succeeded"
    pm, fm = mo
    if (C.is_err(pm) and pm[1] == "Other") or (C.is_err(fm) and fm[1] == "Other"):
        return "amb"     # a Trend step met a rank-deficient system (model: singular; scikit-learn: minimum norm) - outside the property
    if C.is_err(pm) or C.is_err(fm):
        return f"diff:model failed ({pm if C.is_err(pm) else fm}) but implementation succeeded"
    r = C.std_compare(io[0], pm, tol=1e-7)
    if r == "ok":
        r = C.std_compare(io[1], fm, tol=1e-7)
    if r != "ok" and _near_tie(case["args"][0], case["args"][1], case["args"][2], case["args"][3], case["args"][4]):
        return "amb"
    return r


def _close(a, b, tol=1e-7, scale=None):
    a, b = np.asarray(a, dtype=float), np.asarray(b, dtype=float)
    if a.shape != b.shape:
        return False
    na, nb = np.isnan(a), np.isnan(b)
    if not np.array_equal(na, nb):
        return False                      # a missing value (NaN) on one side only
    sc = np.maximum(1.0, np.abs(np.where(nb, 0.0, b))) if scale is None else scale
    return bool(np.all(na | (np.abs(np.where(na, 0.0, a) - np.where(nb, 0.0, b)) <= tol * sc)))


def oracle(case, io):
    if case["fn"] == "large":
        return (io[1] or None) if not C.is_err(io) else "failed on a large input: " + io[1]
    if case["fn"] == "probe":
        if C.is_err(io):
            return "a chain fitted with three coordinate arrays failed: " + io[1]
        r = io[1]
        if not r["first"]:
            return f"the first step of a chain was fitted on {r['n_first']} coordinate arrays, not on the three (and the data) the chain was given"
        if not r["after"]:
            return (f"the step after a reduction that keeps extra coordinates was fitted on {r['n_after']} coordinate arrays, not on what the "
                    "reduction's filter returns (reduced easting, northing AND height)")
        return None
    spec, coords, data, weights, q = case["args"]
    _F32[0] = case["kind"].endswith("-f32data")

    def by_hand(sp, args):
        """The composition threaded by hand through freshly built steps (chains step by step, vectors component by component)."""
        if sp[0] == "chain":
            for s_ in sp[1]:
                args = by_hand(s_, args)
            return args
        if sp[0] == "vector":
            dd, ww = args[1], (args[2] if len(args) > 2 else None)
            for i, s_ in enumerate(sp[1]):
                by_hand(s_, (args[0], dd[i], None if ww is None else ww[i]))
            return args
        return build(sp).filter(*args)
    with warnings.catch_warnings():
        warnings.simplefilter("ignore")
        try:
            by_hand(spec, _args(coords, data, weights))
            hand = None
        except Exception as exc:  # noqa: BLE001
            hand = C.err_kind(exc)
    if C.is_err(io):
        if hand is not None and hand == io[1]:
            return None      # the composition fails exactly as its own steps do when called one after the other
        return "composition failed: " + io[1]
    if hand == "TypeError":
        return "the steps called one after the other refuse these arguments (TypeError) but the composition accepted them"
    tie = _near_tie(spec, coords, data, weights, q)
    nmax = lambda x: float(np.nanmax(np.abs(np.asarray(x, dtype=float)), initial=0.0))  # noqa: E731
    with warnings.catch_warnings():
        warnings.simplefilter("ignore")
        cs, d, w = _args(coords, data, weights)
        qq = tuple(np.array(x) for x in q)
        pred = io[0]
        fcoords, (fres, fw) = io[1]
        # filter returns the coordinates and weights it was given and data - prediction
        if not _close(fcoords, [c for c in coords]):
            return "filter did not return the coordinates it was given"
        if (fw is None) != (weights is None) or (fw is not None and not _close(fw, weights)):
            return "filter did not return the weights it was given"
        g = build(spec)
        g.fit(cs, d, w)
        pd = _tolist(g.predict(cs))
        if not _close(np.array(fres) + np.array(pd), np.where(np.isnan(np.array(pd)), np.nan, np.array(data, dtype=float)), 1e-9, max(1.0, nmax(pd), nmax(data))):
            return "filter's residual is not data minus prediction"
        if spec[0] == "chain":
            # every predicting step's own filter = what it was given, with data replaced by data minus ITS prediction at those coordinates
            args = (cs, d, w)
            for k, s_ in enumerate(spec[1]):
                st = build(s_)
                out = st.filter(*args)
                if hasattr(st, "predict"):
                    ref = build(s_)
                    ref.fit(*args)
                    p = np.array(_tolist(ref.predict(tuple(args[0]))))
                    dat = np.array(_tolist(args[1]))
                    if not _close(np.array(_tolist(out[1])) + p, np.where(np.isnan(p), np.nan, dat), 1e-9, max(1.0, nmax(p), nmax(dat))):
                        return f"step {k} ({s_[0]}): its filter does not return data minus its own prediction"
                    win, wout = (args[2] if len(args) > 2 else None), (out[2] if len(out) > 2 else None)
                    if (win is None) != (wout is None) or (win is not None and not _close(_tolist(wout), _tolist(win))):
                        return f"step {k} ({s_[0]}): its filter does not return the weights it was given"
                    if not _close(_tolist(tuple(out[0])), _tolist(tuple(args[0]))):
                        return f"step {k} ({s_[0]}): its filter does not return the coordinates it was given"
                args = out
        if tie:
            return None
        if spec[0] == "chain":
            steps = [build(s) for s in spec[1]]
            args = (cs, d, w)
            total = None
            entering_last = None
            for st in steps:
                if hasattr(st, "predict"):
                    entering_last = args
                args = st.filter(*args)
            for st in steps:
                if hasattr(st, "predict"):
                    p = np.array(_tolist(st.predict(qq)))
                    total = p if total is None else total + p
            total_d = None
            for st in steps:
                if hasattr(st, "predict"):
                    p = np.array(_tolist(st.predict(cs)))
                    total_d = p if total_d is None else total_d + p
            # (single-precision data: the sum is formed in double precision like any other - compared far below float32 resolution)
            if not _close(pred, total, *((1e-11,) if _F32[0] else ())) or not _close(pd, total_d, *((1e-11,) if _F32[0] else ())):
                return "chain prediction is not the sum of the predictions of its steps, each fitted on what the previous filter returned"
            # telescoping for the suffix after the last reduction
            last_red = max([i for i, s in enumerate(spec[1]) if s[0].startswith("block")] + [-1])
            steps2 = [build(s) for s in spec[1]]
            args = (cs, d, w)
            for st in steps2[: last_red + 1]:
                args = st.filter(*args)
            start = args
            for st in steps2[last_red + 1:]:
                args = st.filter(*args)
            tot = None
            for st in steps2[last_red + 1:]:
                p = np.array(_tolist(st.predict(tuple(start[0]))))
                tot = p if tot is None else tot + p
            resid = np.array(_tolist(args[1]))
            if tot is not None and not _close(tot + resid, np.where(np.isnan(tot + resid), np.nan, np.array(_tolist(start[1]))), 1e-9, max(1.0, nmax(tot), nmax(resid))):
                return "sum of step predictions at the data plus the last residual does not give back the data"
        if spec[0] == "vector":
            for i, s in enumerate(spec[1]):
                comp = build(s)
                shp = np.shape(cs[0])
                comp.fit(cs, np.array(data[i]).reshape(shp), None if weights is None else np.array(weights[i]).reshape(shp))
                if not _close(pred[i], _tolist(comp.predict(qq))[0]):
                    return f"Vector component {i} differs from the same estimator fitted separately on data[{i}] with weights[{i}]"
        # refit: fit on other data, then on the original data again
        g3 = build(spec)
        other = tuple((np.array(x)[::-1] * 2.0 + 1.0).reshape(np.shape(cs[0])) for x in data)
        g3.fit(cs, other[0] if len(other) == 1 else other, w)
        g3.fit(cs, d, w)
        if not _close(_tolist(g3.predict(qq)), pred, 1e-9):
            return "refitting the same composition on the latest data differs from a fresh fit (history leaked)"
    return None


def nontrivial(case, io):
    if case["fn"] == "large":
        return not C.is_err(io)
    if case["fn"] == "probe":
        return not C.is_err(io)
    return (not C.is_err(io)) and len(case["args"][0][1]) >= 2


def finding_key(case, io):
    return None
