"""C15 — nearest-neighbour based results agree with brute-force distances."""
import math

import numpy as np
import xarray as xr

import common as C
import gen as G
import verde as vd
from props import large as L

ID = "C15"
TRANSLATED = "distmask"  # Gen/Neighbors.lean (KNeighbors.predict after the tree query), Gen/DistMask.lean (distance_mask, over the reals) and Gen/Distances.lean (median_distance, KNeighbors.fit) are regenerated from /repo and bridged to the model in Props/C15.lean
FILES = ["verde/neighbors.py", "verde/distances.py", "verde/mask.py", "verde/utils.py"]
RULE = ("corpus (3-4-5 triangles with maxdist exactly on the boundary, k = n, single point) + seeded clouds in general position: KNeighbors for every "
        "k in 1..n (sampled) with reductions mean/median/min/max and 1-D/2-D query arrays, median_distance for k_nearest 1..n-1, distance_mask in array and "
        "grid form (non-square grids, dims from the Dataset) with optional projections applied to data and query; ties in distance (k-th and (k+1)-th "
        "squared distances equal, or |d^2 - maxdist^2| tiny) are flagged by the model's margin output and excluded; non-trivial = accepted call with "
        ">= 2 data points and >= 1 query; distinct = distinct protocol lines")
ASSUMPTIONS = ["cKDTree.query returns the k nearest points in Euclidean distance (contract); order among exactly tied distances is unspecified"]
TRUSTED = ["scipy.spatial.cKDTree.query (contract)", "numpy mean/median/min/max", "xarray.Dataset.where"]

REDS = {"mean": np.mean, "median": np.median, "min": np.min, "max": np.max}
PROJS = {"affine": lambda p: (lambda e, n: (p[0] * e + p[1], p[2] * n + p[3])), "shear": lambda p: (lambda e, n: (e + p[0] * n, n - p[0] * e)),
         # a LOCAL projection, centred on the points it is handed (a local tangent plane about the survey): what it returns for a point depends on
         # the set it came with, so the data and the queries have to be projected each on their own, as the property says
         "centred": lambda p: (lambda e, n: (p[0] * (np.asarray(e, dtype=float) - np.median(e)), p[1] * (np.asarray(n, dtype=float) - np.median(n))))}


def cloud(rng, n, lattice=32):
    seen, es, ns = set(), [], []
    while len(es) < n:
        x, y = rng.randint(-8 * lattice, 8 * lattice) / lattice, rng.randint(-8 * lattice, 8 * lattice) / lattice
        if (x, y) not in seen:
            seen.add((x, y))
            es.append(x)
            ns.append(y)
    return es, ns


def pairs(es, ns):
    return [[x, y] for x, y in zip(es, ns)]


def mk_knn(es, ns, data, k, red, qe, qn, shape2d, kind):
    return {"fn": "knn", "kind": kind, "args": [es, ns, data, k, red, qe, qn, shape2d],
            "op": f"knn {C.enc(es)} {C.enc(ns)} {C.enc(data)} {k} {red} {C.enc(pairs(qe, qn))}"}


def mk_md(es, ns, k, shape2d, kind):
    return {"fn": "md", "kind": kind, "args": [es, ns, k, shape2d], "op": f"median_distance {C.enc(es)} {C.enc(ns)} {k}"}


def mk_mask(es, ns, maxdist, qe, qn, shape2d, proj, grid, kind):
    """grid = None (array form) or (east_axis, north_axis): then qe/qn are ignored and built from the axes."""
    if grid is not None:
        ge, gn = grid
        qe = [x for _ in gn for x in ge]
        qn = [y for y in gn for _ in ge]
        shape2d = [len(gn), len(ge)]
    f = None if proj is None else PROJS[proj[0]](proj[1])
    pe, pn = (es, ns) if f is None else [list(v) for v in f(np.array(es), np.array(ns))]
    pqe, pqn = (qe, qn) if f is None else [list(v) for v in f(np.array(qe), np.array(qn))]
    return {"fn": "mask", "kind": kind, "args": [es, ns, maxdist, qe, qn, shape2d, proj, grid],
            "op": f"distance_mask {C.enc(pe)} {C.enc(pn)} {C.enc(maxdist)} {C.enc(pairs(pqe, pqn))}"}


def corpus():
    return _corpus() + [L.case("knn_big_ints", ["max"], "corpus-64-bit-integers"),
                       L.case("knn_big_ints", ["min"], "corpus-64-bit-integers")]


def _corpus():
    es, ns = [0.0, 3.0, -6.0, 10.0], [0.0, 4.0, 8.0, 0.0]
    d = [1.0, 2.0, 4.0, 8.0]
    cs = [mk_knn(es, ns, d, 1, "mean", list(es) + [1.0], list(ns) + [1.0], [5], "corpus-k1-at-data"),
          mk_knn(es, ns, d, 4, "median", [1.0, 2.0], [1.0, -3.0], [2], "corpus-k=n"),
          mk_knn([2.0], [3.0], [7.0], 1, "max", [0.0, 5.0], [0.0, 5.0], [2], "corpus-single-point"),
          mk_knn(es, ns, [1.0, 2.0, 4.0, 8.0][:len(es)], 2, "mean", [1.0, 2.0], [1.0, -3.0], [2], "corpus-intdata-k2-mean"),
          mk_knn(es, ns, [1.0, 2.0, 4.0, 9.0][:len(es)], 4, "median", [1.0, 2.0], [1.0, -3.0], [2], "corpus-intdata-median"),
          # heights stored as int16 / counts as uint8 near the top of the type: the mean of k of them does not fit the type, the result must
          mk_knn(es + [5.0, -2.0], ns + [6.0, -3.0], [32000.0, 31500.0, 30250.0, 32767.0, 29000.0, 31000.0], 5, "mean", [1.0, 2.0, 7.5], [1.0, -3.0, 2.5], [3], "knn-narrow-int"),
          mk_knn(es + [5.0, -2.0], ns + [6.0, -3.0], [250.0, 255.0, 201.0, 240.0, 233.0, 254.0], 3, "mean", [1.0, 2.0, 7.5], [1.0, -3.0, 2.5], [3], "knn-narrow-int"),
          mk_md(es, ns, 1, [4], "corpus-md"), mk_md(es, ns, 3, [2, 2], "corpus-md-2d"),
          mk_mask(es, ns, 5.0, [3.0, 0.0, 6.0, 20.0], [8.0, -5.0, 8.0, 20.0], [4], None, None, "corpus-boundary-3-4-5"),
          mk_mask(es, ns, 5.0, None, None, None, None, ([0.0, 3.0, 6.5], [-5.0, 0.0]), "corpus-grid"),
          mk_mask(es, ns, 0.0, list(es), list(ns), [4], None, None, "corpus-maxdist-0"),
          mk_mask(es, ns, 5.0, [3.0, 0.0, 6.0, 20.0, 14.0], [8.0, -5.0, 8.0, 20.0, 3.5], [5], ["centred", [1.0, 0.5]], None, "mask-local-projection"),
          mk_mask(es, ns, 4.0, None, None, None, ["centred", [2.0, 1.0]], ([0.0, 3.0, 6.5, 30.0], [-5.0, 0.0, 2.0]), "mask-local-projection"),
          # one station, UTM metres kept as int32 (as read from a table): coordinate differences beyond 46341 m, whose squares do not fit the type
          mk_mask([500000.0], [4100000.0], 90000.0, [430000.0, 560000.0, 500000.0, 579000.0, 410000.0], [4100000.0, 4160000.0, 4010500.0, 4143000.0, 4100000.0],
                  [5], None, None, "mask-utm-int"),
          mk_mask([500000.0, 640000.0], [4100000.0, 4100000.0], 90000.0, [430000.0, 560000.0, 700000.0], [4100000.0, 4160000.0, 4030000.0], [3], None, None, "mask-utm-int")]
    return cs


def generate(rng, tier):
    n = 300 if tier == "quick" else 5000
    maxpts = 20 if tier == "quick" else 120
    cs = []
    for _ in range(n):
        npts = rng.randint(2, maxpts)
        es, ns = cloud(rng, npts)
        u = rng.random()
        nq = rng.randint(1, 10)
        qe = [rng.randint(-300, 300) / 32.0 + 1 / 64 for _ in range(nq)]
        qn = [rng.randint(-300, 300) / 32.0 + 1 / 128 for _ in range(nq)]
        shape2d = [nq] if (nq % 2 or rng.random() < 0.6) else [2, nq // 2]
        if u < 0.45:
            data = [rng.randint(-64, 64) / 4.0 for _ in es]
            if rng.random() < 0.25:     # integer-valued data are handed over with an integer dtype (see impl)
                data = [float(rng.randint(-64, 64)) for _ in es]
            k = rng.choice([1, 1, 2, 3, npts, rng.randint(1, npts)])
            k = min(k, npts)
            kind = "knn"
            if rng.random() < 0.3:      # some query points ARE data points (a grid node on a station, predicting back at the data)
                for j in range(min(len(qe), rng.randint(1, 3))):
                    i = rng.randrange(npts)
                    qe[j], qn[j] = es[i], ns[i]
                kind = "knn-query-at-data"
            cs.append(mk_knn(es, ns, data, k, rng.choice(list(REDS)), qe, qn, shape2d, kind))
            if rng.random() < 0.12 and npts >= 3:
                top = rng.choice([255, 32767])
                nd = [float(top - rng.randint(0, top // 5)) for _ in es]
                cs.append(mk_knn(es, ns, nd, rng.randint(2, min(npts, 12)), "mean", qe, qn, shape2d, "knn-narrow-int"))
        elif u < 0.65:
            sh = [npts] if (npts % 2 or rng.random() < 0.6) else [2, npts // 2]
            cs.append(mk_md(es, ns, rng.randint(1, npts - 1), sh, "median_distance"))
        else:
            proj = None
            if rng.random() < 0.3:
                proj = rng.choice([["affine", [2.0, 1.0, -0.5, 3.0]], ["affine", [0.25, 0.0, 4.0, -1.0]], ["shear", [0.5]], ["centred", [1.0, 0.5]], ["centred", [2.0, 2.0]]])
            maxdist = rng.choice([rng.randint(0, 64) / 8.0, 5.0, 1.25])
            if rng.random() < 0.12:
                # integer metres (int32) at UTM magnitudes, few stations (often one), far-away queries
                m = rng.choice([1, 1, 2, 3])
                ue = [float(rng.randint(300000, 700000)) for _ in range(m)]
                un = [float(rng.randint(4000000, 4400000)) for _ in range(m)]
                uq = [float(rng.randint(250000, 750000)) for _ in range(nq)]
                vq = [float(rng.randint(3950000, 4450000)) for _ in range(nq)]
                cs.append(mk_mask(ue, un, float(rng.randint(40000, 250000)), uq, vq, shape2d, None, None, "mask-utm-int"))
                continue
            if rng.random() < 0.4:
                ge = sorted(set(rng.randint(-40, 40) / 4.0 for _ in range(rng.randint(1, 5))))
                gn = sorted(set(rng.randint(-40, 40) / 4.0 for _ in range(rng.randint(1, 5))))
                cs.append(mk_mask(es, ns, maxdist, None, None, None, proj, (ge, gn), "mask-grid"))
            else:
                cs.append(mk_mask(es, ns, maxdist, qe, qn, shape2d, proj, None, "mask-array"))
    return cs


def impl(case):
    if case["fn"] == "large":
        r = C.call(L.run, case["args"])
        return r if C.is_err(r) else ["large", r]
    a = case["args"]
    fn = case["fn"]

    def run():
        if fn == "knn":
            es, ns, data, k, red, qe, qn, shape2d = a
            darr = np.array(data)
            if all(float(v).is_integer() for v in data):
                darr = darr.astype("int64" if len(data) % 2 else "int16")      # elevations / counts: the reduction must not be truncated
            if case["kind"] == "knn-narrow-int":
                darr = np.array(data).astype("uint8" if max(data) < 256 else "int16")      # values near the top of a narrow integer type
            ce, cn = np.array(es), np.array(ns)
            g = vd.KNeighbors(k=k, reduction=REDS[red])
            if (len(es) + k) % 3 == 0:
                # history: the same object was fitted before, elsewhere, to a handful of points (possibly fewer than k: fitting alone is accepted)
                m0 = 1 + (len(es) % 3)
                g.fit((np.arange(m0) * 7.5 - 100.0, np.arange(m0) * -2.5 + 40.0), np.arange(m0) * 1.0 + 0.5)
            g.fit((ce, cn), darr)
            if (len(es) + k) % 2 == 0:
                # a refit is ATTEMPTED on a cloud of the same size with a non-finite coordinate (the tree refuses it); the caller catches the error
                # and goes on with the model it had
                e_bad = ce.astype(float).copy()
                e_bad[len(e_bad) // 2] = np.nan
                try:
                    g.fit((e_bad, cn * 0.5 + 1.0), np.asarray(darr, dtype=float)[::-1] * -2.0 + 0.25)
                except Exception:  # noqa: BLE001
                    pass
            if g.k != k:
                raise RuntimeError(f"hyper-parameter k changed from {k} to {g.k}")
            # the caller goes on using its own arrays after the fit (in place): the fitted model must not follow them
            darr[...] = 0
            ce += 1000.0
            cn *= -3.0
            r = g.predict((C.mkarr(qe, shape2d, "qe:" + case["op"]), C.mkarr(qn, shape2d, "qn:" + case["op"])))
            if list(r.shape) != list(shape2d):
                raise RuntimeError("wrong output shape")
            return r.ravel().tolist()
        if fn == "md":
            es, ns, k, shape2d = a
            cm = (C.mkarr(es, shape2d, "es:" + case["op"]), C.mkarr(ns, shape2d, "ns:" + case["op"]))
            if (len(es) + k) % 2:
                # further coordinates (heights, times) are ignored: distances are horizontal
                up = (np.arange(len(es), dtype=float) ** 2 * 37.0 - 500.0).reshape(shape2d)
                cm = cm + (up,) + ((up[::-1].copy() * -0.5,) if len(es) % 3 == 0 else ())
            r = vd.median_distance(cm, k_nearest=k)
            if list(r.shape) != list(shape2d):
                raise RuntimeError("wrong output shape")
            return r.ravel().tolist()
        if fn == "mask":
            es, ns, maxdist, qe, qn, shape2d, proj, grid = a
            f = None if proj is None else PROJS[proj[0]](proj[1])
            dc = (np.array(es), np.array(ns))
            qc = (C.mkarr(qe, shape2d, "qe:" + case["op"]), C.mkarr(qn, shape2d, "qn:" + case["op"]))
            if case["kind"] == "mask-utm-int":
                dc = tuple(c.astype("int32") for c in dc)
                qc = tuple(c.astype("int32") for c in qc)
            arr = vd.distance_mask(dc, maxdist, coordinates=qc, projection=f)
            if list(arr.shape) != list(shape2d) or arr.dtype != bool:
                raise RuntimeError("wrong output shape/dtype")
            if grid is not None:
                ge, gn = grid
                vals = np.arange(1.0, len(ge) * len(gn) + 1).reshape(len(gn), len(ge))
                ds = xr.Dataset({"v": (("y", "x"), vals)}, coords={"x": np.array(ge), "y": np.array(gn)})
                if (len(ge) + len(gn)) % 2:
                    # the same grid built coordinates-first (or after Dataset arithmetic): Dataset.dims is then registered as
                    # (x, y) although the variable is (y, x) - the variable's own dims are what counts
                    ds = xr.Dataset(coords={"x": np.array(ge), "y": np.array(gn)})
                    ds["v"] = (("y", "x"), vals)
                vals0 = vals.copy()      # (xarray wraps `vals` without copying it)
                out = vd.distance_mask(dc, maxdist, grid=ds, projection=f)
                blank = np.isnan(out.v.values)
                if not np.array_equal(blank, ~arr) or not np.array_equal(out.v.values[~blank], vals0[~blank]):
                    raise RuntimeError("grid form does not blank exactly the cells where the array form is False")
                # the caller's grid is an input: it is left as it was, so masking it again (a sweep over settings) gives the same answer
                if not np.array_equal(ds.v.values, vals0) or not np.array_equal(vals, vals0):
                    raise RuntimeError("masking wrote into the grid it was given")
                again = vd.distance_mask(dc, maxdist, grid=ds, projection=f)
                if not np.array_equal(np.isnan(again.v.values), blank):
                    raise RuntimeError("masking the same grid a second time gives another mask")
            return [bool(v) for v in arr.ravel()]
        raise C.Infra("unknown fn")
    return C.call(run)


def compare(case, io, mo):
    if case["fn"] == "large":
        return "diff:implementation failed: " + io[1] if C.is_err(io) else "ok"
    if C.is_err(io):
        return "diff:implementation failed: " + io[1]
    fn = case["fn"]
    if fn == "knn":
        pred, gaps = C.tofloat(mo[0]), C.tofloat(mo[1])
        amb = False
        for x, y, g in zip(io, pred, gaps):
            if not (abs(x - y) <= 1e-9 * max(1.0, abs(y))):
                if g is not None and abs(g) <= 1e-9:
                    amb = True
                    continue
                return f"diff:prediction {x} vs {y} (gap to next neighbour {g})"
        return "amb" if amb else "ok"
    if fn == "md":
        sq = C.tofloat(mo)
        for x, row in zip(io, sq):
            med = float(np.median(np.sqrt(np.array(row))))
            if not (abs(x - med) <= 1e-9 * max(1.0, med)):
                return f"diff:median distance {x} vs {med}"
        return "ok"
    mask, margins = C.tofrac(mo[0]), C.tofloat(mo[1])
    amb = False
    for x, y, m in zip(io, mask, margins):
        if x != y:
            if m is not None and abs(m) <= 1e-9 * max(1.0, case["args"][2] ** 2):
                amb = True
                continue
            return f"diff:mask {x} vs {y} (d^2 - maxdist^2 = {m})"
    return "amb" if amb else "ok"


def oracle(case, io):
    if case["fn"] == "large":
        return (io[1] or None) if not C.is_err(io) else "failed: " + io[1]
    a = case["args"]
    fn = case["fn"]
    if C.is_err(io):
        return "failed: " + io[1]
    if fn == "knn":
        es, ns, data, k, red, qe, qn, shape2d = a
        for t, (x, y) in enumerate(zip(qe, qn)):
            d2 = sorted(((C.fq(x) - C.fq(e)) ** 2 + (C.fq(y) - C.fq(n)) ** 2, i) for i, (e, n) in enumerate(zip(es, ns)))
            if k < len(d2) and d2[k - 1][0] == d2[k][0]:
                continue
            vals = [data[i] for _, i in d2[:k]]
            exp = float(REDS[red](np.array(vals)))
            if not (abs(io[t] - exp) <= 1e-9 * max(1.0, abs(exp))):
                return f"query {t} = ({x}, {y}): got {io[t]} but the {red} of the {k} closest data values {vals} is {exp}"
        return None
    if fn == "md":
        es, ns, k, shape2d = a
        for t, (x, y) in enumerate(zip(es, ns)):
            d = sorted(math.sqrt(float((C.fq(x) - C.fq(e)) ** 2 + (C.fq(y) - C.fq(n)) ** 2)) for i, (e, n) in enumerate(zip(es, ns)) if i != t)
            exp = float(np.median(d[:k]))
            if not (abs(io[t] - exp) <= 1e-9 * max(1.0, exp)):
                return f"point {t}: median distance {io[t]} but the median distance to its {k} nearest other points is {exp}"
        return None
    es, ns, maxdist, qe, qn, shape2d, proj, grid = a
    f = None if proj is None else PROJS[proj[0]](proj[1])
    pe, pn = (es, ns) if f is None else f(np.array(es), np.array(ns))
    pqe, pqn = (qe, qn) if f is None else f(np.array(qe), np.array(qn))
    for t, (x, y) in enumerate(zip(pqe, pqn)):
        d2 = min((C.fq(x) - C.fq(e)) ** 2 + (C.fq(y) - C.fq(n)) ** 2 for e, n in zip(pe, pn))
        m2 = C.fq(maxdist) ** 2
        if abs(float(d2 - m2)) <= 1e-9 * max(1.0, float(m2)) and d2 != m2:
            continue
        if d2 == m2 and not float(d2).is_integer():
            continue
        exp = d2 <= m2
        if io[t] != exp:
            return f"query {t}: mask {io[t]} but nearest data point is at distance {math.sqrt(float(d2))} (maxdist {maxdist})"
    return None


def nontrivial(case, io):
    if case["fn"] == "large":
        return not C.is_err(io)
    return (not C.is_err(io)) and len(case["args"][0]) >= 2 and len(io) >= 1


def finding_key(case, io):
    return None
