"""Shared pieces for the block-reduction properties (C09, C10)."""
import numpy as np

import common as C
import gen as G
import verde as vd


def cloud(rng, maxpts):
    reg = G.small_region(rng)
    ew, nsx = reg[1] - reg[0], reg[3] - reg[2]
    npts = rng.randint(1, maxpts)
    # odd multiples of 1/128 so points rarely sit on block edges (edges are coarser dyadics or generic fractions)
    es = [reg[0] + (2 * rng.randint(0, max(1, int(ew * 64)) - 1) + 1) / 128.0 for _ in range(npts)]
    ns = [reg[2] + (2 * rng.randint(0, max(1, int(nsx * 64)) - 1) + 1) / 128.0 for _ in range(npts)]
    if rng.random() < 0.3:   # clustered: few blocks with many members
        k = rng.randint(1, 3)
        cx = [rng.choice(es) for _ in range(k)]
        cy = [rng.choice(ns) for _ in range(k)]
        es = [min(reg[1], max(reg[0], cx[i % k] + rng.randint(-8, 8) / 128.0)) for i in range(npts)]
        ns = [min(reg[3], max(reg[2], cy[i % k] + rng.randint(-8, 8) / 128.0)) for i in range(npts)]
    if rng.random() < 0.3:      # some points beyond the region's bounds: they belong to the nearest border block
        for _ in range(rng.randint(1, 3)):
            k = rng.randrange(npts)
            es[k] = reg[rng.choice([0, 1])] + rng.choice([-1, 1]) * (2 * rng.randint(0, 63) + 1) / 128.0
            ns[k] = reg[rng.choice([2, 3])] + rng.choice([-1, 1]) * (2 * rng.randint(0, 63) + 1) / 128.0
    return reg, es, ns


def block_args(rng, reg):
    ew, nsx = reg[1] - reg[0], reg[3] - reg[2]
    region = list(reg) if rng.random() < 0.6 else None
    adjust = rng.choice(["spacing", "region"])
    if rng.random() < 0.35:
        return region, (rng.randint(1, 5), rng.randint(1, 5)), None, adjust
    if rng.random() < 0.5:
        sp = max(ew, nsx) / rng.randint(1, 6)
    else:
        sp = (max(nsx, 0.25) / rng.randint(1, 5), max(ew, 0.25) / rng.randint(1, 5))
    return region, None, sp, adjust


def values(rng, n):
    return [rng.randint(-64, 64) / 8.0 + (1000.0 if rng.random() < 0.05 else 0.0) for _ in range(n)]


def pos_weights(rng, n):
    return [rng.randint(1, 32) / 8.0 for _ in range(n)]


def enc_block(region, shape, spacing, adjust):
    sp = None if spacing is None else [float(v) for v in np.atleast_1d(spacing)]
    return f"{C.enc(region)} {C.enc(None if shape is None else list(shape))} {C.enc(sp)} {adjust}"


def size_tie(es, ns, region, spacing):
    """True if a spacing -> number-of-blocks rounding sits on a .5 tie that float and exact arithmetic may resolve differently."""
    from fractions import Fraction as F
    if spacing is None:
        return False
    box = region if region is not None else (min(es), max(es), min(ns), max(ns))
    sp = [float(v) for v in np.atleast_1d(spacing)]
    if len(sp) == 1:
        sp = [sp[0], sp[0]]
    for lo, hi, s in ((box[0], box[1], sp[1]), (box[2], box[3], sp[0])):
        if s <= 0:
            continue
        q = (C.fq(hi) - C.fq(lo)) / C.fq(s)
        fr = q - (q.numerator // q.denominator)
        if abs(fr - F(1, 2)) <= F(1, 10**9) * max(1, abs(q)) and C.fq((float(hi) - float(lo)) / float(s)) != q:
            return True
    return False


def near_tie(es, ns, region, shape, spacing, adjust):
    """True if the block layout is ambiguous between float and exact arithmetic: a point (almost) equidistant from its two
    nearest block centres, or a spacing -> size rounding tie."""
    if size_tie(es, ns, region, spacing):
        return True
    try:
        (be, bn), _ = vd.block_split((np.array(es), np.array(ns)), spacing=spacing, shape=shape, adjust=adjust, region=region)
    except Exception:  # noqa: BLE001
        return False
    if be.size < 2:
        return False
    for x, y in zip(es, ns):
        d = np.sort((be - x) ** 2 + (bn - y) ** 2)
        if d[1] - d[0] <= 1e-9 * max(1.0, d[1]):
            return True
    return False


def groups(labels):
    out = {}
    for i, l in enumerate(labels):
        out.setdefault(int(l), []).append(i)
    return dict(sorted(out.items()))
