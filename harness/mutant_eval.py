"""Evaluate a seeded change: mutant_eval.py <property> <k> [--tests] [--checks C01,C02,...]
Uses a scratch worktree of /repo under /tmp (never /repo itself): applies /tmp/mutout/<property>/<k>/patch.diff, runs the
demonstration with and without the change, optionally the pinned test suite, then the registered quick commands with
VERIF_REPO pointing at the worktree.  Prints a JSON summary."""
import json
import os
import subprocess
import sys
import xml.etree.ElementTree as ET

prop, k = sys.argv[1], sys.argv[2]
run_tests = "--tests" in sys.argv
checks = [prop]
for a in sys.argv:
    if a.startswith("--checks="):
        checks = a.split("=", 1)[1].split(",")
tier = "thorough" if "--thorough" in sys.argv else "quick"
src = f"{os.environ.get('MUTSRC', '/tmp/mutout')}/{prop}/{k}"
wt = f"/tmp/mut_{prop}_eval{k}"
sh = lambda cmd, **kw: subprocess.run(cmd, shell=True, capture_output=True, text=True, **kw)  # noqa: E731
sh(f"git -C /repo worktree remove --force {wt}")
r = sh(f"git -C /repo worktree add -q --detach {wt} HEAD")
out = {"property": prop, "k": k}
try:
    env = dict(os.environ, PYTHONPATH=wt, OMP_NUM_THREADS="1", OPENBLAS_NUM_THREADS="1", MKL_NUM_THREADS="1")
    d0 = subprocess.run(["/venv/bin/python", f"{src}/demo.py"], cwd=wt, env=env, capture_output=True, text=True, timeout=600)
    out["demo_clean_rc"] = d0.returncode
    ap = sh(f"git -C {wt} apply {src}/patch.diff")
    out["apply_rc"] = ap.returncode
    out["apply_err"] = ap.stderr[-300:]
    d1 = subprocess.run(["/venv/bin/python", f"{src}/demo.py"], cwd=wt, env=env, capture_output=True, text=True, timeout=600)
    out["demo_mutant_rc"] = d1.returncode
    out["demo_mutant_tail"] = (d1.stdout + d1.stderr)[-300:]
    if run_tests:
        xml = f"{wt}/junit.xml"
        subprocess.run(["/venv/bin/python", "-m", "pytest", "-q", "-p", "no:cacheprovider", "--timeout=900", "--continue-on-collection-errors",
                        f"--junitxml={xml}"], cwd=wt, env=env, capture_output=True, text=True)
        base = json.load(open("/root/.vp/BASELINE.json"))
        passed = set()
        for tc in ET.parse(xml).getroot().iter("testcase"):
            if not any(ch.tag in ("failure", "error", "skipped") for ch in tc):
                passed.add(tc.get("classname") + "::" + tc.get("name"))
        out["baseline_missing"] = [t for t in base["stable_pass"] if t not in passed]
    res = {}
    for c in checks:
        cr = subprocess.run(["./check", c, tier], cwd="/verif", env=dict(os.environ, VERIF_REPO=wt), capture_output=True, text=True, timeout=3000)
        lines = [ln for ln in cr.stdout.splitlines() if ln.startswith("VIOLATION") or ln.startswith(c + " ")]
        res[c] = {"rc": cr.returncode, "lines": [ln[:230] for ln in lines[:3]]}
        viol = [ln for ln in cr.stdout.splitlines() if ln.startswith("VIOLATION")]
        if viol:
            path = viol[0].split("replay=")[1].split()[0]
            try:
                rp = json.load(open(os.path.join("/verif", path)))
                res[c]["oracle"] = str(rp.get("oracle") or rp.get("broken"))[:300]
            except Exception:  # noqa: BLE001
                pass
    out["checks"] = res
finally:
    sh(f"git -C /repo worktree remove --force {wt}")
print(json.dumps(out, indent=1))
