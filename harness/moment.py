"""The "moment gridder": a BaseGridder subclass whose fit/predict are simple, order-sensitive rational functions of exactly the
rows it is given.  Implemented identically in Lean (Model/Score.lean: momentFit / momentPredict)."""
import numpy as np
from sklearn.utils.validation import check_is_fitted

import verde as vd
from verde.base import check_fit_input


class MomentGridder(vd.base.BaseGridder):
    def __init__(self, tag=0):
        super().__init__()
        self.tag = tag

    def fit(self, coordinates, data, weights=None):
        coordinates, data, weights = check_fit_input(coordinates, data, weights, unpack=False)
        e = np.ravel(coordinates[0])
        self.region_ = vd.get_region(coordinates[:2])
        comps = []
        for c, d in enumerate(data):
            d = np.ravel(d)
            w = np.ones_like(d) if weights[c] is None else np.ravel(weights[c])
            mom = float(np.sum((np.arange(d.size) + 1.0) * d * e * w)) / 64.0
            comps.append((float(np.sum(w * d) / np.sum(w)), float(d[0]), mom))
        self.comps_ = comps
        if self.tag:            # tag > 0: widen the window in which another thread sharing this object could refit it
            import time
            time.sleep(self.tag / 1000.0)
        return self

    def predict(self, coordinates):
        check_is_fitted(self, ["comps_"])
        e, n = np.asarray(coordinates[0], dtype=float), np.asarray(coordinates[1], dtype=float)
        out = tuple(mean + first * e / 8.0 + mom * n / 16.0 for mean, first, mom in self.comps_)
        return out[0] if len(out) == 1 else out


class PolyGridder(vd.base.BaseGridder):
    """Analytic asymmetric gridder: component k predicts a + b*e + c*n + d*e*n (exact on dyadic inputs)."""

    def __init__(self, coefs=((0.0, 2.0, 1000.0, 0.125),), region=None):
        super().__init__()
        self.coefs = coefs
        self.region = region

    @property
    def region_(self):
        if self.region is None:
            raise AttributeError("no region_")
        return self.region

    def predict(self, coordinates):
        e, n = np.asarray(coordinates[0], dtype=float), np.asarray(coordinates[1], dtype=float)
        out = tuple(a + b * e + c * n + d * e * n for a, b, c, d in self.coefs)
        return out[0] if len(out) == 1 else out
