"""Failing-input search for the translated definitions (run only when a bridge theorem no longer checks).

`lean/GenEval.lean` evaluates each regenerated `Gen.*` definition and the hand-written model definition on a probe
lattice.  Where they differ, the REAL function in /repo is run at that input; an input at which the real code also
departs from the (proved) model value is a concrete failing input and becomes the replay.
"""
import math
import subprocess
from fractions import Fraction

import common as C


def _f(tok):
    if tok in ("nan", "inf", "-inf"):
        return float(tok)
    return float(C.tofrac(tok)) if "/" in tok else float(tok)


def _same_float(a, b):
    if math.isnan(a) or math.isnan(b):
        return math.isnan(a) and math.isnan(b)
    if math.isinf(a) or math.isinf(b):
        return a == b
    return abs(a - b) <= 1e-9 * max(1.0, abs(a), abs(b))


def _real_kernels(name, args):
    import numpy as np
    import verde.spline as sp
    import verde.vector as vec
    import verde as vd
    if name == "powerComb":
        import verde.trend as tr
        try:
            return [float(v) for c in tr.polynomial_power_combinations(int(args[0])) for v in c]
        except ValueError:
            return [-1.0]
    a = [_f(t) for t in args]
    with np.errstate(all="ignore"):
        if name == "greensJit":
            return [float(C.numba_source('verde/spline.py')['greens_func_jit'](np.float64(a[0]), np.float64(a[1]), a[2]))]
        if name == "greensNumpy":
            return [float(sp.greens_func_numpy(np.array([a[0]]), np.array([a[1]]), a[2])[0])]
        if name == "greens2d":
            return [float(v) for v in vec.greens_func_2d(np.float64(a[0]), np.float64(a[1]), a[2], a[3])]
        if name == "checker":
            cb = vd.synthetic.CheckerBoard(amplitude=a[0], region=(0, 1, 0, 1), w_east=a[1], w_north=a[2])
            return [float(cb.predict((np.array([a[3]]), np.array([a[4]])))[0])]
    raise KeyError(name)


def _real_coords(name, args):
    import verde.coordinates as co
    if name == "spacingToSize":
        start, stop, sp = (C.tofrac(t) for t in args[:3])
        try:
            size, stop2 = co.spacing_to_size(float(start), float(stop), float(sp), args[3])
        except ValueError:
            return ["err"]
        return [str(int(size)), C.frs(Fraction(float(stop2)))]
    if name == "padRegion":
        w, e, s, n, pn, pe = (float(C.tofrac(t)) for t in args)
        return [C.frs(Fraction(float(v))) for v in co.pad_region((w, e, s, n), (pn, pe))]
    if name == "lonRegion":
        import numpy as np
        w, e = (float(C.tofrac(t)) for t in args)
        try:
            _, reg = co.longitude_continuity([np.array([0.0]), np.array([0.0])], (w, e, 0, 1))
        except ValueError:
            return ["err"]
        return [None, C.frs(Fraction(float(reg[0]))), C.frs(Fraction(float(reg[1])))]
    if name == "lonPoint":
        import numpy as np
        i360, lon = args[0] == "true", float(C.tofrac(args[1]))
        # a region that selects the wanted convention: (0, 90) -> [0, 360); (350, 10) -> [-180, 180)
        reg = (0, 90, 0, 1) if i360 else (350, 10, 0, 1)
        if not (-180 <= lon <= 360):
            return [None]
        coords, _ = co.longitude_continuity([np.array([lon]), np.array([0.0])], reg)
        return [C.frs(Fraction(float(coords[0][0])))]
    if name == "checkRegion4":
        try:
            co.check_region([float(C.tofrac(t)) for t in args])
            return ["ok"]
        except ValueError:
            return ["err"]
    if name == "checkGeoRegion":
        try:
            co._check_geographic_region([float(C.tofrac(t)) for t in args])
            return ["ok"]
        except ValueError:
            return ["err"]
    if name == "geoCoordBad":
        import numpy as np
        try:
            co._check_geographic_coordinates([np.array([float(C.tofrac(args[0]))]), np.array([float(C.tofrac(args[1]))])])
            return ["ok"]
        except ValueError:
            return ["err"]
    if name == "insidePt":
        import numpy as np
        reg = [float(C.tofrac(t)) for t in args[:4]]
        r = co.inside((np.array([float(C.tofrac(args[4]))]), np.array([float(C.tofrac(args[5]))])), reg)
        return ["true" if bool(r[0]) else "false"]
    if name == "getRegion":
        import numpy as np
        es = np.array([float(C.tofrac(t)) for t in args[0].split(",")])
        ns = np.array([float(C.tofrac(t)) for t in args[1].split(",")])
        return [C.frs(Fraction(float(v))) for v in co.get_region((es, ns))]
    if name == "lineCoordinates":
        a_, b_ = float(C.tofrac(args[0])), float(C.tofrac(args[1]))
        size = None if args[2] == "none" else int(args[2])
        sp = None if args[3] == "none" else float(C.tofrac(args[3]))
        try:
            r = co.line_coordinates(a_, b_, size=size, spacing=sp, adjust=args[4], pixel_register=args[5] == "true")
        except ValueError:
            return ["err"]
        except (IndexError, TypeError):
            return ["err2"]
        return [",".join(C.frs(Fraction(float(v))) for v in r) if len(r) else "-"]
    if name == "gridLines":
        region = tuple(float(C.tofrac(t)) for t in args[:4])
        shape = None if args[4] == "none" else tuple(int(t) for t in args[4].split("x"))
        sp = None if args[5] == "none" else ([] if args[5] == "-" else [float(C.tofrac(t)) for t in args[5].split(",")])
        try:
            r = co.grid_coordinates(region, shape=shape, spacing=sp, adjust=args[6], pixel_register=args[7] == "true", meshgrid=False)
        except ValueError:
            return ["err"]
        except (IndexError, TypeError):
            return ["err2"]
        return [",".join(C.frs(Fraction(float(v))) for v in c) if len(c) else "-" for c in r]
    if name in ("blockLines", "rollingCentres"):
        lst = lambda t: np.array([] if t == "-" else [float(C.tofrac(v)) for v in t.split(",")])  # noqa: E731
        es, ns = lst(args[0]), lst(args[1])
        k = 3 if name == "rollingCentres" else 2
        region = None if args[k] == "none" else tuple(float(C.tofrac(v)) for v in args[k].split(","))
        shape = None if args[k + 1] == "none" else tuple(int(t) for t in args[k + 1].split("x"))
        sp = None if args[k + 2] == "none" else ([] if args[k + 2] == "-" else [float(C.tofrac(t)) for t in args[k + 2].split(",")])
        fmt = lambda c: ",".join(C.frs(Fraction(float(v))) for v in c) if len(c) else "-"  # noqa: E731
        try:
            if name == "rollingCentres":
                centers, _ = co.rolling_window((es, ns), float(C.tofrac(args[2])), spacing=sp, shape=shape, region=region, adjust=args[k + 3])
                return [fmt(centers[0][0, :]), fmt(centers[1][:, 0])]
            (be, bn), _ = co.block_split((es, ns), spacing=sp, adjust=args[k + 3], region=region, shape=shape)
            ne = 1
            while ne < len(be) and be[ne] != be[0]:      # (row-major ravel of a meshgrid: the east line repeats)
                ne += 1
            return [fmt(be[:ne]), fmt(bn[::ne])]
        except ValueError:
            return ["err"]
        except (IndexError, TypeError):
            return ["err2"]
    if name == "shapeToSpacing":
        w, e, s, n = (float(C.tofrac(t)) for t in args[:4])
        try:
            sp = co.shape_to_spacing((w, e, s, n), (int(args[4]), int(args[5])), pixel_register=args[6] == "true")
        except ZeroDivisionError:
            return ["err"]
        return [C.frs(Fraction(float(v))) for v in sp]
    raise KeyError(name)


def _real_utils(name, args):
    import numpy as np
    from verde.utils import partition_by_sum
    if name == "partitionBySum":
        sizes = [] if args[0] == "-" else [int(t) for t in args[0].split(",")]
        try:
            r = partition_by_sum(np.array(sizes, dtype=int), int(args[1]))
        except ValueError:
            return ["err"]
        r = [int(v) for v in r]
        return [",".join(str(v) for v in r) if r else "-"]
    if name == "v2w":
        from verde import variance_to_weights
        var = np.array([float("nan") if t == "nan" else float(C.tofrac(t)) for t in args[0].split(",")])
        r = variance_to_weights(var, tol=float(C.tofrac(args[1])))
        return [",".join(C.frs(Fraction(float(v))) for v in r)]
    raise KeyError(name)


def _real_io(name, args):
    import io as _io
    import numpy as np
    import verde.io as vio

    def text(tokline):
        if tokline == "-":
            return ""
        out = []
        for t in tokline.split(","):
            out.append("abc" if t == "b" else (t[2:] if t[0] == "i" else repr(float(C.tofrac(t[2:])))))
        return " ".join(out)
    fr = lambda v: C.frs(Fraction(float(v)))  # noqa: E731
    if name == "readHeader":
        body = "\n".join([args[0] if args[0] != "-" else ""] + [text(t) for t in args[1:5]]) + "\n1 2 3\n"
        try:
            gid, shape, region, rng = vio._read_surfer_header(_io.StringIO(body))
        except ValueError:
            return ["err"]
        return [gid or "-", ",".join(str(int(v)) for v in shape) or "-", ",".join(fr(v) for v in region), ",".join(fr(v) for v in rng) or "-"]
    if name == "checkIntegrity":
        rows = [[float(C.tofrac(v)) for v in r.split(",")] for r in args[0].split(";")]
        field = np.array(rows[0]) if len(rows) == 1 else np.array(rows)
        shape = tuple(int(v) for v in args[1].split(",")) if args[1] != "-" else ()
        rng = [float(C.tofrac(v)) for v in args[2].split(",")] if args[2] != "-" else []
        try:
            vio._check_surfer_integrity(field, shape, rng)
        except IOError:
            return ["err"]
        except ValueError:
            return ["err2"]
        return ["ok"]
    raise KeyError(name)


def _real_base(name, args):
    import numpy as np
    import verde.base as vb

    def arrs(t, allow_none=False):
        if t == "-":
            return ()
        out = []
        for x in t.split(";"):
            if x == "N":
                out.append(None)
            else:
                out.append(np.zeros(() if x == "s" else tuple(int(v) for v in x.split("x"))))
        return tuple(out)
    if name == "checkFitInput":
        try:
            vb.check_fit_input(arrs(args[0]), arrs(args[1]), arrs(args[2]))
        except ValueError:
            return ["err"]
        except Exception:  # noqa: BLE001
            return ["err2"]
        return ["ok"]
    raise KeyError(name)


def _differs(kind, a, b):
    if kind == "base":
        a, b = list(a), list(b)
        if "errany" in (a + b):
            other = b if a == ["errany"] else a
            return other not in (["err"], ["err2"], ["errany"])
        return a != b
    if kind == "io":
        return list(a) != list(b)
    if len(a) != len(b):
        return True
    for x, y in zip(a, b):
        if x is None or y is None:
            continue
        if kind == "kernels":
            if not _same_float(_f(x), y if isinstance(y, float) else _f(y)):
                return True
        elif kind == "utils":
            if "/" in x + y or "," in x + y:
                xs, ys = x.split(","), y.split(",")
                if len(xs) != len(ys) or any(t in ("-", "err") or u in ("-", "err") or
                                             abs(C.tofrac(t) - C.tofrac(u)) > Fraction(1, 10**12) * max(1, abs(C.tofrac(u))) for t, u in zip(xs, ys)):
                    if x != y:
                        return True
            elif x != y:
                return True
        else:
            if x in ("true", "false", "err", "err2", "ok", "-") or y in ("true", "false", "err", "err2", "ok", "-"):
                if x != y:
                    return True
            elif "," in x or "," in y:
                xs, ys = x.split(","), y.split(",")
                if len(xs) != len(ys) or any(abs(C.tofrac(t) - C.tofrac(u)) > Fraction(1, 10**11) * max(1, abs(C.tofrac(u))) for t, u in zip(xs, ys)):
                    return True
            elif C.tofrac(x) != C.tofrac(y):
                return True
    return False


def search(kind, limit=5):
    """Returns (found, stats).  found: list of dicts with definition, inputs, gen, model, impl."""
    stats = {"probes": 0, "gen_differs_from_model": 0, "real_code_differs_too": 0, "error": None}

    r = C._locked(["sh", "-c", "lake build VerdeModel.Gen.Kernels VerdeModel.Gen.Coords VerdeModel.Gen.Trend VerdeModel.Gen.Utils VerdeModel.Gen.IO VerdeModel.Gen.Base VerdeModel.Gen.Chain VerdeModel.Gen.Score VerdeModel.Gen.Neighbors VerdeModel.Gen.Grid VerdeModel.Gen.Blocks VerdeModel.Gen.LeastSquares VerdeModel.Gen.Region VerdeModel.Gen.Gridder VerdeModel.Gen.Mask VerdeModel.Gen.ProjectGrid VerdeModel.Gen.CVSplit VerdeModel.Gen.Loops VerdeModel.Gen.Windows VerdeModel.Gen.ModelSel VerdeModel.Gen.BlockSplit VerdeModel.Gen.DistMask VerdeModel.Gen.Distances VerdeModel.Gen.VectorComp VerdeModel.Gen.Fit VerdeModel.Gen.Predict VerdeModel.Gen.Scipy VerdeModel.Gen.Profile VerdeModel.Gen.MakeGrid VerdeModel.Gen.BlockMean VerdeModel.Gen.GridCoords >&2 && "
                   f"lake env lean --run GenEval.lean {kind}"], C.LEAN_DIR, 1500)
    if r.returncode != 0:
        stats["error"] = "translated definitions do not evaluate: " + (r.stdout + r.stderr)[-800:]
        return [], stats
    out = r.stdout
    found = []
    real = {"kernels": _real_kernels, "utils": _real_utils, "cvsplit": _real_utils, "io": _real_io, "base": _real_base}.get(kind, _real_coords)
    for line in out.splitlines():
        parts = [p.split() for p in line.split("|")]
        if len(parts) != 3:
            continue
        (name, *args), gen, model = parts
        stats["probes"] += 1
        if not _differs(kind, gen, model):
            continue
        stats["gen_differs_from_model"] += 1
        try:
            impl = real(name, args)
        except Exception as exc:  # noqa: BLE001
            impl = ["raised", type(exc).__name__]
        if kind == "kernels":
            impl_c = [v if isinstance(v, str) else v for v in impl]
            bad = impl and impl[0] == "raised" or _differs(kind, model, impl_c)
        else:
            bad = impl and impl[0] == "raised" or _differs(kind, model, impl)
        if bad:
            stats["real_code_differs_too"] += 1
            if len(found) < limit:
                found.append({"definition": name, "inputs": args, "translated_value": gen, "model_value": model,
                              "real_code_value": [str(v) for v in impl]})
    return found, stats


def rerun(kind, items):
    """Replay: re-evaluate the real functions at the recorded inputs and compare with the recorded model values."""
    real = {"kernels": _real_kernels, "utils": _real_utils, "cvsplit": _real_utils, "io": _real_io, "base": _real_base}.get(kind, _real_coords)
    bad = 0
    for it in items:
        try:
            impl = real(it["definition"], it["inputs"])
        except Exception as exc:  # noqa: BLE001
            impl = ["raised", type(exc).__name__]
        differs = (impl and impl[0] == "raised") or _differs(kind, it["model_value"], impl)
        print(it["definition"], " ".join(it["inputs"]), "| real code:", impl, "| proved model value:", it["model_value"],
              "| FAILS" if differs else "| ok")
        bad += bool(differs)
    return bad
