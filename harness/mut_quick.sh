#!/bin/sh
# mut_quick.sh "<P> <k> [checks]" ... : run the property's own quick check (or the listed ones) against seeded change k of property P
for pk in "$@"; do
  set -- $pk
  extra=""; [ -n "$3" ] && extra="--checks=$3"
  /venv/bin/python /verif/harness/mutant_eval.py $1 $2 $extra 2>&1 | python3 -c "
import sys,json
t=sys.stdin.read()
try:
    d=json.loads(t[t.index('{'):])
    print(d['property'],d['k'],'demo',d['demo_clean_rc'],d['demo_mutant_rc'],'apply',d['apply_rc'],{c:(v['rc'],(v.get('oracle') or '')[:160]) for c,v in d['checks'].items()})
except Exception as e:
    print('EVAL-ERROR', e, t[-500:])"
done
