"""Confirm and record seeded changes: seeded_eval.py [--src /tmp/mutout] [--jobs 4] [--only C01-1,C05-2] [--no-tests]

For every (property, k) listed in NAMES with /tmp/mutout/<property>/<k>/{patch.diff,demo.py,notes.md} this script
  1. makes a scratch worktree of /repo under /tmp (never /repo itself), runs the demonstration without the change (must pass),
     applies the patch (must apply), runs the demonstration with the change (must fail);
  2. runs the pinned pytest command in that worktree (single-threaded BLAS) and compares with BASELINE.json's stable_pass list
     (every baseline test must still pass);                                   -- steps 1-2 run in parallel for several changes
  3. runs the registered quick command of the property (and of the extra checks listed) against the worktree
     (VERIF_REPO=<worktree>), sequentially (the Lean project is shared);
  4. writes <verif>/seeded/<property>-<name>/{patch.diff, demo.py, meta.json} for every change that passed 1-2, and removes the
     worktree with its build output.
<verif> is the checkout this script lives in, so it can run from a `vp run` snapshot.
"""
import json
import os
import shutil
import subprocess
import sys
import xml.etree.ElementTree as ET
from concurrent.futures import ThreadPoolExecutor

VERIF = os.path.dirname(os.path.dirname(os.path.abspath(__file__)))
SRC = "/tmp/mutout"
NAMES = {
    ("C01", "1"): ("filter-int-dtype-cast", []), ("C01", "2"): ("spline-jacobian-gram-distance", []),
    ("C02", "1"): ("scaler-sample-weight", []), ("C02", "2"): ("weights-ravel-order-K", []),
    ("C03", "1"): ("greens-mask-before-mindist", []), ("C03", "2"): ("checkerboard-w-north-from-east", []),
    ("C04", "1"): ("n_1d_arrays-ravel-order-K", []), ("C04", "2"): ("knn-predict-cast-data-dtype", ["C15"]),
    ("C05", "1"): ("meshgrid_to_1d-unique", ["C18"]), ("C05", "2"): ("chain-region-after-filter", []),
    ("C06", "1"): ("filter-int-dtype-cast", ["C04"]), ("C06", "2"): ("chain-filter-shortcut", []),
    ("C07", "1"): ("line-coordinates-isclose-stop", []), ("C07", "2"): ("spacing-to-size-strict-guard", []),
    ("C08", "1"): ("block-split-chebyshev", []), ("C08", "2"): ("n_1d_arrays-ravel-order-K", []),
    ("C09", "1"): ("blockreduce-data-ravel-order-K", []), ("C09", "2"): ("center-coordinates-reduced", []),
    ("C10", "1"): ("uncertainty-check-before-normalisation", []), ("C10", "2"): ("late-binding-weights-lambda", []),
    ("C11", "1"): ("blockkfold-sizes-before-shuffle", []), ("C11", "2"): ("cached-block-labels", []),
    ("C12", "1"): ("select-ravel-order-K", []), ("C12", "2"): ("shallow-reinstantiation-instead-of-clone", []),
    ("C13", "1"): ("inside-negated-comparisons-nan", []), ("C13", "2"): ("project-region-edges-only", []),
    ("C14", "1"): ("rolling-window-prefilter-region", []), ("C14", "2"): ("expanding-window-double-argsort", []),
    ("C15", "1"): ("distance-mask-exclusive-upper-bound", []), ("C15", "2"): ("knn-predict-cast-data-dtype", ["C04"]),
    ("C16", "1"): ("convexhull-inplace-normalisation", ["C20"]), ("C16", "2"): ("project-grid-spacing-from-data-region", []),
    ("C17", "1"): ("longitude-single-shift", []), ("C17", "2"): ("all-globe-test-after-wrap", []),
    ("C18", "1"): ("grid-to-table-ravel-order-K", []), ("C18", "2"): ("meshgrid_to_1d-unique", ["C05"]),
    ("C19", "1"): ("reshape-to-header-shape", []), ("C19", "2"): ("masked-values-approximate-blank", []),
    ("C20", "1"): ("check-fit-input-size-not-shape", []), ("C20", "2"): ("longitude-continuity-asarray-region", []),
}
NAMES2 = {
    ("C01", "1"): ("vector-data-hstack", ["C04"]), ("C01", "2"): ("spline-force-coords-first-fit-only", ["C20"]),
    ("C02", "1"): ("weights-normalised-to-max", []), ("C02", "2"): ("weights-dropped-when-undamped", []),
    ("C03", "1"): ("safe-log-kernel-minus-one-at-zero", []), ("C03", "2"): ("unstable-argsort-monomial-order", []),
    ("C04", "1"): ("vector-data-hstack", ["C01"]), ("C04", "2"): ("scipygridder-points-take-easting-dtype", []),
    ("C05", "1"): ("profile-coordinates-not-inverse-projected", []), ("C05", "2"): ("class-level-grid-kwargs-dict", []),
    ("C06", "1"): ("chain-filter-returns-last-step", []), ("C06", "2"): ("chain-unweighted-stays-unweighted", []),
    ("C07", "1"): ("falsy-extra-coords-dropped", ["C13"]), ("C07", "2"): ("profile-last-point-overwritten", []),
    ("C08", "1"): ("block-split-adjust-not-forwarded", []), ("C08", "2"): ("pixel-centres-by-arange", ["C07"]),
    ("C09", "1"): ("centre-coordinates-reduced-after-move", []), ("C09", "2"): ("labels-recoded-before-centres", []),
    ("C10", "1"): ("constant-weights-shortcut-before-uncertainty", []), ("C10", "2"): ("v2w-recursion-drops-tol", []),
    ("C11", "1"): ("isin-assume-unique", []), ("C11", "2"): ("random-state-generator-at-init", []),
    ("C12", "1"): ("score-without-ravel", []), ("C12", "2"): ("select-label-indexing-for-series", []),
    ("C13", "1"): ("line-coordinates-arange-overshoot", ["C07"]), ("C13", "2"): ("maxabs-negated-min-unsigned", []),
    ("C14", "1"): ("expanding-window-assumes-ascending", []), ("C14", "2"): ("rolling-window-nonzero-drops-centre-point", []),
    ("C15", "1"): ("median-distance-central-columns", []), ("C15", "2"): ("knn-k-capped-at-n-minus-1", []),
    ("C16", "1"): ("project-grid-hull-over-nan-nodes", []), ("C16", "2"): ("project-grid-spacing-from-data-region", []),
    ("C17", "1"): ("east-zero-becomes-360", []), ("C17", "2"): ("full-globe-early-return-skips-coordinate-check", []),
    ("C18", "1"): ("extra-coords-default-dims", []), ("C18", "2"): ("square-extra-coords-transposed", []),
    ("C19", "1"): ("loadtxt-max-rows", []), ("C19", "2"): ("close-before-validation", []),
    ("C20", "1"): ("spline-force-coords-into-param", []), ("C20", "2"): ("vector-predict-checks-components", []),
}
NAMES3 = {
    ("C01", "1"): ("symmetric-jacobian-zero-diagonal", []), ("C01", "2"): ("chain-predict-named-steps", ["C06"]),
    ("C02", "1"): ("poisson-minus-one-per-component-fit", []), ("C02", "2"): ("square-jacobian-symmetric-solve", []),
    ("C03", "1"): ("small-distance-branch-parenthesis", []), ("C03", "2"): ("predict-drops-mindist", []),
    ("C04", "1"): ("vector-jacobian-cross-block-transposed", ["C03"]), ("C04", "2"): ("drop-nonfinite-uses-extra-coords", []),
    ("C05", "1"): ("grid-1d-coordinates-drop-extras", []), ("C05", "2"): ("profile-unit-vector-zero-length", ["C07"]),
    ("C06", "1"): ("chain-predict-named-steps", ["C01"]), ("C06", "2"): ("knn-filter-drops-weights", []),
    ("C07", "1"): ("line-coordinates-min-two-nodes", []), ("C07", "2"): ("spacing-to-size-sign-zero", []),
    ("C08", "1"): ("block-index-arithmetic-no-lower-clamp", []), ("C08", "2"): ("check-region-strict-less", ["C13"]),
    ("C09", "1"): ("single-point-blocks-shortcut-order", []), ("C09", "2"): ("block-index-arithmetic-no-lower-clamp", ["C08"]),
    ("C10", "1"): ("v2w-min-with-initial-one", []), ("C10", "2"): ("v2w-on-list-of-components", []),
    ("C11", "1"): ("ideal-sum-rounded", []), ("C11", "2"): ("shuffle-split-train-not-complement", []),
    ("C12", "1"): ("dask-key-names-collide", []), ("C12", "2"): ("score-estimator-positional-weights", []),
    ("C13", "1"): ("inside-centre-halfwidth", []), ("C13", "2"): ("get-region-all-coordinates", []),
    ("C14", "1"): ("kdtree-cache-by-identity", []), ("C14", "2"): ("window-region-collapse-both-directions", []),
    ("C15", "1"): ("grid-dims-from-dataset-dims", ["C16"]), ("C15", "2"): ("knn-data-view-not-copy", ["C20"]),
    ("C16", "1"): ("grid-dims-from-dataset-dims", ["C15"]), ("C16", "2"): ("hull-from-outline-nodes", []),
    ("C17", "1"): ("west-bound-single-turn", []), ("C17", "2"): ("wrap-only-if-some-outside", []),
    ("C18", "1"): ("table-drops-later-extra-coords", []), ("C18", "2"): ("meshgrid-to-1d-linspace", []),
    ("C19", "1"): ("range-check-all-instead-of-any", []), ("C19", "2"): ("coordinates-in-data-dtype", []),
    ("C20", "1"): ("mixed-none-weights-dropped", []), ("C20", "2"): ("kfold-fallback-unseeded", ["C11"]),
}
NAMES4 = {
    ("C01", "1"): ("unscale-guard-isclose-absolute", []), ("C01", "2"): ("ridge-alpha-zero-normal-equations", []),
    ("C02", "1"): ("forces-at-deduplicated-data", []), ("C02", "2"): ("trend-degree-zero-unweighted-mean", []),
    ("C03", "1"): ("jacobian-coords-cast-to-dtype", []), ("C03", "2"): ("greens-small-distance-cutoff", []),
    ("C04", "1"): ("predict-empty-like-ravel-copy", []), ("C04", "2"): ("trend-fit-counts-rows", []),
    ("C05", "1"): ("grid-coordinates-branch-skips-projection", []), ("C05", "2"): ("profile-distance-from-projected-endpoints", []),
    ("C06", "1"): ("knn-k1-filter-shortcut", []), ("C06", "2"): ("chain-predict-nan-as-zero", []),
    ("C07", "1"): ("interval-count-difference-of-rounds", []), ("C07", "2"): ("pixel-centres-stale-stop", []),
    ("C08", "1"): ("searchsorted-single-centre-wrap", []), ("C08", "2"): ("spacing-reversed-before-grid", []),
    ("C09", "1"): ("centre-coordinates-extras-always-mean", []), ("C09", "2"): ("reduction-resolved-at-init", ["C20"]),
    ("C10", "1"): ("v2w-min-over-positive-not-tol", []), ("C10", "2"): ("weighted-variance-stale-weights", []),
    ("C11", "1"): ("shuffle-balance-counts-complement", []), ("C11", "2"): ("kfold-bincount-empty-blocks", []),
    ("C12", "1"): ("train-as-complement-of-test", []), ("C12", "2"): ("splinecv-argmin-for-loss-scorers", []),
    ("C13", "1"): ("project-region-diagonal-only", []), ("C13", "2"): ("get-region-check-coordinates", []),
    ("C14", "1"): ("windows-by-scaled-coordinates", []), ("C14", "2"): ("expanding-window-native-dtype", []),
    ("C15", "1"): ("knn-k-clamped-in-place", ["C20"]), ("C15", "2"): ("distance-mask-grid-double-projection", []),
    ("C16", "1"): ("hull-mask-from-blocked-points", []), ("C16", "2"): ("hull-mask-chunks-floor", []),
    ("C17", "1"): ("west-bound-wrapped-to-plus-180", []), ("C17", "2"): ("coordinates-checked-via-region", []),
    ("C18", "1"): ("meshgrid-check-either-axis", []), ("C18", "2"): ("table-column-stack-promotes", []),
    ("C19", "1"): ("transposed-header-accepted", []), ("C19", "2"): ("contextmanager-no-finally", []),
    ("C20", "1"): ("serial-cv-fits-callers-estimator", ["C12"]), ("C20", "2"): ("default-region-written-to-param", ["C09"]),
}
NAMES5 = {
    ("C01", "1"): ("trend-north-powers-by-east", []), ("C01", "2"): ("chain-predict-first-plus-current", []),
    ("C02", "1"): ("weights-multiplied-into-rows-squared", []), ("C02", "2"): ("uniform-weights-dropped-under-damping", []),
    ("C03", "1"): ("trend-powers-alias-one-buffer", []), ("C03", "2"): ("own-rescale-global-ptp", []),
    ("C04", "1"): ("kernel-buffer-in-coordinate-dtype", []), ("C04", "2"): ("cubic-absolute-tol", []),
    ("C05", "1"): ("spline-region-from-forces", []), ("C05", "2"): ("checkerboard-meshgrid-fast-path", []),
    ("C06", "1"): ("chain-keeps-stale-weights", []), ("C06", "2"): ("spline-filter-from-scaled-jacobian", []),
    ("C07", "1"): ("shape-to-spacing-pixel-not-reversed", []), ("C07", "2"): ("line-coordinates-lru-cache", []),
    ("C08", "1"): ("label-stride-rows", []), ("C08", "2"): ("centres-filtered-by-data-box", []),
    ("C09", "1"): ("zero-weight-points-dropped", []), ("C09", "2"): ("centres-update-by-index", []),
    ("C10", "1"): ("reciprocal-of-integer-sums", []), ("C10", "2"): ("mean-variance-columns-interleaved", []),
    ("C11", "1"): ("partition-diff-min-empty", []), ("C11", "2"): ("test-size-none-resolved-early", []),
    ("C12", "1"): ("splinecv-unravel-transposed", []), ("C12", "2"): ("scorer-kwargs-dropped", []),
    ("C13", "1"): ("inside-degenerate-region-false", []), ("C13", "2"): ("pad-region-collapse-inverted", []),
    ("C14", "1"): ("collapse-unrolled-wrong-middle", []), ("C14", "2"): ("window-region-tuple", []),
    ("C15", "1"): ("median-distance-all-coordinates", []), ("C15", "2"): ("knn-exact-at-coincident-query", []),
    ("C16", "1"): ("hull-mask-skipped-for-full-grids", []), ("C16", "2"): ("simplex-tol-by-magnitude", []),
    ("C17", "1"): ("longitude-360-rejected", []), ("C17", "2"): ("region-range-check-ordered-bounds", []),
    ("C18", "1"): ("table-names-sorted", []), ("C18", "2"): ("name-string-length-match", []),
    ("C19", "1"): ("header-split-single-blank", []), ("C19", "2"): ("range-check-one-sided", []),
    ("C20", "1"): ("check-coordinates-by-broadcast", []), ("C20", "2"): ("rolling-window-slices-before-check", ["C14"]),
}
PREFIX = ""
ENV1 = {"OMP_NUM_THREADS": "1", "OPENBLAS_NUM_THREADS": "1", "MKL_NUM_THREADS": "1"}


def sh(cmd, **kw):
    return subprocess.run(cmd, shell=True, capture_output=True, text=True, **kw)


def stage_tests(item, run_tests=True):
    prop, k = item
    src = f"{SRC}/{prop}/{k}"
    wt = f"/tmp/seedwt{PREFIX.strip('-')}_{prop}_{k}"
    sh(f"git -C /repo worktree remove --force {wt}")
    sh(f"git -C /repo worktree add -q --detach {wt} HEAD")
    out = {"property": prop, "k": k, "worktree": wt}
    env = dict(os.environ, PYTHONPATH=wt, **ENV1)
    d0 = subprocess.run(["/venv/bin/python", f"{src}/demo.py"], cwd=wt, env=env, capture_output=True, text=True, timeout=1800)
    out["demo_clean_rc"] = d0.returncode
    ap = sh(f"git -C {wt} apply {src}/patch.diff")
    out["apply_rc"] = ap.returncode
    d1 = subprocess.run(["/venv/bin/python", f"{src}/demo.py"], cwd=wt, env=env, capture_output=True, text=True, timeout=1800)
    out["demo_mutant_rc"] = d1.returncode
    out["demo_mutant_tail"] = (d1.stdout + d1.stderr)[-400:]
    if run_tests:
        xml = f"{wt}/junit.xml"
        subprocess.run(["/venv/bin/python", "-m", "pytest", "-q", "-p", "no:cacheprovider", "--timeout=900",
                        "--continue-on-collection-errors", f"--junitxml={xml}"], cwd=wt, env=env, capture_output=True, text=True, timeout=7200)
        base = json.load(open("/root/.vp/BASELINE.json"))
        passed = set()
        try:
            for tc in ET.parse(xml).getroot().iter("testcase"):
                if not any(ch.tag in ("failure", "error", "skipped") for ch in tc):
                    passed.add(tc.get("classname") + "::" + tc.get("name"))
            out["baseline_missing"] = [t for t in base["stable_pass"] if t not in passed]
            out["tests_passed"] = len(passed)
        except Exception as exc:  # noqa: BLE001
            out["baseline_missing"] = ["<no junit: " + repr(exc)[:100] + ">"]
        if os.path.exists(xml):
            os.remove(xml)
    return out


def stage_checks(out, extra):
    prop, wt = out["property"], out["worktree"]
    res = {}
    for c in [prop] + list(extra):
        cr = subprocess.run(["./check", c, "quick"], cwd=VERIF, env=dict(os.environ, VERIF_REPO=wt), capture_output=True, text=True, timeout=3000)
        viol = [ln for ln in cr.stdout.splitlines() if ln.startswith("VIOLATION")]
        summ = [ln for ln in cr.stdout.splitlines() if ln.startswith(c + " ")]
        info = {"caught": cr.returncode == 1 and bool(viol), "exit": cr.returncode, "lines": [ln[:240] for ln in (viol[:2] + summ[:1])]}
        if viol:
            path = viol[0].split("replay=")[1].split()[0]
            try:
                rp = json.load(open(os.path.join(VERIF, path)))
                info["what_the_replay_says"] = str(rp.get("oracle") or rp.get("broken"))[:300]
            except Exception:  # noqa: BLE001
                pass
        res[c] = info
    out["checks"] = res
    return out


def record(out):
    prop, k = out["property"], out["k"]
    name, _ = NAMES[(prop, k)]
    src = f"{SRC}/{prop}/{k}"
    ok = out["demo_clean_rc"] == 0 and out["demo_mutant_rc"] != 0 and out["apply_rc"] == 0 and not out.get("baseline_missing", ["?"])
    if not ok:
        return False
    dst = os.path.join(VERIF, "seeded", f"{PREFIX}{prop}-{name}")
    os.makedirs(dst, exist_ok=True)
    shutil.copy(f"{src}/patch.diff", f"{dst}/patch.diff")
    shutil.copy(f"{src}/demo.py", f"{dst}/demo.py")
    notes = open(f"{src}/notes.md").read() if os.path.exists(f"{src}/notes.md") else ""
    head = sh("git -C /repo log -1 --format=%h").stdout.strip()
    meta = {"property": prop,
            "origin": "fresh sub-agent given only the property text and its own scratch worktree of /repo (nothing from /verif)"
                      + ("; later wave: also told which mechanisms the earlier waves had used, to force different ones" if PREFIX else ""),
            "needs_to_manifest": notes[:2500],
            "confirmed": {"repo_head": head, "applies_cleanly": True, "demo_passes_without_change": True, "demo_fails_with_change": True,
                          "pinned_baseline_tests_still_pass": True, "tests_passed_with_change": out.get("tests_passed"),
                          "how": "harness/seeded_eval.py: scratch worktree of /repo under /tmp (removed afterwards); demo run with "
                                 "PYTHONPATH=<worktree> before and after `git apply patch.diff`; pinned pytest command (single-threaded "
                                 "BLAS) compared with BASELINE.json stable_pass; then `VERIF_REPO=<worktree> ./check <id> quick`"},
            "demo_output_with_change": out.get("demo_mutant_tail", "")[-300:],
            "checks_run": out["checks"]}
    json.dump(meta, open(f"{dst}/meta.json", "w"), indent=1)
    return True


def main():
    global SRC, NAMES, PREFIX
    args = sys.argv[1:]
    if "--wave2" in args:
        SRC, NAMES, PREFIX = "/tmp/mutout2", NAMES2, "w2-"
        args.remove("--wave2")
    if "--wave3" in args:
        SRC, NAMES, PREFIX = "/tmp/mutout3", NAMES3, "w3-"
        args.remove("--wave3")
    if "--wave4" in args:
        SRC, NAMES, PREFIX = "/tmp/mutout4", NAMES4, "w4-"
        args.remove("--wave4")
    if "--wave5" in args:
        SRC, NAMES, PREFIX = "/tmp/mutout5", NAMES5, "w5-"
        args.remove("--wave5")
    wn = [a for a in args if a.startswith("--wave") and a[6:].isdigit() and int(a[6:]) >= 6]
    if wn:      # waves 6+: names come from the agents' own name.txt files; extra checks: none
        k_ = wn[0][6:]
        SRC, PREFIX = f"/tmp/mutout{k_}", f"w{k_}-"
        args.remove(wn[0])
        import re
        NAMES = {}
        for prop in sorted(os.listdir(SRC)):
            for k in ("1", "2"):
                f = f"{SRC}/{prop}/{k}/name.txt"
                if os.path.exists(f) and os.path.exists(f"{SRC}/{prop}/{k}/patch.diff"):
                    nm = re.sub(r"[^a-z0-9-]+", "-", open(f).read().strip().splitlines()[0].lower()).strip("-")[:60] or f"change-{k}"
                    NAMES[(prop, k)] = (nm, [])
    jobs, only, run_tests = 4, None, True
    i = 0
    while i < len(args):
        if args[i] == "--src":
            SRC = args[i + 1]; i += 2
        elif args[i] == "--jobs":
            jobs = int(args[i + 1]); i += 2
        elif args[i] == "--only":
            only = set(args[i + 1].split(",")); i += 2
        elif args[i] == "--no-tests":
            run_tests = False; i += 1
        else:
            i += 1
    items = [it for it in NAMES if os.path.exists(f"{SRC}/{it[0]}/{it[1]}/patch.diff") and (only is None or f"{it[0]}-{it[1]}" in only)]
    with ThreadPoolExecutor(jobs) as ex:
        outs = list(ex.map(lambda it: stage_tests(it, run_tests), items))
    summary = []
    for out in outs:
        try:
            stage_checks(out, NAMES[(out["property"], out["k"])][1])
            rec = record(out) if run_tests else None
        finally:
            sh(f"git -C /repo worktree remove --force {out['worktree']}")
        line = {"id": f"{out['property']}-{out['k']}", "recorded": rec, "demo": [out["demo_clean_rc"], out["demo_mutant_rc"]],
                "baseline_missing": out.get("baseline_missing"), "caught": {c: v["caught"] for c, v in out["checks"].items()}}
        summary.append(line)
        print(json.dumps(line), flush=True)
    if run_tests and only is None:
        json.dump(summary, open(os.path.join(VERIF, "seeded", f"{PREFIX}SUMMARY.json"), "w"), indent=1)


def _restore_generated():
    """The checks above regenerated lean/VerdeModel/Gen/*.lean from scratch copies of the repository: put the pinned snapshots back."""
    here = os.path.dirname(os.path.abspath(__file__))
    gen, snap = os.path.join(here, "..", "lean", "VerdeModel", "Gen"), os.path.join(here, "..", "lean", "VerdeModel", "GenSnapshot")
    for f in os.listdir(snap):
        if f.endswith(".lean.txt"):
            with open(os.path.join(gen, f[:-4]), "w") as h:
                h.write(open(os.path.join(snap, f)).read())


if __name__ == "__main__":
    try:
        main()
    finally:
        _restore_generated()
