"""Shared machinery: protocol encoding, float<->exact rational, driver and Lean invocation,
evidence and violation reporting.  Runs under /venv/bin/python with verde imported from /repo."""
import fcntl
import json
import math
import os
import re
import subprocess
import sys
import time
from fractions import Fraction

VERIF = os.path.dirname(os.path.dirname(os.path.abspath(__file__)))
# The registered commands always exercise /repo.  VERIF_REPO is a development aid only: it points the harness at a scratch
# worktree (e.g. a seeded change under /tmp) without touching /repo; `check` then puts it first on PYTHONPATH.
REPO = os.path.abspath(os.environ.get("VERIF_REPO", "/repo"))
LEAN_DIR = os.path.join(VERIF, "lean")
DRIVER = os.path.join(LEAN_DIR, ".lake", "build", "bin", "verde_model")
WORK = os.path.join(VERIF, ".work")
ALLOWED_AXIOMS = {"propext", "Classical.choice", "Quot.sound"}
FORBIDDEN = re.compile(r"\bsorry\b|\badmit\b|^\s*axiom\s|native_decide|bv_decide|implemented_by|\bunsafe\s|maxHeartbeats\s+0")

GLOBAL_TRUSTED = [
    "Lean 4.33.0 kernel (theorems) and Lean compiler/runtime (execution of the model in the driver)",
    "axioms allowed: propext, Classical.choice, Quot.sound; no sorry/native_decide/bv_decide/own axioms (audited every run)",
    "correspondence harness (Python): generators, float->exact-rational conversion, tolerances, canonicalisation",
    "IEEE-754 rounding/overflow and numpy/scipy/pandas/xarray/sklearn primitives are modelled by contract, not verified",
]


class Infra(Exception):
    """Infrastructure failure: exit 2, never a violation."""


# ----------------------------------------------------------------------------- numbers
def fq(x):
    """Exact rational image of a Python/numpy number."""
    if isinstance(x, Fraction):
        return x
    if isinstance(x, (bool,)):
        raise TypeError("bool is not a number here")
    if isinstance(x, int):
        return Fraction(x)
    try:
        import numpy as np
        if isinstance(x, np.integer):
            return Fraction(int(x))
    except ImportError:
        pass
    f = float(x)
    if math.isnan(f) or math.isinf(f):
        raise ValueError("non-finite")
    return Fraction(*f.as_integer_ratio())


def frs(q):
    q = Fraction(q)
    return str(q.numerator) if q.denominator == 1 else f"{q.numerator}/{q.denominator}"


def enc(v):
    """Python value -> protocol text."""
    if v is None:
        return "none"
    if isinstance(v, bool):
        return "T" if v else "F"
    if isinstance(v, str):
        return v
    if isinstance(v, (list, tuple)):
        if len(v) == 0:
            return "[ ]"
        return "[ " + " ".join(enc(i) for i in v) + " ]"
    try:
        import numpy as np
        if isinstance(v, np.ndarray):
            return enc(v.tolist())
        if isinstance(v, np.bool_):
            return "T" if v else "F"
    except ImportError:
        pass
    return frs(fq(v))


def dec(line):
    """Protocol text -> nested lists of atom strings."""
    toks = line.split()
    stack = [[]]
    for t in toks:
        if t == "[":
            stack.append([])
        elif t == "]":
            top = stack.pop()
            stack[-1].append(top)
        else:
            stack[-1].append(t)
    if len(stack) != 1:
        raise ValueError("unbalanced: " + line[:200])
    out = stack[0]
    return out[0] if len(out) == 1 else out


def tofrac(v):
    """Decoded value -> nested Fractions (atoms that parse), else strings."""
    if isinstance(v, list):
        return [tofrac(i) for i in v]
    if isinstance(v, str):
        if re.fullmatch(r"-?\d+(/\d+)?", v):
            return Fraction(v)
        if v == "T":
            return True
        if v == "F":
            return False
        if v == "none":
            return None
    return v


def tofloat(v):
    """Decoded value -> nested floats (correctly rounded p/q), bools, None, strings."""
    if isinstance(v, list):
        return [tofloat(i) for i in v]
    if isinstance(v, str):
        if "/" in v:
            p, q = v.split("/")
            try:
                return int(p) / int(q)
            except ValueError:
                return v
        try:
            return float(int(v))
        except ValueError:
            pass
        if v == "T":
            return True
        if v == "F":
            return False
        if v == "none":
            return None
    return v


def is_err(v):
    return isinstance(v, list) and len(v) == 2 and v[0] == "err"


def close(a, b, tol=1e-12, scale=1.0):
    """|a-b| <= tol*max(1, scale); a, b floats or Fractions."""
    return abs(float(a) - float(b)) <= tol * max(1.0, float(scale))


def err_kind(exc):
    from sklearn.exceptions import NotFittedError
    if isinstance(exc, NotFittedError):
        return "NotFitted"
    if isinstance(exc, ZeroDivisionError):
        return "ZeroDivisionError"
    if isinstance(exc, ValueError):
        return "ValueError"
    if isinstance(exc, (IOError, OSError)):
        return "IOError"
    if isinstance(exc, TypeError):
        return "TypeError"
    if type(exc) is RuntimeError:          # raised by the harness's own in-line checks: keep the reason
        return "Other:RuntimeError:" + str(exc)[:100].replace(" ", "_")
    return "Other:" + type(exc).__name__


def call(fn, *a, **k):
    """Run implementation code; exceptions become ['err', kind]."""
    import warnings
    try:
        with warnings.catch_warnings():
            warnings.simplefilter("ignore")
            return fn(*a, **k)
    except Exception as exc:  # noqa: BLE001
        return ["err", err_kind(exc)]


def deep_state(obj, depth=0, ids=True):
    """Fingerprint of an object INCLUDING the estimators nested in it (Chain steps, Vector components): every attribute, arrays by bytes."""
    import numpy as np
    if isinstance(obj, np.ndarray):
        return ("arr", obj.shape, obj.dtype.str, obj.tobytes())
    if isinstance(obj, (list, tuple)):
        return [deep_state(x, depth + 1, ids) for x in obj]
    if isinstance(obj, dict):
        return sorted((repr(k), repr(deep_state(v, depth + 1, ids))) for k, v in obj.items())
    if hasattr(obj, "get_params") and hasattr(obj, "__dict__") and depth < 6:
        return (type(obj).__name__, id(obj) if ids else 0, sorted((k, repr(deep_state(v, depth + 1, ids))) for k, v in obj.__dict__.items()))
    if callable(obj) and hasattr(obj, "__name__"):
        return "fn:" + obj.__name__
    return repr(obj)


def params_state(est, exempt=()):
    """Fingerprint of the hyper-parameters (get_params(deep=True)); nested estimators by class name."""
    import numpy as np

    def fp(v):
        if hasattr(v, "get_params"):
            return type(v).__name__                      # its own parameters appear as <name>__<param> entries
        if isinstance(v, np.ndarray):
            return ("arr", v.shape, v.dtype.str, v.tobytes())
        if isinstance(v, (list, tuple)):
            return [fp(x) for x in v]
        if callable(v) and hasattr(v, "__name__"):
            return "fn:" + v.__name__
        return repr(v)
    return [(k, repr(fp(v))) for k, v in sorted(est.get_params(deep=True).items()) if k.split("__")[-1] not in exempt]


# ----------------------------------------------------------------------------- Lean
def _locked(cmd, cwd, timeout, pre=None):
    os.makedirs(WORK, exist_ok=True)
    with open(os.path.join(WORK, "lake.lock"), "w") as lk:
        fcntl.flock(lk, fcntl.LOCK_EX)
        try:
            if pre is not None:
                pre()
            return subprocess.run(cmd, cwd=cwd, capture_output=True, text=True, timeout=timeout)
        finally:
            fcntl.flock(lk, fcntl.LOCK_UN)


def lake_build(targets, timeout=3000, pre=None):
    """`lake build` under the project lock; `pre` (e.g. the translator) runs under the same lock just before."""
    try:
        r = _locked(["lake", "build"] + targets, LEAN_DIR, timeout, pre)
    except FileNotFoundError as e:
        raise Infra("lake not found") from e
    except subprocess.TimeoutExpired as e:
        raise Infra("lake build timed out") from e
    return r.returncode == 0, (r.stdout + r.stderr)


def theorem_names(prop):
    """Names of all theorems stated in Props/<prop>.lean (namespace Verde.<prop>)."""
    path = os.path.join(LEAN_DIR, "VerdeModel", "Props", prop + ".lean")
    src = strip_comments(open(path).read())
    return [f"Verde.{prop}.{m}" for m in re.findall(r"^theorem\s+([A-Za-z0-9_'.]+)", src, flags=re.M)]


def strip_comments(src):
    src = re.sub(r"/-.*?-/", "", src, flags=re.S)
    return re.sub(r"--.*", "", src)


def forbidden_tokens():
    hits = []
    for root, _, files in os.walk(LEAN_DIR):
        if ".lake" in root:
            continue
        for f in files:
            if f.endswith(".lean"):
                p = os.path.join(root, f)
                for i, line in enumerate(strip_comments(open(p).read()).splitlines(), 1):
                    if FORBIDDEN.search(line):
                        hits.append(f"{os.path.relpath(p, VERIF)}:{i}: {line.strip()[:120]}")
    return hits


def audit(prop, names, timeout=1800):
    """#print axioms for each theorem; returns {name: [axioms] | None(if missing)}."""
    os.makedirs(WORK, exist_ok=True)
    path = os.path.join(WORK, f"Audit_{prop}_{os.getpid()}.lean")
    with open(path, "w") as f:
        f.write(f"import VerdeModel.Props.{prop}\n")
        for n in names:
            f.write(f"#print axioms {n}\n")
    try:
        r = subprocess.run(["lake", "env", "lean", path], cwd=LEAN_DIR, capture_output=True, text=True, timeout=timeout)
    except subprocess.TimeoutExpired as e:
        raise Infra("audit timed out") from e
    finally:
        if os.path.exists(path):
            os.remove(path)
    out = r.stdout + r.stderr
    res = {}
    flat = re.sub(r"\s+", " ", out)
    for n in names:
        m = re.search(r"'" + re.escape(n) + r"' depends on axioms: \[([^\]]*)\]", flat)
        if m:
            res[n] = [a.strip() for a in m.group(1).split(",") if a.strip()]
        elif re.search(r"'" + re.escape(n) + r"' does not depend on any axioms", flat):
            res[n] = []
        else:
            res[n] = None
    return res, out


def run_model(lines, timeout=3000):
    if not os.path.exists(DRIVER):
        raise Infra("driver not built: " + DRIVER)
    for ln in lines:
        if "\n" in ln:
            raise Infra("newline in op line")
    data = "\n".join(lines) + "\n"
    try:
        r = subprocess.run([DRIVER], input=data, capture_output=True, text=True, timeout=timeout)
    except subprocess.TimeoutExpired as e:
        raise Infra("driver timed out") from e
    if r.returncode != 0:
        raise Infra("driver failed: " + r.stderr[:500])
    out = r.stdout.split("\n")
    if out and out[-1] == "":
        out.pop()
    if len(out) != len(lines):
        raise Infra(f"driver returned {len(out)} lines for {len(lines)} ops")
    return out


# ----------------------------------------------------------------------------- source hashes
def source_hashes(files):
    import hashlib
    res = {}
    for f in files:
        p = os.path.join(REPO, f)
        try:
            res[f] = hashlib.sha256(open(p, "rb").read()).hexdigest()[:16]
        except OSError:
            res[f] = "missing"
    return res


def assert_repo_verde():
    try:
        import verde
    except Exception as exc:  # noqa: BLE001
        raise Infra(f"cannot import verde: {exc!r}") from exc
    if not os.path.abspath(verde.__file__).startswith(REPO + "/"):
        raise Infra(f"verde not imported from {REPO}: " + verde.__file__)
    return verde


def enc_json(v, lim=600):
    """Implementation output -> short printable string for evidence/replays."""
    try:
        s = enc(v)
    except Exception:  # noqa: BLE001
        s = repr(v)
    return s if lim is None else s[:lim]


# ----------------------------------------------------------------------------- generic comparison
def flat(v):
    if isinstance(v, (list, tuple)):
        out = []
        for i in v:
            out += flat(i)
        return out
    return [v]


def shape_of(v):
    if isinstance(v, (list, tuple)):
        return [len(v)] + (shape_of(v[0]) if len(v) else [])
    return []


def py(v):
    """numpy containers/scalars -> plain Python nested lists/floats/bools/ints."""
    import numpy as np
    if isinstance(v, np.ndarray):
        return v.tolist()
    if isinstance(v, (list, tuple)):
        return [py(i) for i in v]
    if isinstance(v, np.bool_):
        return bool(v)
    if isinstance(v, np.integer):
        return int(v)
    if isinstance(v, np.floating):
        return float(v)
    return v


def err_compare(io, mo):
    """None if neither is an error, else 'ok'/'diff:...'."""
    if is_err(io) or is_err(mo):
        if is_err(io) and is_err(mo):
            return "ok" if io[1] == mo[1] else f"diff:error kinds impl={io[1]} model={mo[1]}"
        return f"diff:impl={'err ' + io[1] if is_err(io) else 'value'} model={'err ' + mo[1] if is_err(mo) else 'value'}"
    return None


def std_compare(io, mo, tol=1e-12, scale=None):
    """Structural compare of implementation output with decoded model output (numbers within tol*scale, rest exact)."""
    e = err_compare(io, mo)
    if e is not None:
        return e
    mv = tofloat(mo)

    def walk(a, b, path):
        if isinstance(a, (list, tuple)) or isinstance(b, (list, tuple)):
            if not (isinstance(a, (list, tuple)) and isinstance(b, (list, tuple))):
                return f"diff:structure at {path}"
            if len(a) != len(b):
                return f"diff:length {len(a)} vs {len(b)} at {path}"
            for k, (x, y) in enumerate(zip(a, b)):
                r = walk(x, y, path + [k])
                if r:
                    return r
            return None
        if isinstance(a, bool) or isinstance(b, bool) or a is None or b is None or isinstance(a, str) or isinstance(b, str):
            return None if a == b else f"diff:{a!r} vs {b!r} at {path}"
        import math
        if isinstance(a, float) and math.isnan(a):
            return f"diff:impl NaN vs {b!r} at {path}"
        return None if abs(float(a) - float(b)) <= tol * sc else f"diff:{float(a)!r} vs {float(b)!r} at {path}"

    nums = [abs(float(x)) for x in flat(io) if isinstance(x, (int, float)) and not isinstance(x, bool) and x == x]
    sc = scale if scale is not None else max([1.0] + nums)
    return walk(io, mv, []) or "ok"


# ----------------------------------------------------------------------------- array layouts
LAYOUT = ["c", "fortran", "strided", "c"]


def mkarr(values, shape, key=""):
    """Build the input array for the implementation: the logical (C-order) element sequence `values` in `shape`, stored in a
    memory layout chosen deterministically from `key` (C-contiguous, Fortran-ordered for >= 2-D, or a strided view) and made
    read-only.  The property never depends on the layout, so every check exercises all of them."""
    import zlib
    import numpy as np
    a = np.array(values, dtype=float).reshape(shape)
    kind = LAYOUT[zlib.crc32(str(key).encode()) % len(LAYOUT)]
    if kind == "fortran" and a.ndim >= 2:
        a = np.asfortranarray(a)
    elif kind == "strided":
        buf = np.full(a.shape[:-1] + (2 * a.shape[-1] + 1,), -12345.678) if a.ndim >= 1 and a.size else None
        if buf is not None:
            buf[..., 1::2] = a
            a = buf[..., 1::2]
    a.setflags(write=False)
    return a


_NUMBA_SRC = {}


def numba_source(relpath):
    """Top-level functions of a /repo module compiled from their own source text WITHOUT decorators, with
    `numba.prange = range`: numba is absent in this sandbox and verde's fallback decorator replaces the decorated
    bodies by a stub that raises, so this is the only way the numba-engine code paths can be executed here."""
    if relpath not in _NUMBA_SRC:
        import ast
        import types
        import numpy as np
        tree = ast.parse(open(os.path.join(REPO, relpath)).read())
        body = []
        for node in tree.body:
            if isinstance(node, ast.FunctionDef):
                node.decorator_list = []
                body.append(node)
        mod = ast.Module(body=body, type_ignores=[])
        ast.fix_missing_locations(mod)
        ns = {"np": np, "numba": types.SimpleNamespace(prange=range)}
        exec(compile(mod, os.path.join(REPO, relpath), "exec"), ns)
        if "greens_func_2d" in ns:
            ns["GREENS_FUNC_2D_JIT"] = ns["greens_func_2d"]
        _NUMBA_SRC[relpath] = ns
    return _NUMBA_SRC[relpath]
