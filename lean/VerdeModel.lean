-- Root of the `VerdeModel` library: executable model (Model/*), lemmas and property theorems (Props/*).
import VerdeModel.Model.Val
import VerdeModel.Model.Num
import VerdeModel.Model.Coords
