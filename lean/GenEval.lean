/-
  Failing-input search for the translated definitions: evaluates `Gen.*` (regenerated from /repo) and the model side by side.
  Run with `lake env lean --run GenEval.lean kernels|coords` only when a bridge theorem no longer checks.
  Output: one line per probe: <name> <inputs…> | <gen value> | <model value>
-/
import VerdeModel.Gen.Kernels
import VerdeModel.Gen.Coords
import VerdeModel.Model.Windows
import VerdeModel.Gen.Trend
import VerdeModel.Gen.Utils
import VerdeModel.Gen.IO
import VerdeModel.Gen.Base
open Verde

def fl (x : Float) : String := floatStr x

def distances : List Float := [0.0, 1e-300, 1e-12, 0.25, 0.5, 0.9999999999999999, 1.0, 1.0000000000000002, 2.718281828459045, 7.5, 1e4, 1e8]

def kernels : IO Unit := do
  for md in [0.0, 0.001, 1.0, 1e4] do
    for r in distances do
      for (e, n) in [(r, 0.0), (r * 0.6, r * 0.8), (-(r * 0.8), r * 0.6)] do
        IO.println s!"greensJit {fl e} {fl n} {fl md} | {fl (Gen.greensJit e n md)} | {fl (greens e n md)}"
        IO.println s!"greensNumpy {fl e} {fl n} {fl md} | {fl (Gen.greensNumpy e n md)} | {fl (greens e n md)}"
        for nu in [-1.0, 0.0, 0.5, 1.0] do
          let g := Gen.greens2d e n md nu
          let m := greens2d e n md nu
          IO.println s!"greens2d {fl e} {fl n} {fl md} {fl nu} | {fl g.1} {fl g.2.1} {fl g.2.2} | {fl m.1} {fl m.2.1} {fl m.2.2}"
  for (a, we, wn, e, n) in [(1000.0, 2500.0, 2500.0, 625.0, -625.0), (7.0, 3.5, 0.75, 1.25, 2.0), (2.0, 4.0, 8.0, 1.0, 1.0)] do
    IO.println s!"checker {fl a} {fl we} {fl wn} {fl e} {fl n} | {fl (Gen.checker a we wn e n)} | {fl (checker a we wn e n)}"

def pairsS (l : List (Nat × Nat)) : String := " ".intercalate (l.map fun c => s!"{c.1} {c.2}")

def trend : IO Unit := do
  for d in [(-2 : Int), -1, 0, 1, 2, 3, 4, 5, 6, 7, 9, 12] do
    let g := match Gen.powerCombinations d with | .ok l => pairsS l | .error _ => "-1"
    let m := if d < 0 then "-1" else pairsS (powerCombinations d.toNat)
    IO.println s!"powerComb {d} | {g} | {m}"

def ratS (q : Rat) : String := ratStr q

def coords : IO Unit := do
  for start in [(-2 : Rat), 0, 1/2] do
    for ext in (List.range 13).map (fun (k : Nat) => ((k : Int) : Rat) / 4) do
      for sp in (List.range 9).map (fun (k : Nat) => (((k : Int) + 1 : Int) : Rat) / 4) do
        for adj in ["spacing", "region", "nearest"] do
          let g := match Gen.spacingToSize start (start + ext) sp adj with
            | .ok (a, b) => s!"{a} {ratS b}" | .error _ => "err"
          let m := if adj == "nearest" then "err" else
            let r := spacingToSize start (start + ext) sp (adj == "region"); s!"{r.1} {ratS r.2}"
          IO.println s!"spacingToSize {ratS start} {ratS (start + ext)} {ratS sp} {adj} | {g} | {m}"
  for (pn, pe) in [((1 : Rat), (2 : Rat)), (-1/2, 3/4)] do
    let g := Gen.padRegion 0 4 (-2) 1 pn pe
    let m := padRegion ⟨0, 4, -2, 1⟩ pn pe
    IO.println s!"padRegion 0 4 -2 1 {ratS pn} {ratS pe} | {ratS g.1} {ratS g.2.1} {ratS g.2.2.1} {ratS g.2.2.2} | {ratS m.w} {ratS m.e} {ratS m.s} {ratS m.n}"
  for w in (List.range 37).map (fun (k : Nat) => (((k : Int) * 15 - 180 : Int) : Rat)) do
    for e in (List.range 37).map (fun (k : Nat) => (((k : Int) * 15 - 180 : Int) : Rat)) do
      let g := Gen.lonRegion w e 0 1
      let m := lonRegion w e
      IO.println s!"lonRegion {ratS w} {ratS e} | {g.1} {ratS g.2.1} {ratS g.2.2} | {m.1} {ratS m.2.1} {ratS m.2.2}"

def okS (x : Except Err Unit) : String := match x with | .ok _ => "ok" | .error _ => "err"

def coords2 : IO Unit := do
  let lattice : List Rat := (List.range 37).map (fun (k : Nat) => (((k : Int) * 15 - 180 : Int) : Rat))
  for i in [true, false] do
    for l in lattice ++ [1/2, -359/2, 719/2] do
      IO.println s!"lonPoint {i} {ratS l} | {ratS (Gen.lonPoint i l)} | {ratS (lonPoint i l)}"
  for (w, e, s, n) in [((0 : Rat), (1 : Rat), (0 : Rat), (1 : Rat)), (1, 0, 0, 1), (0, 1, 1, 0), (2, 2, 3, 3), (-5, -4, -3, -2), (1, 0, 1, 0), (0, 0, 1, 1/2)] do
    let m := okS ((checkRegion [w, e, s, n]).map fun _ => ())
    IO.println s!"checkRegion4 {ratS w} {ratS e} {ratS s} {ratS n} | {okS (Gen.checkRegion4 w e s n)} | {m}"
  for w in [(-181 : Rat), -180, 0, 360, 361] do
    for e in [(-181 : Rat), -180, 0, 180, 360, 361] do
      for (s, n) in [((-90 : Rat), (90 : Rat)), (-91, 0), (0, 91), (10, 20)] do
        IO.println s!"checkGeoRegion {ratS w} {ratS e} {ratS s} {ratS n} | {okS (Gen.checkGeoRegion w e s n)} | {okS (checkGeoRegion w e s n)}"
  for lon in [(-181 : Rat), -180, 0, 360, 361] do
    for lat in [(-91 : Rat), -90, 0, 90, 91] do
      let m := if (lon > 360 ∨ lon < -180) ∨ (lat > 90 ∨ lat < -90) then "err" else "ok"
      IO.println s!"geoCoordBad {ratS lon} {ratS lat} | {okS (Gen.geoCoordBad lon lat)} | {m}"
  for (x, y) in [((0 : Rat), (0 : Rat)), (1, 1), (2, 2), (1/2, 3), (-1, 1), (2, -1/2), (3, 1), (1, 2), (0, 2), (2, 0), (5/2, 1)] do
    let r : Region := ⟨0, 2, 0, 2⟩
    IO.println s!"insidePt 0 2 0 2 {ratS x} {ratS y} | {Gen.insidePt r.w r.e r.s r.n x y} | {insidePt r x y}"
  for (es, ns) in [([(1 : Rat), 3, -2, 5/2], [(0 : Rat), 7, 7, -1]), ([4], [4]), ([2, 2, 2], [1, 0, 1]), ([-1, -5, -3], [9, 8, 10])] do
    let g := Gen.getRegion es ns
    let o := fun (x : Option Rat) => match x with | some v => ratS v | none => "err"
    let m := match getRegion es ns with | some r => s!"{ratS r.w} {ratS r.e} {ratS r.s} {ratS r.n}" | none => "err"
    IO.println s!"getRegion {",".intercalate (es.map ratS)} {",".intercalate (ns.map ratS)} | {o g.1} {o g.2.1} {o g.2.2.1} {o g.2.2.2} | {m}"
  let lc := fun (x : Except Err (List Rat)) => match x with | .ok l => (if l.isEmpty then "-" else ",".intercalate (l.map ratS)) | .error .valueError => "err" | .error _ => "err2"
  for (a, b) in [((0 : Rat), (10 : Rat)), (-2, 1/2), (3, 3), (1/10, 7/10)] do
    for px in [false, true] do
      for adj in ["spacing", "region", "nearest"] do
        for sp in [(1 : Rat), 5/2, 20, 1/3] do
          let m := lineCoordinates a b none (some sp) (if adj = "spacing" then .spacing else if adj = "region" then .region else .bad) px
          IO.println s!"lineCoordinates {ratS a} {ratS b} none {ratS sp} {adj} {px} | {lc (Gen.lineCoordinates a b none (some sp) adj px)} | {lc m}"
      for n in [(0 : Nat), 1, 2, 5, 38] do
        IO.println s!"lineCoordinates {ratS a} {ratS b} {n} none spacing {px} | {lc (Gen.lineCoordinates a b (some (n : Int)) none "spacing" px)} | {lc (lineCoordinates a b (some n) none .spacing px)}"
    IO.println s!"lineCoordinates {ratS a} {ratS b} none none spacing false | {lc (Gen.lineCoordinates a b none none "spacing" false)} | {lc (lineCoordinates a b none none .spacing false)}"
    IO.println s!"lineCoordinates {ratS a} {ratS b} 3 1 spacing false | {lc (Gen.lineCoordinates a b (some 3) (some 1) "spacing" false)} | {lc (lineCoordinates a b (some 3) (some 1) .spacing false)}"
  let gl := fun (x : Except Err (List Rat × List Rat)) => match x with
    | .ok (a, b) => s!"{lc (.ok a)} {lc (.ok b)}" | .error .valueError => "err" | .error _ => "err2"
  let spS := fun (o : Option (List Rat)) => match o with | none => "none" | some l => (if l.isEmpty then "-" else ",".intercalate (l.map ratS))
  let shS := fun (o : Option (Nat × Nat)) => match o with | none => "none" | some (a, b) => s!"{a}x{b}"
  for (w, e, s, n) in [((0 : Rat), (10 : Rat), (-5 : Rat), (1 : Rat)), (-1/2, 21/2, 2, 2), (1, 0, 0, 1), (0, 1, 1, 0), (1/10, 7/10, -3, 4)] do
    for px in [false, true] do
      for adj in ["spacing", "region", "nearest"] do
        for (sh, sp) in [((none : Option (Nat × Nat)), (some [1] : Option (List Rat))), (none, some [5/2, 1/3]), (none, some [1/3, 5/2]), (none, some [20, 1]),
            (none, some []), (none, some [1, 2, 3]), (none, none), (some (3, 5), none), (some (5, 3), none), (some (2, 2), some [1]), (some (1, 4), none),
            (some (0, 3), none), (some (38, 2), none)] do
          let m := gridLines [w, e, s, n] ⟨sh, sp, (if adj = "spacing" then .spacing else if adj = "region" then .region else .bad), px⟩
          let g := Gen.gridLines w e s n (sh.map fun p => ((p.1 : Int), (p.2 : Int))) sp adj px
          IO.println s!"gridLines {ratS w} {ratS e} {ratS s} {ratS n} {shS sh} {spS sp} {adj} {px} | {gl g} | {gl m}"
  let qS := fun (o : Option (Rat × Rat × Rat × Rat)) => match o with | none => "none" | some (a, b, c, d) => s!"{ratS a},{ratS b},{ratS c},{ratS d}"
  let lS := fun (l : List Rat) => if l.isEmpty then "-" else ",".intercalate (l.map ratS)
  let adjM := fun (adj : String) => if adj = "spacing" then Adjust.spacing else if adj = "region" then Adjust.region else Adjust.bad
  for (es, ns) in [([(0 : Rat), 10, 3, 7/2, 9], [(-5 : Rat), 1, 0, -2, 1/2]), ([1, 1, 1], [2, 3, 4]), ([], []), ([1/10, 7/10, 2/5], [1/10, 23/10, 1])] do
    for reg in [(none : Option (Rat × Rat × Rat × Rat)), some (0, 10, -5, 1), some (-1, 12, -6, 6), some (1, 0, 0, 1)] do
      for adj in ["spacing", "region"] do
        for (sh, sp) in [((none : Option (Nat × Nat)), (some [2] : Option (List Rat))), (none, some [5/2, 3]), (some (2, 3), none), (none, none), (some (1, 1), some [1])] do
          let bm := (blockRegion es ns ⟨reg.map fun q => [q.1, q.2.1, q.2.2.1, q.2.2.2], sh, sp, adjM adj⟩).bind fun rg => gridLines rg ⟨sh, sp, adjM adj, true⟩
          let bg := Gen.blockLines es ns sp adj reg (sh.map fun p => ((p.1 : Int), (p.2 : Int)))
          IO.println s!"blockLines {lS es} {lS ns} {qS reg} {shS sh} {spS sp} {adj} | {gl bg} | {gl bm}"
          for size in [(1 : Rat), 3, 6, 10, 11] do
            let rm := (rollingWindow es ns size ⟨reg.map fun q => [q.1, q.2.1, q.2.2.1, q.2.2.2], sh, sp, adjM adj⟩).map fun o => (o.east, o.north)
            let rg := Gen.rollingCentres es ns size sp (sh.map fun p => ((p.1 : Int), (p.2 : Int))) reg adj
            IO.println s!"rollingCentres {lS es} {lS ns} {ratS size} {qS reg} {shS sh} {spS sp} {adj} | {gl rg} | {gl rm}"
  for (nn, ne) in [((2 : Nat), (2 : Nat)), (3, 5), (7, 2), (14, 11), (2, 9)] do
    for px in [false, true] do
      for r in [(⟨0, 10, -5, 1⟩ : Region), ⟨-1/2, 21/2, -11/2, 3/2⟩, ⟨3, 3, 1, 4⟩] do
        let g := Gen.shapeToSpacing r.w r.e r.s r.n (nn : Int) (ne : Int) px
        let m := match shapeToSpacing r (nn, ne) px with | some (a, b) => s!"{ratS a} {ratS b}" | none => "err"
        IO.println s!"shapeToSpacing {ratS r.w} {ratS r.e} {ratS r.s} {ratS r.n} {nn} {ne} {px} | {ratS g.1} {ratS g.2} | {m}"

def natsS (l : List Nat) : String := if l.isEmpty then "-" else ",".intercalate (l.map toString)

def utils : IO Unit := do
  let pools : List (List Nat) := [[10, 1, 1], [1, 1, 10], [5, 6, 4, 6, 8, 1, 2, 6, 3, 3], [0, 1, 2, 3, 4, 5, 6, 7, 8, 9], [3, 3, 3, 3],
    [1], [2, 2], [1, 2, 3], [7, 1, 1, 1, 7], [4, 0, 0, 4], [1, 1, 1, 1, 1, 1, 1], [9, 1, 9, 1, 9], [2, 5, 1, 1, 5, 2], [6, 6], [1, 9]]
  for sizes in pools do
    for parts in [1, 2, 3, 4, 5, 6, 8] do
      let g := match Gen.partitionBySum sizes parts with | .ok l => natsS l | .error _ => "err"
      let m := match partitionBySum sizes parts with | .ok l => natsS l | .error _ => "err"
      IO.println s!"partitionBySum {natsS sizes} {parts} | {g} | {m}"

def optS (l : List (Option Rat)) : String := ",".intercalate (l.map fun o => match o with | some v => ratS v | none => "nan")

def utils2 : IO Unit := do
  let pools : List (List (Option Rat)) := [[some 0, some 2, none, some 4], [some 1, some 2, some (1/10000000), some 4], [none], [some 5],
    [some 0, some 0], [some (3/10000000), some (1/2), some 2], [some 1, some 1, some 1], [some 8, some 2, some 4, some 2]]
  for v in pools do
    for tol in [v2wTol, 1/1000000, 1/4, 3] do
      let g := Gen.varianceToWeightsComp v tol
      let m := varianceToWeights v tol
      IO.println s!"v2w {optS v} {ratS tol} | {",".intercalate (g.map ratS)} | {",".intercalate (m.map ratS)}"

def tokS : Tok → String
  | .int n => s!"i:{n}" | .num q => s!"n:{ratS q}" | .bad => "b"
def toksS (l : List Tok) : String := if l.isEmpty then "-" else ",".intercalate (l.map tokS)

def ioProbes : IO Unit := do
  let hS := fun (x : Except Err (String × List Int × (Rat × Rat × Rat × Rat) × List Rat)) => match x with
    | .ok (g, sh, (w, e, s, n), r) =>
      let shs := if sh.isEmpty then "-" else ",".intercalate (sh.map toString)
      let rs := if r.isEmpty then "-" else ",".intercalate (r.map ratS)
      s!"{if g.isEmpty then "-" else g} {shs} {ratS w},{ratS e},{ratS s},{ratS n} {rs}"
    | .error _ => "err"
  let shapes : List (List Tok) := [[.int 2, .int 3], [.int 3], [.int 2, .num (5/2)], [.bad, .int 1], [], [.int 1, .int 2, .int 3]]
  let pairs : List (List Tok) := [[.int 0, .int 4], [.num (1/2), .num (-3/2)], [.int 1], [.int 1, .int 2, .int 3], [.bad, .int 2], []]
  for sh in shapes do
    for ns in pairs do
      for we in [pairs.getD 1 [], pairs.getD 0 [], pairs.getD 2 []] do
        for rg in [pairs.getD 0 [], pairs.getD 2 [], pairs.getD 3 [], pairs.getD 4 []] do
          let f : SurferFile := ⟨"DSAA", sh, ns, we, rg, [], false, surferBlank⟩
          let g := Gen.readSurferHeader [⟨"DSAA", []⟩, ⟨"", sh⟩, ⟨"", ns⟩, ⟨"", we⟩, ⟨"", rg⟩, ⟨"", [.int 1, .int 2, .int 3]⟩]
          let m := (parseHeader f).map fun h => (f.gridId, h.shape, (h.west, h.east, h.south, h.north), h.range)
          IO.println s!"readHeader DSAA {toksS sh} {toksS ns} {toksS we} {toksS rg} | {hS g} | {hS m}"
  let uS := fun (x : Except Err Unit) => match x with | .ok _ => "ok" | .error .ioError => "err" | .error _ => "err2"
  let bodies : List (List (List Rat)) := [[[1, 2, 3], [4, 5, 6]], [[1, 2, 3]], [[7]], [[0, 1], [2, 3], [4, 5]]]
  for b in bodies do
    for shp in [[(2 : Int), 3], [3, 2], [3], [1], [1, 1], [3, 2, 1], []] do
      for rg in [[(1 : Rat), 6], [1, 3], [7, 7], [7], [0, 5], [1, 6 + 1/100000000], [1, 7], [], [1, 2, 3]] do
        let vals := b.flatten
        let g := Gen.checkSurferIntegrity (fieldShape b) vals shp rg
        let m : Except Err Unit := do guardE (decide (fieldShape b = shp)) .ioError; rangeCheck rg vals
        let bS := ";".intercalate (b.map fun r => ",".intercalate (r.map ratS))
        let sS := if shp.isEmpty then "-" else ",".intercalate (shp.map toString)
        let rS := if rg.isEmpty then "-" else ",".intercalate (rg.map ratS)
        IO.println s!"checkIntegrity {bS} {sS} {rS} | {uS g} | {uS m}"

def shS1 (s : Shape) : String := if s.isEmpty then "s" else "x".intercalate (s.map toString)
def shLS (l : List Shape) : String := if l.isEmpty then "-" else ";".intercalate (l.map shS1)
def wLS (l : List (Option Shape)) : String :=
  if l.isEmpty then "-" else ";".intercalate (l.map fun o => match o with | some s => shS1 s | none => "N")

def baseProbes : IO Unit := do
  let uS := fun (x : Except Err Unit) => match x with | .ok _ => "ok" | .error .valueError => "err" | .error _ => "err2"
  let coordsL : List (List Shape) := [[[4], [4]], [[2, 2], [2, 2]], [[4], [3]], [[4]], [], [[2, 3], [2, 3], [2, 3]], [[2, 3], [3, 2]]]
  let dataL : List (List Shape) := [[[4]], [[2, 2]], [[4], [4]], [[2, 3]], [[3, 2]], [], [[4], [2, 2]], [[6]]]
  let wL : List (List (Option Shape)) := [[], [none], [none, none], [some [4]], [some [2, 2]], [some [4], some [4]], [some [4], none], [none, some [4]],
    [some [6]], [some [2, 3]], [some [3]], [some [4], some [3]], [some [4], some [4], some [4]], [some [2, 2], some [4]]]
  for cs in coordsL do
    for d in dataL do
      for w in wL do
        let g := Gen.checkFitInput cs d w
        let m : String :=
          if w.all (·.isSome) then uS (checkFitInput cs d (some (w.filterMap id)))
          else if w.all (·.isNone) then uS (checkFitInput cs d none)
          else "errany"
        IO.println s!"checkFitInput {shLS cs} {shLS d} {wLS w} | {uS g} | {m}"

def main (args : List String) : IO Unit :=
  match args with
  | ["kernels"] => do kernels; trend
  | ["coords"] => do coords; coords2
  | ["utils"] => do utils; utils2
  | ["io"] => ioProbes
  | ["base"] => baseProbes
  | ["ls"] => pure ()      -- (a specification, not a function: the C02 correspondence and oracle search the implementation)
  | ["blocks"] => pure ()      -- (pandas contract: no probe lattice; the C09 correspondence and oracle search the implementation)
  | ["grid"] => pure ()      -- (abstract container: no probe lattice; the C18 correspondence and oracle search the implementation)
  | ["neighbors"] => pure ()      -- (abstract tree: no probe lattice; the C15 correspondence and oracle search the implementation)
  | ["score"] => pure ()      -- (abstract estimator: no probe lattice; the C12 correspondence and oracle search the implementation)
  | ["makegrid"] => pure ()      -- (abstract container: the C18 correspondence and oracle search the implementation)
  | ["fit"] => pure ()      -- (specifications: the C01 correspondence and oracle search the implementation)
  | ["vector"] => pure ()      -- (abstract components: no probe lattice; the C06 correspondence and oracle search the implementation)
  | ["distmask"] => pure ()      -- (abstract tree: no probe lattice; the C15 correspondence and oracle search the implementation)
  | ["modelsel"] => pure ()      -- (abstract estimator / scores: no probe lattice; the C12 correspondence and oracle search the implementation)
  | ["cvsplit"] => do utils; utils2      -- (partition_by_sum probes; the loops over abstract candidates have no probe lattice)
  | ["mask"] => pure ()      -- (Delaunay contract: no probe lattice; the C16 correspondence and oracle search the implementation)
  | ["gridder"] => pure ()      -- (abstract predict / projection: no probe lattice; the C05 correspondence and oracle search the implementation)
  | ["chain"] => pure ()      -- (abstract steps: no probe lattice; the C06 correspondence and oracle search the implementation)
  | _ => IO.println "usage: GenEval kernels|coords"
