/-
  Model of the blocked cross-validators (model_selection.py), partition_by_sum (utils.py) and the
  train/test complement of scikit-learn's BaseCrossValidator.split (base_classes.py).
-/
import VerdeModel.Model.Blocks
namespace Verde

/-- Running sums `[a₀, a₀+a₁, …]`. -/
def cumsum : List Nat → List Nat
  | [] => []
  | x :: xs => x :: (cumsum xs).map (· + x)

/-- `numpy.searchsorted(sorted, v, side="right")` = number of elements `≤ v`. -/
def countLe (sorted : List Nat) (v : Nat) : Nat := (sorted.filter (· ≤ v)).length

/-! numpy primitives used by the translated `partition_by_sum` (Gen/Utils.lean) -/
/-- `numpy.arange(a, b)`. -/
def npArange (a b : Nat) : List Nat := (List.range (b - a)).map (· + a)
/-- `numpy.searchsorted(sorted, v, side="right")`. -/
def searchsortedRight (sorted : List Nat) (v : Nat) : Nat := countLe sorted v
/-- Distinct values (first occurrences dropped); `numpy.unique(l)` is its sorted version, only its size is used. -/
def distinct : List Nat → List Nat
  | [] => []
  | x :: xs => if xs.contains x then distinct xs else x :: distinct xs
def npUniqueSize (l : List Nat) : Nat := (distinct l).length

/-- `partition_by_sum` (with the fix that a split point at 0 is "no partition"). -/
def partitionBySum (sizes : List Nat) (parts : Nat) : Except Err (List Nat) :=
  if parts > sizes.length then .error .valueError else
  let cs := cumsum sizes
  let total := cs.getLastD 0
  let ideal := total / parts
  let idx := (List.range (parts - 1)).map fun k => countLe cs ((k + 1) * ideal)
  if !idx.Nodup || idx.head? == some 0 then .error .valueError else .ok idx

/-- Consecutive half-open cutIntervals `[a, p₁), [p₁, p₂), …, [pₘ, n)`. -/
def cutIntervals (a : Nat) (points : List Nat) (n : Nat) : List (Nat × Nat) :=
  match points with
  | [] => [(a, n)]
  | p :: ps => (a, p) :: cutIntervals p ps n

/-- `numpy.split(arange(n), points)`: consecutive index ranges. -/
def splitRanges (n : Nat) (points : List Nat) : List (List Nat) :=
  (cutIntervals 0 points n).map fun (a, b) => (List.range n).filter fun i => a ≤ i && i < b

/-- scikit-learn `KFold(n_splits=k)` test folds on `n` items without shuffling: consecutive folds, the first `n % k`
    of size `n / k + 1`, the others of size `n / k`. -/
def kfoldSizes (n k : Nat) : List Nat := (List.range k).map fun f => if f < n % k then n / k + 1 else n / k
def kfoldRanges (n k : Nat) : List (List Nat) := splitRanges n (cumsum (kfoldSizes n k)).dropLast

/-- Samples whose label is one of the given block ids, ascending (`np.where(np.isin(labels, ids))[0]`). -/
def pointsOfBlocks (labels : List Nat) (ids : List Nat) : List Nat :=
  (List.range labels.length).filter fun i => ids.contains (labels.getD i 0)

/-- train = complement of test (scikit-learn `BaseCrossValidator.split`). -/
def complement (n : Nat) (test : List Nat) : List Nat := (List.range n).filter fun i => !test.contains i

structure KFoldSpec where
  nSplits : Nat
  balance : Bool
  order : Option (List Nat)      -- block ids after `RandomState.shuffle` (input), `none` = no shuffle

/-- `BlockKFold._iter_test_indices` given the block labels; returns (usedFallback, test folds). -/
def blockKFoldTests (labels : List Nat) (s : KFoldSpec) : Except Err (Bool × List (List Nat)) := do
  if s.nSplits < 2 then Except.error Err.valueError
  let ids0 := groupKeys (labelBound labels) labels
  if s.nSplits > ids0.length then Except.error Err.valueError
  let ids := s.order.getD ids0
  let (fallback, folds) :=
    if s.balance then
      let sizes := ids.map fun b => (labels.filter (· == b)).length
      match partitionBySum sizes s.nSplits with
      | .ok pts => (false, splitRanges ids.length pts)
      | .error _ => (true, kfoldRanges ids.length s.nSplits)
    else (false, kfoldRanges ids.length s.nSplits)
  pure (fallback, folds.map fun f => pointsOfBlocks labels (f.map fun j => ids.getD j 0))

/-- `BlockShuffleSplit._iter_test_indices`: candidates are (train block positions, test block positions) drawn by
    scikit-learn's ShuffleSplit (inputs); each group of `balancing` candidates yields its first best-balanced one. -/
def blockShuffleTests (labels : List Nat) (nSplits balancing : Nat) (cands : List (List Nat × List Nat)) :
    Except Err (List (List Nat)) := do
  if balancing < 1 then Except.error Err.valueError
  let ids := groupKeys (labelBound labels) labels
  let metric : List Nat × List Nat → Rat := fun (tr, te) =>
    let trp := (pointsOfBlocks labels (tr.map fun j => ids.getD j 0)).length
    let tep := (pointsOfBlocks labels (te.map fun j => ids.getD j 0)).length
    ratAbs ((trp : Rat) / (tep : Rat) - (tr.length : Rat) / (te.length : Rat))
  pure ((List.range nSplits).map fun g =>
    let group := (cands.drop (g * balancing)).take balancing
    let best := argminIdx (group.map metric)
    pointsOfBlocks labels (((group.getD best ([], [])).2).map fun j => ids.getD j 0))

end Verde
