/-
  Model of verde/coordinates.py: regions, regular coordinates, profiles, inside,
  longitude continuity.  Exact rationals; what the code rejects, the model rejects.
-/
import VerdeModel.Model.Num
namespace Verde

structure Region where
  w : Rat
  e : Rat
  s : Rat
  n : Rat
  deriving Repr, BEq, DecidableEq

instance : ToVal Region := ⟨fun r => toVal [r.w, r.e, r.s, r.n]⟩

/-- `check_region` on a list of bounds (length checked as the code does). -/
def checkRegion (r : List Rat) : Except Err Region :=
  match r with
  | [w, e, s, n] =>
    if w > e then .error .valueError
    else if s > n then .error .valueError
    else .ok ⟨w, e, s, n⟩
  | _ => .error .valueError

/-- `get_region`: tight bounding box of the first two coordinate arrays. -/
def getRegion (east north : List Rat) : Option Region := do
  let w ← listMin east; let e ← listMax east
  let s ← listMin north; let n ← listMax north
  pure ⟨w, e, s, n⟩

/-- The four bounds `get_region` computes with `numpy.min/max` (`ValueError` on an empty array). -/
def quadOfOpts : Option Rat × Option Rat × Option Rat × Option Rat → Except Err (Rat × Rat × Rat × Rat)
  | (some a, some b, some c, some d) => .ok (a, b, c, d)
  | _ => .error .valueError

/-- `pad_region` with `pad = (north_pad, east_pad)`. -/
def padRegion (r : Region) (padN padE : Rat) : Region :=
  ⟨r.w - padE, r.e + padE, r.s - padN, r.n + padN⟩

/-- `inside`: closed box predicate for one point. -/
def insidePt (r : Region) (e n : Rat) : Bool :=
  decide (r.w ≤ e) && decide (e ≤ r.e) && decide (r.s ≤ n) && decide (n ≤ r.n)

/-- `inside` for coordinates that may be NaN (`none`): every comparison with NaN is false, so such a point is outside. -/
def insidePtOpt (r : Region) (e n : Option Rat) : Bool :=
  match e, n with
  | some e, some n => insidePt r e n
  | _, _ => false

/-- `spacing_to_size` for `spacing > 0`, returning `(size, stop)`. -/
def spacingToSize (start stop spacing : Rat) (adjustRegion : Bool) : Int × Rat :=
  let size0 : Int := roundHalfEven ((stop - start) / spacing) + 1
  let size : Int := if size0 = 1 then size0 + 1 else size0
  let stop' := if adjustRegion then start + ((size : Rat) - 1) * spacing else stop
  (size, stop')

/-! Python/numpy primitives used by the statement-by-statement translations (Gen/Coords.lean) -/
/-- Using `None` as a number is a `TypeError`. -/
def optGet {α : Type} : Option α → Except Err α
  | some a => .ok a
  | none => .error .other
/-- `values[i]` (`IndexError` when out of range). -/
def idxE (l : List Rat) (i : Nat) : Except Err Rat :=
  match l[i]? with
  | some v => .ok v
  | none => .error .other
/-- `values[i]` on a sequence whose entries may be `None`. -/
def idxO (l : List (Option Rat)) (i : Nat) : Except Err (Option Rat) :=
  match l[i]? with
  | some v => .ok v
  | none => .error .other
/-- `numpy.linspace(a, b, n)` (`ValueError` for a negative count). -/
def linspaceE (a b : Rat) (n : Int) : Except Err (List Rat) :=
  if n < 0 then .error .valueError else .ok (linspace a b n.toNat)

inductive Adjust where | spacing | region | bad
  deriving Repr, DecidableEq

/-- Pixel registration: drop the last node and shift by half the first step
    (`values[:-1] + (values[1] - values[0]) / 2`; fewer than two nodes is an `IndexError`). -/
def pixelShift (vals : List Rat) : Except Err (List Rat) :=
  match vals[0]?, vals[1]? with
  | some v0, some v1 => .ok (vals.dropLast.map fun v => v + (v1 - v0) / 2)
  | _, _ => .error .other

/-- `line_coordinates`.  `size` and `spacing` are optional exactly as in the code. -/
def lineCoordinates (start stop : Rat) (size : Option Nat) (spacing : Option Rat)
    (adjust : Adjust) (pixel : Bool) : Except Err (List Rat) :=
  match size, spacing with
  | some _, some _ => .error .valueError
  | none, none => .error .valueError
  | none, some sp =>
    match adjust with
    | .bad => .error .valueError
    | adj =>
      let (sz, stop') := spacingToSize start stop sp (adj == .region)
      if sz < 0 then .error .valueError else
      let vals := linspace start stop' sz.toNat
      if pixel then pixelShift vals else .ok vals
  | some n, none =>
    if pixel then pixelShift (linspace start stop (n + 1))
    else .ok (linspace start stop n)

/-- `numpy.meshgrid(east, north)`: rows indexed by north, columns by east. -/
def meshgrid (east north : List Rat) : List (List Rat) × List (List Rat) :=
  (north.map fun _ => east, north.map fun y => east.map fun _ => y)

structure GridSpec where
  shape : Option (Nat × Nat)        -- (n_north, n_east)
  spacing : Option (List Rat)       -- as given: 1 or 2 values, (north, east)
  adjust : Adjust
  pixel : Bool

/-- The two 1-D coordinate vectors of `grid_coordinates` (`meshgrid=False` form). -/
def gridLines (region : List Rat) (g : GridSpec) : Except Err (List Rat × List Rat) := do
  let r ← checkRegion region
  match g.shape, g.spacing with
  | some _, some _ => .error .valueError
  | none, none => .error .valueError
  | some (nn, ne), none =>
    let east ← lineCoordinates r.w r.e (some ne) none g.adjust g.pixel
    let north ← lineCoordinates r.s r.n (some nn) none g.adjust g.pixel
    pure (east, north)
  | none, some sp =>
    let (sn, se) ← match sp with
      | [s] => pure (s, s)
      | [a, b] => pure (a, b)
      | [] => Except.error Err.other                 -- `spacing[1]` on an empty array: IndexError
      | _ => Except.error Err.valueError
    let east ← lineCoordinates r.w r.e none (some se) g.adjust g.pixel
    let north ← lineCoordinates r.s r.n none (some sn) g.adjust g.pixel
    pure (east, north)

/-- `grid_coordinates(..., meshgrid=True)` with constant extra coordinates. -/
def gridCoordinates (region : List Rat) (g : GridSpec) (extra : List Rat) :
    Except Err (List (List (List Rat))) := do
  let (east, north) ← gridLines region g
  let (E, N) := meshgrid east north
  pure (E :: N :: extra.map fun v => north.map fun _ => east.map fun _ => v)

/-- `shape_to_spacing` → `(spacing_north, spacing_east)`. -/
def shapeToSpacing (r : Region) (shape : Nat × Nat) (pixel : Bool) : Option (Rat × Rat) :=
  let nn : Int := if pixel then shape.1 else (shape.1 : Int) - 1
  let ne : Int := if pixel then shape.2 else (shape.2 : Int) - 1
  if nn = 0 ∨ ne = 0 then none
  else some ((r.n - r.s) / (nn : Rat), (r.e - r.w) / (ne : Rat))

/-- `profile_coordinates` in algebraic form: point `t` is `p1 + t/(size-1)·(p2-p1)`;
    the distance of point `t` is `t/(size-1)·|p2-p1|`, returned **squared** so the model stays rational. -/
def profilePoints (p1 p2 : Rat × Rat) (size : Int) : Except Err (List (Rat × Rat × Rat)) :=
  if size ≤ 0 then .error .valueError else
  let n := size.toNat
  let frac : Nat → Rat := fun t => if n = 1 then 0 else (t : Rat) / ((n : Rat) - 1)
  let dx := p2.1 - p1.1; let dy := p2.2 - p1.2
  .ok ((List.range n).map fun t =>
    (p1.1 + frac t * dx, p1.2 + frac t * dy, (frac t) * (frac t) * (dx * dx + dy * dy)))

/-! ### longitude_continuity (the code's arithmetic, verbatim) -/

def checkGeoRegion (w e s n : Rat) : Except Err Unit :=
  if w > 360 ∨ e > 360 ∨ w < -180 ∨ e < -180 then .error .valueError
  else if s > 90 ∨ n > 90 ∨ s < -90 ∨ n < -90 then .error .valueError
  else if ratAbs (e - w) > 360 then .error .valueError
  else .ok ()

/-- Region part of `longitude_continuity`: returns `(interval360, w', e')`. -/
def lonRegion (w e : Rat) : Bool × Rat × Rat :=
  let allGlobe := allclose1 (ratAbs (e - w)) 360
  let w1 := pyMod w 360
  let e1 := pyMod e 360
  let (w2, e2) := if allGlobe then ((0 : Rat), (360 : Rat)) else (w1, e1)
  if w2 > e2 then (false, pyMod (w2 + 180) 360 - 180, pyMod (e2 + 180) 360 - 180)
  else (true, w2, e2)

def lonPoint (interval360 : Bool) (lon : Rat) : Rat :=
  if interval360 then pyMod lon 360 else pyMod (lon + 180) 360 - 180

def lonContinuity (w e s n : Rat) (lons lats : List Rat) :
    Except Err (Region × List Rat) := do
  checkGeoRegion w e s n
  let (i360, w', e') := lonRegion w e
  if lons.any (fun l => decide (l > 360 ∨ l < -180)) then .error .valueError
  else if lats.any (fun l => decide (l > 90 ∨ l < -90)) then .error .valueError
  else pure (⟨w', e', s, n⟩, lons.map (lonPoint i360))

end Verde

namespace Verde

/-- `scatter_points` for one axis with the uniform variates `u ∈ [0,1)` drawn by the code's RNG supplied as inputs
    (`RandomState.uniform(lo, hi)` is `lo + (hi-lo)·random_sample()`). -/
def scatterAxis (lo hi : Rat) (us : List Rat) : List Rat := us.map fun u => lo + (hi - lo) * u

def scatterPoints (region : List Rat) (ue un : List Rat) (extra : List Rat) : Except Err (List (List Rat)) := do
  let r ← checkRegion region
  pure (scatterAxis r.w r.e ue :: scatterAxis r.s r.n un :: extra.map fun v => ue.map fun _ => v)

/-- `maxabs(*arrays)`: per array `max(|min|, |max|)`, then the max over arrays (an empty array is an error). -/
def arrMaxabs (a : List Rat) : Rat := ratMax (ratAbs ((listMin a).getD 0)) (ratAbs ((listMax a).getD 0))
def maxabs (arrays : List (List Rat)) : Option Rat :=
  if arrays.any (·.isEmpty) then none else listMax (arrays.map arrMaxabs)

/-- Projections used by the correspondence (rational maps so the model stays exact). -/
inductive Proj where
  | affine (a b c d : Rat)      -- (a·e + b, c·n + d)
  | cube (k : Rat)              -- (e³/k, n)            monotone, non-linear
  | square                      -- (e², n²)             non-monotone across 0
  | shear (k : Rat)             -- (e + k·n, n − k·e)   not axis-aligned
  | lin (a11 a12 a21 a22 b1 b2 : Rat)   -- general affine map
  | radial (a b : Rat)          -- ((e−a)² + (n−b)², n − b·e)   coupled, extremum strictly inside a region around (a, b)
  deriving Repr

def Proj.apply : Proj → Rat × Rat → Rat × Rat
  | .affine a b c d, (e, n) => (a * e + b, c * n + d)
  | .cube k, (e, n) => (e * e * e / k, n)
  | .square, (e, n) => (e * e, n * n)
  | .shear k, (e, n) => (e + k * n, n - k * e)
  | .lin a11 a12 a21 a22 b1 b2, (e, n) => (a11 * e + a12 * n + b1, a21 * e + a22 * n + b2)
  | .radial a b, (e, n) => ((e - a) * (e - a) + (n - b) * (n - b), n - b * e)

/-- Inverse of the invertible affine projections (used by `profile`). -/
def Proj.inverse? : Proj → Option Proj
  | .affine a b c d => if a = 0 ∨ c = 0 then none else some (.lin (1 / a) 0 0 (1 / c) (-b / a) (-d / c))
  | .shear k => let den := 1 + k * k; some (.lin (1 / den) (-k / den) (k / den) (1 / den) 0 0)
  | .lin a11 a12 a21 a22 b1 b2 =>
    let det := a11 * a22 - a12 * a21
    if det = 0 then none else
    some (.lin (a22 / det) (-a12 / det) (-a21 / det) (a11 / det)
      (-(a22 * b1 - a12 * b2) / det) (-(-a21 * b1 + a11 * b2) / det))
  | _ => none

/-- `project_region`: bounding box of the projected nodes of a 101×101 grid of the region. -/
def projectRegion (region : List Rat) (p : Proj) (size : Nat := 101) : Except Err (Option Region) := do
  let (east, north) ← gridLines region ⟨some (size, size), none, .spacing, false⟩
  let pts := north.flatMap fun y => east.map fun x => p.apply (x, y)
  pure (getRegion (pts.map (·.1)) (pts.map (·.2)))

end Verde
