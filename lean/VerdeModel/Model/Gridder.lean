/-
  Model of BaseGridder.grid / profile / scatter (base/base_classes.py) for an arbitrary `predict`,
  plus the analytic polynomial gridder used by the correspondence.
-/
import VerdeModel.Model.Grid
namespace Verde

/-- A gridder's `predict`: one value per data component at a point `(easting, northing)`. -/
abbrev Predict := Rat × Rat → List Rat

/-- The analytic, asymmetric gridder of the correspondence: component `k` is `a + b·e + c·n + d·e·n`. -/
def polyPredict (coefs : List (Rat × Rat × Rat × Rat)) : Predict :=
  fun (e, n) => coefs.map fun (a, b, c, d) => a + b * e + c * n + d * e * n

def dataNamesDefault : Nat → Except Err (List String)
  | 1 => .ok ["scalars"]
  | 2 => .ok ["east_component", "north_component"]
  | 3 => .ok ["east_component", "north_component", "vertical_component"]
  | _ => .error .valueError

def getDataNames (ncomp : Nat) (names : Option (List String)) : Except Err (List String) :=
  match names with
  | none => dataNamesDefault ncomp
  | some ns => if ns.length = ncomp then .ok ns else .error .valueError

/-- `extra_coord`, `extra_coord_1`, … -/
def extraCoordNames (n : Nat) : List String :=
  (List.range n).map fun i => if i = 0 then "extra_coord" else "extra_coord_" ++ toString i

structure GridArgs where
  regionDefault : Option (List Rat)          -- the instance's `region_`
  region : Option (List Rat)
  shape : Option (Nat × Nat)
  spacing : Option (List Rat)
  adjust : Adjust
  pixel : Bool
  extra : List Rat                           -- `extra_coords=` constants
  coords : Option (CoordArr × CoordArr × List Arr2)   -- `coordinates=` (easting, northing, extras)
  proj : Option Proj
  dims : Option (String × String)
  dataNames : Option (List String)

/-- Predict component `k` on the (projected) nodes of a 2-D coordinate pair, keeping the arrays' shape. -/
def predictOn (p : Predict) (proj : Option Proj) (E N : Arr2) (k : Nat) : Arr2 :=
  List.zipWith (fun re rn => List.zipWith (fun x y =>
    (p (match proj with | some pr => pr.apply (x, y) | none => (x, y))).getD k 0) re rn) E N

/-! Primitives the translations of `BaseGridder.scatter` / `profile` and their helpers (Gen/Gridder.lean) are written in. -/
/-- `check_data(self.predict(coordinates))` on a table of 1-D coordinate arrays: `predict` sees the first two arrays, point by point; one
    list per data component. -/
def predictTbl (p : Predict) (ncomp : Nat) (coordinates : List (List Rat)) : List (List Rat) :=
  (List.range ncomp).map fun k => ((coordinates.getD 0 []).zip (coordinates.getD 1 [])).map fun q => (p q).getD k 0
/-- `projection(*xy)` acting element-wise on two arrays; the result is the pair of projected arrays. -/
def applyProjTbl (f : Rat × Rat → Rat × Rat) (xy : List (List Rat)) : List (List Rat) :=
  let pts := (xy.getD 0 []).zip (xy.getD 1 [])
  [pts.map fun q => (f q).1, pts.map fun q => (f q).2]
/-- Python's `l[i]`: a negative index counts from the end; out of range is an `IndexError` (`other`). -/
def pyIndex {α : Type} (l : List α) (i : Int) : Except Err α :=
  let j : Int := if i < 0 then i + l.length else i
  if j < 0 then .error .other else
  match l[j.toNat]? with
  | some x => .ok x
  | none => .error .other
/-- `profile_coordinates(point1, point2, size, extra_coords=…)` on points given as tables of two one-element arrays: the coordinate table
    (easting, northing, one constant array per extra coordinate) and the distances (squared, see `profilePoints`). -/
def profileCoordinatesTbl (point1 point2 : List (List Rat)) (size : Int) (extra : List Rat) :
    Except Err (List (List Rat) × List Rat) := do
  let pt := fun (t : List (List Rat)) => (((t.getD 0 []).headD 0), ((t.getD 1 []).headD 0))
  let pts ← profilePoints (pt point1) (pt point2) size
  pure ([pts.map (·.1), pts.map (·.2.1)] ++ extra.map (fun v => pts.map fun _ => v), pts.map (·.2.2))

/-! Primitives of the translation of `BaseGridder.grid`: a tuple of coordinate (or data) arrays of either dimensionality is a
    `List CoordArr`; the helpers of utils.py / coordinates.py that `grid` calls are the model's own functions behind these wrappers. -/
def CoordArr.arr2 : CoordArr → Arr2
  | .d2 a => a
  | .d1 v => [v]
/-- `get_ndim_horizontal_coords(*coordinates[:2])`: the common number of dimensions of the two arrays (`ValueError` if they differ;
    fewer than two arrays is a missing positional argument). -/
def getNdimHorizontalCoords (xy : List CoordArr) : Except Err Nat :=
  match xy with
  | [.d1 _, .d1 _] => .ok 1
  | [.d2 _, .d2 _] => .ok 2
  | [_, _] => .error .valueError
  | _ => .error .typeError
/-- `meshgrid_from_1d(coordinates)`: 1-D horizontal coordinates become their meshgrid; extra coordinates must already have that shape. -/
def meshgridFrom1dN (cs : List CoordArr) : Except Err (List CoordArr) :=
  match cs with
  | .d1 e :: .d1 n :: ex =>
    if ex.all fun x => isRect x.arr2 n.length e.length then .ok (.d2 (meshgridFrom1d e n).1 :: .d2 (meshgridFrom1d e n).2 :: ex)
    else .error .valueError
  | _ => .error .valueError
/-- `check_meshgrid(coordinates)` (together with the shape test `make_xarray_grid` repeats through `meshgrid_to_1d`). -/
def checkMeshgridN (cs : List CoordArr) : Except Err Unit :=
  match cs with
  | .d2 E :: .d2 N :: ex => do let _ ← meshgridTo1d E N (ex.map (·.arr2)); pure ()
  | _ => .error .valueError
/-- `grid_coordinates(region, shape=…, spacing=…, adjust=…, pixel_register=…, extra_coords=…)` (meshgrid form). -/
def gridCoordinatesN (region : List Rat) (shape : Option (Nat × Nat)) (spacing : Option (List Rat)) (adjust : Adjust) (pixel : Bool)
    (extra : List Rat) : Except Err (List CoordArr) := do
  let cs ← gridCoordinates region ⟨shape, spacing, adjust, pixel⟩ extra
  pure (cs.map .d2)
/-- `projection(*xy)` acting element-wise on two arrays of the same dimensionality. -/
def applyProjTblN (f : Rat × Rat → Rat × Rat) (xy : List CoordArr) : List CoordArr :=
  match xy with
  | [.d2 E, .d2 N] => [.d2 (List.zipWith (List.zipWith fun x y => (f (x, y)).1) E N), .d2 (List.zipWith (List.zipWith fun x y => (f (x, y)).2) E N)]
  | [.d1 e, .d1 n] => [.d1 (List.zipWith (fun x y => (f (x, y)).1) e n), .d1 (List.zipWith (fun x y => (f (x, y)).2) e n)]
  | _ => []
/-- `check_data(self.predict(coordinates))` on arrays of either dimensionality: one array per component, in the coordinates' shape. -/
def predictTblN (p : Predict) (ncomp : Nat) (cs : List CoordArr) : List CoordArr :=
  match cs with
  | .d2 E :: .d2 N :: _ => (List.range ncomp).map fun k => .d2 (predictOn p none E N k)
  | .d1 e :: .d1 n :: _ => (List.range ncomp).map fun k => .d1 (List.zipWith (fun x y => (p (x, y)).getD k 0) e n)
  | _ => []
/-- `make_xarray_grid(coordinates, data, data_names, dims=…, extra_coords_names=…)`. -/
def makeXarrayGridN (coordinates data : List CoordArr) (data_names : List String) (dims : String × String) (extra_names : List String) :
    Except Err Dataset :=
  match coordinates with
  | e :: n :: ex => makeGrid e n (ex.map (·.arr2)) (some (data.map (·.arr2))) (some data_names) dims (some extra_names)
  | _ => .error .typeError

/-- `BaseGridder.grid`. -/
def gridModel (p : Predict) (ncomp : Nat) (a : GridArgs) : Except Err Dataset := do
  if a.coords.isSome && (a.spacing.isSome || a.shape.isSome) then Except.error Err.valueError
  if a.coords.isSome && a.region.isSome then Except.error Err.valueError
  let (E, N, extras) ← match a.coords with
    | some (.d1 e, .d1 n, ex) =>
      let m := meshgridFrom1d e n
      if ex.all fun x => isRect x n.length e.length then pure (m.1, m.2, ex) else Except.error Err.valueError
    | some (.d2 E, .d2 N, ex) => do
      let _ ← meshgridTo1d E N ex
      pure (E, N, ex)
    | some _ => Except.error Err.valueError
    | none => do
      let reg ← match a.region.orElse fun _ => a.regionDefault with
        | some r => pure r
        | none => Except.error Err.valueError
      let cs ← gridCoordinates reg ⟨a.shape, a.spacing, a.adjust, a.pixel⟩ a.extra
      match cs with
      | E :: N :: ex => pure (E, N, ex)
      | _ => Except.error Err.other
  let data := (List.range ncomp).map fun k => predictOn p a.proj E N k
  let dims := a.dims.getD ("northing", "easting")
  let names ← getDataNames ncomp a.dataNames
  makeGrid (.d2 E) (.d2 N) extras (some data) (some names) dims (some (extraCoordNames extras.length))

/-- `BaseGridder.profile` (algebraic form of the profile; `distance²` returned to stay rational).
    Columns: northing, easting, distance², extras…, data….  `inv` is the inverse projection. -/
def profileModel (p : Predict) (ncomp : Nat) (p1 p2 : Rat × Rat) (size : Int) (proj : Option (Proj × Proj))
    (extra : List Rat) (dims : Option (String × String)) (dataNames : Option (List String)) :
    Except Err (List (String × List Rat)) := do
  let q1 := match proj with | some (f, _) => f.apply p1 | none => p1
  let q2 := match proj with | some (f, _) => f.apply p2 | none => p2
  let pts ← profilePoints q1 q2 size
  let data := (List.range ncomp).map fun k => pts.map fun (x, y, _) => (p (x, y)).getD k 0
  let back := pts.map fun (x, y, _) => match proj with | some (_, g) => g.apply (x, y) | none => (x, y)
  let names ← getDataNames ncomp dataNames
  let dims := dims.getD ("northing", "easting")
  pure ((dims.1, back.map (·.2)) :: (dims.2, back.map (·.1)) :: ("distance", pts.map fun (_, _, d) => d) ::
    ((extraCoordNames extra.length).zip (extra.map fun v => pts.map fun _ => v)) ++ names.zip data)

/-- `BaseGridder.scatter` with the RNG variates supplied (see `scatterPoints`). -/
def scatterModel (p : Predict) (ncomp : Nat) (regionDefault region : Option (List Rat)) (ue un : List Rat)
    (extra : List Rat) (proj : Option Proj) (dims : Option (String × String)) (dataNames : Option (List String)) :
    Except Err (List (String × List Rat)) := do
  let reg ← match region.orElse fun _ => regionDefault with
    | some r => pure r
    | none => Except.error Err.valueError
  let cs ← scatterPoints reg ue un extra
  let es := cs.getD 0 []
  let ns := cs.getD 1 []
  let data := (List.range ncomp).map fun k => (es.zip ns).map fun (x, y) =>
    (p (match proj with | some pr => pr.apply (x, y) | none => (x, y))).getD k 0
  let names ← getDataNames ncomp dataNames
  let dims := dims.getD ("northing", "easting")
  pure ((dims.1, ns) :: (dims.2, es) :: ((extraCoordNames extra.length).zip (cs.drop 2)) ++ names.zip data)

end Verde
