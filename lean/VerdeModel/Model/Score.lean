/-
  Model of select / score_estimator / cross_val_score / fit_score / train_test_split (model_selection.py,
  base/utils.py), SplineCV's selection (spline.py) and an event model of delayed execution.
  The estimator is abstract (`Est`); the correspondence instantiates it with a "moment gridder" implemented
  identically in Python (a BaseGridder subclass) and here.
-/
import VerdeModel.Model.CV
namespace Verde

/-- `select(arrays, index)`: `np.ravel(a)[index]` for every array (arrays are already raveled lists). -/
def selectIdx (a : List Rat) (idx : List Nat) : List Rat := idx.map fun i => a.getD i 0
def selectAll (arrays : List (List Rat)) (idx : List Nat) : List (List Rat) := arrays.map (selectIdx · idx)

/-- Rows handed to `fit` / `score`: coordinates, data components, optional weight components. -/
structure Rows where
  coords : List (List Rat)
  data : List (List Rat)
  weights : Option (List (List Rat))
  deriving Repr, BEq, DecidableEq

def Rows.select (r : Rows) (idx : List Nat) : Rows :=
  ⟨selectAll r.coords idx, selectAll r.data idx, r.weights.map (selectAll · idx)⟩

/-- Abstract estimator: `fit` maps training rows to a fitted state, `predict` maps the state and coordinates to one
    prediction list per data component. -/
structure Est (σ : Type) where
  fit : Rows → σ
  predict : σ → List (List Rat) → List (List Rat)

inductive Scoring where | r2 | negMSE | negMAE
  deriving Repr, DecidableEq

def wsum (w : List Rat) (xs : List Rat) : Rat := (List.zipWith (· * ·) w xs).sum

/-- scikit-learn metrics with `sample_weight` (uniform weights when none); `none` models NaN (R² of < 2 samples). -/
def metric (s : Scoring) (y yhat : List Rat) (w : Option (List Rat)) : Option Rat :=
  let ws := w.getD (y.map fun _ => 1)
  let sw := ws.sum
  let res := List.zipWith (· - ·) y yhat
  match s with
  | .negMSE => some (-(wsum ws (res.map fun r => r * r) / sw))
  | .negMAE => some (-(wsum ws (res.map ratAbs) / sw))
  | .r2 =>
    if y.length < 2 then none else
    let ybar := wsum ws y / sw
    let num := wsum ws (res.map fun r => r * r)
    let den := wsum ws (y.map fun v => (v - ybar) * (v - ybar))
    if den = 0 then (if num = 0 then some 1 else some 0) else some (1 - num / den)

/-- `score_estimator`: mean over components of the metric of component `i` with weight component `i`. -/
def scoreEstimator (s : Scoring) (pred : List (List Rat)) (rows : Rows) : Option Rat := do
  let per ← (List.range rows.data.length).mapM fun i =>
    metric s (rows.data.getD i []) (pred.getD i []) (rows.weights.bind (·[i]?))
  if per.isEmpty then none else some (per.sum / (per.length : Rat))

/-- `fit_score` on a fresh clone: fit on the training rows only, score on the test rows only. -/
def fitScore {σ : Type} (E : Est σ) (s : Scoring) (train test : Rows) : Option Rat :=
  scoreEstimator s (E.predict (E.fit train) test.coords) test

/-- `cross_val_score` for explicit splits `(train indices, test indices)`. -/
def crossValScore {σ : Type} (E : Est σ) (s : Scoring) (rows : Rows) (splits : List (List Nat × List Nat)) :
    List (Option Rat) :=
  splits.map fun (tr, te) => fitScore E s (rows.select tr) (rows.select te)

/-- `train_test_split` for the one split drawn by (Block)ShuffleSplit. -/
def trainTestSplit (rows : Rows) (split : List Nat × List Nat) : Rows × Rows :=
  (rows.select split.1, rows.select split.2)

/-- `numpy.argmax`: first index of the maximum. -/
def argmaxIdx (xs : List Rat) : Nat :=
  match listMax xs with
  | none => 0
  | some m => xs.idxOf m

/-! Reducers / selectors the translation of `SplineCV.fit` (Gen/ModelSel.lean) may be written in (`np.mean` and `np.argmax` are what the source uses). -/
def listMean (s : List Rat) : Rat := s.sum / (s.length : Rat)
def listMaxD (s : List Rat) : Rat := (listMax s).getD 0
def listMinD (s : List Rat) : Rat := (listMin s).getD 0

/-- SplineCV: candidate with the highest mean cross-validated score (first among ties). -/
def splineCVSelect (scores : List (List Rat)) : Nat :=
  argmaxIdx (scores.map fun s => s.sum / (s.length : Rat))

/-! ### The concrete estimator used by the correspondence ("moment gridder") -/

structure MomentState where
  comps : List (Rat × Rat × Rat)     -- per component: weighted mean, first datum, order-sensitive moment
  deriving Repr, BEq, DecidableEq

def momentFit (r : Rows) : MomentState :=
  let e := r.coords.getD 0 []
  ⟨(List.range r.data.length).map fun c =>
    let d := r.data.getD c []
    let w := (r.weights.bind (·[c]?)).getD (d.map fun _ => 1)
    let mom := ((List.range d.length).map fun (i : Nat) =>
      ((i : Rat) + 1) * d.getD i 0 * e.getD i 0 * w.getD i 0).sum / 64
    (wsum w d / w.sum, d.getD 0 0, mom)⟩

def momentPredict (s : MomentState) (coords : List (List Rat)) : List (List Rat) :=
  let e := coords.getD 0 []
  let n := coords.getD 1 []
  s.comps.map fun (mean, first, mom) =>
    (e.zip n).map fun (x, y) => mean + first * x / 8 + mom * y / 16

def momentEst : Est MomentState := ⟨momentFit, momentPredict⟩

/-! ### Event model of delayed execution -/

inductive Ev where
  | fit (k : Nat)
  | score (k : Nat)
  deriving Repr, DecidableEq

/-- Each task owns its (cloned) estimator: `fit k` writes slot `k`, `score k` reads slot `k`. -/
def stepOwned {σ α : Type} (fitVal : Nat → σ) (scoreOf : Nat → σ → α)
    (st : (Nat → Option σ) × List (Nat × Option α)) (ev : Ev) : (Nat → Option σ) × List (Nat × Option α) :=
  match ev with
  | .fit k => (fun j => if j = k then some (fitVal k) else st.1 j, st.2)
  | .score k => (st.1, st.2 ++ [(k, (st.1 k).map (scoreOf k))])

def runOwned {σ α : Type} (fitVal : Nat → σ) (scoreOf : Nat → σ → α) (sched : List Ev) :
    (Nat → Option σ) × List (Nat × Option α) :=
  sched.foldl (stepOwned fitVal scoreOf) (fun _ => none, [])

/-- Without cloning all tasks share one estimator object: `fit k` overwrites it, `score k` reads whatever is there. -/
def stepShared {σ α : Type} (fitVal : Nat → σ) (scoreOf : Nat → σ → α)
    (st : Option σ × List (Nat × Option α)) (ev : Ev) : Option σ × List (Nat × Option α) :=
  match ev with
  | .fit k => (some (fitVal k), st.2)
  | .score k => (st.1, st.2 ++ [(k, st.1.map (scoreOf k))])

def runShared {σ α : Type} (fitVal : Nat → σ) (scoreOf : Nat → σ → α) (sched : List Ev) :
    Option σ × List (Nat × Option α) :=
  sched.foldl (stepShared fitVal scoreOf) (none, [])

end Verde
