/-
  Model of block_split (coordinates.py), BlockReduce / BlockMean (blockreduce.py) and
  variance_to_weights (utils.py).
-/
import VerdeModel.Model.Coords
namespace Verde

/-- First index attaining the minimum (the k-d tree contract is "a nearest centre"; ties are compared leniently). -/
def argminIdx (ds : List Rat) : Nat :=
  match listMin ds with
  | none => 0
  | some m => ds.idxOf m

def sqDist (px py cx cy : Rat) : Rat := (px - cx) * (px - cx) + (py - cy) * (py - cy)

/-- Block centres in ravel order of `meshgrid(east, north)`: index `k ↦ (east[k % ne], north[k / ne])`. -/
def centresOf (east north : List Rat) : List (Rat × Rat) :=
  (List.range (north.length * east.length)).map fun k =>
    (east.getD (k % east.length) 0, north.getD (k / east.length) 0)

def labelOf (centres : List (Rat × Rat)) (p : Rat × Rat) : Nat :=
  argminIdx (centres.map fun c => sqDist p.1 p.2 c.1 c.2)

structure BlockSpec where
  region : Option (List Rat)
  shape : Option (Nat × Nat)
  spacing : Option (List Rat)
  adjust : Adjust

/-- Region used by `block_split`: the given one, else the bounding box of the points. -/
def blockRegion (es ns : List Rat) (b : BlockSpec) : Except Err (List Rat) :=
  match b.region with
  | some r => .ok r
  | none => match getRegion es ns with
    | some r => .ok [r.w, r.e, r.s, r.n]
    | none => .error .valueError

/-- `block_split`: centres (pixel-registered grid of the region) and one label per point in ravel order. -/
def blockSplit (es ns : List Rat) (b : BlockSpec) : Except Err (List (Rat × Rat) × List Nat) := do
  let reg ← blockRegion es ns b
  let lines ← gridLines reg ⟨b.shape, b.spacing, b.adjust, true⟩
  pure (centresOf lines.1 lines.2, (es.zip ns).map (labelOf (centresOf lines.1 lines.2)))

/-! ### group-by -/

/-- Occupied block ids, ascending and without repetition (pandas group keys / `np.unique(labels)`). -/
def groupKeys (bound : Nat) (labels : List Nat) : List Nat :=
  (List.range bound).filter fun b => labels.contains b

/-- Members of group `b`, in input order. -/
def groupMembers {α : Type} (labels : List Nat) (xs : List α) (b : Nat) : List α :=
  ((labels.zip xs).filter fun p => p.1 == b).map (·.2)

def labelBound (labels : List Nat) : Nat := labels.foldl (fun m l => max m (l + 1)) 0

/-! ### reductions -/

inductive Red where | mean | median | sum | min | max
  deriving Repr, DecidableEq

def mean (xs : List Rat) : Rat := xs.sum / (xs.length : Rat)

def median (xs : List Rat) : Rat :=
  let s := xs.mergeSort (fun a b => decide (a ≤ b))
  let n := s.length
  if n % 2 = 1 then s.getD (n / 2) 0 else (s.getD (n / 2 - 1) 0 + s.getD (n / 2) 0) / 2

def Red.apply : Red → List Rat → Rat
  | .mean, xs => Verde.mean xs
  | .median, xs => Verde.median xs
  | .sum, xs => xs.sum
  | .min, xs => (listMin xs).getD 0
  | .max, xs => (listMax xs).getD 0

/-- `numpy.average(values, weights=w)`; a zero weight sum is a `ZeroDivisionError`. -/
def wavg (vw : List (Rat × Rat)) : Except Err Rat :=
  let sw := (vw.map (·.2)).sum
  if sw = 0 then .error .zeroDiv else .ok ((vw.map fun p => p.1 * p.2).sum / sw)

structure ReduceSpec where
  red : Option Red          -- `none` = numpy.average (the only reduction that accepts weights)
  centre : Bool
  dropCoords : Bool

/-- The reduction as a function (`none` = numpy.average without weights = mean). -/
def ReduceSpec.fn (r : ReduceSpec) : List Rat → Rat :=
  fun xs => match r.red with | some f => f.apply xs | none => mean xs

/-! Primitives the statement-by-statement translation of `BlockReduce.filter` / `_block_coordinates` (Gen/Blocks.lean) is written in: the
    pandas contract `DataFrame(columns).groupby("block").aggregate(f)` = per occupied block, in ascending block order, `f` of that block's
    members in input order (a function given per column applies to that column; `attach_weights(f, w)` hands `f` the members' own weights). -/
def groupAgg (keys labels : List Nat) (col : List Rat) (f : List Rat → Rat) : List Rat :=
  keys.map fun k => f (groupMembers labels col k)
def groupAggW (keys labels : List Nat) (col w : List Rat) (f : List (Rat × Rat) → Except Err Rat) : Except Err (List Rat) :=
  keys.mapM fun k => f (groupMembers labels (col.zip w) k)
/-- `reduction(values, weights=w)`: only `numpy.average` takes weights (`TypeError` otherwise). -/
def ReduceSpec.fnW (r : ReduceSpec) : List (Rat × Rat) → Except Err Rat :=
  fun vw => match r.red with | some _ => .error .typeError | none => wavg vw

/-- `BlockReduce.filter`.  `coords` = all coordinate arrays (first two are easting/northing), `data` = components,
    `weights` = none or one weight array per component.  Returns (block coordinates, block data). -/
def blockReduce (coords : List (List Rat)) (data : List (List Rat)) (weights : Option (List (List Rat)))
    (b : BlockSpec) (r : ReduceSpec) : Except Err (List (List Rat) × List (List Rat)) := do
  let es := coords.getD 0 []
  let ns := coords.getD 1 []
  let (centres, labels) ← blockSplit es ns b
  let keys := groupKeys (max centres.length (labelBound labels)) labels
  let red : List Rat → Rat := r.fn
  let outData ← match weights with
    | none => pure (data.map fun d => keys.map fun k => red (groupMembers labels d k))
    | some ws =>      -- reduction(values, weights=…): a TypeError for every reduction but numpy.average, raised when the first block is reduced
      (data.zip ws).mapM fun (d, w) => keys.mapM fun k => r.fnW (groupMembers labels (d.zip w) k)
  let cs := if r.dropCoords then coords.take 2 else coords
  let outCoords := cs.mapIdx fun i c =>
    if r.centre && i < 2 then keys.map fun k => (if i = 0 then (centres.getD k (0, 0)).1 else (centres.getD k (0, 0)).2)
    else keys.map fun k => red (groupMembers labels c k)
  pure (outCoords, outData)

/-! ### variance_to_weights and BlockMean -/

/-- The default tolerance `1e-15` as the double the code compares with (exact value of the float literal). -/
def v2wTol : Rat := mkRat 2535301200456459 2535301200456458802993406410752

/-- `variance_to_weights` for one array; `none` models NaN (→ 0 → weight 1). -/
def varianceToWeights (vars : List (Option Rat)) (tol : Rat := v2wTol) : List Rat :=
  let v := vars.map fun o => o.getD 0
  let m := (listMin (v.filter fun x => decide (x > tol))).getD 0     -- smallest variance above the tolerance
  v.map fun x => if x > tol then m / x else 1

def pvariance (xs : List Rat) : Rat :=
  let mu := mean xs
  (xs.map fun x => (x - mu) * (x - mu)).sum / (xs.length : Rat)

/-- `BlockMean.filter`: (coordinates, means, weights). -/
def blockMean (coords : List (List Rat)) (data : List (List Rat)) (weights : Option (List (List Rat)))
    (b : BlockSpec) (centre dropCoords uncertainty : Bool) :
    Except Err (List (List Rat) × List (List Rat) × List (List Rat)) := do
  if weights.isNone && uncertainty then Except.error Err.valueError
  let es := coords.getD 0 []
  let ns := coords.getD 1 []
  let (centres, labels) ← blockSplit es ns b
  let keys := groupKeys (max centres.length (labelBound labels)) labels
  let (means, vars) ← match weights with
    | none =>
      pure (data.map (fun d => keys.map fun k => mean (groupMembers labels d k)),
            data.map (fun d => keys.map fun k => pvariance (groupMembers labels d k)))
    | some ws => do
      let ms ← (data.zip ws).mapM fun (d, w) => keys.mapM fun k => wavg (groupMembers labels (d.zip w) k)
      let vs ← (data.zip ws).mapM fun (d, w) => keys.mapM fun k =>
        if uncertainty then
          let sw := (groupMembers labels w k).sum
          if sw = 0 then Except.error Err.zeroDiv else pure (1 / sw)
        else do
          let mu ← wavg (groupMembers labels (d.zip w) k)
          wavg ((groupMembers labels (d.zip w) k).map fun p => ((p.1 - mu) * (p.1 - mu), p.2))
      pure (ms, vs)
  let outW := vars.map fun v => varianceToWeights (v.map some)
  let cs := if dropCoords then coords.take 2 else coords
  let outCoords := cs.mapIdx fun i c =>
    if centre && i < 2 then keys.map fun k => (if i = 0 then (centres.getD k (0, 0)).1 else (centres.getD k (0, 0)).2)
    else keys.map fun k => mean (groupMembers labels c k)
  pure (outCoords, means, outW)

end Verde
