/-
  Line protocol values.  One operation per line, whitespace-separated tokens:
  atoms (integers, rationals `p/q`, bare words) and lists `[ … ]` (brackets are
  their own tokens).  Core Lean only — this file is linked into the driver.
-/
namespace Verde

inductive Val where
  | atom : String → Val
  | list : List Val → Val
  deriving Repr, Inhabited, BEq

namespace Val

/-- Parse a token list into values using an explicit stack of open lists. -/
def parseTokens (toks : List String) : Option (List Val) :=
  let rec go (toks : List String) (cur : List Val) (stack : List (List Val)) : Option (List Val) :=
    match toks with
    | [] => match stack with
      | [] => some cur.reverse
      | _ => none
    | "[" :: rest => go rest [] (cur :: stack)
    | "]" :: rest => match stack with
      | [] => none
      | top :: stack' => go rest (Val.list cur.reverse :: top) stack'
    | t :: rest => go rest (Val.atom t :: cur) stack
  go toks [] []

def tokenize (line : String) : List String :=
  (line.splitOn " ").filter (fun s => s ≠ "") |>.map (fun s => s.trimAscii.toString) |>.filter (fun s => s ≠ "")

def parseLine (line : String) : Option (List Val) := parseTokens (tokenize line)

partial def render : Val → String
  | atom s => s
  | list xs => "[ " ++ String.intercalate " " (xs.map render) ++ (if xs.isEmpty then "]" else " ]")

end Val

/-- Parse `p/q` or `p` (decimal integers, optional leading `-`). -/
def parseInt? (s : String) : Option Int := s.toInt?

def parseRat? (s : String) : Option Rat :=
  match s.splitOn "/" with
  | [p] => (parseInt? p).map (fun n => (n : Rat))
  | [p, q] => do
      let n ← parseInt? p
      let d ← q.toNat?
      if d = 0 then none else some (mkRat n d)
  | _ => none

def ratStr (q : Rat) : String :=
  if q.den = 1 then toString q.num else toString q.num ++ "/" ++ toString q.den

class ToVal (α : Type) where
  toVal : α → Val
export ToVal (toVal)

instance : ToVal Rat := ⟨fun q => .atom (ratStr q)⟩
instance : ToVal Int := ⟨fun n => .atom (toString n)⟩
instance : ToVal Nat := ⟨fun n => .atom (toString n)⟩
instance : ToVal Bool := ⟨fun b => .atom (if b then "T" else "F")⟩
instance : ToVal String := ⟨fun s => .atom s⟩
instance : ToVal Val := ⟨id⟩
instance [ToVal α] : ToVal (List α) := ⟨fun xs => .list (xs.map toVal)⟩
instance [ToVal α] [ToVal β] : ToVal (α × β) := ⟨fun p => .list [toVal p.1, toVal p.2]⟩
instance [ToVal α] : ToVal (Option α) := ⟨fun o => match o with | none => .atom "none" | some a => toVal a⟩

class FromVal (α : Type) where
  fromVal : Val → Option α
export FromVal (fromVal)

instance : FromVal Rat := ⟨fun v => match v with | .atom s => parseRat? s | _ => none⟩
instance : FromVal Int := ⟨fun v => match v with | .atom s => parseInt? s | _ => none⟩
instance : FromVal Nat := ⟨fun v => match v with | .atom s => s.toNat? | _ => none⟩
instance : FromVal Bool := ⟨fun v => match v with | .atom "T" => some true | .atom "F" => some false | _ => none⟩
instance : FromVal String := ⟨fun v => match v with | .atom s => some s | _ => none⟩
instance : FromVal Val := ⟨some⟩
instance [FromVal α] : FromVal (List α) :=
  ⟨fun v => match v with | .list xs => xs.mapM fromVal | _ => none⟩
instance [FromVal α] [FromVal β] : FromVal (α × β) :=
  ⟨fun v => match v with | .list [a, b] => do pure (← fromVal a, ← fromVal b) | _ => none⟩
/-- `none` atom ↦ `Option.none`. -/
instance [FromVal α] : FromVal (Option α) :=
  ⟨fun v => match v with | .atom "none" => some none | v => (fromVal v).map some⟩

/-- Error kinds: what the real code raises, mapped to a small enum. -/
inductive Err where
  | valueError | ioError | typeError | notFitted | zeroDiv | other
  deriving Repr, DecidableEq, Inhabited

def Err.str : Err → String
  | .valueError => "ValueError" | .ioError => "IOError" | .typeError => "TypeError"
  | .notFitted => "NotFitted" | .zeroDiv => "ZeroDivisionError" | .other => "Other"

instance [ToVal α] : ToVal (Except Err α) :=
  ⟨fun r => match r with | .ok a => toVal a | .error e => .list [.atom "err", .atom e.str]⟩

end Verde
