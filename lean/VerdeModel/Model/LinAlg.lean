/-
  Exact linear algebra for the least-squares properties: Gaussian elimination over `Rat`,
  verde.base.least_squares as normal equations in unit-variance-column scaling, a certificate checker,
  and the Trend design matrix.
-/
import VerdeModel.Model.Num
namespace Verde

abbrev Mat := List (List Rat)
abbrev Vec := List Rat

def matGet (A : Mat) (i j : Nat) : Rat := (A.getD i []).getD j 0
def dot (a b : Vec) : Rat := (List.zipWith (· * ·) a b).sum
def matVec (A : Mat) (x : Vec) : Vec := A.map fun r => dot r x
def transpose (A : Mat) (ncols : Nat) : Mat := (List.range ncols).map fun j => A.map fun r => r.getD j 0

/-- Gauss–Jordan elimination with first-non-zero pivoting on the augmented matrix `[A | b]`; `none` if singular. -/
def solveAug (n : Nat) (M : Mat) : Option Mat :=
  (List.range n).foldlM (fun (M : Mat) (c : Nat) => do
    let pr ← (List.range n).find? fun r => decide (c ≤ r) && decide (matGet M r c ≠ 0)
    let prow := M.getD pr []
    let crow := M.getD c []
    let M1 := (M.set pr crow).set c prow            -- swap rows c and pr
    let pv := prow.getD c 0
    let prowN := prow.map (· / pv)
    pure (M1.mapIdx fun r row =>
      if r = c then prowN else
      let f := row.getD c 0
      List.zipWith (fun x y => x - f * y) row prowN)) M

def solve (A : Mat) (b : Vec) : Option Vec := do
  let n := A.length
  let M := List.zipWith (fun r bi => r ++ [bi]) A b
  let R ← solveAug n M
  pure (R.map fun row => row.getD n 0)

/-- Column scale² used by `StandardScaler(with_mean=False)`: population variance of the column, or 1 if it is zero. -/
def colScale2 (J : Mat) (j : Nat) : Rat :=
  let col := J.map fun r => r.getD j 0
  let m := (J.length : Rat)
  let mu := col.sum / m
  let v := (col.map fun x => (x - mu) * (x - mu)).sum / m
  if v = 0 then 1 else v

/-- Left-hand side `JᵀWJ + α·diag(s)` and right-hand side `JᵀW d` of the normal equations. -/
def normalMatrix (J : Mat) (w : Vec) (alpha : Rat) (s : Vec) (n : Nat) : Mat :=
  (List.range n).map fun j => (List.range n).map fun k =>
    ((List.range J.length).map fun i => w.getD i 0 * matGet J i j * matGet J i k).sum +
      (if j = k then alpha * s.getD j 0 else 0)

def normalRhs (J : Mat) (w d : Vec) (n : Nat) : Vec :=
  (List.range n).map fun j => ((List.range J.length).map fun i => w.getD i 0 * matGet J i j * d.getD i 0).sum

/-- `verde.base.least_squares(jacobian, data, weights, damping)`; `none` when the normal matrix is singular. -/
def leastSquares (J : Mat) (d : Vec) (w : Option Vec) (damping : Option Rat) (n : Nat) : Option Vec :=
  let ws := w.getD (d.map fun _ => 1)
  let s := (List.range n).map (colScale2 J)
  solve (normalMatrix J ws (damping.getD 0) s n) (normalRhs J ws d n)

/-- Certificate: `p` satisfies the weighted, damped normal equations
    `Σᵢ wᵢ Jᵢⱼ ((J p)ᵢ − dᵢ) + α sⱼ pⱼ = 0` for every column `j`. -/
def normalEqHolds (J : Mat) (d w : Vec) (alpha : Rat) (s p : Vec) (n : Nat) : Bool :=
  (List.range n).all fun j =>
    decide (((List.range J.length).map fun i =>
      w.getD i 0 * matGet J i j * (((List.range n).map fun k => matGet J i k * p.getD k 0).sum - d.getD i 0)).sum
      + alpha * s.getD j 0 * p.getD j 0 = 0)

/-! ### Trend -/

/-- Python's `sorted(l, key=key)` for natural-number keys: a stable sort (Lean's `List.mergeSort` is stable, like timsort). -/
def sortedByKey {α : Type} (key : α → Nat) (l : List α) : List α := l.mergeSort (fun a b => decide (key a ≤ key b))

/-- `polynomial_power_combinations(degree)`: all `(i, j)` with `i + j ≤ degree`, sorted by total degree (stable);
    inside one degree `t`: `(t,0), (t-1,1), …, (0,t)`. -/
def powerCombinations (degree : Nat) : List (Nat × Nat) :=
  (List.range (degree + 1)).flatMap fun t => (List.range (t + 1)).map fun j => (t - j, j)

def trendJac (es ns : Vec) (degree : Nat) : Mat :=
  (es.zip ns).map fun (e, n) => (powerCombinations degree).map fun (i, j) => e ^ i * n ^ j

def trendFit (es ns d : Vec) (w : Option Vec) (degree : Nat) : Option Vec :=
  leastSquares (trendJac es ns degree) d w none (powerCombinations degree).length

def trendPredict (coef : Vec) (degree : Nat) (e n : Rat) : Rat :=
  (List.zipWith (fun c (ij : Nat × Nat) => e ^ ij.1 * n ^ ij.2 * c) coef (powerCombinations degree)).sum

end Verde
