/-
  Model of rolling_window / expanding_window (coordinates.py).
-/
import VerdeModel.Model.Blocks
namespace Verde

/-- Indices of the points inside the closed square of half-width `half` around `(cx, cy)`
    (`cKDTree.query_ball_point(p=inf)` contract), ascending. -/
def windowIdx (es ns : List Rat) (cx cy half : Rat) : List Nat :=
  (List.range es.length).filter fun i =>
    decide (ratAbs (es.getD i 0 - cx) ≤ half) && decide (ratAbs (ns.getD i 0 - cy) ≤ half)

/-- Indices of the points inside the closed DISC of radius `r` around `(cx, cy)` (`query_ball_point` with the Euclidean norm — not what the
    window functions ask for; present so that a changed norm in the source translates to something). -/
def discIdx (es ns : List Rat) (cx cy r : Rat) : List Nat :=
  (List.range es.length).filter fun i =>
    decide (0 ≤ r) && decide ((es.getD i 0 - cx) * (es.getD i 0 - cx) + (ns.getD i 0 - cy) * (ns.getD i 0 - cy) ≤ r * r)

/-- `numpy.unravel_index` for a 2-D (or 1-D) shape given its number of columns. -/
def unravel (ncols : Nat) (k : Nat) : Nat × Nat := (k / ncols, k % ncols)

structure RollOut where
  east : List Rat          -- 1-D centre lines (the 2-D centre arrays are their meshgrid)
  north : List Rat
  windows : List (List Nat)   -- one ascending index list per centre, row-major in the centres' shape

/-- `rolling_window`. -/
def rollingWindow (es ns : List Rat) (size : Rat) (b : BlockSpec) : Except Err RollOut := do
  if b.shape.isNone && b.spacing.isNone then Except.error Err.valueError
  let regl ← blockRegion es ns b
  let r ← match regl with
    | [w, e, s, n] => pure (⟨w, e, s, n⟩ : Region)
    | _ => Except.error Err.valueError
  if ratMin (r.e - r.w) (r.n - r.s) < size then Except.error Err.valueError
  let wr := [r.w + size / 2, r.e - size / 2, r.s + size / 2, r.n - size / 2]
  let lines ← gridLines wr ⟨b.shape, b.spacing, b.adjust, false⟩
  pure ⟨lines.1, lines.2,
    lines.2.flatMap fun cy => lines.1.map fun cx => windowIdx es ns cx cy (size / 2)⟩

/-- `expanding_window`: one index list per size, in the order of the sizes. -/
def expandingWindow (es ns : List Rat) (cx cy : Rat) (sizes : List Rat) : List (List Nat) :=
  sizes.map fun s => windowIdx es ns cx cy (s / 2)

end Verde
