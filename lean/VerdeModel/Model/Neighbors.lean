/-
  Model of KNeighbors (neighbors.py), median_distance (distances.py), distance_mask (mask.py).
  The k-d tree contract is "the k nearest in Euclidean distance": modelled by sorting (distance², index).
-/
import VerdeModel.Model.Blocks
namespace Verde

/-- Order on (squared distance, index): by distance, ties by index. -/
def keyLe (a b : Rat × Nat) : Bool := decide (a.1 < b.1) || (decide (a.1 = b.1) && decide (a.2 ≤ b.2))

/-- All data points sorted by distance from `q` (ties by index), as (distance², index). -/
def sortedByDist (es ns : List Rat) (q : Rat × Rat) : List (Rat × Nat) :=
  (((es.zip ns).zipIdx).map fun (p, i) => (sqDist q.1 q.2 p.1 p.2, i)).mergeSort keyLe

/-- The `k` nearest data points of a query point. -/
def kNearest (es ns : List Rat) (q : Rat × Rat) (k : Nat) : List (Rat × Nat) := (sortedByDist es ns q).take k

/-- `KNeighbors(k, reduction).predict` at the query points. -/
def knnPredict (es ns data : List Rat) (k : Nat) (red : Red) (qs : List (Rat × Rat)) : List Rat :=
  qs.map fun q => red.apply ((kNearest es ns q k).map fun p => data.getD p.2 0)

/-- `median_distance`: for each point the squared distances to its `k` nearest *other* points
    (the nearest neighbour — the point itself — is dropped).  The harness takes square roots and the median. -/
def nearestOthersSq (es ns : List Rat) (k : Nat) : List (List Rat) :=
  (es.zip ns).map fun p => ((kNearest es ns p (k + 1)).drop 1).map (·.1)

/-- `distance_mask`: true where the nearest data point is no farther than `maxdist` (`d² ≤ maxdist²`, `maxdist ≥ 0`). -/
def distanceMask (es ns : List Rat) (maxdist : Rat) (qs : List (Rat × Rat)) : List Bool :=
  qs.map fun q => match (kNearest es ns q 1).head? with
    | some (d2, _) => decide (0 ≤ maxdist) && decide (d2 ≤ maxdist * maxdist)
    | none => false

end Verde
