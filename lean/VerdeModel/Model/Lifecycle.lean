/-
  Model of the input validation of base/utils.py (check_fit_input, check_coordinates) and of the estimator life cycle
  (fit / predict / clone / get_params+set_params) including VectorSpline2D's documented memory of its first force locations.
-/
import VerdeModel.Model.Chain
namespace Verde

abbrev Shape := List Nat
def shapeSize (s : Shape) : Nat := s.foldl (· * ·) 1

/-- `check_fit_input` as a decision over array shapes: coordinates all of one shape, every data component of that shape,
    and — when weights are given — one weight array per data component, each with the data's number of elements. -/
def checkFitInput (coords data : List Shape) (weights : Option (List Shape)) : Except Err Unit :=
  match coords with
  | [] =>
    -- no coordinate arrays: `coordinates[0]` is an IndexError as soon as there is a data array to compare it with
    if !data.isEmpty then .error .other
    else match weights with
      | none => .ok ()
      | some ws => if ws.length ≠ data.length then .error .valueError else .ok ()
  | c0 :: cs =>
    if !(cs.all fun c => c == c0) then .error .valueError
    else if !(data.all fun d => d == c0) then .error .valueError
    else match weights with
      | none => .ok ()
      | some ws =>
        if ws.isEmpty then .ok ()        -- an empty tuple of weights holds no weight: treated as "no weights"
        else if ws.length ≠ data.length then .error .valueError
        else if !(ws.all fun w => data.all fun d => shapeSize w == shapeSize d) then .error .valueError
        else .ok ()

/-! Primitives the statement-by-statement translation of `check_coordinates` / `check_fit_input` (Gen/Base.lean) is written in:
    an array is represented by its shape (`.shape` is the value itself, `.size` the product). -/
/-- `shapes[k]` (`IndexError` when out of range). -/
def idxS (l : List Shape) (k : Nat) : Except Err Shape :=
  match l[k]? with | some v => .ok v | none => .error .other
/-- `w.size` where `w` may be `None` (`AttributeError`). -/
def sizeOpt : Option Shape → Except Err Nat
  | some s => .ok (shapeSize s)
  | none => .error .other

/-! ### Life cycle -/

/-- Estimator state: constructor parameters `π` (kept by clone / get_params) and the fitted attributes, if any. -/
structure EstState (π σ : Type) where
  params : π
  fitted : Option σ

inductive LifeOp (π : Type) where
  | fit (rows : Rows)
  | clone                      -- `sklearn.base.clone`: same parameters, nothing fitted
  | setParams (p : π)          -- `set_params(**get_params())`-style update
  | predict (q : List (List Rat))

/-- An estimator class: how `fit` computes the fitted attributes from (current parameters, data), and which parameter
    update `fit` performs on itself (identity for every estimator except VectorSpline2D). -/
structure EstClass (π σ : Type) where
  fit : π → Rows → σ
  paramsAfterFit : π → Rows → π
  predict : σ → List (List Rat) → Data

def lifeStep {π σ : Type} (E : EstClass π σ) (s : EstState π σ) : LifeOp π → EstState π σ
  | .fit r => ⟨E.paramsAfterFit s.params r, some (E.fit (E.paramsAfterFit s.params r) r)⟩
  | .clone => ⟨s.params, none⟩
  | .setParams p => ⟨p, s.fitted⟩
  | .predict _ => s

def lifeRun {π σ : Type} (E : EstClass π σ) (s : EstState π σ) (ops : List (LifeOp π)) : EstState π σ :=
  ops.foldl (lifeStep E) s

/-- `predict`: an error before fitting (`check_is_fitted`). -/
def lifePredict {π σ : Type} (E : EstClass π σ) (s : EstState π σ) (q : List (List Rat)) : Except Err Data :=
  match s.fitted with
  | some st => .ok (E.predict st q)
  | none => .error .notFitted

/-- Ordinary estimators: `fit` does not touch the parameters. -/
def plainClass {π σ : Type} (fit : π → Rows → σ) (predict : σ → List (List Rat) → Data) : EstClass π σ :=
  ⟨fit, fun p _ => p, predict⟩

/-- VectorSpline2D: the parameter `force_coords` is filled by the first fit with that fit's coordinates and reused afterwards. -/
def vs2dClass {σ : Type} (fit : Option (List (List Rat)) → Rows → σ) (predict : σ → List (List Rat) → Data) :
    EstClass (Option (List (List Rat))) σ :=
  ⟨fit, fun fc r => match fc with | some c => some c | none => some (r.coords.take 2), predict⟩

end Verde
