/-
  Model of load_surfer (io.py) at token level.  Number lexing (`int()`, `float()`, `numpy.loadtxt`) is delegated: tokens
  reach the model as exact rationals of the parsed values (already rounded to the requested dtype), or as `bad` tokens.
-/
import VerdeModel.Model.Grid
namespace Verde

/-- A header token as Python's `int()` / `float()` see it. -/
inductive Tok where
  | int (n : Int)          -- an integer literal: valid for `int()` and `float()`
  | num (q : Rat)          -- a non-integer number literal: valid for `float()` only
  | bad                    -- not a number
  deriving Repr, DecidableEq

def Tok.asInt : Tok → Option Int
  | .int n => some n
  | _ => none
def Tok.asNum : Tok → Option Rat
  | .int n => some (n : Rat)
  | .num q => some q
  | .bad => none

structure SurferFile where
  gridId : String
  shapeLine : List Tok
  nsLine : List Tok           -- south north
  weLine : List Tok           -- west east
  rangeLine : List Tok        -- zmin zmax
  body : List (List Rat)      -- one token list per non-empty body line
  isPath : Bool
  blank : Rat                 -- `1.70141e38` at the array's dtype (`surferBlank` for float64)

structure SurferGrid where
  shape : List Int
  northing : List Rat
  easting : List Rat
  values : List (List (Option Rat))     -- `none` = NaN (blanked)
  gridId : String
  deriving Repr, DecidableEq

inductive IOEv where | open | read | close
  deriving Repr, DecidableEq

/-- Blank-value threshold `1.70141e38` (as the double the code compares with). -/
def surferBlank : Rat := 170141000000000007096036300471486382080

structure SurferHeader where
  shape : List Int
  south : Rat
  north : Rat
  west : Rat
  east : Rat
  range : List Rat

def optOk {α : Type} (o : Option α) : Except Err α := match o with | some a => .ok a | none => .error .valueError
def twoOk (o : Option (List Rat)) : Except Err (Rat × Rat) :=
  match o with | some [a, b] => .ok (a, b) | _ => .error .valueError

/-- `_read_surfer_header` after the id line: counts, south/north, west/east, data range. -/
def parseHeader (f : SurferFile) : Except Err SurferHeader := do
  let shape ← optOk (f.shapeLine.mapM Tok.asInt)
  let ns ← twoOk (f.nsLine.mapM Tok.asNum)
  let we ← twoOk (f.weLine.mapM Tok.asNum)
  let range ← optOk (f.rangeLine.mapM Tok.asNum)
  pure ⟨shape, ns.1, ns.2, we.1, we.2, range⟩

/-! Primitives the statement-by-statement translation of `_read_surfer_header` / `_check_surfer_integrity` (Gen/IO.lean) is written in. -/

/-- One line of the file as the code sees it: `.strip()` and the tokens of `.split()`. -/
structure SLine where
  stripped : String
  toks : List Tok
  deriving Repr

/-- `input_file.readline()`: the next line and the rest of the file (`''` at end of file). -/
def readlineS : List SLine → SLine × List SLine
  | [] => (⟨"", []⟩, [])
  | l :: rest => (l, rest)
/-- `[int(i.strip()) for i in tokens]` (`ValueError` on a token `int()` rejects). -/
def intsE (t : List Tok) : Except Err (List Int) := optOk (t.mapM Tok.asInt)
/-- `[float(i.strip()) for i in tokens]`. -/
def floatsE (t : List Tok) : Except Err (List Rat) := optOk (t.mapM Tok.asNum)
/-- `a, b = values` (`ValueError` unless there are exactly two). -/
def unpack2 (l : List Rat) : Except Err (Rat × Rat) :=
  match l with | [a, b] => .ok (a, b) | _ => .error .valueError
/-- `array.min()` / `array.max()` (`ValueError` on an empty array). -/
def minE (v : List Rat) : Except Err Rat := optOk (listMin v)
def maxE (v : List Rat) : Except Err Rat := optOk (listMax v)
/-- `numpy.allclose([a, b], other)`: element-wise with broadcasting of a single value; other lengths do not broadcast (`ValueError`). -/
def allclose2E (a b : Rat) (other : List Rat) : Except Err Bool :=
  match other with
  | [lo, hi] => .ok (allclose1 a lo && allclose1 b hi)
  | [v] => .ok (allclose1 a v && allclose1 b v)
  | _ => .error .valueError

/-- `numpy.loadtxt` on the body lines: a rectangular array (`ValueError` for ragged rows). -/
def loadtxtE (body : List (List Rat)) : Except Err (List (List Rat)) :=
  if body.all fun r => r.length == (body.headD []).length then .ok body else .error .valueError
/-- `shape[k]` of a tuple of ints (`IndexError` when out of range). -/
def idxI (l : List Int) (k : Nat) : Except Err Int :=
  match l[k]? with | some v => .ok v | none => .error .other

def maskRow (blank : Rat) (r : List Rat) : List (Option Rat) := r.map fun v => if v ≥ blank then none else some v

/-- Shape of the array `numpy.loadtxt` returns (1-D for a single row). -/
def fieldShape (body : List (List Rat)) : List Int :=
  if body.length = 1 then [((body.headD []).length : Int)] else [(body.length : Int), ((body.headD []).length : Int)]

/-- `numpy.allclose([min, max], data_range)` over the unmasked values (a single header value broadcasts against both). -/
def rangeCheck (range : List Rat) (vals : List Rat) : Except Err Unit :=
  match range, listMin vals, listMax vals with
  | [lo, hi], some mn, some mx => if allclose1 mn lo && allclose1 mx hi then .ok () else .error .ioError
  | [v], some mn, some mx => if allclose1 mn v && allclose1 mx v then .ok () else .error .ioError
  | _, _, _ => .error .valueError

def guardE (c : Bool) (e : Err) : Except Err Unit := if c then .ok () else .error e

def gridOfShape (f : SurferFile) (h : SurferHeader) : Except Err SurferGrid :=
  match h.shape with
  | [ny, nx] => .ok ⟨h.shape, linspace h.south h.north ny.toNat, linspace h.west h.east nx.toNat,
      f.body.map (maskRow f.blank), f.gridId⟩
  | _ => .error .other

def loadBody (f : SurferFile) (h : SurferHeader) : Except Err SurferGrid := do
  guardE (f.body.all fun r => r.length == (f.body.headD []).length) .valueError   -- loadtxt: ragged rows
  guardE (decide (fieldShape f.body = h.shape)) .ioError                            -- integrity: shape
  rangeCheck h.range ((f.body.map (maskRow f.blank)).flatten.filterMap id)          -- integrity: data range
  gridOfShape f h

/-- `load_surfer`: result and the resource trace of the file handle. -/
def loadSurfer (f : SurferFile) : Except Err SurferGrid × List IOEv :=
  (parseHeader f >>= loadBody f, if f.isPath then [IOEv.open, IOEv.read, IOEv.close] else [IOEv.read])

end Verde
