/-
  Model of BaseGridder.filter, Chain and Vector (base_classes.py, chain.py, vector.py) over abstract steps,
  plus an interpreter of concrete step descriptions (Trend, MomentGridder, KNeighbors, BlockReduce, BlockMean,
  nested Chain, Vector) used by the correspondence.
-/
import VerdeModel.Model.Score
import VerdeModel.Model.LinAlg
import VerdeModel.Model.Neighbors
namespace Verde

abbrev Data := List (List Rat)
/-- A fitted gridder seen from outside: coordinates ↦ one prediction list per component. -/
abbrev Predictor := List (List Rat) → Except Err Data

def dsub (a b : Data) : Data := List.zipWith (List.zipWith (· - ·)) a b
def dadd (a b : Data) : Data := List.zipWith (List.zipWith (· + ·)) a b

/-- A step of a chain: `filter` fits the step on the arguments and returns what the next step receives,
    together with the step's predictor if it can predict. -/
structure Step where
  filter : Rows → Except Err (Rows × Option Predictor)

/-- `BaseGridder.filter`: fit, then return the same coordinates and weights and data minus prediction. -/
def gridderStep (fit : Rows → Except Err Predictor) : Step where
  filter r := do
    let p ← fit r
    let pred ← p r.coords
    pure (⟨r.coords, dsub r.data pred, r.weights⟩, some p)

/-- A block reduction: new (reduced) arguments, no predictor. -/
def reduceStep (f : Rows → Except Err Rows) : Step where
  filter r := do pure (← f r, none)

/-- `Chain.fit`: thread the arguments through the steps; collect the predictors of the steps that can predict. -/
def chainThread : List Step → Rows → Except Err (Rows × List Predictor)
  | [], r => pure (r, [])
  | s :: ss, r => do
    let (r', p) ← s.filter r
    let (rf, ps) ← chainThread ss r'
    pure (rf, match p with | some q => q :: ps | none => ps)

/-- `Chain.predict`: component-wise sum of the predictions of the steps that can predict (none ⇒ TypeError). -/
def sumPredictors (ps : List Predictor) : Predictor := fun q =>
  match ps with
  | [] => Except.error Err.typeError
  | p :: rest => do
    let first ← p q
    rest.foldlM (fun acc pk => do pure (dadd acc (← pk q))) first

/-! Primitives the statement-by-statement translation of `Chain.fit` / `Chain.predict` (Gen/Chain.lean) is written in.  A fitted step is
    seen through what `fit` left in it: its predictor, if it has a `predict` method. -/
/-- One accumulated component: the integer `0` it starts as (`none`) or an array. -/
abbrev Acc := Option (List Rat)
/-- `[0 for i in range(n)]`. -/
def zerosAcc (n : Nat) : List Acc := List.replicate n none
/-- `acc + pred` (`0 + array` is the array; arrays add element by element). -/
def addAcc (a : Acc) (p : List Rat) : Acc :=
  match a with | none => some p | some x => some (List.zipWith (· + ·) x p)
/-- `result[i]` (`IndexError` when out of range). -/
def getAcc (r : List Acc) (i : Nat) : Except Err Acc :=
  match r[i]? with | some v => .ok v | none => .error .other
/-- `result[i] = v` (the index was just read, so it exists). -/
def setAcc (r : List Acc) (i : Nat) (v : Acc) : List Acc := r.set i v
/-- `len(result)` where `result` may still be `None` (`TypeError`: no step could predict). -/
def lenAccE (r : Option (List Acc)) : Except Err (List Acc) :=
  match r with | some x => .ok x | none => .error .typeError

/-- A chain used as a gridder (fit then predict). -/
def chainFit (steps : List Step) : Rows → Except Err Predictor := fun r => do
  let (_, ps) ← chainThread steps r
  pure (sumPredictors ps)

/-- `Vector.fit` / `predict`: component `i` is fitted to `data[i]` with `weights[i]` only (the three sequences are walked together, as the
    code's `zip(self.components, data, weights)` does; `check_fit_input` has turned a missing `weights` into one `None` per component). -/
def vectorFit (comps : List (Rows → Except Err Predictor)) : Rows → Except Err Predictor := fun r => do
  if r.data.length < 2 then Except.error Err.valueError
  if (match r.weights with | some ws => ws.length != r.data.length | none => false) then Except.error Err.valueError
  let ws' : List (Option (List Rat)) := match r.weights with
    | some ws => ws.map some
    | none => r.data.map fun _ => none
  let fitted ← (comps.zip (r.data.zip ws')).mapM fun x => x.1 ⟨r.coords, [x.2.1], x.2.2.map fun w => [w]⟩
  pure fun q => do
    let parts ← fitted.mapM fun p => p q
    pure (parts.map fun d => d.getD 0 [])

/-! ### Concrete steps for the correspondence -/

inductive StepSpec where
  | trend (deg : Nat)
  | moment
  | knn (k : Nat) (red : Red)
  | blockReduce (b : BlockSpec) (r : ReduceSpec)
  | blockMean (b : BlockSpec) (centre drop unc : Bool)
  | chain (steps : List StepSpec)
  | vector (comps : List StepSpec)

def trendFitP (deg : Nat) : Rows → Except Err Predictor := fun r =>
  match r.data with
  | [d] =>
    let es := r.coords.getD 0 []
    let ns := r.coords.getD 1 []
    match trendFit es ns d (r.weights.bind (·[0]?)) deg with
    | some c => pure fun q => pure [((q.getD 0 []).zip (q.getD 1 [])).map fun (x, y) => trendPredict c deg x y]
    | none => Except.error Err.other
  | _ => Except.error Err.other

def momentFitP : Rows → Except Err Predictor := fun r =>
  let st := momentFit r
  pure fun q => pure (momentPredict st q)

def knnFitP (k : Nat) (red : Red) : Rows → Except Err Predictor := fun r =>
  match r.data with
  | [d] =>
    let es := r.coords.getD 0 []
    let ns := r.coords.getD 1 []
    pure fun q => pure [knnPredict es ns d k red ((q.getD 0 []).zip (q.getD 1 []))]
  | _ => Except.error Err.other

mutual
  /-- The gridder view (fit ↦ predictor) of a step description; block reductions cannot predict. -/
  def StepSpec.fitP : StepSpec → Rows → Except Err Predictor
    | .trend d => trendFitP d
    | .moment => momentFitP
    | .knn k red => knnFitP k red
    | .blockReduce _ _ => fun _ => Except.error Err.other
    | .blockMean _ _ _ _ => fun _ => Except.error Err.other
    | .chain ss => chainFit (StepSpec.stepsOf ss)
    | .vector cs => vectorFit (StepSpec.fitPs cs)
  def StepSpec.toStep : StepSpec → Step
    | .blockReduce b r => reduceStep fun rows => do
        let (c, d) ← Verde.blockReduce rows.coords rows.data rows.weights b r
        pure ⟨c, d, none⟩                          -- BlockReduce.filter returns no weights
    | .blockMean b centre drop unc => reduceStep fun rows => do
        let (c, d, w) ← Verde.blockMean rows.coords rows.data rows.weights b centre drop unc
        pure ⟨c, d, some w⟩
    | .trend d => gridderStep (trendFitP d)
    | .moment => gridderStep momentFitP
    | .knn k red => gridderStep (knnFitP k red)
    | .chain ss => gridderStep (chainFit (StepSpec.stepsOf ss))
    | .vector cs => gridderStep (vectorFit (StepSpec.fitPs cs))
  def StepSpec.stepsOf : List StepSpec → List Step
    | [] => []
    | s :: ss => StepSpec.toStep s :: StepSpec.stepsOf ss
  def StepSpec.fitPs : List StepSpec → List (Rows → Except Err Predictor)
    | [] => []
    | s :: ss => StepSpec.fitP s :: StepSpec.fitPs ss
end

end Verde
