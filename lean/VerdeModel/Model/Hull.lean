/-
  Model of convexhull_mask (mask.py): exact point-in-convex-hull test, and the output grid of project_grid (projections.py).
  The Delaunay triangulation of the implementation is replaced by "some non-degenerate triangle of data points contains the point".
-/
import VerdeModel.Model.Coords
namespace Verde

abbrev Pt := Rat × Rat

/-- Twice the signed area of triangle `abc`. -/
def orient (a b c : Pt) : Rat := (b.1 - a.1) * (c.2 - a.2) - (b.2 - a.2) * (c.1 - a.1)

/-- `p` lies in the closed triangle `abc` (non-degenerate). -/
def inTriangle (p a b c : Pt) : Bool :=
  let d := orient a b c
  let o1 := orient p b c
  let o2 := orient a p c
  let o3 := orient a b p
  decide (d ≠ 0) && ((decide (0 < d) && decide (0 ≤ o1) && decide (0 ≤ o2) && decide (0 ≤ o3)) ||
                     (decide (d < 0) && decide (o1 ≤ 0) && decide (o2 ≤ 0) && decide (o3 ≤ 0)))

/-- `p` is in the convex hull of `S`: some non-degenerate triangle of points of `S` contains it. -/
def inHull (S : List Pt) (p : Pt) : Bool :=
  S.any fun a => S.any fun b => S.any fun c => inTriangle p a b c

/-- The normalisation applied by `convexhull_mask`: `(x − mean) / std` per coordinate (`std > 0`). -/
def normalise (mx sx my sy : Rat) (p : Pt) : Pt := ((p.1 - mx) / sx, (p.2 - my) / sy)

def convexHullMask (S : List Pt) (qs : List Pt) : List Bool := qs.map (inHull S)

/-! Primitives of the translation of `convexhull_mask` (Gen/Mask.lean). -/
/-- `f(a, b, c) for a, b, c in zip(as, bs, cs)`. -/
def zip3With {α β γ δ : Type} (f : α → β → γ → δ) : List α → List β → List γ → List δ
  | a :: as, b :: bs, c :: cs => f a b c :: zip3With f as bs cs
  | _, _, _ => []
/-- `Delaunay(np.transpose(data)).find_simplex(np.transpose(queries)) != -1` on tables of two coordinate arrays: SciPy's contract is the
    exact point-in-hull predicate of the model. -/
def delaunayContains (data queries : List (List Rat)) : List Bool :=
  convexHullMask ((data.getD 0 []).zip (data.getD 1 [])) ((queries.getD 0 []).zip (queries.getD 1 []))

/-- `shape_to_spacing(region, shape)` on a region given as a plain sequence (no validity check: Python unpacks four numbers and divides). -/
def shapeToSpacingList (region : List Rat) (shape : Nat × Nat) : Except Err (List Rat) :=
  match region with
  | [w, e, s, n] => (match shapeToSpacing ⟨w, e, s, n⟩ shape false with | some (sn, se) => .ok [sn, se] | none => .error .zeroDiv)
  | _ => .error .valueError

/-- Output grid lines of `project_grid`: region = bounding box of the projected data points (or the given one),
    spacing = `shape_to_spacing(region, shape)` (or the given one), then `grid_coordinates(region, spacing=…)`. -/
def projectGridLines (pe pn : List Rat) (shape : Nat × Nat) (region : Option (List Rat)) (spacing : Option (List Rat)) :
    Except Err (List Rat × List Rat) := do
  let reg ← match region with
    | some r => pure r
    | none => match getRegion pe pn with
      | some r => pure [r.w, r.e, r.s, r.n]
      | none => Except.error Err.valueError
  let r ← checkRegion reg
  let sp ← match spacing with
    | some s => pure s
    | none => match shapeToSpacing r shape false with
      | some (sn, se) => pure [sn, se]
      | none => Except.error Err.zeroDiv
  gridLines reg ⟨none, some sp, .spacing, false⟩

end Verde
