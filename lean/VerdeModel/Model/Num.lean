/-
  Exact arithmetic helpers shared by the whole model (core Lean only).
-/
import VerdeModel.Model.Val
namespace Verde

/-- Python's `round()` on a real number: nearest integer, ties to even. -/
def roundHalfEven (q : Rat) : Int :=
  let f := q.floor
  let r := q - (f : Rat)
  if r < 1/2 then f else if r > 1/2 then f + 1 else if f % 2 = 0 then f else f + 1

/-- Python's `%` on reals (sign of the divisor). -/
def pyMod (x m : Rat) : Rat := x - m * ((x / m).floor : Rat)

def ratAbs (q : Rat) : Rat := if q < 0 then -q else q
def ratMin (a b : Rat) : Rat := if b < a then b else a
def ratMax (a b : Rat) : Rat := if a < b then b else a

/-- `min`/`max` of a non-empty list (as numpy: first argument order is irrelevant). -/
def listMin : List Rat → Option Rat
  | [] => none
  | x :: xs => some (xs.foldl ratMin x)
def listMax : List Rat → Option Rat
  | [] => none
  | x :: xs => some (xs.foldl ratMax x)

def listSum (xs : List Rat) : Rat := xs.sum

/-- `numpy.allclose(a, b)` on scalars with default tolerances: `|a-b| ≤ 1e-8 + 1e-5·|b|`. -/
def allclose1 (a b : Rat) : Bool :=
  decide (ratAbs (a - b) ≤ mkRat 1 100000000 + mkRat 1 100000 * ratAbs b)

/-- `numpy.linspace(start, stop, n)` in exact arithmetic. -/
def linspace (start stop : Rat) (n : Nat) : List Rat :=
  if n = 1 then [start]
  else (List.range n).map fun (i : Nat) => start + (i : Rat) * ((stop - start) / ((n : Rat) - 1))

end Verde
