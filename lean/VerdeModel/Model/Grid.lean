/-
  Model of make_xarray_grid / meshgrid_to_1d / meshgrid_from_1d / check_meshgrid / grid_to_table (utils.py)
  and the name checks of base/utils.py.
-/
import VerdeModel.Model.Coords
namespace Verde

abbrev Arr2 := List (List Rat)

def isRect (a : Arr2) (nr nc : Nat) : Bool := a.length == nr && a.all (fun r => r.length == nc)
def ncols (a : Arr2) : Nat := (a.headD []).length
def ravel2 (a : Arr2) : List Rat := a.flatten

inductive CoordArr where
  | d1 (v : List Rat)
  | d2 (a : Arr2)
  deriving Repr

structure Dataset where
  dims : String × String            -- (row dimension, column dimension) = (northing, easting) by default
  east : List Rat
  north : List Rat
  extras : List (String × Arr2)
  vars : List (String × Arr2)
  deriving Repr

/-- `check_meshgrid`: every row of `E` is allclose to its first row, every column of `N` allclose to its first column. -/
def checkMeshgrid (E N : Arr2) : Bool :=
  let e0 := E.headD []
  (E.all fun row => row.length == e0.length && (List.zipWith allclose1 e0 row).all id) &&
  (N.all fun row => row.all fun v => allclose1 (row.headD 0) v)

/-- `meshgrid_to_1d`: shapes must agree (extras too), inputs must be meshgrids; returns `E[0, :]`, `N[:, 0]`. -/
def meshgridTo1d (E N : Arr2) (extras : List Arr2) : Except Err (List Rat × List Rat) :=
  let nr := E.length
  let nc := ncols E
  if !(isRect E nr nc && isRect N nr nc && extras.all fun x => isRect x nr nc) then .error .valueError
  else if !checkMeshgrid E N then .error .valueError
  else .ok (E.headD [], N.map fun row => row.headD 0)

/-- `meshgrid_from_1d` (= `numpy.meshgrid(east, north)`). -/
def meshgridFrom1d (east north : List Rat) : Arr2 × Arr2 := meshgrid east north

def checkNames (n : Nat) (names : Option (List String)) : Except Err (List String) :=
  match names with
  | none => .error .valueError
  | some ns => if ns.length = n then .ok ns else .error .valueError

/-- `make_xarray_grid`. -/
def makeGrid (east north : CoordArr) (extras : List Arr2) (data : Option (List Arr2))
    (dataNames : Option (List String)) (dims : String × String) (extraNames : Option (List String)) :
    Except Err Dataset := do
  let (e1, n1) ← match east, north with
    | .d1 e, .d1 n => pure (e, n)
    | .d2 E, .d2 N => meshgridTo1d E N extras
    | _, _ => Except.error Err.valueError
  let exNames ← if extras.isEmpty then pure [] else checkNames extras.length extraNames
  let (dNames, dArrs) ← match data with
    | none => pure ([], [])
    | some ds => do let ns ← checkNames ds.length dataNames; pure (ns, ds)
  -- xarray refuses arrays whose shape is not (len(north), len(east))
  if !((extras ++ dArrs).all fun a => isRect a n1.length e1.length) then Except.error Err.valueError
  pure ⟨dims, e1, n1, exNames.zip extras, dNames.zip dArrs⟩

/-! Primitives the statement-by-statement translation of `grid_to_table` (Gen/Grid.lean) is written in: the xarray container seen through
    look-ups by name. -/
/-- `grid[name].values` for a data variable. -/
def Dataset.varOf (ds : Dataset) (name : String) : Arr2 := ((ds.vars.find? fun p => p.1 == name).map (·.2)).getD []
/-- `grid[name].values` for a non-index coordinate. -/
def Dataset.extraOf (ds : Dataset) (name : String) : Arr2 := ((ds.extras.find? fun p => p.1 == name).map (·.2)).getD []
/-- `grid.coords[name].values` for an index coordinate (dims[0] holds the northings, dims[1] the eastings). -/
def Dataset.coordOf (ds : Dataset) (name : String) : List Rat :=
  if name == ds.dims.1 then ds.north else if name == ds.dims.2 then ds.east else []

/-- `grid_to_table`: one row per cell in row-major order; columns = (dims[0], dims[1], extras…, variables…). -/
def gridToTable (ds : Dataset) : List (String × List Rat) :=
  let ne := ds.east.length
  let nn := ds.north.length
  let cells := List.range (nn * ne)
  (ds.dims.1, cells.map fun k => ds.north.getD (k / ne) 0) ::
  (ds.dims.2, cells.map fun k => ds.east.getD (k % ne) 0) ::
  (ds.extras.map fun (nm, a) => (nm, ravel2 a)) ++ (ds.vars.map fun (nm, a) => (nm, ravel2 a))

end Verde
