/-
  Model of make_xarray_grid / meshgrid_to_1d / meshgrid_from_1d / check_meshgrid / grid_to_table (utils.py)
  and the name checks of base/utils.py.
-/
import VerdeModel.Model.Coords
namespace Verde

abbrev Arr2 := List (List Rat)

def isRect (a : Arr2) (nr nc : Nat) : Bool := a.length == nr && a.all (fun r => r.length == nc)
def ncols (a : Arr2) : Nat := (a.headD []).length
def ravel2 (a : Arr2) : List Rat := a.flatten

inductive CoordArr where
  | d1 (v : List Rat)
  | d2 (a : Arr2)
  deriving Repr

structure Dataset where
  dims : String × String            -- (row dimension, column dimension) = (northing, easting) by default
  east : List Rat
  north : List Rat
  extras : List (String × Arr2)
  vars : List (String × Arr2)
  deriving Repr

/-- `check_meshgrid`: every row of `E` is allclose to its first row, every column of `N` allclose to its first column. -/
def checkMeshgrid (E N : Arr2) : Bool :=
  let e0 := E.headD []
  (E.all fun row => row.length == e0.length && (List.zipWith allclose1 e0 row).all id) &&
  (N.all fun row => row.all fun v => allclose1 (row.headD 0) v)

/-- `meshgrid_to_1d`: shapes must agree (extras too), inputs must be meshgrids; returns `E[0, :]`, `N[:, 0]`. -/
def meshgridTo1d (E N : Arr2) (extras : List Arr2) : Except Err (List Rat × List Rat) :=
  let nr := E.length
  let nc := ncols E
  if !(isRect E nr nc && isRect N nr nc && extras.all fun x => isRect x nr nc) then .error .valueError
  else if !checkMeshgrid E N then .error .valueError
  else .ok (E.headD [], N.map fun row => row.headD 0)

/-- `meshgrid_from_1d` (= `numpy.meshgrid(east, north)`). -/
def meshgridFrom1d (east north : List Rat) : Arr2 × Arr2 := meshgrid east north

def checkNames (n : Nat) (names : Option (List String)) : Except Err (List String) :=
  match names with
  | none => .error .valueError
  | some ns => if ns.length = n then .ok ns else .error .valueError

/-- `make_xarray_grid`. -/
def makeGrid (east north : CoordArr) (extras : List Arr2) (data : Option (List Arr2))
    (dataNames : Option (List String)) (dims : String × String) (extraNames : Option (List String)) :
    Except Err Dataset := do
  let (e1, n1) ← match east, north with
    | .d1 e, .d1 n => pure (e, n)
    | .d2 E, .d2 N => meshgridTo1d E N extras
    | _, _ => Except.error Err.valueError
  let exNames ← if extras.isEmpty then pure [] else checkNames extras.length extraNames
  let (dNames, dArrs) ← match data with
    | none => pure ([], [])
    | some ds => do let ns ← checkNames ds.length dataNames; pure (ns, ds)
  -- xarray refuses arrays whose shape is not (len(north), len(east))
  if !((extras ++ dArrs).all fun a => isRect a n1.length e1.length) then Except.error Err.valueError
  pure ⟨dims, e1, n1, exNames.zip extras, dNames.zip dArrs⟩

/-! Primitives the translation of `make_xarray_grid` / `meshgrid_to_1d` (Gen/MakeGrid.lean) is written in. -/
def CoordArr.toArr2 : CoordArr → Arr2
  | .d2 a => a
  | .d1 v => [v]
/-- `np.ndim` of a coordinate array. -/
def CoordArr.ndim : CoordArr → Nat
  | .d2 _ => 2
  | .d1 _ => 1
/-- `f(*args)` for a function of exactly two positional arguments (`TypeError` for any other number). -/
def star2 {β : Type} (f : CoordArr → CoordArr → Except Err β) (args : List CoordArr) : Except Err β :=
  match args with
  | [a, b] => f a b
  | _ => .error .typeError
/-- The common number of dimensions of the two horizontal coordinate arrays (`get_ndim_horizontal_coords`; `ValueError` if they differ). -/
def ndimHorizontal (xy : List CoordArr) : Except Err Nat :=
  match xy with
  | [.d1 _, .d1 _] => .ok 1
  | [.d2 _, .d2 _] => .ok 2
  | [_, _] => .error .valueError
  | _ => .error .typeError
/-- `check_coordinates(coordinates)` for 2-D arrays: every array has the shape of the first. -/
def checkCoordinates2 (cs : List CoordArr) : Except Err Unit :=
  match cs with
  | [] => .error .other      -- `shapes[0]` of nothing: IndexError
  | c0 :: rest =>
    if isRect c0.toArr2 c0.toArr2.length (ncols c0.toArr2) && rest.all (fun x => isRect x.toArr2 c0.toArr2.length (ncols c0.toArr2))
    then .ok () else .error .valueError
/-- `check_meshgrid(coordinates)`: the first array is constant along its columns' direction, the second along its rows'. -/
def checkMeshgridE (cs : List CoordArr) : Except Err Unit :=
  if checkMeshgrid (cs.getD 0 (.d1 [])).toArr2 (cs.getD 1 (.d1 [])).toArr2 then .ok () else .error .valueError
/-- `a[0, :]` and `a[:, 0]` of a 2-D array. -/
def firstRow (a : CoordArr) : List Rat := a.toArr2.headD []
def firstCol (a : CoordArr) : List Rat := a.toArr2.map fun row => row.headD 0
/-- `xr.Dataset(data_vars, coords)` as `make_xarray_grid` calls it: `index` holds the two index coordinates by dimension name, `extra` the
    non-index coordinates and `vars` the data variables, all on `dims`; xarray refuses an array whose shape is not
    `(len(coords[dims[0]]), len(coords[dims[1]]))` and index coordinates that are not 1-D. -/
def xrDataset (dims : String × String) (index : List (String × CoordArr)) (extra : List (String × Arr2)) (vars : Option (List (String × Arr2))) :
    Except Err Dataset :=
  match ((index.find? (·.1 == dims.2)).map (·.2) : Option CoordArr), ((index.find? (·.1 == dims.1)).map (·.2) : Option CoordArr) with
  | some (CoordArr.d1 e), some (CoordArr.d1 n) =>
    if !((extra.map (·.2) ++ (vars.getD []).map (·.2)).all fun a => isRect a n.length e.length) then .error .valueError
    else .ok ⟨dims, e, n, extra, vars.getD []⟩
  | _, _ => .error .valueError

/-! Primitives the statement-by-statement translation of `grid_to_table` (Gen/Grid.lean) is written in: the xarray container seen through
    look-ups by name. -/
/-- `grid[name].values` for a data variable. -/
def Dataset.varOf (ds : Dataset) (name : String) : Arr2 := ((ds.vars.find? fun p => p.1 == name).map (·.2)).getD []
/-- `grid[name].values` for a non-index coordinate. -/
def Dataset.extraOf (ds : Dataset) (name : String) : Arr2 := ((ds.extras.find? fun p => p.1 == name).map (·.2)).getD []
/-- `grid.coords[name].values` for an index coordinate (dims[0] holds the northings, dims[1] the eastings). -/
def Dataset.coordOf (ds : Dataset) (name : String) : List Rat :=
  if name == ds.dims.1 then ds.north else if name == ds.dims.2 then ds.east else []

/-- `grid_to_table`: one row per cell in row-major order; columns = (dims[0], dims[1], extras…, variables…). -/
def gridToTable (ds : Dataset) : List (String × List Rat) :=
  let ne := ds.east.length
  let nn := ds.north.length
  let cells := List.range (nn * ne)
  (ds.dims.1, cells.map fun k => ds.north.getD (k / ne) 0) ::
  (ds.dims.2, cells.map fun k => ds.east.getD (k % ne) 0) ::
  (ds.extras.map fun (nm, a) => (nm, ravel2 a)) ++ (ds.vars.map fun (nm, a) => (nm, ravel2 a))

end Verde
