/-
  Closed-form kernels of verde (spline.py, vector.py, synthetic.py), written ONCE, generically over a small
  class `RealLike`.  Instance `Float` (here) executes them in the driver; instance `PReal` (partial reals,
  Lemmas/PReal.lean) is what the theorems of C03 are about.
-/
import VerdeModel.Model.Num
namespace Verde

class RealLike (α : Type) extends Add α, Sub α, Mul α, Div α, Neg α, LT α where
  lit : Nat → α
  sqrt : α → α
  log : α → α
  rpow : α → α → α
  sin : α → α
  cos : α → α
  pi : α
  decLt : (a b : α) → Decidable (a < b)

instance : RealLike Float where
  lit := Float.ofNat
  sqrt := Float.sqrt
  log := Float.log
  rpow := Float.pow
  sin := Float.sin
  cos := Float.cos
  pi := 3.141592653589793
  decLt := fun a b => inferInstanceAs (Decidable (a < b))

section
variable {α : Type} [RealLike α]
open RealLike

instance (a b : α) : Decidable (a < b) := decLt a b

/-- `spline.greens_func_numpy` / `greens_func_jit`: `r = sqrt(e² + n²) + mindist`;
    `r·(log(r^r) − r)` below 1, `r²·(log r − 1)` otherwise. -/
def greens (east north mindist : α) : α :=
  let distance := sqrt (east * east + north * north)
  let distance := distance + mindist
  if distance < lit 1 then distance * (log (rpow distance distance) - distance)
  else distance * distance * (log distance - lit 1)

/-- `vector.greens_func_2d` → `(green_ee, green_nn, green_ne)`. -/
def greens2d (east north mindist poisson : α) : α × α × α :=
  let distance := sqrt (east * east + north * north)
  let distance := distance + mindist
  let ln_r := (lit 3 - poisson) * log distance
  let over_r2 := (lit 1 + poisson) / (distance * distance)
  (ln_r + over_r2 * (north * north), ln_r + over_r2 * (east * east), (-over_r2) * east * north)

/-- `CheckerBoard.predict`. -/
def checker (amplitude wEast wNorth easting northing : α) : α :=
  amplitude * sin ((lit 2 * pi / wEast) * easting) * cos ((lit 2 * pi / wNorth) * northing)

/-- Spline Jacobian: entry `(i, j)` is the kernel between observation `i` and force `j`. -/
def splineJac (obs force : List (α × α)) (mindist : α) : List (List α) :=
  obs.map fun p => force.map fun f => greens (p.1 - f.1) (p.2 - f.2) mindist

/-- `predict_numpy`: loop over forces accumulating `green · force`, starting from 0. -/
def splinePredict (obs force : List (α × α)) (mindist : α) (forces : List α) : List α :=
  obs.map fun p => (force.zip forces).foldl (fun acc fq => acc + greens (p.1 - fq.1.1) (p.2 - fq.1.2) mindist * fq.2) (lit 0)

/-- VectorSpline2D Jacobian: `2·nobs × 2·nforce`, east rows/columns first: `[[G_ee, G_ne], [G_ne, G_nn]]`. -/
def vectorJac (obs force : List (α × α)) (mindist poisson : α) : List (List α) :=
  (obs.map fun p => (force.map fun f => (greens2d (p.1 - f.1) (p.2 - f.2) mindist poisson).1) ++
                    (force.map fun f => (greens2d (p.1 - f.1) (p.2 - f.2) mindist poisson).2.2)) ++
  (obs.map fun p => (force.map fun f => (greens2d (p.1 - f.1) (p.2 - f.2) mindist poisson).2.2) ++
                    (force.map fun f => (greens2d (p.1 - f.1) (p.2 - f.2) mindist poisson).2.1))

/-- `predict_2d_numpy`: forces `[f_east…, f_north…]`. -/
def vectorPredict (obs force : List (α × α)) (mindist poisson : α) (fe fn : List α) : List (α × α) :=
  obs.map fun p => ((force.zip (fe.zip fn))).foldl (fun acc fq =>
    let g := greens2d (p.1 - fq.1.1) (p.2 - fq.1.2) mindist poisson
    (acc.1 + (g.1 * fq.2.1 + g.2.2 * fq.2.2), acc.2 + (g.2.2 * fq.2.1 + g.2.1 * fq.2.2))) (lit 0, lit 0)

end

/-! ### Float plumbing for the driver -/

/-- Exact for images of doubles (denominator a power of two, possibly beyond 2¹⁰²³ for tiny values). -/
def ratToFloat (q : Rat) : Float :=
  let k := q.den.log2
  if q.den == 2 ^ k then (Float.ofInt q.num).scaleB (-(k : Int)) else Float.ofInt q.num / Float.ofNat q.den

/-- Exact value of a finite double as protocol text; `nan` / `inf` / `-inf` otherwise. -/
def floatStr (x : Float) : String :=
  if x.isNaN then "nan" else if x.isInf then (if x < 0 then "-inf" else "inf") else
  let (m, e) := x.frExp
  let mi : Int := (m * 9007199254740992).toInt64.toInt
  let ex : Int := e - 53
  if mi = 0 then "0" else
  if ex ≥ 0 then toString (mi * (2 : Int) ^ ex.toNat)
  else ratStr (mkRat mi ((2 : Nat) ^ (-ex).toNat))

end Verde
