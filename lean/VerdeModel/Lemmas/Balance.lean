/- Balance of partition_by_sum: split points found by `searchsorted(cumsum, k·ideal, side="right")`. -/
import VerdeModel.Lemmas.CV
namespace Verde

/-- Sum of the first `j` block populations. -/
def prefixSum (sizes : List Nat) (j : Nat) : Nat := (sizes.take j).sum

theorem cumsum_getElem (sizes : List Nat) (j : Nat) (hj : j < (cumsum sizes).length) :
    (cumsum sizes)[j] = prefixSum sizes (j + 1) := by
  induction sizes generalizing j with
  | nil => simp [cumsum] at hj
  | cons x xs ih =>
    cases j with
    | zero => simp [cumsum, prefixSum]
    | succ j =>
      have hj' : j < (cumsum xs).length := by simpa [cumsum] using hj
      simp only [cumsum, List.getElem_cons_succ, List.getElem_map, ih j hj', prefixSum, List.take_succ_cons, List.sum_cons]
      omega

theorem prefixSum_mono (sizes : List Nat) (i j : Nat) (h : i ≤ j) : prefixSum sizes i ≤ prefixSum sizes j := by
  unfold prefixSum
  induction sizes generalizing i j with
  | nil => simp
  | cons x xs ih =>
    cases i with
    | zero => simp
    | succ i =>
      cases j with
      | zero => omega
      | succ j => simp only [List.take_succ_cons, List.sum_cons]; have := ih i j (by omega); omega

theorem cumsum_sorted (sizes : List Nat) : (cumsum sizes).Pairwise (· ≤ ·) := by
  rw [List.pairwise_iff_getElem]
  intro i j hi hj hij
  rw [cumsum_getElem _ _ hi, cumsum_getElem _ _ hj]
  exact prefixSum_mono sizes _ _ (by omega)

/-- On a sorted list `searchsorted(side="right")` is a cut: everything before it is `≤ v`, everything from it on is `> v`. -/
theorem countLe_sorted (cs : List Nat) (hs : cs.Pairwise (· ≤ ·)) (v : Nat) :
    (∀ j (h : j < cs.length), j < countLe cs v → cs[j] ≤ v) ∧
    (∀ j (h : j < cs.length), countLe cs v ≤ j → v < cs[j]) := by
  induction cs with
  | nil => simp
  | cons c rest ih =>
    obtain ⟨hc, hrest⟩ := List.pairwise_cons.mp hs
    obtain ⟨ih1, ih2⟩ := ih hrest
    by_cases hcv : c ≤ v
    · have hcount : countLe (c :: rest) v = countLe rest v + 1 := by simp [countLe, hcv]
      constructor
      · intro j h hj
        cases j with
        | zero => simpa using hcv
        | succ j => simp only [List.getElem_cons_succ]; exact ih1 j (by simpa using h) (by omega)
      · intro j h hj
        cases j with
        | zero => omega
        | succ j => simp only [List.getElem_cons_succ]; exact ih2 j (by simpa using h) (by omega)
    · have hall : ∀ x ∈ rest, ¬ x ≤ v := fun x hx => by have := hc x hx; omega
      have hcount : countLe (c :: rest) v = 0 := by
        unfold countLe
        rw [List.length_eq_zero_iff, List.filter_eq_nil_iff]
        intro x hx
        rcases List.mem_cons.mp hx with rfl | hx
        · simpa using hcv
        · simpa using hall x hx
      constructor
      · intro j h hj; omega
      · intro j h _
        cases j with
        | zero => simp only [List.getElem_cons_zero]; omega
        | succ j =>
          simp only [List.getElem_cons_succ]
          have := hall _ (List.getElem_mem (by simpa using h : j < rest.length))
          omega

/-- **Split-point bound.**  The blocks before the split point found for target `v` hold at most `v` points, and — unless the
    split is at the very end — adding the next block (of at most `M` points) exceeds `v`. -/
theorem split_point_bound (sizes : List Nat) (M v : Nat) (hM : ∀ s ∈ sizes, s ≤ M) :
    let i := countLe (cumsum sizes) v
    prefixSum sizes i ≤ v ∧ (i < sizes.length → v < prefixSum sizes i + M) := by
  intro i
  obtain ⟨h1, h2⟩ := countLe_sorted (cumsum sizes) (cumsum_sorted sizes) v
  have hlen := cumsum_length sizes
  have hile : i ≤ sizes.length := by rw [← hlen]; exact countLe_le_length _ _
  constructor
  · cases hi : i with
    | zero => simp [prefixSum]
    | succ j =>
      have hj : j < (cumsum sizes).length := by omega
      have := h1 j hj (by omega)
      rw [cumsum_getElem _ _ hj] at this
      exact this
  · intro hlt
    have hi' : i < (cumsum sizes).length := by omega
    have := h2 i hi' (le_refl _)
    rw [cumsum_getElem _ _ hi'] at this
    have hstep : prefixSum sizes (i + 1) = prefixSum sizes i + sizes[i] := by
      unfold prefixSum
      rw [List.take_succ, List.sum_append]
      simp [List.getElem?_eq_getElem hlt]
    have := hM _ (List.getElem_mem hlt)
    omega

end Verde
