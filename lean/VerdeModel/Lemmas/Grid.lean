/- Row-major raveling lemmas. -/
import VerdeModel.Model.Grid
import VerdeModel.Lemmas.MinMax
namespace Verde

theorem flatten_uniform_length (rows : Arr2) (nc : Nat) (h : ∀ r ∈ rows, r.length = nc) :
    rows.flatten.length = rows.length * nc := by
  induction rows with
  | nil => simp
  | cons r rs ih =>
    simp only [List.flatten_cons, List.length_append, List.length_cons]
    rw [ih (fun r' hr' => h r' (List.mem_cons_of_mem _ hr')), h r List.mem_cons_self]
    ring

/-- Row-major order: element `i·nc + j` of the raveled array is cell `(i, j)`. -/
theorem flatten_uniform_getElem (rows : Arr2) (nc : Nat) (h : ∀ r ∈ rows, r.length = nc)
    (i j : Nat) (hi : i < rows.length) (hj : j < nc) :
    rows.flatten[i * nc + j]? = (rows[i]?.bind fun r => r[j]?) := by
  induction rows generalizing i with
  | nil => simp at hi
  | cons r rs ih =>
    have hr : r.length = nc := h r List.mem_cons_self
    cases i with
    | zero =>
      simp only [Nat.zero_mul, Nat.zero_add, List.flatten_cons, List.getElem?_cons_zero, Option.bind_some]
      rw [List.getElem?_append_left (by omega)]
    | succ i =>
      simp only [List.flatten_cons, List.getElem?_cons_succ]
      rw [List.getElem?_append_right (by rw [hr]; nlinarith)]
      have : (i + 1) * nc + j - r.length = i * nc + j := by rw [hr]; ring_nf; omega
      rw [this]
      exact ih (fun r' hr' => h r' (List.mem_cons_of_mem _ hr')) i (by simpa using hi)

theorem isRect_spec (a : Arr2) (nr nc : Nat) (h : isRect a nr nc = true) :
    a.length = nr ∧ ∀ r ∈ a, r.length = nc := by
  simp only [isRect, Bool.and_eq_true, beq_iff_eq, List.all_eq_true] at h
  exact ⟨h.1, fun r hr => h.2 r hr⟩

theorem allclose1_self (x : Rat) : allclose1 x x = true := by
  unfold allclose1
  simp only [sub_self, decide_eq_true_eq]
  have h1 : ratAbs 0 = 0 := by simp [ratAbs]
  rw [h1, ratAbs_eq_abs]
  have : (0 : Rat) ≤ mkRat 1 100000 * |x| := mul_nonneg (by decide +kernel) (abs_nonneg x)
  have h2 : (0 : Rat) ≤ mkRat 1 100000000 := by decide +kernel
  linarith

end Verde
