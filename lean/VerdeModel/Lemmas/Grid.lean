/- Row-major raveling lemmas. -/
import VerdeModel.Model.Grid
import VerdeModel.Lemmas.MinMax
namespace Verde

theorem flatten_uniform_length (rows : Arr2) (nc : Nat) (h : ∀ r ∈ rows, r.length = nc) :
    rows.flatten.length = rows.length * nc := by
  induction rows with
  | nil => simp
  | cons r rs ih =>
    simp only [List.flatten_cons, List.length_append, List.length_cons]
    rw [ih (fun r' hr' => h r' (List.mem_cons_of_mem _ hr')), h r List.mem_cons_self]
    ring

/-- Row-major order: element `i·nc + j` of the raveled array is cell `(i, j)`. -/
theorem flatten_uniform_getElem (rows : Arr2) (nc : Nat) (h : ∀ r ∈ rows, r.length = nc)
    (i j : Nat) (hi : i < rows.length) (hj : j < nc) :
    rows.flatten[i * nc + j]? = (rows[i]?.bind fun r => r[j]?) := by
  induction rows generalizing i with
  | nil => simp at hi
  | cons r rs ih =>
    have hr : r.length = nc := h r List.mem_cons_self
    cases i with
    | zero =>
      simp only [Nat.zero_mul, Nat.zero_add, List.flatten_cons, List.getElem?_cons_zero, Option.bind_some]
      rw [List.getElem?_append_left (by omega)]
    | succ i =>
      simp only [List.flatten_cons, List.getElem?_cons_succ]
      rw [List.getElem?_append_right (by rw [hr]; nlinarith)]
      have : (i + 1) * nc + j - r.length = i * nc + j := by rw [hr]; ring_nf; omega
      rw [this]
      exact ih (fun r' hr' => h r' (List.mem_cons_of_mem _ hr')) i (by simpa using hi)

theorem isRect_spec (a : Arr2) (nr nc : Nat) (h : isRect a nr nc = true) :
    a.length = nr ∧ ∀ r ∈ a, r.length = nc := by
  simp only [isRect, Bool.and_eq_true, beq_iff_eq, List.all_eq_true] at h
  exact ⟨h.1, fun r hr => h.2 r hr⟩

theorem allclose1_self (x : Rat) : allclose1 x x = true := by
  unfold allclose1
  simp only [sub_self, decide_eq_true_eq]
  have h1 : ratAbs 0 = 0 := by simp [ratAbs]
  rw [h1, ratAbs_eq_abs]
  have : (0 : Rat) ≤ mkRat 1 100000 * |x| := mul_nonneg (by decide +kernel) (abs_nonneg x)
  have h2 : (0 : Rat) ≤ mkRat 1 100000000 := by decide +kernel
  linarith

end Verde

namespace Verde

theorem zipWith_allclose_self (l : List Rat) : (List.zipWith allclose1 l l).all id = true := by
  induction l with
  | nil => simp
  | cons x xs ih => simpa [allclose1_self] using ih

/-- An exact meshgrid passes `meshgrid_to_1d` and gives its axes back (any extra arrays of the same shape). -/
theorem meshgridTo1d_meshgrid (e n : List Rat) (extras : List Arr2) (he : e ≠ []) (hn : n ≠ [])
    (hex : (extras.all fun x => isRect x n.length e.length) = true) :
    meshgridTo1d (meshgrid e n).1 (meshgrid e n).2 extras = .ok (e, n) := by
  obtain ⟨n0, ns, rfl⟩ := List.exists_cons_of_ne_nil hn
  obtain ⟨e0, es, rfl⟩ := List.exists_cons_of_ne_nil he
  have hcol : ((n0 :: ns).map fun y => (e0 :: es).map fun _ => y).map (fun row => row.headD 0) = n0 :: ns := by
    rw [List.map_map]
    conv_rhs => rw [← List.map_id (n0 :: ns)]
    apply List.map_congr_left
    intro y _; simp
  have hrect1 : isRect ((n0 :: ns).map fun _ => e0 :: es) (ns.length + 1) (es.length + 1) = true := by
    simp [isRect]
  have hrect2 : isRect ((n0 :: ns).map fun y => (e0 :: es).map fun _ => y) (ns.length + 1) (es.length + 1) = true := by
    simp [isRect]
  have hmesh : checkMeshgrid ((n0 :: ns).map fun _ => e0 :: es)
      ((n0 :: ns).map fun y => (e0 :: es).map fun _ => y) = true := by
    simp [checkMeshgrid, allclose1_self, zipWith_allclose_self]
  have hnc : ncols ((n0 :: ns).map fun _ => e0 :: es) = es.length + 1 := by simp [ncols]
  have hlen : ((n0 :: ns).map fun _ => e0 :: es).length = ns.length + 1 := by simp
  have hex' : (extras.all fun x => isRect x (ns.length + 1) (es.length + 1)) = true := by simpa using hex
  unfold meshgrid meshgridTo1d
  simp only [hnc, hlen, hrect1, hrect2, hmesh, hex', Bool.and_self, Bool.not_true, Bool.false_eq_true,
    if_false, hcol]
  simp

end Verde
