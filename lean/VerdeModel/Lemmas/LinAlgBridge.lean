/- Bridge between the list-based executable model (Model/LinAlg.lean) and the Fin-indexed least-squares theory. -/
import VerdeModel.Model.LinAlg
import VerdeModel.Lemmas.LeastSquares
import Mathlib.Algebra.BigOperators.Group.List.Basic
namespace Verde
open Finset

theorem range_sum_eq_fin_sum (f : Nat → Rat) (m : Nat) : ((List.range m).map f).sum = ∑ i : Fin m, f i := by
  induction m with
  | zero => simp
  | succ m ih =>
    rw [List.range_succ, List.map_append, List.sum_append, ih, Fin.sum_univ_castSucc]
    simp

/-- The Fin-indexed view of the list model. -/
def matFn (J : Mat) (n : Nat) : Fin J.length → Fin n → Rat := fun i k => matGet J i k
def vecFn (v : Vec) (n : Nat) : Fin n → Rat := fun i => v.getD i 0

/-- **Certificate soundness.**  If the executable checker accepts `p`, then `p` satisfies the normal equations. -/
theorem checker_sound (J : Mat) (d w : Vec) (alpha : Rat) (s p : Vec) (n : Nat)
    (h : normalEqHolds J d w alpha s p n = true) :
    LS.normalEq (matFn J n) (vecFn w J.length) (vecFn d J.length) alpha (vecFn s n) (vecFn p n) := by
  intro j
  unfold normalEqHolds at h
  rw [List.all_eq_true] at h
  have hj := h j.val (List.mem_range.mpr j.isLt)
  rw [decide_eq_true_eq] at hj
  rw [range_sum_eq_fin_sum] at hj
  have e : ∀ i : Fin J.length,
      ((List.range n).map fun k => matGet J i k * p.getD k 0).sum = ∑ k : Fin n, matGet J i k * p.getD k 0 := by
    intro i; exact range_sum_eq_fin_sum (fun k => matGet J i k * p.getD k 0) n
  simp only [e] at hj
  exact hj

theorem colScale2_pos (J : Mat) (j : Nat) : 0 < colScale2 J j := by
  unfold colScale2
  simp only []
  split_ifs with h
  · norm_num
  · have hnn : 0 ≤ ((J.map fun r => r.getD j 0).map fun x =>
        (x - (J.map fun r => r.getD j 0).sum / (J.length : Rat)) * (x - (J.map fun r => r.getD j 0).sum / (J.length : Rat))).sum
        / (J.length : Rat) := by
      apply div_nonneg
      · apply List.sum_nonneg
        intro x hx
        simp only [List.mem_map] at hx
        obtain ⟨y, _, rfl⟩ := hx
        exact mul_self_nonneg _
      · exact Nat.cast_nonneg _
    exact lt_of_le_of_ne hnn (Ne.symm h)

end Verde
