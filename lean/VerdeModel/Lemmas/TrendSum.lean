/-
  Helper lemmas shared by Props/C01.lean and Props/C04.lean: the model's `trendPredict` as a finite sum over the monomial table.
-/
import VerdeModel.Model.LinAlg
import Mathlib.Algebra.BigOperators.Fin
import Mathlib.Algebra.Order.Field.Rat
import Mathlib.Tactic.Ring
namespace Verde.C01
open Verde Finset

/-- A `zipWith`-sum over the monomial table as a sum over its indices (missing coefficients count as 0). -/
theorem zipWith_sum_eq_finsum (g : Nat × Nat → Rat) (combos : List (Nat × Nat)) (cs : List Rat) :
    (List.zipWith (fun c ij => g ij * c) cs combos).sum = ∑ k : Fin combos.length, g combos[k] * cs.getD k 0 := by
  induction combos generalizing cs with
  | nil => simp
  | cons ij rest ih =>
    cases cs with
    | nil =>
      simp only [List.zipWith_nil_left, List.sum_nil, List.getD_nil, mul_zero, Finset.sum_const_zero]
    | cons c more =>
      simp only [List.zipWith_cons_cons, List.sum_cons, List.length_cons]
      rw [Fin.sum_univ_succ, ih more]
      simp

theorem trendPredict_eq_finsum (cs : List Rat) (degree : Nat) (e n : Rat) :
    trendPredict cs degree e n
      = ∑ k : Fin (powerCombinations degree).length, (e ^ ((powerCombinations degree)[k]).1 * n ^ ((powerCombinations degree)[k]).2) * cs.getD k 0 := by
  unfold trendPredict
  exact zipWith_sum_eq_finsum (fun ij => e ^ ij.1 * n ^ ij.2) _ cs

end Verde.C01
