/-
  Planar Carathéodory, elementary version, for the hull model (Model/Hull.lean):
  every convex combination of data points lies in a non-degenerate triangle of data points, provided the data are not all
  collinear.  Used by Props/C16 (`inHull_complete`).
-/
import VerdeModel.Model.Hull
import VerdeModel.Lemmas.Num
import Mathlib.Tactic.Linarith
import Mathlib.Tactic.Ring
import Mathlib.Tactic.FieldSimp
import Mathlib.Tactic.Positivity
import Mathlib.Algebra.Order.Field.Basic
namespace Verde

/-! ### The arithmetic core: moving from a point of a triangle towards a fourth point -/

/-- "`p` lies in the triangle obtained by replacing vertex `i` by `d`" in terms of barycentric numerators
    (`f` of `p`, `e` of `d`, both with respect to the original positively oriented triangle). -/
def Repl (ei ej ek fi fj fk : Rat) : Prop := ei < 0 ∧ fi ≤ 0 ∧ fj * ei - fi * ej ≤ 0 ∧ fk * ei - fi * ek ≤ 0

theorem repl_swap {ei ej ek fi fj fk : Rat} (h : Repl ei ej ek fi fj fk) : Repl ei ek ej fi fk fj :=
  ⟨h.1, h.2.1, h.2.2.2, h.2.2.1⟩

/-- If the barycentric numerator `fi` of `p = (1-t) q + t d` is negative, `p` lies in one of the three triangles having `d`
    as a vertex. -/
theorem carath_pick (t oi oj ok ei ej ek : Rat) (ht0 : 0 ≤ t) (ht1 : t ≤ 1)
    (hoi : 0 ≤ oi) (hoj : 0 ≤ oj) (hok : 0 ≤ ok) (hes : 0 < ei + ej + ek)
    (hfi : (1 - t) * oi + t * ei < 0) :
    Repl ei ej ek ((1 - t) * oi + t * ei) ((1 - t) * oj + t * ej) ((1 - t) * ok + t * ek) ∨
    Repl ej ei ek ((1 - t) * oj + t * ej) ((1 - t) * oi + t * ei) ((1 - t) * ok + t * ek) ∨
    Repl ek ei ej ((1 - t) * ok + t * ek) ((1 - t) * oi + t * ei) ((1 - t) * oj + t * ej) := by
  have h1t : 0 ≤ 1 - t := by linarith
  have hei : ei < 0 := by
    by_contra h
    push Not at h
    have : 0 ≤ (1 - t) * oi + t * ei := add_nonneg (mul_nonneg h1t hoi) (mul_nonneg ht0 h)
    linarith
  have htpos : 0 < t := by
    by_contra h
    have : t = 0 := le_antisymm (not_lt.mp h) ht0
    subst this
    simp at hfi
    linarith
  -- generic facts: f_a * e_b - f_b * e_a = (1 - t) (o_a e_b - o_b e_a)
  have idn : ∀ oa ob ea eb : Rat, ((1 - t) * oa + t * ea) * eb - ((1 - t) * ob + t * eb) * ea
      = (1 - t) * (oa * eb - ob * ea) := by intros; ring
  by_cases hej : ej < 0
  · have hek : 0 < ek := by linarith
    by_cases hc : oj * ei ≤ oi * ej
    · left
      refine ⟨hei, hfi.le, ?_, ?_⟩
      · rw [idn]; exact mul_nonpos_of_nonneg_of_nonpos h1t (by linarith)
      · rw [idn]
        apply mul_nonpos_of_nonneg_of_nonpos h1t
        have := mul_nonpos_of_nonneg_of_nonpos hok hei.le
        have := mul_nonneg hoi hek.le
        linarith
    · right; left
      push Not at hc
      refine ⟨hej, ?_, ?_, ?_⟩
      · -- f_j ≤ 0
        have h1 : (1 - t) * oi * (-ej) ≤ t * (-ei) * (-ej) := by
          have : (1 - t) * oi ≤ t * (-ei) := by linarith
          exact mul_le_mul_of_nonneg_right this (by linarith)
        have h2 : (1 - t) * (oj * (-ei)) ≤ (1 - t) * (oi * (-ej)) := by
          apply mul_le_mul_of_nonneg_left _ h1t
          linarith
        have h3 : ((1 - t) * oj + t * ej) * (-ei) ≤ 0 := by nlinarith
        by_contra hpos
        push Not at hpos
        have : 0 < ((1 - t) * oj + t * ej) * (-ei) := mul_pos hpos (by linarith)
        linarith
      · rw [idn]; exact mul_nonpos_of_nonneg_of_nonpos h1t (by linarith)
      · rw [idn]
        apply mul_nonpos_of_nonneg_of_nonpos h1t
        have := mul_nonpos_of_nonneg_of_nonpos hok hej.le
        have := mul_nonneg hoj hek.le
        linarith
  · push Not at hej
    by_cases hek : ek < 0
    · by_cases hc : ok * ei ≤ oi * ek
      · left
        refine ⟨hei, hfi.le, ?_, ?_⟩
        · rw [idn]
          apply mul_nonpos_of_nonneg_of_nonpos h1t
          have := mul_nonpos_of_nonneg_of_nonpos hoj hei.le
          have := mul_nonneg hoi hej
          linarith
        · rw [idn]; exact mul_nonpos_of_nonneg_of_nonpos h1t (by linarith)
      · right; right
        push Not at hc
        refine ⟨hek, ?_, ?_, ?_⟩
        · have h1 : (1 - t) * oi * (-ek) ≤ t * (-ei) * (-ek) := by
            have : (1 - t) * oi ≤ t * (-ei) := by linarith
            exact mul_le_mul_of_nonneg_right this (by linarith)
          have h2 : (1 - t) * (ok * (-ei)) ≤ (1 - t) * (oi * (-ek)) := by
            apply mul_le_mul_of_nonneg_left _ h1t
            linarith
          have h3 : ((1 - t) * ok + t * ek) * (-ei) ≤ 0 := by nlinarith
          by_contra hpos
          push Not at hpos
          have : 0 < ((1 - t) * ok + t * ek) * (-ei) := mul_pos hpos (by linarith)
          linarith
        · rw [idn]; exact mul_nonpos_of_nonneg_of_nonpos h1t (by linarith)
        · rw [idn]
          apply mul_nonpos_of_nonneg_of_nonpos h1t
          have := mul_nonpos_of_nonneg_of_nonpos hoj hek.le
          have := mul_nonneg hok hej
          linarith
    · push Not at hek
      left
      refine ⟨hei, hfi.le, ?_, ?_⟩
      · rw [idn]
        apply mul_nonpos_of_nonneg_of_nonpos h1t
        have := mul_nonpos_of_nonneg_of_nonpos hoj hei.le
        have := mul_nonneg hoi hej
        linarith
      · rw [idn]
        apply mul_nonpos_of_nonneg_of_nonpos h1t
        have := mul_nonpos_of_nonneg_of_nonpos hok hei.le
        have := mul_nonneg hoi hek
        linarith

end Verde

namespace Verde

/-! ### Geometry: positively oriented triangles -/

/-- `p` lies in the closed, positively oriented, non-degenerate triangle `abc`. -/
def InTriPos (p a b c : Pt) : Prop :=
  0 < orient a b c ∧ 0 ≤ orient p b c ∧ 0 ≤ orient a p c ∧ 0 ≤ orient a b p

theorem orient_swap23 (a b c : Pt) : orient a c b = -orient a b c := by unfold orient; ring
theorem orient_swap12 (a b c : Pt) : orient b a c = -orient a b c := by unfold orient; ring
theorem orient_swap13 (a b c : Pt) : orient c b a = -orient a b c := by unfold orient; ring

theorem inTriangle_iff (p a b c : Pt) : inTriangle p a b c = true ↔ InTriPos p a b c ∨ InTriPos p a c b := by
  unfold inTriangle InTriPos
  rw [orient_swap23 a b c, orient_swap23 p b c, orient_swap23 a p b, orient_swap23 a c p]
  simp only [Bool.and_eq_true, Bool.or_eq_true, decide_eq_true_eq]
  constructor
  · rintro ⟨_, h | h⟩
    · left; exact ⟨h.1.1.1, h.1.1.2, h.1.2, h.2⟩
    · right; exact ⟨by linarith [h.1.1.1], by linarith [h.1.1.2], by linarith [h.2], by linarith [h.1.2]⟩
  · rintro (h | h)
    · exact ⟨ne_of_gt h.1, Or.inl ⟨⟨⟨h.1, h.2.1⟩, h.2.2.1⟩, h.2.2.2⟩⟩
    · exact ⟨by intro h0; linarith [h.1], Or.inr ⟨⟨⟨by linarith [h.1], by linarith [h.2.1]⟩, by linarith [h.2.2.2]⟩,
        by linarith [h.2.2.1]⟩⟩

/-- Some positively oriented triangle of points of `S` contains `p`. -/
def InTri (S : List Pt) (p : Pt) : Prop := ∃ a ∈ S, ∃ b ∈ S, ∃ c ∈ S, InTriPos p a b c

theorem inHull_iff_inTri (S : List Pt) (p : Pt) : inHull S p = true ↔ InTri S p := by
  unfold inHull InTri
  simp only [List.any_eq_true, inTriangle_iff]
  constructor
  · rintro ⟨a, ha, b, hb, c, hc, h | h⟩
    · exact ⟨a, ha, b, hb, c, hc, h⟩
    · exact ⟨a, ha, c, hc, b, hb, h⟩
  · rintro ⟨a, ha, b, hb, c, hc, h⟩
    exact ⟨a, ha, b, hb, c, hc, Or.inl h⟩

/-- The point a fraction `t` of the way from `q` to `d`. -/
def lerp (t : Rat) (q d : Pt) : Pt := ((1 - t) * q.1 + t * d.1, (1 - t) * q.2 + t * d.2)

theorem orient_lerp1 (t : Rat) (q d b c : Pt) : orient (lerp t q d) b c = (1 - t) * orient q b c + t * orient d b c := by
  unfold orient lerp; ring
theorem orient_lerp2 (t : Rat) (q d a c : Pt) : orient a (lerp t q d) c = (1 - t) * orient a q c + t * orient a d c := by
  unfold orient lerp; ring
theorem orient_lerp3 (t : Rat) (q d a b : Pt) : orient a b (lerp t q d) = (1 - t) * orient a b q + t * orient a b d := by
  unfold orient lerp; ring

/-- **Carathéodory step.**  Moving from a point `q` of a positively oriented triangle `abc` towards any point `d` stays inside
    one of the four triangles spanned by `a, b, c, d`. -/
theorem inTriPos_step (q a b c d : Pt) (t : Rat) (ht0 : 0 ≤ t) (ht1 : t ≤ 1) (h : InTriPos q a b c) :
    InTriPos (lerp t q d) a b c ∨ InTriPos (lerp t q d) d c b ∨ InTriPos (lerp t q d) a c d ∨
      InTriPos (lerp t q d) b a d := by
  obtain ⟨hD, ho1, ho2, ho3⟩ := h
  set p := lerp t q d with hp
  set D := orient a b c with hDdef
  have hsum_e : orient d b c + orient a d c + orient a b d = D := by simp only [hDdef]; unfold orient; ring
  have hf1 : orient p b c = (1 - t) * orient q b c + t * orient d b c := orient_lerp1 t q d b c
  have hf2 : orient a p c = (1 - t) * orient a q c + t * orient a d c := orient_lerp2 t q d a c
  have hf3 : orient a b p = (1 - t) * orient a b q + t * orient a b d := orient_lerp3 t q d a b
  -- identities for the replaced triangles
  have i1 : D * orient d p c = orient a p c * orient d b c - orient p b c * orient a d c := by
    simp only [hDdef]; unfold orient; ring
  have i2 : D * orient d b p = orient a b p * orient d b c - orient p b c * orient a b d := by
    simp only [hDdef]; unfold orient; ring
  have i3 : D * orient p d c = orient p b c * orient a d c - orient a p c * orient d b c := by
    simp only [hDdef]; unfold orient; ring
  have i4 : D * orient a d p = orient a b p * orient a d c - orient a p c * orient a b d := by
    simp only [hDdef]; unfold orient; ring
  have i5 : D * orient p b d = orient p b c * orient a b d - orient a b p * orient d b c := by
    simp only [hDdef]; unfold orient; ring
  have i6 : D * orient a p d = orient a p c * orient a b d - orient a b p * orient a d c := by
    simp only [hDdef]; unfold orient; ring
  have nonpos_of : ∀ x : Rat, D * x ≤ 0 → x ≤ 0 := fun x hx => by
    by_contra hc
    have : 0 < D * x := mul_pos hD (not_le.mp hc)
    linarith
  -- the three replacement cases, from the arithmetic predicate
  have repl1 : Repl (orient d b c) (orient a d c) (orient a b d) (orient p b c) (orient a p c) (orient a b p) →
      InTriPos p d c b := by
    rintro ⟨he, hf, h3, h4⟩
    refine ⟨?_, ?_, ?_, ?_⟩
    · rw [orient_swap23]; linarith
    · rw [orient_swap23]; linarith
    · have := nonpos_of (orient d b p) (by rw [i2]; exact h4)
      rw [orient_swap23]; linarith
    · have := nonpos_of (orient d p c) (by rw [i1]; exact h3)
      rw [orient_swap23]; linarith
  have repl2 : Repl (orient a d c) (orient d b c) (orient a b d) (orient a p c) (orient p b c) (orient a b p) →
      InTriPos p a c d := by
    rintro ⟨he, hf, h3, h4⟩
    refine ⟨?_, ?_, ?_, ?_⟩
    · rw [orient_swap23]; linarith
    · have := nonpos_of (orient p d c) (by rw [i3]; exact h3)
      rw [orient_swap23]; linarith
    · have := nonpos_of (orient a d p) (by rw [i4]; exact h4)
      rw [orient_swap23]; linarith
    · rw [orient_swap23]; linarith
  have repl3 : Repl (orient a b d) (orient d b c) (orient a d c) (orient a b p) (orient p b c) (orient a p c) →
      InTriPos p b a d := by
    rintro ⟨he, hf, h3, h4⟩
    refine ⟨?_, ?_, ?_, ?_⟩
    · rw [orient_swap12]; linarith
    · have := nonpos_of (orient a p d) (by rw [i6]; exact h4)
      rw [orient_swap12]; linarith
    · have := nonpos_of (orient p b d) (by rw [i5]; exact h3)
      rw [orient_swap12]; linarith
    · rw [orient_swap12]; linarith
  by_cases g1 : orient p b c < 0
  · rw [hf1] at g1
    have := carath_pick t (orient q b c) (orient a q c) (orient a b q) (orient d b c) (orient a d c) (orient a b d)
      ht0 ht1 ho1 ho2 ho3 (by linarith) g1
    rw [← hf1, ← hf2, ← hf3] at this
    rcases this with h | h | h
    · right; left; exact repl1 h
    · right; right; left; exact repl2 h
    · right; right; right; exact repl3 h
  by_cases g2 : orient a p c < 0
  · rw [hf2] at g2
    have := carath_pick t (orient a q c) (orient q b c) (orient a b q) (orient a d c) (orient d b c) (orient a b d)
      ht0 ht1 ho2 ho1 ho3 (by linarith) g2
    rw [← hf1, ← hf2, ← hf3] at this
    rcases this with h | h | h
    · right; right; left; exact repl2 h
    · right; left; exact repl1 h
    · right; right; right; exact repl3 (repl_swap h)
  by_cases g3 : orient a b p < 0
  · rw [hf3] at g3
    have := carath_pick t (orient a b q) (orient q b c) (orient a q c) (orient a b d) (orient d b c) (orient a d c)
      ht0 ht1 ho3 ho1 ho2 (by linarith) g3
    rw [← hf1, ← hf2, ← hf3] at this
    rcases this with h | h | h
    · right; right; right; exact repl3 h
    · right; left; exact repl1 (repl_swap h)
    · right; right; left; exact repl2 (repl_swap h)
  · left
    exact ⟨hD, not_lt.mp g1, not_lt.mp g2, not_lt.mp g3⟩

/-- Moving from a point covered by the triangles of `S` towards a point of `S` stays covered. -/
theorem inTri_step (S : List Pt) (q d : Pt) (t : Rat) (ht0 : 0 ≤ t) (ht1 : t ≤ 1) (hd : d ∈ S) (h : InTri S q) :
    InTri S (lerp t q d) := by
  obtain ⟨a, ha, b, hb, c, hc, hq⟩ := h
  rcases inTriPos_step q a b c d t ht0 ht1 hq with h | h | h | h
  · exact ⟨a, ha, b, hb, c, hc, h⟩
  · exact ⟨d, hd, c, hc, b, hb, h⟩
  · exact ⟨a, ha, c, hc, d, hd, h⟩
  · exact ⟨b, hb, a, ha, d, hd, h⟩

end Verde

namespace Verde

/-! ### Convex combinations of a list of points -/

/-- `Σ wᵢ · Lᵢ`, coordinate by coordinate. -/
def ptWsum : List Rat → List Pt → Pt
  | x :: w, s :: L => (x * s.1 + (ptWsum w L).1, x * s.2 + (ptWsum w L).2)
  | _, _ => (0, 0)

/-- `p` is a convex combination of the points of `L`: non-negative weights, one per point, adding up to one. -/
def IsConvComb (L : List Pt) (p : Pt) : Prop :=
  ∃ w : List Rat, w.length = L.length ∧ (∀ x ∈ w, 0 ≤ x) ∧ w.sum = 1 ∧ p = ptWsum w L

/-- A predicate that is closed under moving towards points of `S` contains `(1 − Σw)·q + Σ wᵢ·Lᵢ` for every `q` it contains,
    every sub-list `L` of points of `S` and all non-negative weights with `Σw ≤ 1`. -/
theorem closed_towards_sum (S : List Pt) (C : Pt → Prop)
    (hC : ∀ q, C q → ∀ d ∈ S, ∀ t : Rat, 0 ≤ t → t ≤ 1 → C (lerp t q d)) :
    ∀ (L : List Pt) (w : List Rat) (q : Pt), (∀ s ∈ L, s ∈ S) → w.length = L.length → (∀ x ∈ w, 0 ≤ x) → w.sum ≤ 1 →
      C q → C ((1 - w.sum) * q.1 + (ptWsum w L).1, (1 - w.sum) * q.2 + (ptWsum w L).2) := by
  intro L
  induction L with
  | nil =>
    intro w q _ hlen _ _ hq
    have : w = [] := List.length_eq_zero_iff.mp (by simpa using hlen)
    subst this
    simpa [ptWsum] using hq
  | cons s L ih =>
    intro w q hS hlen hw hsum hq
    match w, hlen with
    | x :: w', hlen =>
      have hx : 0 ≤ x := hw x List.mem_cons_self
      have hw' : ∀ y ∈ w', 0 ≤ y := fun y hy => hw y (List.mem_cons_of_mem _ hy)
      have hlen' : w'.length = L.length := by simpa using hlen
      have hS' : ∀ s' ∈ L, s' ∈ S := fun s' hs' => hS s' (List.mem_cons_of_mem _ hs')
      have hs : s ∈ S := hS s List.mem_cons_self
      simp only [List.sum_cons] at hsum ⊢
      have hsum' : w'.sum ≤ 1 := by linarith
      by_cases h0 : 1 - w'.sum = 0
      · have hx0 : x = 0 := by linarith
        have := ih w' q hS' hlen' hw' hsum' hq
        simpa [ptWsum, hx0] using this
      · have hpos : 0 < 1 - w'.sum := lt_of_le_of_ne (by linarith) (Ne.symm h0)
        have ht1 : x / (1 - w'.sum) ≤ 1 := by rw [div_le_one hpos]; linarith
        have hq' := hC q hq s hs (x / (1 - w'.sum)) (div_nonneg hx hpos.le) ht1
        have := ih w' (lerp (x / (1 - w'.sum)) q s) hS' hlen' hw' hsum' hq'
        have e : ∀ u v : Rat, (1 - w'.sum) * ((1 - x / (1 - w'.sum)) * u + x / (1 - w'.sum) * v)
            = (1 - (x + w'.sum)) * u + x * v := by
          intro u v; field_simp; ring
        simp only [lerp, ptWsum] at this ⊢
        rw [e, e] at this
        convert this using 2 <;> ring

theorem wsum_length_sum (L : List Pt) : ∀ w : List Rat, w.length = L.length → True := fun _ _ => trivial

/-- Every member is a convex combination (weight one on it). -/
theorem isConvComb_mem (L : List Pt) (s : Pt) (hs : s ∈ L) : IsConvComb L s := by
  induction L with
  | nil => cases hs
  | cons a L ih =>
    rcases List.mem_cons.mp hs with rfl | h
    · refine ⟨1 :: List.replicate L.length 0, by simp, ?_, by simp, ?_⟩
      · intro x hx
        rcases List.mem_cons.mp hx with rfl | hx
        · norm_num
        · rw [(List.mem_replicate.mp hx).2]
      · have hz : ∀ (n : Nat) (M : List Pt), ptWsum (List.replicate n 0) M = (0, 0) := by
          intro n
          induction n with
          | zero => intro M; simp [ptWsum]
          | succ n ihn =>
            intro M
            cases M with
            | nil => simp [ptWsum]
            | cons m M => simp [List.replicate_succ, ptWsum, ihn M]
        simp [ptWsum, hz]
    · obtain ⟨w, hl, hw, hsum, hp⟩ := ih h
      refine ⟨0 :: w, by simp [hl], ?_, by simp [hsum], ?_⟩
      · intro x hx
        rcases List.mem_cons.mp hx with rfl | hx
        · exact le_refl _
        · exact hw x hx
      · simp [ptWsum, ← hp]

end Verde

namespace Verde

theorem wsum_zipWith (t : Rat) : ∀ (L : List Pt) (w1 w2 : List Rat), w1.length = L.length → w2.length = L.length →
    ptWsum (List.zipWith (fun x y => (1 - t) * x + t * y) w1 w2) L = lerp t (ptWsum w1 L) (ptWsum w2 L) := by
  intro L
  induction L with
  | nil => intro w1 w2 h1 h2; simp [ptWsum, lerp]
  | cons s L ih =>
    intro w1 w2 h1 h2
    match w1, w2, h1, h2 with
    | x :: w1, y :: w2, h1, h2 =>
      have := ih w1 w2 (by simpa using h1) (by simpa using h2)
      simp only [List.zipWith_cons_cons, ptWsum, this, lerp]
      ext <;> simp <;> ring

theorem sum_zipWith_lerp (t : Rat) : ∀ (w1 w2 : List Rat), w1.length = w2.length →
    (List.zipWith (fun x y => (1 - t) * x + t * y) w1 w2).sum = (1 - t) * w1.sum + t * w2.sum := by
  intro w1
  induction w1 with
  | nil =>
    intro w2 h
    have : w2 = [] := List.length_eq_zero_iff.mp (by simpa using h.symm)
    simp [this]
  | cons x w1 ih =>
    intro w2 h
    match w2, h with
    | y :: w2, h =>
      simp only [List.zipWith_cons_cons, List.sum_cons, ih w2 (by simpa using h)]
      ring

/-- The convex combinations of `L` form a convex set. -/
theorem isConvComb_lerp (L : List Pt) (p q : Pt) (t : Rat) (ht0 : 0 ≤ t) (ht1 : t ≤ 1)
    (hp : IsConvComb L p) (hq : IsConvComb L q) : IsConvComb L (lerp t p q) := by
  obtain ⟨w1, hl1, hw1, hs1, rfl⟩ := hp
  obtain ⟨w2, hl2, hw2, hs2, rfl⟩ := hq
  refine ⟨List.zipWith (fun x y => (1 - t) * x + t * y) w1 w2, by simp [hl1, hl2], ?_, ?_, (wsum_zipWith t L w1 w2 hl1 hl2).symm⟩
  · intro z hz
    obtain ⟨i, hi, rfl⟩ := List.getElem_of_mem hz
    simp only [List.getElem_zipWith]
    have h1 := hw1 _ (List.getElem_mem (by simp at hi; omega : i < w1.length))
    have h2 := hw2 _ (List.getElem_mem (by simp at hi; omega : i < w2.length))
    have : 0 ≤ 1 - t := by linarith
    positivity
  · rw [sum_zipWith_lerp t w1 w2 (by rw [hl1, hl2]), hs1, hs2]; ring

end Verde
