/- argmin and nearest-centre lemmas for block_split. -/
import VerdeModel.Model.Blocks
import VerdeModel.Lemmas.MinMax
import VerdeModel.Lemmas.Coords
namespace Verde

theorem argminIdx_spec (ds : List Rat) (h : ds ≠ []) :
    ∃ hlt : argminIdx ds < ds.length, ∀ k (hk : k < ds.length), ds[argminIdx ds] ≤ ds[k] := by
  obtain ⟨m, hm⟩ := listMin_isSome h
  have hmem := listMin_mem hm
  have hidx : ds.idxOf m < ds.length := List.idxOf_lt_length_iff.mpr hmem
  have harg : argminIdx ds = ds.idxOf m := by simp [argminIdx, hm]
  refine ⟨by rw [harg]; exact hidx, ?_⟩
  intro k hk
  have : ds[argminIdx ds]'(by rw [harg]; exact hidx) = m := by
    simp only [harg]; exact List.getElem_idxOf hidx
  rw [this]
  exact listMin_le hm _ (List.getElem_mem hk)

theorem argminIdx_unique (ds : List Rat) (m : Nat) (hm : m < ds.length)
    (hstrict : ∀ k (hk : k < ds.length), k ≠ m → ds[m] < ds[k]) : argminIdx ds = m := by
  have hne : ds ≠ [] := by intro h; simp [h] at hm
  obtain ⟨hlt, hmin⟩ := argminIdx_spec ds hne
  by_contra hcon
  have h1 := hstrict _ hlt hcon
  have h2 := hmin m hm
  linarith

/-- 1-D: a centre to the left of the containing pixel is strictly farther. -/
theorem nearest_centre_left (W dx x : Rat) (j k : Nat) (hdx : 0 < dx)
    (hlo : W + (j : Rat) * dx < x) (hk : k < j) :
    (x - (W + ((j : Rat) + 1/2) * dx)) ^ 2 < (x - (W + ((k : Rat) + 1/2) * dx)) ^ 2 := by
  have hk1 : (k : Rat) + 1 ≤ (j : Rat) := by exact_mod_cast hk
  have hkd : ((k : Rat) + 1) * dx ≤ (j : Rat) * dx := mul_le_mul_of_nonneg_right hk1 hdx.le
  have h1 : 0 < x - (W + ((k : Rat) + 1/2) * dx) := by nlinarith
  have h2 : |x - (W + ((j : Rat) + 1/2) * dx)| < x - (W + ((k : Rat) + 1/2) * dx) := by
    rw [abs_lt]; constructor <;> nlinarith
  have ha := abs_nonneg (x - (W + ((j : Rat) + 1/2) * dx))
  have hb := neg_abs_le (x - (W + ((j : Rat) + 1/2) * dx))
  exact sq_lt_sq' (by linarith) (lt_of_le_of_lt (le_abs_self _) h2)

/-- 1-D: a centre to the right of the containing pixel is strictly farther. -/
theorem nearest_centre_right (W dx x : Rat) (j k : Nat) (hdx : 0 < dx)
    (hhi : x < W + ((j : Rat) + 1) * dx) (hk : j < k) :
    (x - (W + ((j : Rat) + 1/2) * dx)) ^ 2 < (x - (W + ((k : Rat) + 1/2) * dx)) ^ 2 := by
  have hk1 : (j : Rat) + 1 ≤ (k : Rat) := by exact_mod_cast hk
  have hkd : ((j : Rat) + 1) * dx ≤ (k : Rat) * dx := mul_le_mul_of_nonneg_right hk1 hdx.le
  have h1 : 0 < (W + ((k : Rat) + 1/2) * dx) - x := by nlinarith
  have h2 : |x - (W + ((j : Rat) + 1/2) * dx)| < (W + ((k : Rat) + 1/2) * dx) - x := by
    rw [abs_lt]; constructor <;> nlinarith
  have e : (x - (W + ((k : Rat) + 1/2) * dx)) ^ 2 = ((W + ((k : Rat) + 1/2) * dx) - x) ^ 2 := by ring
  rw [e]
  have ha := abs_nonneg (x - (W + ((j : Rat) + 1/2) * dx))
  have hb := neg_abs_le (x - (W + ((j : Rat) + 1/2) * dx))
  exact sq_lt_sq' (by linarith) (lt_of_le_of_lt (le_abs_self _) h2)

/-- 1-D, clamped form: `j` is the pixel containing `x`, or the border pixel when `x` lies outside on that side. -/
theorem nearest_centre_1d (W dx x : Rat) (n j k : Nat) (hdx : 0 < dx) (hk : k < n)
    (hlo : j = 0 ∨ W + (j : Rat) * dx < x) (hhi : j + 1 = n ∨ x < W + ((j : Rat) + 1) * dx) (hkj : k ≠ j) :
    (x - (W + ((j : Rat) + 1/2) * dx)) ^ 2 < (x - (W + ((k : Rat) + 1/2) * dx)) ^ 2 := by
  rcases Nat.lt_or_gt_of_ne hkj with h | h
  · rcases hlo with h0 | hlo
    · omega
    · exact nearest_centre_left W dx x j k hdx hlo h
  · rcases hhi with h0 | hhi
    · omega
    · exact nearest_centre_right W dx x j k hdx hhi h

theorem nodes_pixel_getD (start step : Rat) (m i : Nat) (hi : i < m) :
    (nodes start step m true).getD i 0 = start + ((i : Rat) + 1/2) * step := by
  simp [nodes, List.getD_eq_getElem?_getD, List.getElem?_map, List.getElem?_range hi]

theorem centresOf_length (east north : List Rat) : (centresOf east north).length = north.length * east.length := by
  simp [centresOf]

theorem centresOf_getElem (east north : List Rat) (k : Nat) (hk : k < (centresOf east north).length) :
    (centresOf east north)[k] = (east.getD (k % east.length) 0, north.getD (k / east.length) 0) := by
  simp [centresOf]

end Verde
