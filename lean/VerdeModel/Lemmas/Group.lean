/- group-by lemmas: keys, members, alignment, conservation of sums. -/
import VerdeModel.Model.Blocks
import VerdeModel.Lemmas.MinMax
import Mathlib.Algebra.BigOperators.Group.List.Basic
namespace Verde

theorem groupKeys_mem (bound : Nat) (labels : List Nat) (b : Nat) :
    b ∈ groupKeys bound labels ↔ b < bound ∧ b ∈ labels := by
  simp [groupKeys]

theorem groupKeys_sorted (bound : Nat) (labels : List Nat) : (groupKeys bound labels).Pairwise (· < ·) := by
  unfold groupKeys
  exact List.Pairwise.filter _ List.pairwise_lt_range

theorem groupKeys_nodup (bound : Nat) (labels : List Nat) : (groupKeys bound labels).Nodup :=
  (groupKeys_sorted bound labels).imp (fun h => Nat.ne_of_lt h)

theorem foldl_labelBound_ge (labels : List Nat) (m : Nat) :
    m ≤ labels.foldl (fun m l => max m (l + 1)) m ∧ ∀ l ∈ labels, l < labels.foldl (fun m l => max m (l + 1)) m := by
  induction labels generalizing m with
  | nil => simp
  | cons a as ih =>
    simp only [List.foldl_cons, List.mem_cons]
    obtain ⟨h1, h2⟩ := ih (max m (a + 1))
    refine ⟨by omega, ?_⟩
    intro l hl
    rcases hl with rfl | hl
    · omega
    · exact h2 l hl

theorem labelBound_gt (labels : List Nat) : ∀ l ∈ labels, l < labelBound labels :=
  (foldl_labelBound_ge labels 0).2

theorem groupMembers_nil {α : Type} (xs : List α) (b : Nat) : groupMembers [] xs b = [] := by
  simp [groupMembers]

theorem groupMembers_cons {α : Type} (l : Nat) (ls : List Nat) (x : α) (xs : List α) (b : Nat) :
    groupMembers (l :: ls) (x :: xs) b =
      if l = b then x :: groupMembers ls xs b else groupMembers ls xs b := by
  unfold groupMembers
  simp only [List.zip_cons_cons, List.filter_cons]
  by_cases h : l = b
  · simp [h]
  · simp [h]

/-- Membership: a value is in group `b` iff it sits at an index whose label is `b`. -/
theorem mem_groupMembers {α : Type} (labels : List Nat) (xs : List α) (b : Nat) (v : α) :
    v ∈ groupMembers labels xs b ↔ ∃ i : Nat, labels[i]? = some b ∧ xs[i]? = some v := by
  induction labels generalizing xs with
  | nil => simp [groupMembers]
  | cons l ls ih =>
    cases xs with
    | nil => simp [groupMembers]
    | cons x xs =>
      rw [groupMembers_cons]
      constructor
      · intro h
        split_ifs at h with hl
        · rcases List.mem_cons.mp h with rfl | h
          · exact ⟨0, by simp [hl], by simp⟩
          · obtain ⟨i, h1, h2⟩ := (ih xs).mp h
            exact ⟨i + 1, by simpa using h1, by simpa using h2⟩
        · obtain ⟨i, h1, h2⟩ := (ih xs).mp h
          exact ⟨i + 1, by simpa using h1, by simpa using h2⟩
      · rintro ⟨i, h1, h2⟩
        cases i with
        | zero =>
          simp only [List.getElem?_cons_zero, Option.some.injEq] at h1 h2
          subst h1; subst h2; simp
        | succ i =>
          simp only [List.getElem?_cons_succ] at h1 h2
          have := (ih xs).mpr ⟨i, h1, h2⟩
          split_ifs
          · exact List.mem_cons_of_mem _ this
          · exact this

/-- Alignment: grouping value/weight pairs equals pairing the grouped values with the grouped weights —
    every value keeps its own weight. -/
theorem groupMembers_zip {α β : Type} (labels : List Nat) (xs : List α) (ws : List β) (b : Nat)
    (hx : xs.length = labels.length) (hw : ws.length = labels.length) :
    groupMembers labels (xs.zip ws) b = (groupMembers labels xs b).zip (groupMembers labels ws b) := by
  induction labels generalizing xs ws with
  | nil => simp [groupMembers]
  | cons l ls ih =>
    cases xs with
    | nil => simp at hx
    | cons x xs =>
      cases ws with
      | nil => simp at hw
      | cons w ws =>
        simp only [List.zip_cons_cons, groupMembers_cons]
        have := ih xs ws (by simpa using hx) (by simpa using hw)
        split_ifs
        · simp [this]
        · exact this

theorem sum_indicator (keys : List Nat) (hnd : keys.Nodup) (l : Nat) (hl : l ∈ keys) (x : Rat) :
    (keys.map fun b => if l = b then x else 0).sum = x := by
  induction keys with
  | nil => simp at hl
  | cons k ks ih =>
    simp only [List.map_cons, List.sum_cons]
    rw [List.nodup_cons] at hnd
    by_cases h : l = k
    · subst h
      have hz : (ks.map fun b => if l = b then x else 0) = ks.map fun _ => (0 : Rat) := by
        apply List.map_congr_left
        intro b hb
        have : l ≠ b := fun e => hnd.1 (e ▸ hb)
        simp [this]
      rw [hz]; simp
    · have hl' : l ∈ ks := by
        rcases List.mem_cons.mp hl with e | e
        · exact absurd e h
        · exact e
      rw [ih hnd.2 hl']; simp [h]

/-- Conservation: summing the per-block sums over the occupied blocks gives the input total. -/
theorem sum_groups_eq_sum (keys labels : List Nat) (xs : List Rat) (hnd : keys.Nodup)
    (hall : ∀ l ∈ labels, l ∈ keys) (hlen : xs.length = labels.length) :
    (keys.map fun b => (groupMembers labels xs b).sum).sum = xs.sum := by
  induction labels generalizing xs with
  | nil =>
    have : xs = [] := List.length_eq_zero_iff.mp (by simpa using hlen)
    subst this
    simp [groupMembers]
  | cons l ls ih =>
    cases xs with
    | nil => simp at hlen
    | cons x xs =>
      have hsplit : (keys.map fun b => (groupMembers (l :: ls) (x :: xs) b).sum) =
          keys.map fun b => (if l = b then x else 0) + (groupMembers ls xs b).sum := by
        apply List.map_congr_left
        intro b _
        rw [groupMembers_cons]
        split_ifs <;> simp
      rw [hsplit, List.sum_map_add, sum_indicator keys hnd l (hall l List.mem_cons_self),
        ih xs (fun l' hl' => hall l' (List.mem_cons_of_mem _ hl')) (by simpa using hlen)]
      simp

end Verde
