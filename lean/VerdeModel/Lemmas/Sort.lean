/-
  Stable sort by a bounded natural-number key = concatenation of the buckets in original order.
  Used to tie `polynomial_power_combinations` (`sorted(generator, key=sum)`) to the model's explicit monomial order.
-/
import VerdeModel.Model.LinAlg
import Mathlib.Data.List.Sort
import Mathlib.Tactic.Linarith

namespace Verde
variable {α : Type}

theorem keyLe_trans (key : α → Nat) (a b c : α) :
    decide (key a ≤ key b) = true → decide (key b ≤ key c) = true → decide (key a ≤ key c) = true := by
  simp only [decide_eq_true_eq]; omega
theorem keyLe_total (key : α → Nat) (a b : α) : (decide (key a ≤ key b) || decide (key b ≤ key a)) = true := by
  simp only [Bool.or_eq_true, decide_eq_true_eq]; omega

/-- Stability: the sort keeps, for every key value, the elements with that key in their original order. -/
theorem sortedByKey_filter (key : α → Nat) (l : List α) (t : Nat) :
    (sortedByKey key l).filter (fun x => decide (key x = t)) = l.filter (fun x => decide (key x = t)) := by
  set c := l.filter (fun x => decide (key x = t)) with hc
  have hpw : c.Pairwise (fun a b => decide (key a ≤ key b) = true) := by
    apply List.Pairwise.imp_of_mem (R := fun _ _ => True)
    · intro a b ha hb _
      have := (List.mem_filter.mp ha).2
      have := (List.mem_filter.mp hb).2
      simp only [decide_eq_true_eq] at *
      omega
    · exact List.pairwise_of_forall (fun _ _ => trivial)
  have hsub : c.Sublist (sortedByKey key l) :=
    List.sublist_mergeSort (keyLe_trans key) (keyLe_total key) hpw List.filter_sublist
  have hsub' : c.Sublist ((sortedByKey key l).filter (fun x => decide (key x = t))) := by
    have := hsub.filter (fun x => decide (key x = t))
    rw [hc, List.filter_filter] at this
    simpa [hc] using this
  have hlen : c.length = ((sortedByKey key l).filter (fun x => decide (key x = t))).length :=
    ((List.mergeSort_perm l _).filter _).length_eq.symm
  exact (hsub'.eq_of_length hlen).symm

/-- A list sorted by key splits at any threshold. -/
theorem sorted_split (key : α → Nat) (s : List α) (hs : s.Pairwise (fun a b => key a ≤ key b)) (m : Nat) :
    s = s.filter (fun x => decide (key x < m)) ++ s.filter (fun x => decide (m ≤ key x)) := by
  induction s with
  | nil => simp
  | cons x s ih =>
    have hs' := (List.pairwise_cons.mp hs)
    by_cases hx : key x < m
    · have : ¬ (m ≤ key x) := by omega
      simp only [List.filter_cons, hx, this, decide_true, decide_false, if_true, List.cons_append]
      simp only [Bool.false_eq_true, if_false]
      congr 1
      exact ih hs'.2
    · have hx' : m ≤ key x := by omega
      have hall : ∀ y ∈ s, m ≤ key y := fun y hy => le_trans hx' (hs'.1 y hy)
      have h1 : s.filter (fun y => decide (key y < m)) = [] := by
        rw [List.filter_eq_nil_iff]; intro y hy; have := hall y hy; simp; omega
      have h2 : s.filter (fun y => decide (m ≤ key y)) = s := by
        rw [List.filter_eq_self]; intro y hy; simpa using hall y hy
      simp [hx, hx', h1, h2]

/-- A key-sorted list with keys `≤ N` is the concatenation of its buckets. -/
theorem sorted_eq_buckets (key : α → Nat) : ∀ (N : Nat) (s : List α), s.Pairwise (fun a b => key a ≤ key b) →
    (∀ x ∈ s, key x ≤ N) → s = (List.range (N + 1)).flatMap (fun t => s.filter (fun x => decide (key x = t))) := by
  intro N
  induction N with
  | zero =>
    intro s _ hN
    simp only [zero_add, List.range_one, List.flatMap_cons, List.flatMap_nil, List.append_nil]
    symm; rw [List.filter_eq_self]; intro x hx; have := hN x hx; simp; omega
  | succ N ih =>
    intro s hs hN
    rw [List.range_succ, List.flatMap_append]
    simp only [List.flatMap_cons, List.flatMap_nil, List.append_nil]
    have hsplit := sorted_split key s hs (N + 1)
    have h1 := ih (s.filter (fun x => decide (key x < N + 1))) (hs.sublist List.filter_sublist)
      (by intro x hx; have := (List.mem_filter.mp hx).2; simp at this; omega)
    have h2 : s.filter (fun x => decide (N + 1 ≤ key x)) = s.filter (fun x => decide (key x = N + 1)) := by
      apply List.filter_congr
      intro x hx; have := hN x hx
      simp only [decide_eq_decide]; omega
    have h3 : (List.range (N + 1)).flatMap (fun t => (s.filter (fun x => decide (key x < N + 1))).filter (fun x => decide (key x = t)))
        = (List.range (N + 1)).flatMap (fun t => s.filter (fun x => decide (key x = t))) := by
      apply List.flatMap_congr
      intro t ht
      rw [List.filter_filter]
      apply List.filter_congr
      intro x _
      have : t < N + 1 := List.mem_range.mp ht
      by_cases hk : key x = t
      · simp [hk]; omega
      · simp [hk]
    rw [h3] at h1
    conv_lhs => rw [hsplit]
    rw [← h1, h2]

/-- **Bucket form of a stable sort**: sorting by a key bounded by `N` lists, for `t = 0..N`, the elements of key `t` in
    their original order. -/
theorem sortedByKey_eq_buckets (key : α → Nat) (N : Nat) (l : List α) (hN : ∀ x ∈ l, key x ≤ N) :
    sortedByKey key l = (List.range (N + 1)).flatMap (fun t => l.filter (fun x => decide (key x = t))) := by
  have hs : (sortedByKey key l).Pairwise (fun a b => key a ≤ key b) := by
    have := List.pairwise_mergeSort (keyLe_trans key) (keyLe_total key) l
    exact this.imp (by intro a b h; simpa using h)
  have hN' : ∀ x ∈ sortedByKey key l, key x ≤ N := fun x hx => hN x ((List.mergeSort_perm l _).mem_iff.mp hx)
  rw [sorted_eq_buckets key N _ hs hN']
  apply List.flatMap_congr
  intro t _
  exact sortedByKey_filter key l t

/-! ### The enumeration of `polynomial_power_combinations` -/

theorem range_filter_eq (m a : Nat) : (List.range m).filter (fun i => decide (i = a)) = if a < m then [a] else [] := by
  induction m with
  | zero => simp
  | succ m ih =>
    rw [List.range_succ, List.filter_append, ih]
    by_cases h1 : a < m
    · have : ¬ (m = a) := by omega
      have h2 : a < m + 1 := by omega
      simp [h1, h2, this]
    · by_cases h2 : a = m
      · subst h2; simp
      · have : ¬ (a < m + 1) := by omega
        have h3 : ¬ (m = a) := by omega
        simp [h1, this, h3]

theorem inner_filter (N t j : Nat) (ht : t ≤ N) :
    ((List.range (N + 1 - j)).map fun i => (i, j)).filter (fun c => decide (c.1 + c.2 = t))
      = if j ≤ t then [(t - j, j)] else [] := by
  rw [List.filter_map]
  have : (List.range (N + 1 - j)).filter ((fun c : Nat × Nat => decide (c.1 + c.2 = t)) ∘ fun i => (i, j))
      = (List.range (N + 1 - j)).filter (fun i => decide (i = t - j) && decide (j ≤ t)) := by
    apply List.filter_congr
    intro i _
    simp only [Function.comp]
    rw [← Bool.decide_and, decide_eq_decide]
    omega
  rw [this]
  by_cases hj : j ≤ t
  · have h2 : (List.range (N + 1 - j)).filter (fun i => decide (i = t - j) && decide (j ≤ t))
        = (List.range (N + 1 - j)).filter (fun i => decide (i = t - j)) := by
      apply List.filter_congr; intro i _; simp [hj]
    rw [h2, range_filter_eq]
    have : t - j < N + 1 - j := by omega
    simp [this, hj]
  · have h2 : (List.range (N + 1 - j)).filter (fun i => decide (i = t - j) && decide (j ≤ t)) = [] := by
      rw [List.filter_eq_nil_iff]; intro i _; simp [hj]
    simp [hj]

theorem outer_flatMap (g : Nat → Nat × Nat) (t n : Nat) :
    (List.range n).flatMap (fun j => if j ≤ t then [g j] else []) = (List.range (min n (t + 1))).map g := by
  induction n with
  | zero => simp
  | succ n ih =>
    rw [List.range_succ, List.flatMap_append, ih]
    simp only [List.flatMap_cons, List.flatMap_nil, List.append_nil]
    by_cases h : n ≤ t
    · have e1 : min n (t + 1) = n := by omega
      have e2 : min (n + 1) (t + 1) = n + 1 := by omega
      rw [e1, e2, List.range_succ, List.map_append]; simp [h]
    · have e1 : min n (t + 1) = t + 1 := by omega
      have e2 : min (n + 1) (t + 1) = t + 1 := by omega
      rw [e1, e2]; simp [h]

/-- The code's enumeration (`for j in range(N+1) for i in range(N+1-j)`), stably sorted by `i + j`, is the model's explicit
    order: total degree `t = 0..N`, and inside a degree `(t,0), (t-1,1), …, (0,t)`. -/
theorem sorted_enumeration_eq_powerCombinations (N : Nat) :
    sortedByKey (fun c : Nat × Nat => c.1 + c.2)
        ((List.range (N + 1)).flatMap fun j => (List.range (N + 1 - j)).map fun i => (i, j))
      = powerCombinations N := by
  rw [sortedByKey_eq_buckets _ N]
  · unfold powerCombinations
    apply List.flatMap_congr
    intro t ht
    have htN : t ≤ N := by have := List.mem_range.mp ht; omega
    rw [List.filter_flatMap]
    have : (fun j => ((List.range (N + 1 - j)).map fun i => (i, j)).filter (fun c => decide (c.1 + c.2 = t)))
        = fun j => if j ≤ t then [(t - j, j)] else [] := by
      funext j; exact inner_filter N t j htN
    rw [this, outer_flatMap (fun j => (t - j, j)) t (N + 1)]
    have : min (N + 1) (t + 1) = t + 1 := by omega
    rw [this]
  · intro c hc
    simp only [List.mem_flatMap, List.mem_map, List.mem_range] at hc
    obtain ⟨j, hj, i, hi, rfl⟩ := hc
    simp only; omega

end Verde
