/- Normal forms of the coordinate generators. -/
import VerdeModel.Lemmas.Num
namespace Verde

/-- Evenly spaced nodes: grid-line registered (`m+1` nodes `start + i·step`) or
    pixel registered (`m` midpoints `start + (i+½)·step`). -/
def nodes (start step : Rat) (m : Nat) (pixel : Bool) : List Rat :=
  if pixel then (List.range m).map fun (i : Nat) => start + ((i : Rat) + 1/2) * step
  else (List.range (m + 1)).map fun (i : Nat) => start + (i : Rat) * step

theorem nodes_length (start step : Rat) (m : Nat) (pixel : Bool) :
    (nodes start step m pixel).length = if pixel then m else m + 1 := by
  unfold nodes; split_ifs <;> simp

theorem linspace_succ (a b : Rat) (m : Nat) (hm : 1 ≤ m) :
    linspace a b (m + 1) = (List.range (m + 1)).map fun (i : Nat) => a + (i : Rat) * ((b - a) / (m : Rat)) := by
  have hm0 : m ≠ 0 := by omega
  simp [linspace, hm0]

theorem linspace_eq_nodes (a b : Rat) (m : Nat) (hm : 1 ≤ m) :
    linspace a b (m + 1) = nodes a ((b - a) / (m : Rat)) m false := by
  rw [linspace_succ a b m hm]; simp [nodes]

theorem pixelShift_linspace (a b : Rat) (m : Nat) (hm : 1 ≤ m) :
    pixelShift (linspace a b (m + 1)) = .ok (nodes a ((b - a) / (m : Rat)) m true) := by
  rw [linspace_succ a b m hm]
  have l0 : 0 < m + 1 := by omega
  have l1 : 1 < m + 1 := by omega
  have h0 : ((List.range (m + 1)).map fun (i : Nat) => a + (i : Rat) * ((b - a) / (m : Rat)))[0]? = some a := by
    simp [List.getElem?_map, List.getElem?_range l0]
  have h1 : ((List.range (m + 1)).map fun (i : Nat) => a + (i : Rat) * ((b - a) / (m : Rat)))[1]?
      = some (a + (b - a) / (m : Rat)) := by
    simp [List.getElem?_map, List.getElem?_range l1]
  unfold pixelShift
  rw [h0, h1]
  simp only [nodes, if_true]
  congr 1
  rw [List.range_succ, List.map_append]
  simp only [List.map_cons, List.map_nil, List.dropLast_concat, List.map_map]
  apply List.map_congr_left
  intro i _
  simp only [Function.comp]
  ring

/-- Number of intervals chosen by `spacing_to_size`: the integer nearest to
    `extent/spacing` (ties to even), at least one. -/
def intervals (start stop sp : Rat) : Nat := (max 1 (roundHalfEven ((stop - start) / sp))).toNat

theorem intervals_pos (start stop sp : Rat) : 1 ≤ intervals start stop sp := by
  unfold intervals; omega

theorem spacingToSize_fst (start stop sp : Rat) (adj : Bool) (hsp : 0 < sp) (hle : start ≤ stop) :
    (spacingToSize start stop sp adj).1 = (intervals start stop sp : Int) + 1 := by
  have hq : 0 ≤ (stop - start) / sp := div_nonneg (by linarith) hsp.le
  have hr := roundHalfEven_nonneg hq
  unfold spacingToSize intervals
  simp only []
  split_ifs with h <;> omega

theorem spacingToSize_snd (start stop sp : Rat) (adj : Bool) (hsp : 0 < sp) (hle : start ≤ stop) :
    (spacingToSize start stop sp adj).2 =
      if adj then start + (intervals start stop sp : Rat) * sp else stop := by
  have h1 := spacingToSize_fst start stop sp adj hsp hle
  have h2 : (spacingToSize start stop sp adj).2 =
      if adj then start + (((spacingToSize start stop sp adj).1 : Rat) - 1) * sp else stop := by
    unfold spacingToSize; rfl
  rw [h2, h1]
  cases adj
  · simp
  · simp

end Verde
