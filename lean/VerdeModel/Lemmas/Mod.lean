/- Python's floored remainder on rationals. -/
import VerdeModel.Lemmas.Num
namespace Verde

theorem pyMod_spec (x m : Rat) (hm : 0 < m) :
    (∃ k : Int, pyMod x m = x - m * (k : Rat)) ∧ 0 ≤ pyMod x m ∧ pyMod x m < m := by
  have h1 := floor_le' (x / m)
  have h2 := lt_floor_add_one' (x / m)
  have e : x = m * (x / m) := by field_simp
  refine ⟨⟨(x / m).floor, rfl⟩, ?_, ?_⟩
  · unfold pyMod
    have := mul_le_mul_of_nonneg_left h1 hm.le
    linarith
  · unfold pyMod
    have := mul_lt_mul_of_pos_left h2 hm
    linarith

theorem pyMod_unique (x m y : Rat) (hm : 0 < m) (h0 : 0 ≤ y) (h1 : y < m) (k : Int)
    (h : y = x - m * (k : Rat)) : pyMod x m = y := by
  have hq : x / m = y / m + (k : Rat) := by field_simp; linarith
  have hfl : (x / m).floor = k := by
    have : ⌊x / m⌋ = k := by
      rw [Int.floor_eq_iff, hq]
      constructor
      · have : 0 ≤ y / m := div_nonneg h0 hm.le
        linarith
      · have : y / m < 1 := by rw [div_lt_one hm]; exact h1
        linarith
    exact this
  unfold pyMod
  rw [hfl, h]

theorem pyMod_self_of_mem (x m : Rat) (hm : 0 < m) (h0 : 0 ≤ x) (h1 : x < m) : pyMod x m = x :=
  pyMod_unique x m x hm h0 h1 0 (by simp)

/-- The shift to the `[-180, 180)` convention on a value already in `[0, 360)`. -/
theorem shift180_cases (x : Rat) (h0 : 0 ≤ x) (h1 : x < 360) :
    (x < 180 ∧ pyMod (x + 180) 360 - 180 = x) ∨ (180 ≤ x ∧ pyMod (x + 180) 360 - 180 = x - 360) := by
  rcases lt_or_ge x 180 with h | h
  · left
    refine ⟨h, ?_⟩
    rw [pyMod_unique (x + 180) 360 (x + 180) (by norm_num) (by linarith) (by linarith) 0 (by simp)]
    ring
  · right
    refine ⟨h, ?_⟩
    rw [pyMod_unique (x + 180) 360 (x - 180) (by norm_num) (by linarith) (by linarith) 1 (by push_cast; ring)]
    ring

/-- Reducing modulo `m` first changes nothing: `((x % m) + a) % m = (x + a) % m`. -/
theorem pyMod_pyMod_add (x a m : Rat) (hm : 0 < m) : pyMod (pyMod x m + a) m = pyMod (x + a) m := by
  obtain ⟨⟨k, hk⟩, _, _⟩ := pyMod_spec x m hm
  obtain ⟨⟨j, hj⟩, h0, h1⟩ := pyMod_spec (x + a) m hm
  apply pyMod_unique _ _ _ hm h0 h1 (j - k)
  rw [hj, hk]; push_cast; ring

end Verde
