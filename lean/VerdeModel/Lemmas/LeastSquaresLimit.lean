/-
  Continuity of the least-squares solution in the weights (over ℝ): the limit form of "a datum whose weight tends to zero
  stops influencing the fit" (C02).  The normal equations are put in matrix form `A(w) p = b(w)`; where the normal matrix is
  injective its determinant is non-zero, so near such a weight vector the solution is `A(w)⁻¹ b(w)`, a continuous function.
-/
import VerdeModel.Lemmas.LeastSquares
import Mathlib.Topology.Instances.Matrix
import Mathlib.Analysis.Normed.Field.Basic
import Mathlib.Analysis.Normed.Field.Lemmas
import Mathlib.Data.Real.Basic
import Mathlib.Topology.Algebra.Order.Field
import Mathlib.LinearAlgebra.Matrix.ToLin
import Mathlib.Topology.Instances.Real.Lemmas
namespace Verde.LS
open Finset Matrix Filter Topology

variable {m n : ℕ}

/-- Normal matrix `JᵀWJ + α·diag s`. -/
noncomputable def normalMat (J : Fin m → Fin n → ℝ) (w : Fin m → ℝ) (α : ℝ) (s : Fin n → ℝ) : Matrix (Fin n) (Fin n) ℝ :=
  Matrix.of (fun j k => ∑ i, w i * J i j * J i k) + Matrix.diagonal (fun j => α * s j)

/-- Right-hand side `JᵀW d`. -/
noncomputable def normalRhs (J : Fin m → Fin n → ℝ) (w d : Fin m → ℝ) : Fin n → ℝ := fun j => ∑ i, w i * J i j * d i

theorem normalMat_mulVec (J : Fin m → Fin n → ℝ) (w : Fin m → ℝ) (α : ℝ) (s v : Fin n → ℝ) (j : Fin n) :
    (normalMat J w α s *ᵥ v) j = (∑ i, w i * J i j * (∑ k, J i k * v k)) + α * s j * v j := by
  unfold normalMat
  rw [Matrix.add_mulVec, Pi.add_apply, Matrix.mulVec_diagonal]
  congr 1
  simp only [Matrix.mulVec, dotProduct, Matrix.of_apply, Finset.sum_mul, Finset.mul_sum]
  rw [Finset.sum_comm]
  apply Finset.sum_congr rfl; intro i _
  apply Finset.sum_congr rfl; intro k _
  ring

theorem normalEq_iff_mulVec (J : Fin m → Fin n → ℝ) (w d : Fin m → ℝ) (α : ℝ) (s p : Fin n → ℝ) :
    normalEq J w d α s p ↔ normalMat J w α s *ᵥ p = normalRhs J w d := by
  unfold normalEq
  constructor
  · intro h; funext j
    rw [normalMat_mulVec]
    have := h j
    have e : (∑ i, w i * J i j * ((∑ k, J i k * p k) - d i))
        = (∑ i, w i * J i j * (∑ k, J i k * p k)) - normalRhs J w d j := by
      unfold normalRhs; rw [← Finset.sum_sub_distrib]; apply Finset.sum_congr rfl; intro i _; ring
    rw [e] at this; linarith
  · intro h j
    have := congrFun h j
    rw [normalMat_mulVec] at this
    have e : (∑ i, w i * J i j * ((∑ k, J i k * p k) - d i))
        = (∑ i, w i * J i j * (∑ k, J i k * p k)) - normalRhs J w d j := by
      unfold normalRhs; rw [← Finset.sum_sub_distrib]; apply Finset.sum_congr rfl; intro i _; ring
    rw [e]; linarith

theorem injective'_iff_det (J : Fin m → Fin n → ℝ) (w : Fin m → ℝ) (α : ℝ) (s : Fin n → ℝ) :
    Injective' J w α s ↔ (normalMat J w α s).det ≠ 0 := by
  have key : Injective' J w α s ↔ ∀ v, normalMat J w α s *ᵥ v = 0 → v = 0 := by
    unfold Injective'
    constructor
    · intro h v hv; apply h; intro j; rw [← normalMat_mulVec]; rw [hv]; rfl
    · intro h v hv; apply h; funext j; rw [normalMat_mulVec]; exact hv j
  rw [key, ← isUnit_iff_ne_zero, ← Matrix.isUnit_iff_isUnit_det, ← Matrix.mulVec_injective_iff_isUnit]
  constructor
  · intro h a b hab
    have := h (a - b) (by rw [Matrix.mulVec_sub, hab, sub_self])
    exact sub_eq_zero.mp this
  · intro h v hv
    exact h (by rw [hv, Matrix.mulVec_zero])

theorem continuous_normalMat (J : Fin m → Fin n → ℝ) (α : ℝ) (s : Fin n → ℝ) :
    Continuous fun w : Fin m → ℝ => normalMat J w α s := by
  unfold normalMat
  apply Continuous.add
  · apply continuous_matrix; intro j k
    simp only [Matrix.of_apply]
    exact continuous_finsetSum _ fun i _ => ((continuous_apply i).mul continuous_const).mul continuous_const
  · exact continuous_const

theorem continuous_normalRhs (J : Fin m → Fin n → ℝ) (d : Fin m → ℝ) :
    Continuous fun w : Fin m → ℝ => normalRhs J w d := by
  unfold normalRhs
  apply continuous_pi; intro j
  exact continuous_finsetSum _ fun i _ => ((continuous_apply i).mul continuous_const).mul continuous_const

/-- **Continuity of the fit in the weights.**  If the normal matrix at `w₀` is injective, then any family `p w` of solutions
    of the normal equations (for `w` near `w₀`) converges to the solution at `w₀` as `w → w₀`. -/
theorem solution_tendsto (J : Fin m → Fin n → ℝ) (d : Fin m → ℝ) (α : ℝ) (s : Fin n → ℝ) (w₀ : Fin m → ℝ)
    (hinj : Injective' J w₀ α s) (p : (Fin m → ℝ) → Fin n → ℝ)
    (hp : ∀ᶠ w in 𝓝 w₀, normalEq J w d α s (p w)) : Tendsto p (𝓝 w₀) (𝓝 (p w₀)) := by
  have hdet : (normalMat J w₀ α s).det ≠ 0 := (injective'_iff_det J w₀ α s).mp hinj
  have hdet_ev : ∀ᶠ w in 𝓝 w₀, (normalMat J w α s).det ≠ 0 :=
    ((continuous_normalMat J α s).matrix_det.continuousAt (x := w₀)).eventually_ne hdet
  have hsol : ∀ w, (normalMat J w α s).det ≠ 0 → normalEq J w d α s (p w) →
      p w = (normalMat J w α s)⁻¹ *ᵥ normalRhs J w d := by
    intro w hd hw
    rw [normalEq_iff_mulVec] at hw
    rw [← hw, Matrix.mulVec_mulVec, Matrix.nonsing_inv_mul _ (isUnit_iff_ne_zero.mpr hd), Matrix.one_mulVec]
  have hcont : ContinuousAt (fun w => (normalMat J w α s)⁻¹ *ᵥ normalRhs J w d) w₀ := by
    have hinv : ContinuousAt (fun w => (normalMat J w α s)⁻¹) w₀ := by
      have h1 : ContinuousAt Inv.inv (normalMat J w₀ α s) := by
        apply continuousAt_matrix_inv
        have : (Ring.inverse : ℝ → ℝ) = Inv.inv := by funext x; exact Ring.inverse_eq_inv x
        rw [this]
        exact continuousAt_inv₀ hdet
      exact ContinuousAt.comp (g := Inv.inv) (f := fun w => normalMat J w α s) h1 (continuous_normalMat J α s).continuousAt
    have hmul : Continuous fun q : Matrix (Fin n) (Fin n) ℝ × (Fin n → ℝ) => q.1 *ᵥ q.2 :=
      continuous_fst.matrix_mulVec continuous_snd
    exact ContinuousAt.comp (g := fun q : Matrix (Fin n) (Fin n) ℝ × (Fin n → ℝ) => q.1 *ᵥ q.2)
      (f := fun w => ((normalMat J w α s)⁻¹, normalRhs J w d)) hmul.continuousAt
      (hinv.prodMk (continuous_normalRhs J d).continuousAt)
  have h0 : p w₀ = (normalMat J w₀ α s)⁻¹ *ᵥ normalRhs J w₀ d := hsol w₀ hdet hp.self_of_nhds
  rw [h0]
  refine Tendsto.congr' ?_ hcont
  filter_upwards [hp, hdet_ev] with w hw hd
  exact (hsol w hd hw).symm

end Verde.LS
