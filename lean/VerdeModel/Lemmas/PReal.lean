/-
  Partial reals: `fin x` or `bad`.  `log` of a non-positive number, division by zero, `sqrt` of a negative number and
  `rpow` outside its domain are `bad`, and `bad` is absorbing (like NaN/inf in numpy) — so "finite at coincident points"
  is a real statement, not an artefact of Mathlib's totalised `Real.log 0 = 0`, `x / 0 = 0`.
-/
import VerdeModel.Model.Kernels
import Mathlib.Analysis.SpecialFunctions.Pow.Real
import Mathlib.Analysis.SpecialFunctions.Sqrt
import Mathlib.Analysis.SpecialFunctions.Trigonometric.Basic
namespace Verde

inductive PReal where
  | fin : ℝ → PReal
  | bad : PReal

namespace PReal

noncomputable def lift2 (f : ℝ → ℝ → PReal) : PReal → PReal → PReal
  | fin x, fin y => f x y
  | _, _ => bad
noncomputable def lift1 (f : ℝ → PReal) : PReal → PReal
  | fin x => f x
  | bad => bad

noncomputable instance : RealLike PReal where
  add := lift2 fun x y => fin (x + y)
  sub := lift2 fun x y => fin (x - y)
  mul := lift2 fun x y => fin (x * y)
  div := lift2 fun x y => if y = 0 then bad else fin (x / y)
  neg := lift1 fun x => fin (-x)
  lt := fun a b => match a, b with | fin x, fin y => x < y | _, _ => False
  lit := fun n => fin (n : ℝ)
  sqrt := lift1 fun x => if 0 ≤ x then fin (Real.sqrt x) else bad
  log := lift1 fun x => if 0 < x then fin (Real.log x) else bad
  rpow := lift2 fun x y => if 0 < x ∨ (x = 0 ∧ 0 ≤ y) then fin (x ^ y) else bad
  sin := lift1 fun x => fin (Real.sin x)
  cos := lift1 fun x => fin (Real.cos x)
  pi := fin Real.pi
  decLt := fun _ _ => Classical.propDecidable _

@[simp] theorem add_fin (x y : ℝ) : fin x + fin y = fin (x + y) := rfl
@[simp] theorem sub_fin (x y : ℝ) : fin x - fin y = fin (x - y) := rfl
@[simp] theorem mul_fin (x y : ℝ) : fin x * fin y = fin (x * y) := rfl
@[simp] theorem neg_fin (x : ℝ) : -(fin x) = fin (-x) := rfl
@[simp] theorem lt_fin (x y : ℝ) : (fin x < fin y) ↔ x < y := Iff.rfl
@[simp] theorem lit_eq (n : ℕ) : (RealLike.lit n : PReal) = fin (n : ℝ) := rfl
@[simp] theorem pi_eq : (RealLike.pi : PReal) = fin Real.pi := rfl
@[simp] theorem sin_fin (x : ℝ) : RealLike.sin (fin x) = fin (Real.sin x) := rfl
@[simp] theorem cos_fin (x : ℝ) : RealLike.cos (fin x) = fin (Real.cos x) := rfl
theorem div_fin {x y : ℝ} (h : y ≠ 0) : fin x / fin y = fin (x / y) := by
  show lift2 _ _ _ = _; simp [lift2, h]
theorem div_zero_bad (x : ℝ) : fin x / fin 0 = bad := by
  show lift2 _ _ _ = _; simp [lift2]
theorem sqrt_fin {x : ℝ} (h : 0 ≤ x) : RealLike.sqrt (fin x) = fin (Real.sqrt x) := by
  show lift1 _ _ = _; simp [lift1, h]
theorem log_fin {x : ℝ} (h : 0 < x) : RealLike.log (fin x) = fin (Real.log x) := by
  show lift1 _ _ = _; simp [lift1, h]
theorem log_nonpos_bad {x : ℝ} (h : x ≤ 0) : RealLike.log (fin x) = bad := by
  show lift1 _ _ = _; simp [lift1, not_lt.mpr h]
theorem rpow_fin {x y : ℝ} (h : 0 < x ∨ (x = 0 ∧ 0 ≤ y)) : RealLike.rpow (fin x) (fin y) = fin (x ^ y) := by
  show lift2 _ _ _ = _; simp [lift2, h]
@[simp] theorem mul_bad (a : PReal) : a * bad = bad := by cases a <;> rfl
@[simp] theorem bad_mul (a : PReal) : bad * a = bad := by cases a <;> rfl
@[simp] theorem add_bad (a : PReal) : a + bad = bad := by cases a <;> rfl
@[simp] theorem bad_add (a : PReal) : bad + a = bad := by cases a <;> rfl
@[simp] theorem sub_bad (a : PReal) : a - bad = bad := by cases a <;> rfl
@[simp] theorem bad_sub (a : PReal) : bad - a = bad := by cases a <;> rfl

theorem zero_add' (a : PReal) : fin 0 + a = a := by
  cases a with
  | fin x => simp
  | bad => simp
theorem add_assoc' (a b c : PReal) : a + b + c = a + (b + c) := by
  cases a <;> cases b <;> cases c <;> simp [add_assoc]

end PReal
end Verde
