/- Lemmas about consecutive cutIntervals, complements and block membership. -/
import VerdeModel.Model.CV
import VerdeModel.Lemmas.Group
import VerdeModel.Lemmas.Blocks
import Mathlib.Tactic.Linarith
namespace Verde

theorem cutIntervals_length (a : Nat) (points : List Nat) (n : Nat) : (cutIntervals a points n).length = points.length + 1 := by
  induction points generalizing a with
  | nil => simp [cutIntervals]
  | cons p ps ih => simp [cutIntervals, ih]

/-- Every lower end of the cutIntervals is at least the start, when the cut points are sorted above it. -/
theorem cutIntervals_lo_ge (a : Nat) (points : List Nat) (n : Nat) (hs : (a :: points).Pairwise (· ≤ ·)) :
    ∀ q ∈ cutIntervals a points n, a ≤ q.1 := by
  induction points generalizing a with
  | nil => intro q hq; simp [cutIntervals] at hq; subst hq; exact le_refl _
  | cons p ps ih =>
    intro q hq
    simp only [cutIntervals, List.mem_cons] at hq
    rcases hq with rfl | hq
    · exact le_refl _
    · have hap : a ≤ p := (List.pairwise_cons.mp hs).1 p List.mem_cons_self
      exact le_trans hap (ih p (List.pairwise_cons.mp hs).2 q hq)

/-- **Exactly one.**  With sorted cut points inside `[a, n]`, every `i ∈ [a, n)` lies in exactly one interval. -/
theorem cutIntervals_exactly_one (a : Nat) (points : List Nat) (n : Nat)
    (hs : (a :: points).Pairwise (· ≤ ·)) (i : Nat) (hai : a ≤ i) (hin : i < n) :
    ((cutIntervals a points n).filter fun q => decide (q.1 ≤ i) && decide (i < q.2)).length = 1 := by
  induction points generalizing a with
  | nil => simp [cutIntervals, hai, hin]
  | cons p ps ih =>
    have hps := (List.pairwise_cons.mp hs).2
    simp only [cutIntervals, List.filter_cons]
    by_cases hip : i < p
    · have hnone : (cutIntervals p ps n).filter (fun q => decide (q.1 ≤ i) && decide (i < q.2)) = [] := by
        rw [List.filter_eq_nil_iff]
        intro q hq
        have := cutIntervals_lo_ge p ps n hps q hq
        simp only [Bool.and_eq_true, decide_eq_true_eq, not_and]
        intro h1; omega
      simp [hai, hip, hnone]
    · have hpi : p ≤ i := by omega
      have := ih p hps hpi
      simp [hip, this]

theorem mem_pointsOfBlocks (labels ids : List Nat) (i : Nat) :
    i ∈ pointsOfBlocks labels ids ↔ i < labels.length ∧ labels.getD i 0 ∈ ids := by
  simp [pointsOfBlocks]

theorem mem_complement (n : Nat) (test : List Nat) (i : Nat) : i ∈ complement n test ↔ i < n ∧ i ∉ test := by
  simp [complement]

theorem cumsum_length (xs : List Nat) : (cumsum xs).length = xs.length := by
  induction xs with
  | nil => simp [cumsum]
  | cons x xs ih => simp [cumsum, ih]

theorem countLe_mono (cs : List Nat) (u v : Nat) (h : u ≤ v) : countLe cs u ≤ countLe cs v := by
  unfold countLe
  induction cs with
  | nil => simp
  | cons c cs ih =>
    simp only [List.filter_cons]
    by_cases hu : c ≤ u
    · have hv : c ≤ v := le_trans hu h
      simp [hu, hv]; exact ih
    · by_cases hv : c ≤ v
      · simp [hu, hv]; omega
      · simp [hu, hv]; exact ih

theorem countLe_le_length (cs : List Nat) (v : Nat) : countLe cs v ≤ cs.length := by
  unfold countLe; exact List.length_filter_le _ _

end Verde
