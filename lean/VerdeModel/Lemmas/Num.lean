/- Helper lemmas about the numeric model (rounding, linspace). -/
import VerdeModel.Model.Coords
import Mathlib.Tactic.Linarith
import Mathlib.Tactic.Ring
import Mathlib.Tactic.FieldSimp
import Mathlib.Tactic.Positivity
import Mathlib.Algebra.Order.Floor.Ring
import Mathlib.Data.Rat.Floor
import Mathlib.Algebra.Order.Field.Basic

namespace Verde

theorem except_bind_ok {ε α β : Type} (x : Except ε α) (f : α → Except ε β) (v : β)
    (h : (x >>= f) = .ok v) : ∃ a, x = .ok a ∧ f a = .ok v := by
  cases x with
  | error e => simp [bind, Except.bind] at h
  | ok a => exact ⟨a, rfl, by simpa [bind, Except.bind] using h⟩

theorem floor_le' (q : Rat) : ((q.floor : Int) : Rat) ≤ q := Rat.floor_le q
theorem lt_floor_add_one' (q : Rat) : q < ((q.floor : Int) : Rat) + 1 := by
  have := Rat.lt_floor_add_one q; push_cast at this; exact this

theorem roundHalfEven_near (q : Rat) : |(roundHalfEven q : Rat) - q| ≤ 1/2 := by
  unfold roundHalfEven
  have h1 := floor_le' q
  have h2 := lt_floor_add_one' q
  simp only []
  split_ifs <;> (rw [abs_le]; constructor <;> push_cast <;> linarith)

/-- On an exact tie the result is even (Python's banker's rounding). -/
theorem roundHalfEven_tie_even (q : Rat) (h : q - (q.floor : Rat) = 1/2) :
    roundHalfEven q % 2 = 0 := by
  unfold roundHalfEven
  simp only [h, lt_irrefl, gt_iff_lt, if_false]
  split_ifs with he
  · exact he
  · omega

theorem roundHalfEven_int (n : Int) : roundHalfEven (n : Rat) = n := by
  unfold roundHalfEven
  have : ((n : Rat)).floor = n := Rat.floor_intCast n
  simp [this]

theorem roundHalfEven_nonneg {q : Rat} (h : 0 ≤ q) : 0 ≤ roundHalfEven q := by
  have hf : 0 ≤ q.floor := by
    have : ((0 : Int) : Rat) ≤ q := by simpa using h
    exact Rat.le_floor_iff.mpr this
  unfold roundHalfEven
  simp only []
  split_ifs <;> omega

theorem linspace_length (a b : Rat) (n : Nat) : (linspace a b n).length = n := by
  unfold linspace
  split_ifs with h
  · simp [h]
  · simp

theorem linspace_getElem (a b : Rat) (n : Nat) (hn : n ≠ 1) (i : Nat) (hi : i < (linspace a b n).length) :
    (linspace a b n)[i] = a + (i : Rat) * ((b - a) / ((n : Rat) - 1)) := by
  unfold linspace at hi ⊢
  simp only [hn, if_false] at hi ⊢
  simp

theorem linspace_one (a b : Rat) : linspace a b 1 = [a] := by simp [linspace]

end Verde
