/-
  Weighted, damped least squares over any linearly ordered field: normal equations ⇒ global minimiser, uniqueness,
  weight scaling, zero weight = deletion.  Fin-indexed (Finset sums); `Lemmas/LinAlgBridge.lean` ties the list model to it.
-/
import Mathlib.Algebra.BigOperators.Ring.Finset
import Mathlib.Algebra.BigOperators.Fin
import Mathlib.Algebra.Order.BigOperators.Ring.Finset
import Mathlib.Algebra.Order.Field.Basic
import Mathlib.Tactic.Ring
import Mathlib.Tactic.Linarith
import Mathlib.Tactic.Positivity
import Mathlib.Tactic.LinearCombination
import Mathlib.Tactic.FieldSimp

namespace Verde.LS
open Finset

variable {K : Type} [Field K] [LinearOrder K] [IsStrictOrderedRing K] {m n : ℕ}

/-- The documented objective: weight × squared residual plus damping × squared parameter norm in the column scaling `s`. -/
def obj (J : Fin m → Fin n → K) (w d : Fin m → K) (α : K) (s q : Fin n → K) : K :=
  (∑ i, w i * (d i - ∑ k, J i k * q k) ^ 2) + α * ∑ j, s j * q j ^ 2

/-- Weighted, damped normal equations `JᵀW(Jp − d) + α·diag(s)·p = 0`. -/
def normalEq (J : Fin m → Fin n → K) (w d : Fin m → K) (α : K) (s p : Fin n → K) : Prop :=
  ∀ j, (∑ i, w i * J i j * ((∑ k, J i k * p k) - d i)) + α * s j * p j = 0

/-- **Optimality.**  A solution of the normal equations minimises the objective over *all* parameter vectors. -/
theorem ls_optimal (J : Fin m → Fin n → K) (w d : Fin m → K) (α : K) (s p : Fin n → K)
    (hw : ∀ i, 0 ≤ w i) (hα : 0 ≤ α) (hs : ∀ j, 0 ≤ s j)
    (hp : normalEq J w d α s p) (q : Fin n → K) : obj J w d α s p ≤ obj J w d α s q := by
  set a : Fin m → K := fun i => (∑ k, J i k * p k) - d i with ha
  set b : Fin m → K := fun i => ∑ k, J i k * (q k - p k) with hb
  have hb' : ∀ i, (∑ k, J i k * q k) = (∑ k, J i k * p k) + b i := by
    intro i; simp only [hb, ← Finset.sum_add_distrib]; congr 1; ext k; ring
  have cross : (∑ i, w i * a i * b i) + α * ∑ j, s j * p j * (q j - p j) = 0 := by
    have : ∑ j, (q j - p j) * ((∑ i, w i * J i j * a i) + α * s j * p j) = 0 := by
      apply Finset.sum_eq_zero; intro j _; rw [hp j]; ring
    rw [← this]
    simp only [mul_add, Finset.sum_add_distrib, Finset.mul_sum, hb]
    congr 1
    · rw [Finset.sum_comm]; congr 1; ext j; congr 1; ext i; ring
    · congr 1; ext j; ring
  have key : obj J w d α s q - obj J w d α s p
      = (∑ i, w i * b i ^ 2) + α * ∑ j, s j * (q j - p j) ^ 2 := by
    have h1 : (∑ i, w i * (d i - ∑ k, J i k * q k) ^ 2) - (∑ i, w i * (d i - ∑ k, J i k * p k) ^ 2)
        = (∑ i, w i * b i ^ 2) + 2 * ∑ i, w i * a i * b i := by
      rw [← Finset.sum_sub_distrib, Finset.mul_sum, ← Finset.sum_add_distrib]
      congr 1; ext i; rw [hb' i]; simp only [ha]; ring
    have h2 : (∑ j, s j * q j ^ 2) - (∑ j, s j * p j ^ 2)
        = (∑ j, s j * (q j - p j) ^ 2) + 2 * ∑ j, s j * p j * (q j - p j) := by
      rw [← Finset.sum_sub_distrib, Finset.mul_sum, ← Finset.sum_add_distrib]
      congr 1; ext j; ring
    unfold obj
    linear_combination h1 + α * h2 + 2 * cross
  have nonneg : 0 ≤ (∑ i, w i * b i ^ 2) + α * ∑ j, s j * (q j - p j) ^ 2 := by
    apply add_nonneg
    · exact Finset.sum_nonneg fun i _ => mul_nonneg (hw i) (sq_nonneg _)
    · exact mul_nonneg hα (Finset.sum_nonneg fun j _ => mul_nonneg (hs j) (sq_nonneg _))
  linarith

/-- The homogeneous system of the normal matrix has only the trivial solution. -/
def Injective' (J : Fin m → Fin n → K) (w : Fin m → K) (α : K) (s : Fin n → K) : Prop :=
  ∀ v : Fin n → K, (∀ j, (∑ i, w i * J i j * (∑ k, J i k * v k)) + α * s j * v j = 0) → v = 0

/-- **Uniqueness.**  With an injective normal matrix the solution of the normal equations (hence the fit, and its
    predictions) is unique: an independently assembled and solved problem gives the same parameters. -/
theorem ls_unique (J : Fin m → Fin n → K) (w d : Fin m → K) (α : K) (s p q : Fin n → K)
    (hinj : Injective' J w α s) (hp : normalEq J w d α s p) (hq : normalEq J w d α s q) : p = q := by
  have hv : (fun k => p k - q k) = 0 := by
    apply hinj
    intro j
    have e : (∑ i, w i * J i j * (∑ k, J i k * (p k - q k))) + α * s j * (p j - q j)
        = ((∑ i, w i * J i j * ((∑ k, J i k * p k) - d i)) + α * s j * p j)
          - ((∑ i, w i * J i j * ((∑ k, J i k * q k) - d i)) + α * s j * q j) := by
      have : ∀ i, (∑ k, J i k * (p k - q k)) = (∑ k, J i k * p k) - (∑ k, J i k * q k) := by
        intro i; rw [← Finset.sum_sub_distrib]; congr 1; ext k; ring
      simp only [this]
      have h2 : (∑ i, w i * J i j * ((∑ k, J i k * p k) - ∑ k, J i k * q k))
          = (∑ i, w i * J i j * ((∑ k, J i k * p k) - d i)) - (∑ i, w i * J i j * ((∑ k, J i k * q k) - d i)) := by
        rw [← Finset.sum_sub_distrib]; congr 1; ext i; ring
      rw [h2]; ring
    rw [e, hp j, hq j]; ring
  funext k
  have := congrFun hv k
  simp only [Pi.zero_apply] at this
  linarith

/-- **Linearity in the data** (used by C04): solutions of the normal equations add and scale with the data. -/
theorem normalEq_linear (J : Fin m → Fin n → K) (w d₁ d₂ : Fin m → K) (α a b : K) (s p₁ p₂ : Fin n → K)
    (h₁ : normalEq J w d₁ α s p₁) (h₂ : normalEq J w d₂ α s p₂) :
    normalEq J w (fun i => a * d₁ i + b * d₂ i) α s (fun k => a * p₁ k + b * p₂ k) := by
  intro j
  have e : (∑ i, w i * J i j * ((∑ k, J i k * (a * p₁ k + b * p₂ k)) - (a * d₁ i + b * d₂ i)))
      = a * (∑ i, w i * J i j * ((∑ k, J i k * p₁ k) - d₁ i)) + b * (∑ i, w i * J i j * ((∑ k, J i k * p₂ k) - d₂ i)) := by
    rw [Finset.mul_sum, Finset.mul_sum, ← Finset.sum_add_distrib]
    congr 1; ext i
    have : (∑ k, J i k * (a * p₁ k + b * p₂ k)) = a * (∑ k, J i k * p₁ k) + b * (∑ k, J i k * p₂ k) := by
      rw [Finset.mul_sum, Finset.mul_sum, ← Finset.sum_add_distrib]; congr 1; ext k; ring
    rw [this]; ring
  rw [e]
  linear_combination a * h₁ j + b * h₂ j

/-- **Weight scaling.**  Multiplying all weights by a non-zero constant does not change the solutions of an undamped fit. -/
theorem weights_scale_invariant (J : Fin m → Fin n → K) (w d : Fin m → K) (c : K) (hc : c ≠ 0) (s p : Fin n → K) :
    normalEq J (fun i => c * w i) d 0 s p ↔ normalEq J w d 0 s p := by
  unfold normalEq
  constructor
  · intro h j
    have := h j
    have e : (∑ i, c * w i * J i j * ((∑ k, J i k * p k) - d i)) = c * ∑ i, w i * J i j * ((∑ k, J i k * p k) - d i) := by
      rw [Finset.mul_sum]; congr 1; ext i; ring
    rw [e] at this
    simp only [zero_mul, add_zero] at this ⊢
    exact (mul_eq_zero.mp this).resolve_left hc
  · intro h j
    have := h j
    have e : (∑ i, c * w i * J i j * ((∑ k, J i k * p k) - d i)) = c * ∑ i, w i * J i j * ((∑ k, J i k * p k) - d i) := by
      rw [Finset.mul_sum]; congr 1; ext i; ring
    rw [e]
    simp only [zero_mul, add_zero] at this ⊢
    rw [this, mul_zero]

/-- **A zero-weight datum is a deleted datum.**  If `w i₀ = 0`, the normal equations coincide with those of the data set
    with row `i₀` removed (same column scaling `s`). -/
theorem zero_weight_is_deletion (J : Fin (m + 1) → Fin n → K) (w d : Fin (m + 1) → K) (α : K) (s p : Fin n → K)
    (i₀ : Fin (m + 1)) (h0 : w i₀ = 0) :
    normalEq J w d α s p ↔
      normalEq (fun i => J (i₀.succAbove i)) (fun i => w (i₀.succAbove i)) (fun i => d (i₀.succAbove i)) α s p := by
  unfold normalEq
  have e : ∀ j, (∑ i, w i * J i j * ((∑ k, J i k * p k) - d i)) =
      ∑ i : Fin m, w (i₀.succAbove i) * J (i₀.succAbove i) j * ((∑ k, J (i₀.succAbove i) k * p k) - d (i₀.succAbove i)) := by
    intro j
    rw [Fin.sum_univ_succAbove _ i₀, h0]
    simp
  constructor
  · intro h j; rw [← e j]; exact h j
  · intro h j; rw [e j]; exact h j

/-- **Exactness.**  If the Jacobian is square with a left inverse and all weights are positive, an undamped solution of the
    normal equations reproduces the data exactly: `J p = d` (weights are irrelevant). -/
theorem exact_of_left_inverse (J : Fin n → Fin n → K) (L : Fin n → Fin n → K) (w d : Fin n → K) (s p : Fin n → K)
    (hw : ∀ i, 0 < w i) (hL : ∀ j i, (∑ k, J i k * L k j) = if i = j then 1 else 0)
    (hp : normalEq J w d 0 s p) : ∀ i, (∑ k, J i k * p k) = d i := by
  -- residual r; Jᵀ W r = 0; multiply by Lᵀ: (J L)ᵀ W r = W r = 0
  set r : Fin n → K := fun i => (∑ k, J i k * p k) - d i with hr
  have hJr : ∀ j, ∑ i, w i * J i j * r i = 0 := by
    intro j; have := hp j; simpa using this
  have hWr : ∀ i₁, w i₁ * r i₁ = 0 := by
    intro i₁
    have h1 : ∑ j, L j i₁ * (∑ i, w i * J i j * r i) = 0 := by
      apply Finset.sum_eq_zero; intro j _; rw [hJr j]; ring
    have h2 : ∑ j, L j i₁ * (∑ i, w i * J i j * r i) = ∑ i, w i * r i * (∑ j, J i j * L j i₁) := by
      simp only [Finset.mul_sum]
      rw [Finset.sum_comm]
      congr 1; ext i; congr 1; ext j; ring
    rw [h2] at h1
    simp only [hL] at h1
    simpa using h1
  intro i
  have := hWr i
  have hr0 : r i = 0 := (mul_eq_zero.mp this).resolve_left (ne_of_gt (hw i))
  simp only [hr] at hr0
  linarith

end Verde.LS
