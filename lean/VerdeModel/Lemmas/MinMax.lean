/- listMin / listMax are the least / greatest element. -/
import VerdeModel.Lemmas.Num
namespace Verde

theorem ratMin_le_left (a b : Rat) : ratMin a b ≤ a := by unfold ratMin; split_ifs <;> linarith
theorem ratMin_le_right (a b : Rat) : ratMin a b ≤ b := by unfold ratMin; split_ifs <;> linarith
theorem ratMin_eq (a b : Rat) : ratMin a b = a ∨ ratMin a b = b := by unfold ratMin; split_ifs <;> simp
theorem le_ratMax_left (a b : Rat) : a ≤ ratMax a b := by unfold ratMax; split_ifs <;> linarith
theorem le_ratMax_right (a b : Rat) : b ≤ ratMax a b := by unfold ratMax; split_ifs <;> linarith
theorem ratMax_eq (a b : Rat) : ratMax a b = a ∨ ratMax a b = b := by unfold ratMax; split_ifs <;> simp
theorem ratAbs_eq_abs (q : Rat) : ratAbs q = |q| := by
  unfold ratAbs; split_ifs with h
  · rw [abs_of_neg h]
  · rw [abs_of_nonneg (not_lt.mp h)]

theorem foldl_ratMin_le (xs : List Rat) (a : Rat) :
    xs.foldl ratMin a ≤ a ∧ ∀ x ∈ xs, xs.foldl ratMin a ≤ x := by
  induction xs generalizing a with
  | nil => simp
  | cons y ys ih =>
    simp only [List.foldl_cons, List.mem_cons]
    obtain ⟨h1, h2⟩ := ih (ratMin a y)
    refine ⟨le_trans h1 (ratMin_le_left a y), ?_⟩
    intro x hx
    rcases hx with rfl | hx
    · exact le_trans h1 (ratMin_le_right a x)
    · exact h2 x hx

theorem foldl_ratMin_mem (xs : List Rat) (a : Rat) : xs.foldl ratMin a = a ∨ xs.foldl ratMin a ∈ xs := by
  induction xs generalizing a with
  | nil => simp
  | cons y ys ih =>
    simp only [List.foldl_cons, List.mem_cons]
    rcases ih (ratMin a y) with h | h
    · rcases ratMin_eq a y with e | e
      · left; rw [h, e]
      · right; left; rw [h, e]
    · right; right; exact h

theorem foldl_ratMax_ge (xs : List Rat) (a : Rat) :
    a ≤ xs.foldl ratMax a ∧ ∀ x ∈ xs, x ≤ xs.foldl ratMax a := by
  induction xs generalizing a with
  | nil => simp
  | cons y ys ih =>
    simp only [List.foldl_cons, List.mem_cons]
    obtain ⟨h1, h2⟩ := ih (ratMax a y)
    refine ⟨le_trans (le_ratMax_left a y) h1, ?_⟩
    intro x hx
    rcases hx with rfl | hx
    · exact le_trans (le_ratMax_right a x) h1
    · exact h2 x hx

theorem foldl_ratMax_mem (xs : List Rat) (a : Rat) : xs.foldl ratMax a = a ∨ xs.foldl ratMax a ∈ xs := by
  induction xs generalizing a with
  | nil => simp
  | cons y ys ih =>
    simp only [List.foldl_cons, List.mem_cons]
    rcases ih (ratMax a y) with h | h
    · rcases ratMax_eq a y with e | e
      · left; rw [h, e]
      · right; left; rw [h, e]
    · right; right; exact h

theorem listMin_le {xs : List Rat} {m : Rat} (h : listMin xs = some m) : ∀ x ∈ xs, m ≤ x := by
  cases xs with
  | nil => simp [listMin] at h
  | cons y ys =>
    simp only [listMin, Option.some.injEq] at h
    subst h
    intro x hx
    rcases List.mem_cons.mp hx with rfl | hx
    · exact (foldl_ratMin_le ys x).1
    · exact (foldl_ratMin_le ys y).2 x hx

theorem listMin_mem {xs : List Rat} {m : Rat} (h : listMin xs = some m) : m ∈ xs := by
  cases xs with
  | nil => simp [listMin] at h
  | cons y ys =>
    simp only [listMin, Option.some.injEq] at h
    subst h
    rcases foldl_ratMin_mem ys y with e | e
    · rw [e]; exact List.mem_cons_self
    · exact List.mem_cons_of_mem _ e

theorem listMax_ge {xs : List Rat} {m : Rat} (h : listMax xs = some m) : ∀ x ∈ xs, x ≤ m := by
  cases xs with
  | nil => simp [listMax] at h
  | cons y ys =>
    simp only [listMax, Option.some.injEq] at h
    subst h
    intro x hx
    rcases List.mem_cons.mp hx with rfl | hx
    · exact (foldl_ratMax_ge ys x).1
    · exact (foldl_ratMax_ge ys y).2 x hx

theorem listMax_mem {xs : List Rat} {m : Rat} (h : listMax xs = some m) : m ∈ xs := by
  cases xs with
  | nil => simp [listMax] at h
  | cons y ys =>
    simp only [listMax, Option.some.injEq] at h
    subst h
    rcases foldl_ratMax_mem ys y with e | e
    · rw [e]; exact List.mem_cons_self
    · exact List.mem_cons_of_mem _ e

theorem listMin_isSome {xs : List Rat} (h : xs ≠ []) : ∃ m, listMin xs = some m := by
  cases xs with
  | nil => exact absurd rfl h
  | cons y ys => exact ⟨_, rfl⟩

theorem listMax_isSome {xs : List Rat} (h : xs ≠ []) : ∃ m, listMax xs = some m := by
  cases xs with
  | nil => exact absurd rfl h
  | cons y ys => exact ⟨_, rfl⟩

end Verde
