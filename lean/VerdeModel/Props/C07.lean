import VerdeModel.Model.Coords
namespace Verde.C07
theorem placeholder : (1 : Nat) = 1 := rfl
end Verde.C07
